#!/bin/bash
# Runs every registered quick check on the current tree, in sequence; prints one line per check.
cd "$(dirname "$0")/.."
for p in $(python3 -c "import json;print(' '.join(c['property_id'] for c in json.load(open('MANIFEST.json'))['checks']))"); do
  out=$(./check $p --tier ${1:-quick} 2>&1 | grep -E '^(OK|VIOLATION|KNOWN)' | head -3 | tr '\n' ' ')
  echo "$p: $out"
done
