#!/bin/bash
# usage: tools/adopt_seeded.sh <worktree> <name>      e.g. tools/adopt_seeded.sh /tmp/sa-C20 sa-C20
# Confirms a sub-agent's seeded change (suite passes with it, demo fails with it and passes without) and
# stores it under /verif/seeded/<name>/ . The worktree is left with the patch reverted.
wt=$1; name=$2
export GOFLAGS=-mod=mod GOPROXY=off GOSUMDB=off GOTOOLCHAIN=local
cd $wt || exit 2
demo=$(ls zz_seeded_*_test.go internal/*/zz_seeded_*_test.go 2>/dev/null | head -1)
[ -f seeded.patch ] && [ -n "$demo" ] || { echo "missing seeded.patch or demo"; exit 2; }
demo_cmd=$(python3 -c "import json;print(json.load(open('seeded.json')).get('demo_cmd',''))")
mkdir -p /tmp/adopt.$$ && cp $demo /tmp/adopt.$$/
git checkout -q -- . ; git clean -q -fd -e seeded.patch -e seeded.json -e "zz_seeded_*" >/dev/null
git apply seeded.patch || { echo "patch does not apply to a clean tree"; exit 2; }
mv $demo /tmp/adopt.$$/demo.go.aside
suite=ok
for i in 1 2; do go build ./... && go test -vet=off -count=1 ./... > /tmp/adopt.$$/suite.log 2>&1 || { grep -q "TestClientResetStream" /tmp/adopt.$$/suite.log && continue; suite=FAIL; }; done
mv /tmp/adopt.$$/demo.go.aside $demo
pkg=./$(dirname $demo)
run=$(basename $demo | sed 's/zz_seeded_\(.*\)_test.go/\1/')
with=$(go test -vet=off -count=1 -run "Seeded" $pkg 2>&1 | tail -1)
git apply -R seeded.patch
without=$(go test -vet=off -count=1 -run "Seeded" $pkg 2>&1 | tail -1)
echo "suite-with-patch=$suite | demo-with-patch: $with | demo-without: $without"
mkdir -p /verif/seeded/$name && cp seeded.patch /verif/seeded/$name/patch.diff && cp $demo /verif/seeded/$name/ && cp seeded.json /verif/seeded/$name/origin.json
rm -rf /tmp/adopt.$$
