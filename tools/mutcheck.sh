#!/bin/bash
# usage: tools/mutcheck.sh <seeded-name> <Cxx> [<Cyy> ...]
# Self-validation only: copies /repo to a scratch directory, applies /verif/seeded/<name>/patch.diff there
# and runs the given checks against the copy (VERIF_REPO). /repo itself is never touched; the evidence
# files and the generated facts are restored afterwards.
name=$1; shift
S=/var/tmp/goat-verif-mut
rm -rf $S && mkdir -p $S && cp -r /repo $S/repo && rm -rf $S/repo/.git/worktrees
( cd $S/repo && git apply /verif/seeded/$name/patch.diff ) || { echo "patch does not apply"; rm -rf $S; exit 2; }
cd /verif
rm -rf .work/evidence-backup && cp -r evidence .work/evidence-backup
cp lean/Goat/Generated/Facts.lean .work/Facts.backup
trap 'rm -rf /verif/evidence; mv /verif/.work/evidence-backup /verif/evidence; cp /verif/.work/Facts.backup /verif/lean/Goat/Generated/Facts.lean; rm -rf /var/tmp/goat-verif-mut /verif/harness/go.alt.mod /verif/harness/go.alt.sum' EXIT
for p in "$@"; do
  out=$(VERIF_REPO=$S/repo ./check $p 2>&1)
  n=$(echo "$out" | grep -c '^VIOLATION')
  first=$(echo "$out" | grep '^VIOLATION' | head -2 | tr '\n' ' ')
  echo "$name $p: violations=$n  $first"
done
