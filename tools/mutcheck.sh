#!/bin/bash
# usage: tools/mutcheck.sh <seeded-name> <Cxx> [<Cyy> ...]
# Self-validation only: copies /repo to a scratch directory, applies seeded/<name>/patch.diff there and runs
# the given checks against the copy (VERIF_REPO). /repo itself is never touched; the evidence files and the
# generated facts are restored afterwards.
V=$(cd "$(dirname "$0")/.." && pwd)
name=$1; shift
S=/var/tmp/goat-verif-mut-$$
rm -rf $S && mkdir -p $S && cp -r /repo $S/repo && rm -rf $S/repo/.git/worktrees
( cd $S/repo && git apply $V/seeded/$name/patch.diff ) || { echo "$name: patch does not apply"; rm -rf $S; exit 2; }
cd $V
rm -rf .work/evidence-backup && mkdir -p .work && cp -r evidence .work/evidence-backup
cp lean/Goat/Generated/Facts.lean .work/Facts.backup
trap "rm -rf $V/evidence; mv $V/.work/evidence-backup $V/evidence; cp $V/.work/Facts.backup $V/lean/Goat/Generated/Facts.lean; rm -rf $S $V/harness/go.alt.mod $V/harness/go.alt.sum" EXIT
for p in "$@"; do
  out=$(VERIF_REPO=$S/repo ./check $p 2>&1)
  n=$(echo "$out" | grep -c '^VIOLATION')
  c=$(echo "$out" | grep '^VIOLATION' | grep -vc 'no-failing-input-found')
  first=$(echo "$out" | grep '^VIOLATION' | head -1)
  echo "$name $p: violations=$n concrete=$c  $first"
done
