#!/bin/bash
# usage: tools/mutcheck.sh <seeded-name> <Cxx> [<Cyy> ...]
# Applies /verif/seeded/<name>/patch.diff to /repo, runs the given checks, restores /repo. Self-validation only.
name=$1; shift
cd /repo || exit 2
if ! git diff --quiet; then echo "/repo has uncommitted changes"; exit 2; fi
git apply /verif/seeded/$name/patch.diff || { echo "patch does not apply"; exit 2; }
cd /verif
rm -rf .work/evidence-backup && cp -r evidence .work/evidence-backup
trap 'git -C /repo checkout -- . ; rm -rf /verif/evidence; mv /verif/.work/evidence-backup /verif/evidence' EXIT
for p in "$@"; do
  out=$(./check $p 2>&1)
  n=$(echo "$out" | grep -c '^VIOLATION')
  first=$(echo "$out" | grep '^VIOLATION' | head -2 | tr '\n' ' ')
  echo "$name $p: violations=$n  $first"
done
