#!/bin/bash
# Runs every seeded change against the check(s) of the property it breaks; prints one line per pair.
V=$(cd "$(dirname "$0")/.." && pwd)
cd $V
for d in seeded/*/; do
  n=$(basename $d)
  props=$(python3 - "$d" <<'PY'
import json,sys,os,re
d=sys.argv[1]
p=None
for f in ('meta.json','origin.json'):
    if os.path.exists(d+f):
        p=json.load(open(d+f)).get('property'); break
claimed={c['property_id'] for c in json.load(open('MANIFEST.json'))['checks']}
ids=[x for x in re.findall(r'C\d\d', p or '') if x in claimed]
print(' '.join(ids))
PY
)
  [ -n "$props" ] && tools/mutcheck.sh $n $props
done
