module goatverif/extract

go 1.21
