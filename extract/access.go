package main

import (
	"fmt"
	"go/ast"
	"go/token"
	"sort"
	"strings"
)

// The C15 access table: every syntactic access to a tracked field, with the
// mutexes syntactically held at that point (Lock … Unlock / defer Unlock in
// source order; a function literal starts with nothing held; a function whose
// name ends in "Locked" is entered with its owner's mutex held, and its call
// sites are recorded so that the table can check that claim).

type trackedField struct {
	file    string
	pattern string // suffix of the selector expression
	name    string // canonical field name in the table
}

var trackedFields = []trackedField{
	{"internal/client/multiplexer.go", "rm.handlers", "mux.handlers"},
	{"internal/client/multiplexer.go", "rm.rErr", "mux.rErr"},
	{"internal/client/multiplexer.go", "rm.streamCounter", "mux.streamCounter"},
	{"internal/client/stream.go", "cs.protected.done", "cs.done"},
	{"internal/client/stream.go", "cs.protected.rErr", "cs.rErr"},
	{"internal/client/stream.go", "cs.protected.headerErr", "cs.headerErr"},
	{"internal/client/stream.go", "cs.protected.trailer", "cs.trailer"},
	{"internal/client/stream.go", "cs.header", "cs.header"},
	{"internal/server/stream.go", "ss.protected.headers", "ss.headers"},
	{"internal/server/stream.go", "ss.protected.headersSent", "ss.headersSent"},
	{"internal/server/stream.go", "ss.protected.trailers", "ss.trailers"},
	{"internal/server/stream.go", "ss.protected.trailersSent", "ss.trailersSent"},
	{"internal/server/transport_stream.go", "sts.headers", "uts.headers"},
	{"internal/server/transport_stream.go", "sts.headersSent", "uts.headersSent"},
	{"internal/server/transport_stream.go", "sts.trailers", "uts.trailers"},
	{"server.go", "h.streams", "srv.streams"},
	{"proxy.go", "p.clients", "proxy.clients"},
	{"proxy.go", "c.conn", "proxy.conn"},
	{"demux.go", "gsd.conns.value", "demux.conns"},
	{"http.go", "goh.conns.value", "http.conns"},
	{"http.go", "hrw.lastActivity", "http.lastActivity"},
	{"http.go", "conn.lastActivity", "http.lastActivity"},
}

// The struct census: every field (nested anonymous structs flattened, with the field's type) of the
// structs whose fields the table tracks. A field that is added, moved out of its mutex-guarded group or
// retyped changes the census, and with it the obligation that the disciplines cover the struct.
var censusStructs = []struct{ file, name string }{
	{"internal/client/multiplexer.go", "RpcMultiplexer"},
	{"internal/client/multiplexer.go", "muxHandler"},
	{"internal/client/stream.go", "clientStream"},
	{"internal/server/stream.go", "serverStream"},
	{"internal/server/transport_stream.go", "unaryServerTransportStream"},
	{"server.go", "handler"},
	{"server.go", "streamHandler"},
	{"proxy.go", "Proxy"},
	{"proxy.go", "proxyClient"},
	{"demux.go", "Demux"},
	{"demux.go", "demuxConn"},
	{"http.go", "GoatOverHttp"},
	{"http.go", "httpReadWriter"},
}

func flattenFields(prefix string, st *ast.StructType, out *[]string) {
	for _, f := range st.Fields.List {
		names := []string{}
		for _, n := range f.Names {
			names = append(names, n.Name)
		}
		if len(names) == 0 {
			names = []string{"<embedded>"}
		}
		for _, n := range names {
			if inner, ok := f.Type.(*ast.StructType); ok {
				flattenFields(prefix+n+".", inner, out)
			} else {
				*out = append(*out, prefix+n+":"+str(f.Type))
			}
		}
	}
}

func structCensus(repo string) string {
	var b strings.Builder
	b.WriteString("/-- (struct, flattened fields with types) of every struct whose fields the access table tracks -/\n")
	b.WriteString("def structFields : List (String × List String) := [\n")
	for i, cs := range censusStructs {
		s := load(repo, cs.file)
		fields := []string{"unknown:missing"}
		for _, d := range s.file.Decls {
			gd, ok := d.(*ast.GenDecl)
			if !ok {
				continue
			}
			for _, sp := range gd.Specs {
				ts, ok := sp.(*ast.TypeSpec)
				if !ok || ts.Name.Name != cs.name {
					continue
				}
				if st, ok := ts.Type.(*ast.StructType); ok {
					fields = nil
					flattenFields("", st, &fields)
				}
			}
		}
		sep := ","
		if i == len(censusStructs)-1 {
			sep = ""
		}
		fmt.Fprintf(&b, "  (%q, %s)%s\n", cs.name, leanStrings(fields), sep)
	}
	b.WriteString("]\n")
	return b.String()
}

type access struct {
	field, fn, rw string
	held          []string
}

func accessTable(repo string) string {
	var acc []access
	var lockedCalls []access
	byFile := map[string][]trackedField{}
	for _, tf := range trackedFields {
		byFile[tf.file] = append(byFile[tf.file], tf)
	}
	files := make([]string, 0, len(byFile))
	for f := range byFile {
		files = append(files, f)
	}
	sort.Strings(files)
	for _, rel := range files {
		s := load(repo, rel)
		tfs := byFile[rel]
		for _, d := range s.file.Decls {
			fd, ok := d.(*ast.FuncDecl)
			if !ok || fd.Body == nil {
				continue
			}
			fname := fd.Name.Name
			if fd.Recv != nil && len(fd.Recv.List) == 1 {
				fname = strings.TrimPrefix(str(fd.Recv.List[0].Type), "*") + "." + fname
			}
			w := &lockWalker{tfs: tfs, fn: fname}
			if strings.HasSuffix(fd.Name.Name, "Locked") {
				w.held = []string{"<owner>"}
			}
			w.stmts(fd.Body.List)
			acc = append(acc, w.acc...)
			lockedCalls = append(lockedCalls, w.lockedCalls...)
		}
	}
	var b strings.Builder
	b.WriteString("/-- (field, function, r|w, mutexes held) for every syntactic access to a tracked field -/\n")
	b.WriteString("def accesses : List (String × String × String × List String) := [\n")
	for i, a := range acc {
		sep := ","
		if i == len(acc)-1 {
			sep = ""
		}
		fmt.Fprintf(&b, "  (%q, %q, %q, %s)%s\n", a.field, a.fn, a.rw, leanStrings(a.held), sep)
	}
	b.WriteString("]\n\n/-- call sites of functions named …Locked, with the mutexes held there -/\n")
	b.WriteString("def lockedCalls : List (String × String × List String) := [\n")
	for i, a := range lockedCalls {
		sep := ","
		if i == len(lockedCalls)-1 {
			sep = ""
		}
		fmt.Fprintf(&b, "  (%q, %q, %s)%s\n", a.field, a.fn, leanStrings(a.held), sep)
	}
	b.WriteString("]\n")
	return b.String()
}

type lockWalker struct {
	tfs         []trackedField
	fn          string
	held        []string
	sticky      map[string]bool // released only at function end (defer Unlock)
	acc         []access
	lockedCalls []access
}

func (w *lockWalker) clone(fn string) *lockWalker {
	return &lockWalker{tfs: w.tfs, fn: fn}
}

func (w *lockWalker) heldCopy() []string {
	h := append([]string(nil), w.held...)
	sort.Strings(h)
	return h
}

func (w *lockWalker) add(m string) {
	for _, x := range w.held {
		if x == m {
			return
		}
	}
	w.held = append(w.held, m)
}

func (w *lockWalker) remove(m string) {
	if w.sticky[m] {
		return
	}
	var out []string
	for _, x := range w.held {
		if x != m {
			out = append(out, x)
		}
	}
	w.held = out
}

func mutexOf(call string) (string, string, bool) {
	for _, op := range []string{"Lock", "Unlock"} {
		if strings.HasSuffix(call, "."+op) {
			return strings.TrimSuffix(call, "."+op), op, true
		}
	}
	return "", "", false
}

func (w *lockWalker) record(e ast.Expr, rw string) {
	s := str(e)
	for _, tf := range w.tfs {
		if s == tf.pattern {
			w.acc = append(w.acc, access{tf.name, w.fn, rw, w.heldCopy()})
		}
	}
}

// expr records reads in e; function literals are walked with nothing held.
func (w *lockWalker) expr(e ast.Node) {
	if e == nil {
		return
	}
	ast.Inspect(e, func(x ast.Node) bool {
		switch v := x.(type) {
		case *ast.FuncLit:
			c := w.clone(w.fn + ".func")
			c.stmts(v.Body.List)
			w.acc = append(w.acc, c.acc...)
			w.lockedCalls = append(w.lockedCalls, c.lockedCalls...)
			return false
		case *ast.SelectorExpr:
			w.record(v, "r")
			// keep descending: a.b.c contains a.b
		case *ast.CallExpr:
			f := str(v.Fun)
			if f == "delete" && len(v.Args) >= 1 {
				w.record(v.Args[0], "w")
			}
			if strings.HasSuffix(f, "Locked") {
				w.lockedCalls = append(w.lockedCalls, access{f, w.fn, "", w.heldCopy()})
			}
			if strings.Contains(f, "lastActivity.") {
				// atomic value: accessed through its methods only
				return true
			}
		}
		return true
	})
}

func (w *lockWalker) stmts(l []ast.Stmt) {
	for _, st := range l {
		switch v := st.(type) {
		case *ast.ExprStmt:
			if c, ok := v.X.(*ast.CallExpr); ok {
				if m, op, ok2 := mutexOf(str(c.Fun)); ok2 {
					if op == "Lock" {
						w.add(m)
					} else {
						w.remove(m)
					}
					continue
				}
			}
			w.expr(v.X)
		case *ast.DeferStmt:
			if m, op, ok := mutexOf(str(v.Call.Fun)); ok && op == "Unlock" {
				if w.sticky == nil {
					w.sticky = map[string]bool{}
				}
				w.sticky[m] = true
				continue
			}
			// a deferred closure runs at return: with whatever is sticky-held
			if fl, ok := v.Call.Fun.(*ast.FuncLit); ok {
				c := w.clone(w.fn + ".defer")
				for m := range w.sticky {
					c.add(m)
				}
				c.stmts(fl.Body.List)
				w.acc = append(w.acc, c.acc...)
				w.lockedCalls = append(w.lockedCalls, c.lockedCalls...)
				continue
			}
			w.expr(v.Call)
		case *ast.GoStmt:
			if fl, ok := v.Call.Fun.(*ast.FuncLit); ok {
				c := w.clone(w.fn + ".go")
				c.stmts(fl.Body.List)
				w.acc = append(w.acc, c.acc...)
				w.lockedCalls = append(w.lockedCalls, c.lockedCalls...)
				for _, a := range v.Call.Args {
					w.expr(a)
				}
				continue
			}
			w.expr(v.Call)
		case *ast.AssignStmt:
			for _, r := range v.Rhs {
				w.expr(r)
			}
			for _, lhs := range v.Lhs {
				switch x := lhs.(type) {
				case *ast.IndexExpr:
					w.record(x.X, "w")
					w.expr(x.Index)
				default:
					matched := false
					for _, tf := range w.tfs {
						if str(lhs) == tf.pattern {
							matched = true
						}
					}
					if matched {
						w.record(lhs, "w")
						if v.Tok != token.ASSIGN && v.Tok != token.DEFINE {
							w.record(lhs, "r")
						}
					} else {
						w.expr(lhs)
					}
				}
			}
		case *ast.IncDecStmt:
			w.record(v.X, "w")
		case *ast.SendStmt:
			w.expr(v.Chan)
			w.expr(v.Value)
		case *ast.ReturnStmt:
			for _, r := range v.Results {
				w.expr(r)
			}
		case *ast.IfStmt:
			if v.Init != nil {
				w.stmts([]ast.Stmt{v.Init})
			}
			w.expr(v.Cond)
			w.stmts(v.Body.List)
			if v.Else != nil {
				switch e := v.Else.(type) {
				case *ast.BlockStmt:
					w.stmts(e.List)
				default:
					w.stmts([]ast.Stmt{e})
				}
			}
		case *ast.ForStmt:
			if v.Init != nil {
				w.stmts([]ast.Stmt{v.Init})
			}
			w.expr(v.Cond)
			w.stmts(v.Body.List)
			if v.Post != nil {
				w.stmts([]ast.Stmt{v.Post})
			}
		case *ast.RangeStmt:
			w.expr(v.X)
			w.stmts(v.Body.List)
		case *ast.SelectStmt:
			for _, c := range v.Body.List {
				cc := c.(*ast.CommClause)
				if cc.Comm != nil {
					w.stmts([]ast.Stmt{cc.Comm})
				}
				w.stmts(cc.Body)
			}
		case *ast.SwitchStmt:
			if v.Init != nil {
				w.stmts([]ast.Stmt{v.Init})
			}
			w.expr(v.Tag)
			for _, c := range v.Body.List {
				cc := c.(*ast.CaseClause)
				for _, e := range cc.List {
					w.expr(e)
				}
				w.stmts(cc.Body)
			}
		case *ast.TypeSwitchStmt:
			for _, c := range v.Body.List {
				w.stmts(c.(*ast.CaseClause).Body)
			}
		case *ast.BlockStmt:
			w.stmts(v.List)
		case *ast.DeclStmt:
			w.expr(v)
		case *ast.LabeledStmt:
			w.stmts([]ast.Stmt{v.Stmt})
		}
	}
}
