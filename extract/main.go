// extract: strand A of the tie (DESIGN.md 2.3). Parses the current sources of
// /repo and writes Goat/Generated/Facts.lean: constants, the boolean Cfg flags
// that select model variants, the synchronisation skeleton of every function
// that takes part in a transition system, and the C15 access table.
//
// It fails closed: a tracked function that is missing, or a construct the
// flag detectors do not recognise, yields `false` / an "unknown" marker, which
// makes the `decide` obligations in Goat/Tie fail rather than pass.
package main

import (
	"bytes"
	"fmt"
	"go/ast"
	"go/parser"
	"go/printer"
	"go/token"
	"os"
	"path/filepath"
	"sort"
	"strconv"
	"strings"
)

var fset = token.NewFileSet()

type src struct {
	path string
	file *ast.File
}

func load(repo, rel string) *src {
	p := filepath.Join(repo, rel)
	f, err := parser.ParseFile(fset, p, nil, 0)
	if err != nil {
		fmt.Fprintf(os.Stderr, "extract: %v\n", err)
		return &src{path: p, file: &ast.File{Name: ast.NewIdent("missing")}}
	}
	return &src{path: p, file: f}
}

func str(n ast.Node) string {
	if n == nil {
		return ""
	}
	var b bytes.Buffer
	printer.Fprint(&b, fset, n)
	return strings.Join(strings.Fields(b.String()), " ")
}

// fn finds a function or method by name (recv "" = plain function or any receiver).
func (s *src) fn(recv, name string) *ast.FuncDecl {
	for _, d := range s.file.Decls {
		fd, ok := d.(*ast.FuncDecl)
		if !ok || fd.Name.Name != name {
			continue
		}
		if recv == "" {
			return fd
		}
		if fd.Recv != nil && len(fd.Recv.List) == 1 && strings.Contains(str(fd.Recv.List[0].Type), recv) {
			return fd
		}
	}
	return nil
}

func inspect(n ast.Node, f func(ast.Node) bool) {
	if n == nil || isNilFunc(n) {
		return
	}
	ast.Inspect(n, f)
}

func isNilFunc(n ast.Node) bool {
	fd, ok := n.(*ast.FuncDecl)
	return ok && fd == nil
}

func hasCall(n ast.Node, substr string) bool {
	found := false
	inspect(n, func(x ast.Node) bool {
		if c, ok := x.(*ast.CallExpr); ok && strings.Contains(str(c.Fun), substr) {
			found = true
		}
		return true
	})
	return found
}

func hasPanic(n ast.Node) bool {
	return hasCall(n, "Panic") || hasCall(n, "panic") || hasCall(n, "Fatal")
}

func hasReturn(n ast.Node) bool {
	found := false
	inspect(n, func(x ast.Node) bool {
		if _, ok := x.(*ast.FuncLit); ok {
			return false
		}
		if _, ok := x.(*ast.ReturnStmt); ok {
			found = true
		}
		return true
	})
	return found
}

// selectsContaining returns the select statements in n one of whose comm clauses matches pred.
func selectsContaining(n ast.Node, pred func(comm ast.Stmt) bool) []*ast.SelectStmt {
	var out []*ast.SelectStmt
	inspect(n, func(x ast.Node) bool {
		if s, ok := x.(*ast.SelectStmt); ok {
			for _, c := range s.Body.List {
				cc := c.(*ast.CommClause)
				if cc.Comm != nil && pred(cc.Comm) {
					out = append(out, s)
					break
				}
			}
		}
		return true
	})
	return out
}

func selectHasCase(s *ast.SelectStmt, substr string) bool {
	for _, c := range s.Body.List {
		cc := c.(*ast.CommClause)
		if cc.Comm != nil && strings.Contains(str(cc.Comm), substr) {
			return true
		}
	}
	return false
}

func selectHasDefault(s *ast.SelectStmt) bool {
	for _, c := range s.Body.List {
		if c.(*ast.CommClause).Comm == nil {
			return true
		}
	}
	return false
}

func caseBody(s *ast.SelectStmt, substr string) *ast.CommClause {
	for _, c := range s.Body.List {
		cc := c.(*ast.CommClause)
		if cc.Comm != nil && strings.Contains(str(cc.Comm), substr) {
			return cc
		}
	}
	return nil
}

func isSendOn(st ast.Stmt, chanSubstr string) bool {
	s, ok := st.(*ast.SendStmt)
	return ok && strings.Contains(str(s.Chan), chanSubstr)
}

// sendsOn lists every send statement on a channel whose expression contains chanSubstr.
func sendsOn(n ast.Node, chanSubstr string) []*ast.SendStmt {
	var out []*ast.SendStmt
	inspect(n, func(x ast.Node) bool {
		if s, ok := x.(*ast.SendStmt); ok && strings.Contains(str(s.Chan), chanSubstr) {
			out = append(out, s)
		}
		return true
	})
	return out
}

// enclosingSelect returns the select statement whose comm clause IS the given send.
func enclosingSelect(root ast.Node, send *ast.SendStmt) *ast.SelectStmt {
	var out *ast.SelectStmt
	inspect(root, func(x ast.Node) bool {
		if s, ok := x.(*ast.SelectStmt); ok {
			for _, c := range s.Body.List {
				if c.(*ast.CommClause).Comm == ast.Stmt(send) {
					out = s
				}
			}
		}
		return true
	})
	return out
}

// ifs lists the if statements of n (not descending into function literals unless deep).
func ifs(n ast.Node, deep bool) []*ast.IfStmt {
	var out []*ast.IfStmt
	inspect(n, func(x ast.Node) bool {
		if _, ok := x.(*ast.FuncLit); ok && !deep {
			return false
		}
		if s, ok := x.(*ast.IfStmt); ok {
			out = append(out, s)
		}
		return true
	})
	return out
}

// ---------------------------------------------------------------- flags

type flag struct {
	name string
	val  bool
	why  string
}

func flags(repo string) []flag {
	mux := load(repo, "internal/client/multiplexer.go")
	cs := load(repo, "internal/client/stream.go")
	cl := load(repo, "client.go")
	sv := load(repo, "server.go")
	px := load(repo, "proxy.go")
	dm := load(repo, "demux.go")
	ht := load(repo, "http.go")
	ch := load(repo, "chained.go")
	ss := load(repo, "internal/server/stream.go")
	var out []flag
	add := func(name string, val bool, why string) { out = append(out, flag{name, val, why}) }

	// mux.idAllocAtomic
	{
		ok := true
		uses, atomics := 0, 0
		inspect(mux.file, func(x ast.Node) bool {
			switch v := x.(type) {
			case *ast.SelectorExpr:
				if v.Sel.Name == "streamCounter" {
					uses++
				}
			case *ast.CallExpr:
				if str(v) == "atomic.AddUint64(&rm.streamCounter, 1)" {
					atomics++
				}
			case *ast.IncDecStmt:
				if strings.Contains(str(v.X), "streamCounter") {
					ok = false
				}
			}
			return true
		})
		// every registerHandler argument is a variable assigned from the atomic add in the same function
		for _, name := range []string{"CallUnaryMethod", "NewStreamReadWriter"} {
			fd := mux.fn("RpcMultiplexer", name)
			if fd == nil {
				ok = false
				continue
			}
			ids := map[string]bool{}
			inspect(fd, func(x ast.Node) bool {
				if as, ok2 := x.(*ast.AssignStmt); ok2 && len(as.Lhs) == 1 && len(as.Rhs) == 1 {
					if str(as.Rhs[0]) == "atomic.AddUint64(&rm.streamCounter, 1)" {
						ids[str(as.Lhs[0])] = true
					} else if ids[str(as.Lhs[0])] {
						ok = false // reassigned
					}
				}
				return true
			})
			found := false
			inspect(fd, func(x ast.Node) bool {
				if c, ok2 := x.(*ast.CallExpr); ok2 && strings.HasSuffix(str(c.Fun), "registerHandler") && len(c.Args) >= 1 {
					found = true
					if !ids[str(c.Args[0])] {
						ok = false
					}
				}
				return true
			})
			if !found {
				ok = false
			}
		}
		add("idAllocAtomic", ok && atomics >= 2 && uses == atomics, fmt.Sprintf("uses=%d atomics=%d", uses, atomics))
	}
	// mux.registerChecksErr
	{
		fd := mux.fn("RpcMultiplexer", "registerHandler")
		ok := fd != nil
		if ok {
			body := fd.Body.List
			lockAt, deferAt, checkAt, storeAt := -1, -1, -1, -1
			for i, st := range body {
				s := str(st)
				switch {
				case s == "rm.mutex.Lock()":
					lockAt = i
				case s == "defer rm.mutex.Unlock()":
					deferAt = i
				}
				if is, ok2 := st.(*ast.IfStmt); ok2 && str(is.Cond) == "rm.rErr != nil" && hasReturn(is.Body) && checkAt < 0 {
					checkAt = i
				}
				if as, ok2 := st.(*ast.AssignStmt); ok2 && len(as.Lhs) == 1 && strings.HasPrefix(str(as.Lhs[0]), "rm.handlers[") {
					storeAt = i
				}
			}
			ok = lockAt == 0 && deferAt == 1 && checkAt > deferAt && storeAt > checkAt
		}
		// both entry points register through it and give up on error
		for _, name := range []string{"CallUnaryMethod", "NewStreamReadWriter"} {
			fn := mux.fn("RpcMultiplexer", name)
			good := false
			if fn != nil {
				list := fn.Body.List
				for i, st := range list {
					if strings.Contains(str(st), "rm.registerHandler(") {
						// either `if err := rm.registerHandler(..); err != nil {return}` or assignment followed by if err != nil
						if is, ok2 := st.(*ast.IfStmt); ok2 && hasReturn(is.Body) {
							good = true
						} else if i+1 < len(list) {
							if is, ok2 := list[i+1].(*ast.IfStmt); ok2 && str(is.Cond) == "err != nil" && hasReturn(is.Body) {
								good = true
							}
						}
					}
				}
				// no handler stored anywhere else
			}
			ok = ok && good
		}
		stores := 0
		inspect(mux.file, func(x ast.Node) bool {
			if as, ok2 := x.(*ast.AssignStmt); ok2 && len(as.Lhs) == 1 && strings.HasPrefix(str(as.Lhs[0]), "rm.handlers[") {
				stores++
			}
			return true
		})
		add("registerChecksErr", ok && stores == 1, fmt.Sprintf("stores=%d", stores))
	}
	// mux.unaryDeferUnregister
	{
		fd := mux.fn("RpcMultiplexer", "CallUnaryMethod")
		ok := false
		if fd != nil {
			regAt, defAt, writeAt := -1, -1, -1
			for i, st := range fd.Body.List {
				s := str(st)
				if strings.Contains(s, "rm.registerHandler(") && regAt < 0 {
					regAt = i
				}
				if d, ok2 := st.(*ast.DeferStmt); ok2 && strings.HasPrefix(str(d.Call), "rm.unregisterHandler(streamId)") {
					defAt = i
				}
				if strings.Contains(s, "rm.rw.Write(") && writeAt < 0 {
					writeAt = i
				}
			}
			ok = regAt >= 0 && defAt > regAt && defAt <= regAt+2 && writeAt > defAt
		}
		add("unaryDeferUnregister", ok, "")
	}
	// mux.dispatchOutsideLock: in handleResponse no channel send happens between Lock and Unlock,
	// and the send is a select that also waits for the handler's done signal
	{
		fd := mux.fn("RpcMultiplexer", "handleResponse")
		ok := fd != nil
		if ok {
			deferred := false
			var lockPos, unlockPos token.Pos
			inspect(fd, func(x ast.Node) bool {
				switch v := x.(type) {
				case *ast.DeferStmt:
					if str(v.Call) == "rm.mutex.Unlock()" {
						deferred = true
					}
				case *ast.ExprStmt:
					if str(v) == "rm.mutex.Lock()" {
						lockPos = v.Pos()
					}
					if str(v) == "rm.mutex.Unlock()" {
						unlockPos = v.Pos()
					}
				}
				return true
			})
			sends := sendsOn(fd, "")
			ok = !deferred && lockPos.IsValid() && unlockPos.IsValid() && len(sends) == 1
			for _, s := range sends {
				if s.Pos() > lockPos && s.Pos() < unlockPos {
					ok = false
				}
				sel := enclosingSelect(fd, s)
				if sel == nil || !selectHasCase(sel, "<-h.done") {
					ok = false
				}
			}
		}
		add("dispatchOutsideLock", ok, "")
	}
	// mux.closedPrefersCtx: a stream read that finds its registration closed reports the reader's own
	// context error first
	{
		fd := mux.fn("RpcMultiplexer", "NewStreamReadWriter")
		ok := false
		inspect(fd, func(x ast.Node) bool {
			if is, ok2 := x.(*ast.IfStmt); ok2 && str(is.Cond) == "!ok" && len(is.Body.List) >= 2 {
				if first, ok3 := is.Body.List[0].(*ast.IfStmt); ok3 && strings.Contains(str(first.Init), "ctx.Err()") && hasReturn(first.Body) {
					ok = true
				}
			}
			return true
		})
		add("closedPrefersCtx", ok, "")
	}
	// mux.okStatusIsSuccess
	{
		fd := mux.fn("RpcMultiplexer", "CallUnaryMethod")
		ok := false
		for _, is := range ifs(fd, true) {
			c := str(is.Cond)
			if strings.Contains(c, "resp.Status != nil") {
				ok = strings.Contains(c, "&&") && strings.Contains(c, "codes.OK") && strings.Contains(c, "!=")
			}
		}
		add("okStatusIsSuccess", ok, "")
	}
	// mux.statsHeaderNilSafe: the stats path reads the reply's header through nil-safe getters only
	{
		fd := mux.fn("RpcMultiplexer", "CallUnaryMethod")
		// a field access through the possibly-nil result of GetHeader(), or through resp.Header, is not
		b := str(fd)
		ok := fd != nil && !strings.Contains(b, "GetHeader().Headers") && !strings.Contains(b, "resp.Header.") &&
			strings.Contains(b, "resp.GetHeader().GetHeaders()")
		add("statsHeaderNilSafe", ok, "")
	}
	// cs.recvRechecksDoneOnCtx
	{
		fd := cs.fn("clientStream", "RecvMsg")
		ok := false
		for _, s := range selectsContaining(fd, func(c ast.Stmt) bool { return strings.Contains(str(c), "<-cs.rCh") }) {
			if cc := caseBody(s, "cs.ctx.Done()"); cc != nil {
				// first statement of the branch re-reads the terminal state and returns it when done
				if len(cc.Body) >= 1 {
					if is, ok2 := cc.Body[0].(*ast.IfStmt); ok2 && strings.Contains(str(is.Init), "cs.readErrorIfDone()") && hasReturn(is.Body) {
						ok = true
					}
				}
			}
		}
		add("recvRechecksDoneOnCtx", ok, "")
	}
	// cs.resetIsError
	{
		fd := cs.fn("", "errorIfDone")
		ok := false
		if fd != nil && len(fd.Body.List) >= 2 {
			if is, ok2 := fd.Body.List[0].(*ast.IfStmt); ok2 && strings.Contains(str(is.Cond), "GetReset_() != nil") {
				b := str(is.Body)
				ok = strings.Contains(b, "return true, ") && !strings.Contains(b, "io.EOF") && !strings.Contains(b, "return true, nil")
			}
		}
		add("resetIsError", ok, "")
	}
	// cs.badMetaSetsErr
	{
		fd := cs.fn("clientStream", "readLoop")
		ok := false
		inspect(fd, func(x ast.Node) bool {
			if is, ok2 := x.(*ast.IfStmt); ok2 && str(is.Cond) == "cs.header == nil" {
				for i, st := range is.Body.List {
					if strings.Contains(str(st), "internal.ToMetadata(") && i+1 < len(is.Body.List) {
						if e, ok3 := is.Body.List[i+1].(*ast.IfStmt); ok3 && str(e.Cond) == "err != nil" {
							b := str(e.Body)
							ok = strings.Contains(b, "rErr = ") && strings.Contains(b, "onReady(rErr") && hasReturn(e.Body)
						}
					}
				}
			}
			return true
		})
		add("badMetaSetsErr", ok, "")
	}
	// cs.trailerNoPanic
	{
		fd := cs.fn("clientStream", "Trailer")
		add("trailerNoPanic", fd != nil && !hasPanic(fd), "")
	}
	// cs.recvNoPanicReachable is proved, not extracted. cs.closeSendNoopWhenDone
	{
		fd := cs.fn("clientStream", "CloseSend")
		ok := false
		if fd != nil && len(fd.Body.List) > 0 {
			if is, ok2 := fd.Body.List[0].(*ast.IfStmt); ok2 && strings.Contains(str(is.Init), "cs.readErrorIfDone()") {
				ok = strings.Contains(str(is.Body), "return nil")
			}
		}
		add("closeSendNoopWhenDone", ok, "")
	}
	// cs.finishOrder: close(rCh), teardown, then done = true, all under the stream mutex
	{
		fd := cs.fn("clientStream", "readLoop")
		ok := false
		inspect(fd, func(x ast.Node) bool {
			if d, ok2 := x.(*ast.DeferStmt); ok2 {
				if fl, ok3 := d.Call.Fun.(*ast.FuncLit); ok3 && strings.Contains(str(fl), "close(cs.rCh)") {
					var order []string
					for _, st := range fl.Body.List {
						s := str(st)
						switch {
						case s == "cs.protected.Lock()":
							order = append(order, "lock")
						case s == "defer cs.protected.Unlock()":
							order = append(order, "deferunlock")
						case s == "close(cs.rCh)":
							order = append(order, "close")
						case strings.HasPrefix(s, "sendRst :="):
							order = append(order, "rst:"+strings.TrimPrefix(s, "sendRst := "))
						case s == "cs.teardown(sendRst)":
							order = append(order, "teardown")
						case s == "cs.protected.done = true":
							order = append(order, "done")
						}
					}
					ok = strings.Join(order, ",") == "lock,deferunlock,close,rst:trailer == nil && cs.ctx.Err() != nil,teardown,done"
				}
			}
			return true
		})
		add("finishOrder", ok, "")
	}
	// cs.sendTeardownNoRst: the reset is written by the read loop's finishing block only; a failing
	// SendMsg tears the stream down without one (teardown(false)), and nobody else calls teardown
	{
		fd := cs.fn("clientStream", "SendMsg")
		ok := fd != nil
		n := 0
		inspect(cs.file, func(x ast.Node) bool {
			if c, ok2 := x.(*ast.CallExpr); ok2 && str(c.Fun) == "cs.teardown" {
				n++
				if len(c.Args) != 1 || (str(c.Args[0]) != "false" && str(c.Args[0]) != "sendRst") {
					ok = false
				}
			}
			return true
		})
		inspect(fd, func(x ast.Node) bool {
			if c, ok2 := x.(*ast.CallExpr); ok2 && str(c.Fun) == "cs.teardown" && (len(c.Args) != 1 || str(c.Args[0]) != "false") {
				ok = false
			}
			return true
		})
		add("sendTeardownNoRst", ok && n == 3, fmt.Sprintf("teardown calls=%d", n))
	}
	// cs.teardownCancelsFirst: the teardown closure of NewStream cancels the stream context BEFORE it
	// unregisters the call from the multiplexer
	{
		fd := cs.fn("", "NewStream")
		ok := false
		if fd != nil {
			inspect(fd, func(x ast.Node) bool {
				as, isAs := x.(*ast.AssignStmt)
				if !isAs || len(as.Lhs) != 1 || str(as.Lhs[0]) != "cs.teardown" {
					return true
				}
				if fl, isFl := as.Rhs[0].(*ast.FuncLit); isFl {
					iCancel, iTeardown := -1, -1
					for i, st := range fl.Body.List {
						switch str(st) {
						case "cancel()":
							iCancel = i
						case "teardown()":
							iTeardown = i
						}
					}
					ok = iCancel >= 0 && iTeardown >= 0 && iCancel < iTeardown
				}
				return true
			})
		}
		add("teardownCancelsFirst", ok, "")
	}
	// cc.openFailureTearsDown
	{
		fd := cl.fn("ClientConn", "newStream")
		ok := false
		if fd != nil {
			l := fd.Body.List
			for i, st := range l {
				if strings.Contains(str(st), "rw.Write(ctx, &rpc)") && i+1 < len(l) {
					if is, ok2 := l[i+1].(*ast.IfStmt); ok2 && str(is.Cond) == "err != nil" {
						ok = hasCall(is.Body, "teardown") && hasReturn(is.Body)
					}
				}
			}
		}
		add("openFailureTearsDown", ok, "")
	}
	// srv.unaryBadMetaIsErrorReply
	{
		fd := sv.fn("handler", "processUnaryRpc")
		ok := false
		if fd != nil {
			l := fd.Body.List
			for i, st := range l {
				if strings.Contains(str(st), "contextFromHeaders(") {
					for j := i + 1; j < len(l) && j <= i+2; j++ {
						if is, ok2 := l[j].(*ast.IfStmt); ok2 && str(is.Cond) == "err != nil" {
							b := str(is.Body)
							ok = !hasPanic(is.Body) && hasReturn(is.Body) && strings.Contains(b, "Status:") && strings.Contains(b, "Trailer:") && !strings.Contains(b, "codes.OK")
						}
					}
				}
			}
			ok = ok && !hasPanic(fd)
		}
		add("unaryBadMetaIsErrorReply", ok, "")
	}
	// srv.unaryCtxFollowsConn
	{
		fd := sv.fn("handler", "processUnaryRpc")
		// the watcher must be installed unconditionally: a top-level statement of the function body
		ok := false
		if fd != nil {
			for _, st := range fd.Body.List {
				switch st.(type) {
				case *ast.AssignStmt, *ast.ExprStmt:
					if strings.Contains(str(st), "context.AfterFunc(h.ctx, cancel)") {
						ok = true
					}
				}
			}
		}
		add("unaryCtxFollowsConn", ok, "")
	}
	// srv.workerHandoffSelectsOnConn
	{
		fd := sv.fn("handler", "serve")
		ok := fd != nil
		n := 0
		for _, s := range sendsOn(fd, "h.writeChan") {
			n++
			sel := enclosingSelect(fd, s)
			if sel == nil || !selectHasCase(sel, "h.ctx.Done()") {
				ok = false
			}
		}
		add("workerHandoffSelectsOnConn", ok && n == 1, "")
	}
	// srv.forwardSelectsOnStreamDone
	{
		fd := sv.fn("handler", "processStreamingRpc")
		ok := fd != nil
		n := 0
		for _, s := range sendsOn(fd, "handler.ch") {
			n++
			sel := enclosingSelect(fd, s)
			if sel == nil || !selectHasCase(sel, "handler.ctx.Done()") || !selectHasCase(sel, "h.ctx.Done()") {
				ok = false
			} else if cc := caseBody(sel, "handler.ctx.Done()"); cc == nil || hasReturn(cc) {
				ok = false
			}
		}
		// the stream record's ctx is the handler's own context
		ok = ok && strings.Contains(str(fd), "ctx: ctx,")
		add("forwardSelectsOnStreamDone", ok && n == 1, "")
	}
	// srv.resetViaWriter
	{
		fd := sv.fn("handler", "resetStream")
		ok := fd != nil && !hasCall(fd, "h.rw.Write") && len(sendsOn(fd, "h.writeChan")) == 1
		// nobody but the writer goroutine writes to the transport
		writes := 0
		inspect(sv.file, func(x ast.Node) bool {
			if c, ok2 := x.(*ast.CallExpr); ok2 && str(c.Fun) == "h.rw.Write" {
				writes++
			}
			return true
		})
		add("resetViaWriter", ok && writes == 1, fmt.Sprintf("writes=%d", writes))
	}
	// srv.timeoutSaturates / srv.timeoutDigitsOnly
	{
		fd := sv.fn("", "parseGrpcTimeout")
		sat, dig := false, false
		if fd != nil {
			parseAt := token.Pos(0)
			inspect(fd, func(x ast.Node) bool {
				if c, ok := x.(*ast.CallExpr); ok && str(c.Fun) == "strconv.ParseInt" {
					parseAt = c.Pos()
				}
				return true
			})
			inspect(fd, func(x ast.Node) bool {
				switch v := x.(type) {
				case *ast.IfStmt:
					c := str(v.Cond)
					if c == "val > math.MaxInt64/int64(unit)" && strings.Contains(str(v.Body), "return time.Duration(math.MaxInt64), true") {
						sat = true
					}
					if v.Pos() < parseAt && (c == "digits[i] < '0' || digits[i] > '9'") && strings.Contains(str(v.Body), "return 0, false") {
						dig = true
					}
				}
				return true
			})
			// ParseInt is applied to the checked string
			dig = dig && strings.Contains(str(fd), "strconv.ParseInt(digits, 10, 64)") && strings.Contains(str(fd), "digits := timeout[:len(timeout)-1]")
			// the only multiplication is the final one
			sat = sat && strings.HasSuffix(str(fd.Body.List[len(fd.Body.List)-1]), "return time.Duration(val) * unit, true")
		}
		add("timeoutSaturates", sat, "")
		add("timeoutDigitsOnly", dig, "")
	}
	// proxy.badSourceIsIgnored
	{
		fd := px.fn("Proxy", "forwardRpc")
		ok := false
		if fd != nil && len(fd.Body.List) > 0 {
			if is, ok2 := fd.Body.List[0].(*ast.IfStmt); ok2 && str(is.Cond) == "rpc.Header == nil || rpc.Header.Source != source" {
				ok = hasReturn(is.Body) && !hasPanic(is.Body)
			}
			ok = ok && !hasPanic(fd)
		}
		add("badSourceIsIgnored", ok, "")
	}
	// proxy.emptyNextIsNoRoute: the only indexing of ProxyNext by its length sits under `len(ProxyNext) > 0`
	{
		fd := px.fn("Proxy", "forwardRpc")
		guarded, bare := 0, 0
		var walk func(n ast.Node, under bool)
		walk = func(n ast.Node, under bool) {
			if n == nil {
				return
			}
			if is, ok := n.(*ast.IfStmt); ok {
				u := under || str(is.Cond) == "len(rpc.Header.ProxyNext) > 0"
				if is.Init != nil {
					walk(is.Init, under)
				}
				walk(is.Cond, under)
				walk(is.Body, u)
				if is.Else != nil {
					walk(is.Else, under)
				}
				return
			}
			switch x := n.(type) {
			case *ast.IndexExpr:
				if str(x.X) == "rpc.Header.ProxyNext" {
					if under {
						guarded++
					} else {
						bare++
					}
				}
			case *ast.SliceExpr:
				if str(x.X) == "rpc.Header.ProxyNext" {
					if under {
						guarded++
					} else {
						bare++
					}
				}
			}
			ast.Inspect(n, func(c ast.Node) bool {
				if c == nil || c == n {
					return true
				}
				walk(c, under)
				return false
			})
		}
		if fd != nil {
			walk(fd.Body, false)
		}
		add("emptyNextIsNoRoute", fd != nil && guarded >= 1 && bare == 0, "")
	}
	// proxy.enqueueNonBlocking
	{
		fd := px.fn("Proxy", "forwardRpc")
		ok := fd != nil
		n := 0
		for _, s := range sendsOn(fd, "fromServer") {
			n++
			sel := enclosingSelect(fd, s)
			if sel == nil || !selectHasDefault(sel) {
				ok = false
			}
		}
		add("enqueueNonBlocking", ok && n == 1, "")
	}
	// proxy.removeComparesIdentity
	{
		fd := px.fn("Proxy", "serveClients")
		ok := false
		dels := 0
		inspect(fd, func(x ast.Node) bool {
			if is, ok2 := x.(*ast.IfStmt); ok2 && str(is.Cond) == "p.clients[cmd.id] == cmd.client" && strings.Contains(str(is.Body), "delete(p.clients, cmd.id)") {
				ok = true
			}
			if c, ok2 := x.(*ast.CallExpr); ok2 && str(c.Fun) == "delete" {
				dels++
			}
			return true
		})
		// every error report carries the reporting connection
		rep := px.fn("proxyClient", "report")
		ok = ok && dels == 1 && rep != nil && strings.Contains(str(rep), "client: c")
		add("removeComparesIdentity", ok, "")
	}
	// proxy.errReportSelectsOnCtx
	{
		ok := true
		n := 0
		inspect(px.file, func(x ast.Node) bool {
			fd, isFn := x.(*ast.FuncDecl)
			if !isFn {
				return true
			}
			for _, s := range sendsOn(fd, "toServer") {
				if !strings.Contains(str(s.Value), "err:") {
					continue
				}
				n++
				sel := enclosingSelect(fd, s)
				if sel == nil || !(selectHasCase(sel, "proxyCtx.Done()") || selectHasCase(sel, "ctx.Done()")) {
					ok = false
				}
			}
			return false
		})
		// proxyCtx really is the proxy's context
		ok = ok && strings.Count(str(px.file), "proxyCtx: p.ctx") == 2
		add("errReportSelectsOnCtx", ok && n >= 1, fmt.Sprintf("reports=%d", n))
	}
	// demux.cancelUsesDone / demux.handoffSelects
	{
		fd := dm.fn("Demux", "Cancel")
		ok := fd != nil
		inspect(dm.file, func(x ast.Node) bool {
			if c, ok2 := x.(*ast.CallExpr); ok2 && str(c.Fun) == "close" && len(c.Args) == 1 {
				a := str(c.Args[0])
				if a != "conn.done" {
					ok = false
				}
			}
			return true
		})
		ok = ok && fd != nil && strings.Contains(str(fd), "close(conn.done)")
		add("demuxCancelUsesDone", ok, "")
		run := dm.fn("Demux", "Run")
		ok2 := run != nil
		n := 0
		for _, s := range sendsOn(run, "conn.r") {
			n++
			sel := enclosingSelect(run, s)
			if sel == nil || !selectHasCase(sel, "gsd.ctx.Done()") || !selectHasCase(sel, "conn.done") {
				ok2 = false
			}
		}
		// no send under the registry lock
		add("demuxHandoffSelects", ok2 && n == 1, "")
	}
	// http.cleanUsesDone / http.readHonoursCtx
	{
		ok := true
		inspect(ht.file, func(x ast.Node) bool {
			if c, ok2 := x.(*ast.CallExpr); ok2 && str(c.Fun) == "close" && len(c.Args) == 1 {
				if str(c.Args[0]) != "conn.done" {
					ok = false
				}
			}
			return true
		})
		sh := ht.fn("GoatOverHttp", "ServeHTTP")
		n := 0
		for _, s := range sendsOn(sh, "readCh") {
			n++
			sel := enclosingSelect(sh, s)
			if sel == nil || !selectHasCase(sel, "conn.done") {
				ok = false
			}
		}
		add("httpCleanUsesDone", ok && n == 1, "")
		rd := ht.fn("httpReadWriter", "Read")
		ok2 := false
		for _, s := range selectsContaining(rd, func(c ast.Stmt) bool { return strings.Contains(str(c), "hrw.readCh") }) {
			if selectHasCase(s, "ctx.Done()") && selectHasCase(s, "hrw.done") {
				ok2 = true
			}
		}
		add("httpReadHonoursCtx", ok2, "")
		wr := ht.fn("httpReadWriter", "Write")
		add("httpWriteHonoursCtx", wr != nil && strings.Contains(str(wr), "http.NewRequestWithContext(ctx, ") && !strings.Contains(str(wr), "http.NewRequest("), "")
	}
	// chain recursion shape (C20)
	{
		ok := true
		for _, name := range []string{"getChainUnaryHandler", "getChainStreamHandler"} {
			fd := ch.fn("", name)
			if fd == nil || len(fd.Body.List) != 2 {
				ok = false
				continue
			}
			is, ok2 := fd.Body.List[0].(*ast.IfStmt)
			if !ok2 || str(is.Cond) != "curr == len(interceptors)-1" || !strings.Contains(str(is.Body), "return finalHandler") {
				ok = false
			}
			b := str(fd.Body.List[1])
			if !strings.Contains(b, "interceptors[curr+1](") || !strings.Contains(b, name+"(interceptors, curr+1, info, finalHandler)") {
				ok = false
			}
		}
		for _, name := range []string{"ChainUnaryInterceptor", "ChainStreamInterceptor"} {
			fd := ch.fn("", name)
			b := str(fd)
			if fd == nil || !strings.Contains(b, "interceptors[0](") || !strings.Contains(b, "(interceptors, 0, info, handler)") {
				ok = false
			}
		}
		add("chainShape", ok, "")
	}
	// server stream once-only guards (C04/C06)
	{
		set := ss.fn("serverStream", "setHeader")
		send := ss.fn("serverStream", "SendMsg")
		tr := ss.fn("serverStream", "SendTrailer")
		ok := set != nil && send != nil && tr != nil
		if ok {
			ok = strings.Contains(str(set), "if ss.protected.headersSent { return fmt.Errorf(") &&
				strings.Contains(str(send), "if !ss.protected.headersSent { rpc.Header.Headers = internal.ToKeyValue(ss.protected.headers...) ss.protected.headersSent = true") &&
				strings.Contains(str(tr), "if ss.protected.trailersSent { return fmt.Errorf(") &&
				strings.Contains(str(tr), "ss.protected.trailersSent = true") &&
				strings.Contains(str(tr), "if !ss.protected.headersSent { tr.Header.Headers = internal.ToKeyValue(ss.protected.headers...) ss.protected.headersSent = true }")
		}
		add("streamOnceGuards", ok, "")
	}
	return out
}

// ---------------------------------------------------------------- constants

type constant struct {
	name string
	lean string
}

func bytesLit(s string) string {
	p := make([]string, len(s))
	for i := 0; i < len(s); i++ {
		p[i] = strconv.Itoa(int(s[i]))
	}
	return "[" + strings.Join(p, ", ") + "]"
}

var durations = map[string]string{
	"time.Hour": "3600000000000", "time.Minute": "60000000000", "time.Second": "1000000000",
	"time.Millisecond": "1000000", "time.Microsecond": "1000", "time.Nanosecond": "1",
}

func constants(repo string) []constant {
	var out []constant
	sv := load(repo, "server.go")
	cl := load(repo, "client.go")
	px := load(repo, "proxy.go")
	ut := load(repo, "internal/util.go")
	cs := load(repo, "internal/client/stream.go")
	// unit table: the switch in parseGrpcTimeout
	{
		var rows []string
		fd := sv.fn("", "parseGrpcTimeout")
		inspect(fd, func(x ast.Node) bool {
			if sw, ok := x.(*ast.SwitchStmt); ok {
				for _, c := range sw.Body.List {
					cc := c.(*ast.CaseClause)
					if len(cc.List) == 1 && len(cc.Body) == 1 {
						lit, ok1 := cc.List[0].(*ast.BasicLit)
						ret, ok2 := cc.Body[0].(*ast.ReturnStmt)
						if ok1 && ok2 && lit.Kind == token.CHAR && len(ret.Results) == 1 {
							ch, _ := strconv.Unquote(lit.Value)
							d, known := durations[str(ret.Results[0])]
							if !known {
								d = "0 /- unknown: " + str(ret.Results[0]) + " -/"
							}
							rows = append(rows, fmt.Sprintf("(%d, %s)", ch[0], d))
						}
					}
				}
			}
			return true
		})
		out = append(out, constant{"unitTable : List (Nat × Nat)", "[" + strings.Join(rows, ", ") + "]"})
	}
	// server's key comparison and client's header
	serverKey, clientKey, format := "", "", ""
	inspect(sv.fn("", "contextFromHeaders"), func(x ast.Node) bool {
		if b, ok := x.(*ast.BinaryExpr); ok && strings.HasPrefix(str(b.X), "strings.ToLower(hdr.Key)") {
			if l, ok := b.Y.(*ast.BasicLit); ok {
				serverKey, _ = strconv.Unquote(l.Value)
			}
		}
		return true
	})
	inspect(cl.fn("", "headersFromContext"), func(x ast.Node) bool {
		if kv, ok := x.(*ast.KeyValueExpr); ok {
			if str(kv.Key) == "Key" {
				if l, ok := kv.Value.(*ast.BasicLit); ok {
					clientKey, _ = strconv.Unquote(l.Value)
				}
			}
			if str(kv.Key) == "Value" {
				if c, ok := kv.Value.(*ast.CallExpr); ok && str(c.Fun) == "fmt.Sprintf" && len(c.Args) == 2 && str(c.Args[1]) == "ms" {
					if l, ok := c.Args[0].(*ast.BasicLit); ok {
						format, _ = strconv.Unquote(l.Value)
					}
				}
			}
		}
		return true
	})
	out = append(out, constant{"timeoutKeyServer : List Nat", bytesLit(serverKey)})
	out = append(out, constant{"timeoutKeyClient : List Nat", bytesLit(clientKey)})
	out = append(out, constant{"timeoutFormat : List Nat", bytesLit(format)})
	// ms computation: `ms := int64(timeout / time.Millisecond)` and `if ms <= 0 { ms = 1 }`
	msOK := false
	if fd := cl.fn("", "headersFromContext"); fd != nil {
		b := str(fd)
		msOK = strings.Contains(b, "timeout := time.Until(deadline) ms := int64(timeout / time.Millisecond) if ms <= 0 { ms = 1 }")
	}
	out = append(out, constant{"millisFloorMin1 : Bool", fmt.Sprint(msOK)})
	// -bin suffix used by both directions, URL encoding
	sufs := map[string]int{}
	enc := map[string]int{}
	inspect(ut.file, func(x ast.Node) bool {
		if c, ok := x.(*ast.CallExpr); ok {
			if str(c.Fun) == "strings.HasSuffix" && len(c.Args) == 2 {
				if l, ok := c.Args[1].(*ast.BasicLit); ok {
					s, _ := strconv.Unquote(l.Value)
					sufs[s+"|"+str(c.Args[0])]++
				}
			}
			f := str(c.Fun)
			if strings.HasPrefix(f, "base64.") {
				enc[f]++
			}
		}
		return true
	})
	var sk, ek []string
	for k := range sufs {
		sk = append(sk, k)
	}
	for k := range enc {
		ek = append(ek, k)
	}
	sort.Strings(sk)
	sort.Strings(ek)
	out = append(out, constant{"binSuffixUses : List String", leanStrings(sk)})
	out = append(out, constant{"base64Calls : List String", leanStrings(ek)})
	// lower-casing in ToMetadata
	lowerOK := false
	if fd := ut.fn("", "ToMetadata"); fd != nil {
		b := str(fd)
		lowerOK = strings.Contains(b, "k := strings.ToLower(h.Key)") && strings.Contains(b, "md[k] = append(md[k], v)")
	}
	out = append(out, constant{"toMetadataLowersKey : Bool", fmt.Sprint(lowerOK)})
	// reset type strings
	rst := map[string]bool{}
	for _, s := range []*src{sv, cs} {
		inspect(s.file, func(x ast.Node) bool {
			if l, ok := x.(*ast.BasicLit); ok && l.Kind == token.STRING && strings.Contains(l.Value, "RST") {
				v, _ := strconv.Unquote(l.Value)
				rst[v] = true
			}
			return true
		})
	}
	var rk []string
	for k := range rst {
		rk = append(rk, k)
	}
	sort.Strings(rk)
	out = append(out, constant{"resetTypes : List String", leanStrings(rk)})
	// numeric constants
	num := func(s *src, name string) string {
		v := "0"
		inspect(s.file, func(x ast.Node) bool {
			if vs, ok := x.(*ast.ValueSpec); ok && len(vs.Names) == 1 && vs.Names[0].Name == name && len(vs.Values) == 1 {
				v = str(vs.Values[0])
			}
			return true
		})
		if _, err := strconv.Atoi(v); err != nil {
			return "0"
		}
		return v
	}
	out = append(out, constant{"clientBufferSize : Nat", num(px, "clientBufferSize")})
	out = append(out, constant{"numRpcWorkers : Nat", num(sv, "numRpcWorkers")})
	// channel capacities, by "file:expression assigned"
	var caps []string
	for _, rel := range []string{"internal/client/multiplexer.go", "internal/client/stream.go", "server.go", "proxy.go", "demux.go", "http.go"} {
		s := load(repo, rel)
		inspect(s.file, func(x ast.Node) bool {
			record := func(lhs string, call *ast.CallExpr) {
				if str(call.Fun) == "make" && len(call.Args) >= 1 && strings.HasPrefix(str(call.Args[0]), "chan ") {
					c := "0"
					if len(call.Args) == 2 {
						c = str(call.Args[1])
					}
					caps = append(caps, fmt.Sprintf("%s:%s=%s", filepath.Base(rel), lhs, c))
				}
			}
			switch v := x.(type) {
			case *ast.KeyValueExpr:
				if c, ok := v.Value.(*ast.CallExpr); ok {
					record(str(v.Key), c)
				}
			case *ast.AssignStmt:
				if len(v.Lhs) == 1 && len(v.Rhs) == 1 {
					if c, ok := v.Rhs[0].(*ast.CallExpr); ok {
						record(str(v.Lhs[0]), c)
					}
				}
			}
			return true
		})
	}
	sort.Strings(caps)
	out = append(out, constant{"chanCaps : List String", leanStrings(caps)})
	return out
}

func leanStrings(l []string) string {
	p := make([]string, len(l))
	for i, s := range l {
		p[i] = strconv.Quote(s)
	}
	return "[" + strings.Join(p, ", ") + "]"
}

// ---------------------------------------------------------------- skeletons

// skeleton renders the synchronisation-relevant structure of a function body.
func skeleton(fd *ast.FuncDecl) []string {
	if fd == nil {
		return []string{"unknown:missing"}
	}
	var out []string
	var walkStmts func(l []ast.Stmt)
	var walkExpr func(e ast.Node)
	emit := func(s string) { out = append(out, s) }
	syncCall := func(c *ast.CallExpr) (string, bool) {
		f := str(c.Fun)
		base := f
		if i := strings.LastIndex(f, "."); i >= 0 {
			base = f[i+1:]
		}
		switch base {
		case "Lock", "Unlock", "RLock", "RUnlock":
			return strings.ToLower(base) + " " + f[:len(f)-len(base)-1], true
		case "Wait", "Add", "Done":
			if strings.Contains(f, "ready") {
				return strings.ToLower(base) + " " + f[:len(f)-len(base)-1], true
			}
		case "close":
			if len(c.Args) == 1 {
				return "close " + str(c.Args[0]), true
			}
		case "delete":
			if len(c.Args) >= 1 {
				return "delete " + str(c.Args[0]), true
			}
		case "Read", "Write":
			if strings.Contains(f, "rw.") || strings.Contains(f, "conn.") {
				return "io " + f, true
			}
		case "cancel", "cancelWrite", "teardown", "unaryRpcCtxCancel":
			return "call " + f, true
		case "AddUint64", "Store", "Load":
			if strings.Contains(f, "atomic") || strings.Contains(f, "lastActivity") {
				return "atomic " + f, true
			}
		case "AfterFunc":
			return "afterfunc " + str(c.Args[0]), true
		}
		switch f {
		case "rm.registerHandler", "rm.unregisterHandler", "rm.readErrorIfDone", "rm.closeError", "rm.handleResponse", "rm.readLoop",
			"cs.readErrorIfDone", "cs.readLoop", "cs.teardown", "onReady", "h.resetStream", "h.unregisterStream", "h.processStreamingRpc",
			"h.processUnaryRpc", "h.runStream", "h.serve", "h.cancelAndWaitForStreams", "h.recv", "p.forwardRpc", "p.addOutgoingConnectionLocked",
			"c.report", "c.readLoop", "c.writeLoop", "c.readWrite", "c.connect", "gsd.newConnLocked", "goh.retrieve", "goh.unregister",
			"goh.unregisterLocked", "hrw.cancel", "stream.SendTrailer", "e.Go", "e.Wait", "gsd.onNewConnection", "goh.onConnect", "p.clientDisconnect":
			return "call " + f, true
		}
		return "", false
	}
	walkExpr = func(e ast.Node) {
		if e == nil {
			return
		}
		ast.Inspect(e, func(x ast.Node) bool {
			switch v := x.(type) {
			case *ast.FuncLit:
				emit("func{")
				walkStmts(v.Body.List)
				emit("}")
				return false
			case *ast.UnaryExpr:
				if v.Op == token.ARROW {
					emit("recv " + str(v.X))
				}
			case *ast.CallExpr:
				if s, ok := syncCall(v); ok {
					// arguments first (they may contain receives / literals)
					for _, a := range v.Args {
						walkExpr(a)
					}
					emit(s)
					return false
				}
			}
			return true
		})
	}
	walkStmts = func(l []ast.Stmt) {
		for _, st := range l {
			switch v := st.(type) {
			case *ast.ExprStmt:
				if c, ok := v.X.(*ast.CallExpr); ok && strings.HasPrefix(str(c.Fun), "verifhook.") {
					continue
				}
				walkExpr(v.X)
			case *ast.SendStmt:
				walkExpr(v.Value)
				emit("send " + str(v.Chan))
			case *ast.DeferStmt:
				emit("defer{")
				walkExpr(v.Call)
				emit("}")
			case *ast.GoStmt:
				emit("go{")
				walkExpr(v.Call)
				emit("}")
			case *ast.ReturnStmt:
				for _, r := range v.Results {
					walkExpr(r)
				}
				emit("return")
			case *ast.IfStmt:
				if strings.Contains(str(v.Cond), "verifhook.Enabled") {
					continue
				}
				if v.Init != nil {
					walkStmts([]ast.Stmt{v.Init})
				}
				walkExpr(v.Cond)
				emit("if{")
				walkStmts(v.Body.List)
				if v.Else != nil {
					emit("}else{")
					switch e := v.Else.(type) {
					case *ast.BlockStmt:
						walkStmts(e.List)
					default:
						walkStmts([]ast.Stmt{e})
					}
				}
				emit("}")
			case *ast.ForStmt:
				emit("for{")
				if v.Cond != nil {
					walkExpr(v.Cond)
				}
				walkStmts(v.Body.List)
				emit("}")
			case *ast.RangeStmt:
				walkExpr(v.X)
				emit("range{")
				walkStmts(v.Body.List)
				emit("}")
			case *ast.SelectStmt:
				emit("select{")
				for _, c := range v.Body.List {
					cc := c.(*ast.CommClause)
					if cc.Comm == nil {
						emit("default:")
					} else {
						emit("case:")
						walkStmts([]ast.Stmt{cc.Comm})
					}
					walkStmts(cc.Body)
				}
				emit("}")
			case *ast.SwitchStmt:
				emit("switch{")
				for _, c := range v.Body.List {
					emit("case:")
					walkStmts(c.(*ast.CaseClause).Body)
				}
				emit("}")
			case *ast.TypeSwitchStmt:
				emit("switch{")
				for _, c := range v.Body.List {
					emit("case:")
					walkStmts(c.(*ast.CaseClause).Body)
				}
				emit("}")
			case *ast.BlockStmt:
				walkStmts(v.List)
			case *ast.AssignStmt:
				for _, r := range v.Rhs {
					walkExpr(r)
				}
				for _, lhs := range v.Lhs {
					s := str(lhs)
					for _, f := range []string{"rErr", "done", "handlers[", "streams[", "clients[", "conns.value[", "headersSent", "trailersSent", "cs.header", "headerErr", "protected.trailer"} {
						if strings.Contains(s, f) {
							emit("set " + s)
							break
						}
					}
				}
			case *ast.DeclStmt:
				walkExpr(v)
			case *ast.IncDecStmt, *ast.BranchStmt, *ast.EmptyStmt, *ast.LabeledStmt:
				if b, ok := st.(*ast.BranchStmt); ok {
					emit(b.Tok.String())
				}
			default:
				emit("unknown:" + fmt.Sprintf("%T", st))
			}
		}
	}
	walkStmts(fd.Body.List)
	return out
}

type tracked struct{ file, recv, name string }

var trackedFns = []tracked{
	{"internal/client/multiplexer.go", "", "NewRpcMultiplexer"},
	{"internal/client/multiplexer.go", "RpcMultiplexer", "closeError"},
	{"internal/client/multiplexer.go", "RpcMultiplexer", "CallUnaryMethod"},
	{"internal/client/multiplexer.go", "RpcMultiplexer", "NewStreamReadWriter"},
	{"internal/client/multiplexer.go", "RpcMultiplexer", "readLoop"},
	{"internal/client/multiplexer.go", "RpcMultiplexer", "handleResponse"},
	{"internal/client/multiplexer.go", "RpcMultiplexer", "registerHandler"},
	{"internal/client/multiplexer.go", "RpcMultiplexer", "unregisterHandler"},
	{"internal/client/multiplexer.go", "RpcMultiplexer", "readErrorIfDone"},
	{"internal/client/multiplexer.go", "muxHandler", "recv"},
	{"internal/client/stream.go", "", "NewStream"},
	{"internal/client/stream.go", "clientStream", "Header"},
	{"internal/client/stream.go", "clientStream", "Trailer"},
	{"internal/client/stream.go", "clientStream", "CloseSend"},
	{"internal/client/stream.go", "clientStream", "SendMsg"},
	{"internal/client/stream.go", "clientStream", "RecvMsg"},
	{"internal/client/stream.go", "clientStream", "readLoop"},
	{"internal/client/stream.go", "clientStream", "readErrorIfDone"},
	{"client.go", "ClientConn", "newStream"},
	{"client.go", "ClientConn", "invoke"},
	{"server.go", "Server", "Serve"},
	{"server.go", "Server", "Stop"},
	{"server.go", "", "newHandler"},
	{"server.go", "handler", "serve"},
	{"server.go", "handler", "cancelAndWaitForStreams"},
	{"server.go", "handler", "processStreamingRpc"},
	{"server.go", "handler", "processUnaryRpc"},
	{"server.go", "handler", "runStream"},
	{"server.go", "handler", "unregisterStream"},
	{"server.go", "handler", "resetStream"},
	{"internal/server/stream.go", "serverStream", "setHeader"},
	{"internal/server/stream.go", "serverStream", "SetTrailer"},
	{"internal/server/stream.go", "serverStream", "SendMsg"},
	{"internal/server/stream.go", "serverStream", "RecvMsg"},
	{"internal/server/stream.go", "serverStream", "SendTrailer"},
	{"proxy.go", "Proxy", "AddClient"},
	{"proxy.go", "Proxy", "addOutgoingConnectionLocked"},
	{"proxy.go", "Proxy", "serveClients"},
	{"proxy.go", "Proxy", "forwardRpc"},
	{"proxy.go", "proxyClient", "report"},
	{"proxy.go", "proxyClient", "readLoop"},
	{"proxy.go", "proxyClient", "writeLoop"},
	{"proxy.go", "proxyClient", "readWrite"},
	{"proxy.go", "proxyClient", "connect"},
	{"demux.go", "Demux", "Run"},
	{"demux.go", "Demux", "Cancel"},
	{"demux.go", "Demux", "Stop"},
	{"demux.go", "Demux", "newConnLocked"},
	{"channel.go", "", "NewGoatOverChannel"},
	{"websocket.go", "goatOverWebsocket", "Read"},
	{"websocket.go", "goatOverWebsocket", "Write"},
	{"http.go", "GoatOverHttp", "ServeHTTP"},
	{"http.go", "GoatOverHttp", "connectionCleaner"},
	{"http.go", "GoatOverHttp", "retrieve"},
	{"http.go", "GoatOverHttp", "unregister"},
	{"http.go", "GoatOverHttp", "unregisterLocked"},
	{"http.go", "httpReadWriter", "Read"},
	{"http.go", "httpReadWriter", "Write"},
}

func skelName(t tracked) string {
	n := strings.TrimSuffix(filepath.Base(t.file), ".go")
	if strings.HasPrefix(t.file, "internal/client") {
		n = "client_" + n
	}
	if strings.HasPrefix(t.file, "internal/server") {
		n = "server_" + n
	}
	if t.recv != "" {
		return n + "_" + t.recv + "_" + t.name
	}
	return n + "_" + t.name
}

// ---------------------------------------------------------------- main

func main() {
	if len(os.Args) < 3 {
		fmt.Fprintln(os.Stderr, "usage: extract <repo> <out.lean> [--expected]")
		os.Exit(2)
	}
	repo, outPath := os.Args[1], os.Args[2]
	ns := "Goat.Generated"
	if len(os.Args) > 3 && os.Args[3] == "--expected" {
		ns = "Goat.Expected"
	}
	var b strings.Builder
	fmt.Fprintf(&b, "/- GENERATED by /verif/extract from the sources under %s — do not edit. -/\n", repo)
	b.WriteString("import Goat.Cfg\nnamespace " + ns + "\n\n")
	for _, c := range constants(repo) {
		fmt.Fprintf(&b, "def %s := %s\n", c.name, c.lean)
	}
	b.WriteString("\ndef cfg : Goat.Cfg := {\n")
	fl := flags(repo)
	for i, f := range fl {
		sep := ","
		if i == len(fl)-1 {
			sep = ""
		}
		why := ""
		if f.why != "" {
			why = "  -- " + f.why
		}
		fmt.Fprintf(&b, "  %s := %v%s%s\n", f.name, f.val, sep, why)
	}
	b.WriteString("}\n\n")
	files := map[string]*src{}
	var names []string
	for _, t := range trackedFns {
		s, ok := files[t.file]
		if !ok {
			s = load(repo, t.file)
			files[t.file] = s
		}
		sk := skeleton(s.fn(t.recv, t.name))
		name := "sk_" + skelName(t)
		names = append(names, name)
		fmt.Fprintf(&b, "def %s : List String := %s\n", name, leanStrings(sk))
	}
	b.WriteString("\ndef skeletons : List (String × List String) := [\n")
	for i, n := range names {
		sep := ","
		if i == len(names)-1 {
			sep = ""
		}
		fmt.Fprintf(&b, "  (%q, %s)%s\n", strings.TrimPrefix(n, "sk_"), n, sep)
	}
	b.WriteString("]\n\n")
	b.WriteString(accessTable(repo))
	b.WriteString("\n")
	b.WriteString(structCensus(repo))
	b.WriteString("\nend " + ns + "\n")
	old, _ := os.ReadFile(outPath)
	if string(old) != b.String() {
		if err := os.WriteFile(outPath, []byte(b.String()), 0o644); err != nil {
			fmt.Fprintln(os.Stderr, err)
			os.Exit(1)
		}
	}
}
