/-
  Model of the client multiplexer `RpcMultiplexer`
  (/repo/internal/client/multiplexer.go) as a labelled transition system.

  Core Lean only (this file is also compiled into the replay driver).

  One label = one operation whose effect another goroutine can observe; see
  LABELS.md for the label <-> Go statement <-> hook event table.

  Callers are addressed by their INDEX in `State.callers`.  With atomic id
  allocation (the code as it is) caller `i` has id `i+1` (invariant `Inv.ids`),
  so the hook events, which carry ids, translate by `i = id - 1`.
-/
import Goat.Basic

namespace Goat.Mux

/-- Which variant of the code is modelled.  Every flag `true` = /repo as it is now. -/
structure Cfg where
  /-- `registerHandler` checks `rErr` in the critical section that stores the handler.
      false: the check (`readErrorIfDone`) is an earlier, separate critical section (`checkErr`). -/
  registerChecksErr : Bool := true
  /-- `handleResponse` releases the mutex before the send, the send also waits on `h.done`,
      the response channel is never closed.
      false: the mutex is held from the lookup until the send completes, the send has no
      alternative, `closeError` / `unregisterHandler` close the response channel. -/
  dispatchOutsideLock : Bool := true
  /-- a unary reply with an explicit OK status is classified by its body.
      false: any status is "the error", so OK gives `(nil, nil)` and the caller dereferences nil. -/
  okStatusIsSuccess : Bool := true
  /-- the stream id is `atomic.AddUint64(&counter, 1)`.
      false: load and store of the counter are two steps. -/
  idAllocAtomic : Bool := true
  /-- the stats-handler block of `CallUnaryMethod` reads the reply's metadata through the nil-safe
      getters (`resp.GetHeader().GetHeaders()`), so a reply without header is classified normally.
      false: `resp.GetHeader().Headers`, a nil-pointer dereference when the reply has no header and
      at least one stats handler is installed. -/
  statsHeaderNilSafe : Bool := true
  /-- NOT a repair flag but a parameter of the deployment: unary calls are made with at least one
      `stats.Handler` (then `CallUnaryMethod` reads the reply's header metadata). -/
  statsHandlers : Bool := false
  deriving DecidableEq, Repr

/-- the code as it is in /repo -/
def Cfg.good : Cfg := {}

inductive Kind where
  | unary | stream
  deriving DecidableEq, Repr

/-- What a call gives back to its user. -/
inductive Result where
  | ok (body : Bytes)          -- unary success
  | errStatus (st : Status)    -- unary: the peer's non-OK status
  | malformed                  -- unary: neither status nor body
  | closed                     -- recv found the handler done ("respChan closed" / the read error)
  | ctxErr                     -- recv found the caller's context done
  | writeErr                   -- unary: rw.Write failed
  | connErr                    -- registration refused: the connection has failed (rErr)
  | nilDeref                   -- PANIC: (nil, nil) returned and dereferenced (pre-repair only)
  | nilHeaderDeref             -- PANIC: `resp.GetHeader().Headers` on a reply without header (stats handlers; pre-repair only)
  deriving DecidableEq, Repr

/-- Program counter of a call.
    unary : (loading) start (checked) registered written unreg returning finished
    stream: (loading) start (checked) open closing finished -/
inductive Pc where
  | loading      -- non-atomic allocation only: counter loaded, not yet stored
  | start        -- id allocated
  | checked      -- pre-repair only: readErrorIfDone said "no error", not yet registered
  | registered   -- unary: registered, request not yet written
  | written      -- unary: request written, in `recv`
  | unreg        -- unary: outcome decided, deferred unregisterHandler not yet run
  | returning    -- unary: about to return `result`
  | opened         -- stream: registered; reads / writes / teardown possible
  | closing      -- stream: a read returned an error, teardown not yet run
  | finished
  deriving DecidableEq, Repr

/-- the call is between a successful `registerHandler` and its `unregisterHandler` -/
def Pc.isReg : Pc → Bool
  | .registered | .written | .unreg | .opened | .closing => true
  | _ => false

/-- the call has not reached `registerHandler` yet -/
def Pc.isPre : Pc → Bool
  | .loading | .start | .checked => true
  | _ => false

/-- the pcs a call of the given kind can be at -/
def Pc.okFor : Pc → Kind → Bool
  | .registered, .stream | .written, .stream | .unreg, .stream | .returning, .stream => false
  | .opened, .unary | .closing, .unary => false
  | _, _ => true

structure Caller where
  kind : Kind
  id : Nat
  pc : Pc
  /-- `h.ch`, capacity 1 -/
  buf : Option Env
  /-- `h.done` closed (pre-repair: the response channel closed) -/
  done : Bool
  ctxDone : Bool
  /-- what the call took from its channel, in order -/
  delivered : List Env
  result : Option Result
  deriving DecidableEq, Repr

def Caller.new (k : Kind) (id : Nat) (pc : Pc) : Caller :=
  { kind := k, id := id, pc := pc, buf := none, done := false, ctxDone := false,
    delivered := [], result := none }

/-- the read-loop goroutine -/
inductive Rl where
  | idle                          -- in `rw.Read`
  | got (e : Env)                 -- `rw.Read` returned `e`, `handleResponse` not yet in its critical section
  | lookedUp (i : Nat) (e : Env)  -- handler of caller `i` found; at the send
  | exited                        -- `readLoop` returned, `closeError(err)` done
  | panicked                      -- PANIC: send on a closed channel (pre-repair shape only)
  deriving DecidableEq, Repr

structure State where
  rErr : Bool
  counter : Nat
  /-- the keys of `rm.handlers` -/
  handlers : List Nat
  callers : List Caller
  rl : Rl
  /-- `rm.mutex` is held ACROSS labels (only the pre-repair read loop does that) -/
  muHeld : Bool
  /-- every envelope `rw.Read` returned, in order -/
  wireIn : List Env
  /-- every envelope `rw.Write` accepted, in order -/
  wireOut : List Env
  deriving DecidableEq, Repr

def init : State :=
  { rErr := false, counter := 0, handlers := [], callers := [], rl := .idle, muHeld := false,
    wireIn := [], wireOut := [] }

inductive Label where
  | alloc (k : Kind)                       -- [mux.alloc id kind]
  | allocLoad (k : Kind) | allocStore (i : Nat)   -- pre-repair idAllocAtomic = false only
  | ctxCancel (i : Nat)                    -- environment
  | checkErr (i : Nat)                     -- pre-repair registerChecksErr = false only
  | register (i : Nat)                     -- [mux.register id ok|err]
  | write (i : Nat) (e : Env) (ok : Bool)  -- wire tap
  | rlRead (e : Env)
  | rlFail                                 -- [mux.fail]
  | rlLookup                               -- [mux.lookup id found|unknown]
  | rlDeliver                              -- [mux.deliver id]
  | rlDrop                                 -- [mux.drop id]
  | recvTake (i : Nat) | recvClosed (i : Nat) | recvCtx (i : Nat)
  | unregister (i : Nat)                   -- [mux.unregister id present|absent]
  | ret (i : Nat)
  deriving DecidableEq, Repr

/-- the caller whose own goroutine performs the label (`none`: environment or read loop) -/
def Label.owner : Label → Option Nat
  | .allocStore i | .checkErr i | .register i | .write i _ _ | .recvTake i | .recvClosed i
  | .recvCtx i | .unregister i | .ret i => some i
  | _ => none

/-- classification of a unary reply (`CallUnaryMethod`, after `recv`) -/
def clientUnaryOutcome (cfg : Cfg) (e : Env) : Result :=
  if cfg.statsHeaderNilSafe = false ∧ cfg.statsHandlers = true ∧ e.header = none then .nilHeaderDeref else
  match e.status with
  | some st =>
    if st.code ≠ 0 then .errStatus st
    else if cfg.okStatusIsSuccess then
      (match e.body with | some b => .ok b | none => .malformed)
    else .nilDeref
  | none =>
    match e.body with | some b => .ok b | none => .malformed

/-- no status, or status OK -/
def okLike (e : Env) : Bool :=
  match e.status with | some st => st.code = 0 | none => true

/-- `closeError`: close the done signal of every registered handler -/
def closeAll (hs : List Nat) (cs : List Caller) : List Caller :=
  cs.map (fun c => if c.id ∈ hs then { c with done := true } else c)

/-- where a call goes when it fails before registering -/
def failPc : Kind → Pc
  | .unary => .returning
  | .stream => .finished

/-- where a call goes when it registers -/
def regPc : Kind → Pc
  | .unary => .registered
  | .stream => .opened

def step (cfg : Cfg) (s : State) : Label → Option State
  | .alloc k =>
    if cfg.idAllocAtomic then
      some { s with counter := s.counter + 1,
                    callers := s.callers ++ [Caller.new k (s.counter + 1) .start] }
    else none
  | .allocLoad k =>
    if cfg.idAllocAtomic then none
    else some { s with callers := s.callers ++ [Caller.new k s.counter .loading] }
  | .allocStore i =>
    match s.callers[i]? with
    | some c =>
      if c.pc = .loading then
        some { s with counter := c.id + 1,
                      callers := s.callers.set i { c with id := c.id + 1, pc := .start } }
      else none
    | none => none
  | .ctxCancel i =>
    match s.callers[i]? with
    | some c =>
      if c.ctxDone = false then some { s with callers := s.callers.set i { c with ctxDone := true } }
      else none
    | none => none
  | .checkErr i =>
    match s.callers[i]? with
    | some c =>
      if cfg.registerChecksErr = false ∧ s.muHeld = false ∧ c.pc = .start then
        if s.rErr then
          some { s with callers := s.callers.set i { c with pc := failPc c.kind, result := some .connErr } }
        else
          some { s with callers := s.callers.set i { c with pc := .checked } }
      else none
    | none => none
  | .register i =>
    match s.callers[i]? with
    | some c =>
      if s.muHeld = false ∧ c.pc = (if cfg.registerChecksErr then Pc.start else Pc.checked) then
        if cfg.registerChecksErr = true ∧ s.rErr = true then
          some { s with callers := s.callers.set i { c with pc := failPc c.kind, result := some .connErr } }
        else
          some { s with handlers := c.id :: s.handlers,
                        callers := s.callers.set i
                          { c with pc := regPc c.kind } }
      else none
    | none => none
  | .write i e ok =>
    match s.callers[i]? with
    | some c =>
      if e.id = c.id then
        match c.kind with
        | .unary =>
          if c.pc = .registered then
            if ok then
              some { s with wireOut := s.wireOut ++ [e], callers := s.callers.set i { c with pc := .written } }
            else
              some { s with callers := s.callers.set i { c with pc := .unreg, result := some .writeErr } }
          else none
        | .stream =>
          if c.pc = .opened ∨ c.pc = .closing then
            if ok then some { s with wireOut := s.wireOut ++ [e] } else some s
          else none
      else none
    | none => none
  | .rlRead e =>
    if s.rl = .idle then some { s with rl := .got e, wireIn := s.wireIn ++ [e] } else none
  | .rlFail =>
    if s.rl = .idle ∧ s.muHeld = false then
      some { s with rl := .exited, rErr := true, handlers := [], callers := closeAll s.handlers s.callers }
    else none
  | .rlLookup =>
    match s.rl with
    | .got e =>
      if s.muHeld = false then
        if e.id ∈ s.handlers then
          some { s with rl := .lookedUp (e.id - 1) e, muHeld := !cfg.dispatchOutsideLock }
        else some { s with rl := .idle }
      else none
    | _ => none
  | .rlDeliver =>
    match s.rl with
    | .lookedUp i e =>
      match s.callers[i]? with
      | some c =>
        if cfg.dispatchOutsideLock = false ∧ c.done = true then
          some { s with rl := .panicked }
        else if c.buf = none then
          some { s with rl := .idle, muHeld := false, callers := s.callers.set i { c with buf := some e } }
        else none
      | none => none
    | _ => none
  | .rlDrop =>
    match s.rl with
    | .lookedUp i _ =>
      match s.callers[i]? with
      | some c =>
        if cfg.dispatchOutsideLock = true ∧ c.done = true then some { s with rl := .idle } else none
      | none => none
    | _ => none
  | .recvTake i =>
    match s.callers[i]? with
    | some c =>
      match c.buf with
      | some e =>
        if c.pc = .written then
          some { s with callers := s.callers.set i
                          { c with pc := .unreg, buf := none, delivered := c.delivered ++ [e],
                                   result := some (clientUnaryOutcome cfg e) } }
        else if c.pc = .opened then
          some { s with callers := s.callers.set i { c with buf := none, delivered := c.delivered ++ [e] } }
        else none
      | none => none
    | none => none
  | .recvClosed i =>
    match s.callers[i]? with
    | some c =>
      if c.buf = none ∧ c.done = true then
        if c.pc = .written then
          some { s with callers := s.callers.set i { c with pc := .unreg, result := some .closed } }
        else if c.pc = .opened then
          some { s with callers := s.callers.set i { c with pc := .closing, result := some .closed } }
        else none
      else none
    | none => none
  | .recvCtx i =>
    match s.callers[i]? with
    | some c =>
      if c.ctxDone = true then
        if c.pc = .written then
          some { s with callers := s.callers.set i { c with pc := .unreg, result := some .ctxErr } }
        else if c.pc = .opened then
          some { s with callers := s.callers.set i { c with pc := .closing, result := some .ctxErr } }
        else none
      else none
    | none => none
  | .unregister i =>
    match s.callers[i]? with
    | some c =>
      if s.muHeld = false ∧ (c.pc = .unreg ∨ c.pc = .opened ∨ c.pc = .closing) then
        some { s with handlers := s.handlers.filter (· ≠ c.id),
                      callers := s.callers.set i
                        { c with pc := (if c.pc = .unreg then Pc.returning else Pc.finished),
                                 done := (if c.id ∈ s.handlers then true else c.done) } }
      else none
    | none => none
  | .ret i =>
    match s.callers[i]? with
    | some c =>
      if c.pc = .returning then some { s with callers := s.callers.set i { c with pc := .finished } }
      else none
    | none => none

def run (cfg : Cfg) (s : State) : List Label → Option State
  | [] => some s
  | l :: ls => (step cfg s l).bind (fun s' => run cfg s' ls)

def Reachable (cfg : Cfg) (s : State) : Prop := ∃ ls, run cfg init ls = some s

/-- termination measure: remaining work of every call -/
def Pc.weight : Pc → Nat
  | .loading => 9 | .start => 8 | .checked => 7 | .registered => 6 | .written => 5
  | .opened => 4 | .unreg => 3 | .closing => 2 | .returning => 1 | .finished => 0

def Caller.weight (c : Caller) : Nat := c.pc.weight + (if c.buf.isSome then 1 else 0)

def remaining (s : State) : Nat := (s.callers.map Caller.weight).sum

end Goat.Mux
