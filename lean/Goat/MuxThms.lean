/-
  Property theorems for the client multiplexer (DESIGN.md C01, C05, C09, C11, C13, C14), the
  negative witnesses for the four configuration flags, and non-vacuity examples.

  Every theorem quantifies over ALL reachable states of the LTS in `Goat/Mux.lean` (any number of
  callers, any interleaving, histories of any length).  `cfg.idAllocAtomic = true` is needed
  throughout because callers are found by their id; the other flags appear only where the
  property depends on them.
-/
import Goat.MuxProofs

namespace Goat.Mux

/-! ## Concrete runs used as non-vacuity witnesses -/

def reqE (id : Nat) : Env := { id := id, header := some { method := [47, 109] }, body := some [1, 2] }
def respOk (id : Nat) : Env := { id := id, status := some { code := 0 }, body := some [7] }
def respBody (id : Nat) (b : Bytes) : Env := { id := id, body := some b }

/-- a unary call (id 1) completes with the reply `[7]`; a stream (id 2) has taken one envelope, has
a second one queued, and the read loop is at its send with a third; a third call (id 3) has just
been allocated. -/
def demoRun : List Label :=
  [.alloc .unary, .alloc .stream, .register 0, .register 1, .write 0 (reqE 1) true,
   .write 1 (reqE 2) true, .rlRead (respBody 2 [5]), .rlLookup, .rlDeliver,
   .rlRead (respOk 1), .rlLookup, .rlDeliver, .recvTake 1, .recvTake 0,
   .rlRead (respBody 2 [6]), .rlLookup, .rlDeliver, .unregister 0, .ret 0,
   .rlRead (respBody 9 [0]), .rlLookup,
   .rlRead (respBody 2 [8]), .rlLookup, .alloc .unary]

/-- the connection fails with a unary call waiting for its reply, a stream open, and a call that
has only allocated its id -/
def failRun : List Label :=
  [.alloc .unary, .alloc .stream, .register 0, .register 1, .write 0 (reqE 1) true,
   .alloc .unary, .rlFail]

/-! ## 1. Ids (C01, C05) -/

/-- Distinct callers have distinct ids, and every envelope on `wireOut` carries the id of an
allocated caller. -/
theorem ids_injective (cfg : Cfg) (hc : cfg.idAllocAtomic = true) (s : State)
    (hr : Reachable cfg s) :
    (∀ (i j : Nat) (ci cj : Caller), s.callers[i]? = some ci → s.callers[j]? = some cj →
        ci.id = cj.id → i = j) ∧
    (∀ e, e ∈ s.wireOut → ∃ (i : Nat) (c : Caller), s.callers[i]? = some c ∧ c.id = e.id) := by
  have hA := (inv_reachable cfg hc s hr).1
  have hW := invW_reachable cfg hc s hr
  unfold InvA at hA; unfold InvW at hW
  refine ⟨?_, ?_⟩
  · intro i j ci cj hi hj h
    have := (hA.2.1 i ci hi).1; have := (hA.2.1 j cj hj).1; omega
  · intro e he
    have := hW.1 e he
    have hlt : e.id - 1 < s.callers.length := by omega
    refine ⟨e.id - 1, s.callers[e.id - 1], List.getElem?_eq_getElem hlt, ?_⟩
    have := (hA.2.1 (e.id - 1) s.callers[e.id - 1] (List.getElem?_eq_getElem hlt)).1
    omega

/-- A write puts only the writer's own id on the wire (for a stream this is the obligation its user,
`ClientStream`, has to meet; for a unary call the request is built with `Id: streamId`). -/
theorem write_carries_own_id (cfg : Cfg) (s s' : State) (i : Nat) (e : Env) (ok : Bool) (c : Caller)
    (hc : s.callers[i]? = some c) (hs : step cfg s (.write i e ok) = some s') : e.id = c.id := by
  simp only [step, hc] at hs
  split at hs
  · assumption
  · contradiction

/-- A unary call puts at most one envelope on the wire, and none before it has registered and
written (C01 `mux_request_once`). -/
theorem request_once (cfg : Cfg) (hc : cfg.idAllocAtomic = true) (s : State)
    (hr : Reachable cfg s) (i : Nat) (c : Caller) (hci : s.callers[i]? = some c)
    (hk : c.kind = .unary) :
    (s.wireOut.filter (fun e => e.id = c.id)).length ≤ 1 ∧
    ((c.pc.isPre = true ∨ c.pc = .registered) → ∀ e, e ∈ s.wireOut → e.id ≠ c.id) := by
  have hW := invW_reachable cfg hc s hr
  unfold InvW at hW
  obtain ⟨h0, h1⟩ := hW.2 i c hci hk
  refine ⟨by simpa [sentBy, List.countP_eq_length_filter] using h1, ?_⟩
  intro hp e he
  have := h0 hp
  simp [sentBy, List.countP_eq_zero] at this
  exact this e he

example : ∃ s, run Cfg.good init demoRun = some s ∧ s.callers.length = 3 ∧
    s.wireOut = [reqE 1, reqE 2] := by
  refine ⟨_, rfl, ?_, ?_⟩ <;> decide

/-! ## 2. Envelopes only to their owner (C05) -/

/-- Every envelope a caller has taken from its channel, or that sits in its channel, carries the
caller's id. -/
theorem owner_only (cfg : Cfg) (hc : cfg.idAllocAtomic = true) (s : State)
    (hr : Reachable cfg s) (i : Nat) (c : Caller) (hci : s.callers[i]? = some c) :
    (∀ e, e ∈ c.delivered → e.id = c.id) ∧ (∀ e, c.buf = some e → e.id = c.id) := by
  have hD := (inv_reachable cfg hc s hr).2.2.1
  unfold InvD at hD
  obtain ⟨h1, h2⟩ := hD.2.1 i c hci
  refine ⟨fun e he => (h1 e he).1, ?_⟩
  intro e he
  simp [he] at h2
  exact h2.1

/-! ## 3. Per-call order (C05) -/

/-- What a caller has taken, followed by what sits in its channel, is a subsequence of the
envelopes with its id that were read from the wire: order kept, nothing duplicated, nothing
invented. -/
theorem per_call_order (cfg : Cfg) (hc : cfg.idAllocAtomic = true) (s : State)
    (hr : Reachable cfg s) (i : Nat) (c : Caller) (hci : s.callers[i]? = some c) :
    (c.delivered ++ c.buf.toList).Sublist (s.wireIn.filter (fun e => e.id = c.id)) := by
  have := invO_reachable cfg hc s hr i c hci
  exact List.Sublist.trans (by simp [trail]) this

/-- in `demoRun` the stream has taken `[5]`, has `[6]` queued, and `[8]` is in the read loop's
hands; the wire also carried envelopes for ids 1 and 9 in between -/
example : ∃ s c, run Cfg.good init demoRun = some s ∧ s.callers[1]? = some c ∧
    c.delivered = [respBody 2 [5]] ∧ c.buf = some (respBody 2 [6]) ∧
    s.rl = .lookedUp 1 (respBody 2 [8]) ∧ s.wireIn.length = 5 := by
  refine ⟨_, _, rfl, rfl, ?_, ?_, ?_, ?_⟩ <;> decide

/-! ## 4. The registry is exact (C14) -/

/-- `handlers` is exactly the set of ids of the calls that have registered and whose done signal
has not been raised (by their own `unregisterHandler` or by `closeError`), without duplicates. -/
theorem registry_exact (cfg : Cfg) (hc : cfg.idAllocAtomic = true) (s : State)
    (hr : Reachable cfg s) :
    (∀ id, id ∈ s.handlers ↔
      ∃ (i : Nat) (c : Caller), s.callers[i]? = some c ∧ c.id = id ∧ c.pc.isReg = true ∧ c.done = false) ∧
    s.handlers.Nodup := by
  obtain ⟨hA, hB, -, -⟩ := inv_reachable cfg hc s hr
  unfold InvA at hA; unfold InvB at hB
  refine ⟨?_, hB.2.1⟩
  intro id
  constructor
  · intro hid
    have := hA.2.2.1 id hid
    have hlt : id - 1 < s.callers.length := by omega
    have hg : s.callers[id - 1]? = some s.callers[id - 1] := List.getElem?_eq_getElem hlt
    have h1 := (hA.2.1 _ _ hg).1
    have h2 : s.callers[id - 1].id = id := by omega
    have h3 := (hB.1 _ _ hg).1
    rw [h2] at h3
    exact ⟨id - 1, _, hg, h2, h3.mp hid⟩
  · rintro ⟨i, c, hci, rfl, h1, h2⟩
    exact ((hB.1 i c hci).1).mpr ⟨h1, h2⟩

/-- When no call is between register and unregister, the registry is empty, however long the
history and whatever the outcomes were. -/
theorem registry_empty_when_idle (cfg : Cfg) (hc : cfg.idAllocAtomic = true) (s : State)
    (hr : Reachable cfg s)
    (hidle : ∀ (i : Nat) (c : Caller), s.callers[i]? = some c → c.pc.isReg = false) :
    s.handlers = [] := by
  have h := (registry_exact cfg hc s hr).1
  apply List.eq_nil_iff_forall_not_mem.mpr
  intro id hid
  obtain ⟨i, c, hci, -, h1, -⟩ := (h id).mp hid
  simp [hidle i c hci] at h1

/-- in `demoRun` exactly the stream (id 2) is registered: the unary call (id 1) has unregistered,
the third call (id 3) has not registered yet -/
example : ∃ s, run Cfg.good init demoRun = some s ∧ s.handlers = [2] := by
  refine ⟨_, rfl, ?_⟩; decide

/-! ## 5. A failure closes everything (C09) -/

/-- After a read failure the registry is empty and the done signal of every call that is between
register and unregister is raised. -/
theorem fail_closes_all (cfg : Cfg) (hc : cfg.idAllocAtomic = true)
    (hreg : cfg.registerChecksErr = true) (s : State) (hr : Reachable cfg s)
    (he : s.rErr = true) :
    s.handlers = [] ∧
    (∀ (i : Nat) (c : Caller), s.callers[i]? = some c → c.pc.isReg = true → c.done = true) := by
  obtain ⟨-, hB, -, -⟩ := inv_reachable cfg hc s hr
  unfold InvB at hB
  have h2 := hB.2.2.2 hreg he
  refine ⟨?_, h2⟩
  apply List.eq_nil_iff_forall_not_mem.mpr
  intro id hid
  obtain ⟨i, c, hci, -, h1, h3⟩ := ((registry_exact cfg hc s hr).1 id).mp hid
  have := h2 i c hci h1
  simp [this] at h3

example : ∃ s c0 c1, run Cfg.good init failRun = some s ∧ s.rErr = true ∧
    s.callers[0]? = some c0 ∧ c0.pc = .written ∧ s.callers[1]? = some c1 ∧ c1.pc = .opened := by
  refine ⟨_, _, _, rfl, ?_, rfl, ?_, rfl, ?_⟩ <;> decide

/-! ## 6. After a failure every call finishes (C09) -/

/-- After a read failure every call that has not finished has an enabled step of its own (a label
whose owner it is: none of them is a read-loop label, and the mutex is free). -/
theorem fail_enabled (cfg : Cfg) (hc : cfg.idAllocAtomic = true)
    (hreg : cfg.registerChecksErr = true) (s : State) (hr : Reachable cfg s)
    (he : s.rErr = true) (i : Nat) (c : Caller) (hci : s.callers[i]? = some c)
    (hp : c.pc ≠ .finished) :
    ∃ l, l.owner = some i ∧ (step cfg s l).isSome = true :=
  fail_enabled_lemma cfg hreg s (inv_reachable cfg hc s hr) he i c hci hp

/-- Every step a call takes itself strictly decreases `remaining`, except a write by a stream
(which changes nothing but `wireOut`).  So under any schedule that keeps giving unfinished calls
their turn, all calls finish.  Holds in every state and for every variant of the code. -/
theorem fail_terminates (cfg : Cfg) (s s' : State) (l : Label) (i : Nat)
    (ho : l.owner = some i) (hs : step cfg s l = some s') :
    remaining s' < remaining s ∨
    (∃ e ok c, l = .write i e ok ∧ s.callers[i]? = some c ∧ c.kind = .stream ∧
      s'.callers = s.callers) :=
  remaining_decreases cfg s s' l i ho hs

/-- and `remaining s = 0` means that every call has finished -/
theorem remaining_zero (s : State) (h : remaining s = 0) (i : Nat) (c : Caller)
    (hci : s.callers[i]? = some c) : c.pc = .finished := by
  have hm : c ∈ s.callers := List.mem_of_getElem? hci
  have : c.weight = 0 := by
    unfold remaining at h
    have := List.sum_eq_zero_iff_forall_eq_nat.mp h (c.weight) (List.mem_map.mpr ⟨c, hm, rfl⟩)
    exact this
  unfold Caller.weight at this
  cases hp : c.pc <;> simp [hp, Pc.weight] at this ⊢

/-- Once the connection has failed, `registerHandler` refuses: the call gets the connection error
and never enters the registry. -/
theorem late_register_fails (cfg : Cfg) (hreg : cfg.registerChecksErr = true) (s s' : State)
    (he : s.rErr = true) (i : Nat) (hs : step cfg s (.register i) = some s') :
    s'.handlers = s.handlers ∧
    ∃ c', s'.callers[i]? = some c' ∧ c'.result = some .connErr ∧ c'.pc.isReg = false := by
  cases hc : s.callers[i]? with
  | none => simp [step, hc] at hs
  | some c =>
    have hlt := lt_of_getElem? _ _ _ hc
    simp only [step, hc] at hs
    by_cases hg : s.muHeld = false ∧ c.pc = (if cfg.registerChecksErr = true then Pc.start else Pc.checked)
    · rw [if_pos hg, if_pos ⟨hreg, he⟩] at hs
      simp only [Option.some.injEq] at hs; subst hs
      refine ⟨rfl, { c with pc := failPc c.kind, result := some .connErr }, by simp [hlt], rfl, ?_⟩
      exact (failPc_facts c.kind).2.2.1
    · rw [if_neg hg] at hs; contradiction

/-- in `failRun`'s final state the third call has only allocated its id; its `register` is enabled
(and, by the theorem, fails) -/
example : ∃ s, run Cfg.good init failRun = some s ∧ s.rErr = true ∧
    (step Cfg.good s (.register 2)).isSome = true := by
  refine ⟨_, rfl, ?_, ?_⟩ <;> decide

/-! ## 7. No fabricated success, no crash (C09, C13) -/

/-- A unary call that returns `ok b` got `b` as the body of an envelope that was read from the wire,
carried the call's id, and had no non-OK status. -/
theorem no_fabricated_success (cfg : Cfg) (hc : cfg.idAllocAtomic = true) (s : State)
    (hr : Reachable cfg s) (i : Nat) (c : Caller) (hci : s.callers[i]? = some c) (b : Bytes)
    (hres : c.result = some (.ok b)) :
    ∃ e, e ∈ s.wireIn ∧ e.id = c.id ∧ e.body = some b ∧ okLike e = true := by
  have hD := (inv_reachable cfg hc s hr).2.2.1
  unfold InvD at hD
  obtain ⟨-, e, he, hb, hok⟩ := hD.2.2.1 i c b hci hres
  obtain ⟨h1, h2⟩ := (hD.2.1 i c hci).1 e he
  exact ⟨e, h2, h1, hb, hok⟩

example : ∃ s c, run Cfg.good init demoRun = some s ∧ s.callers[0]? = some c ∧
    c.result = some (.ok [7]) := by
  refine ⟨_, _, rfl, rfl, ?_⟩; decide

/-- An envelope whose id is not registered is dropped: no caller changes, the registry does not
change, the read loop goes back to reading. -/
theorem unknown_id_dropped (cfg : Cfg) (s s' : State) (e : Env) (hrl : s.rl = .got e)
    (hun : e.id ∉ s.handlers) (hs : step cfg s .rlLookup = some s') :
    s'.callers = s.callers ∧ s'.handlers = s.handlers ∧ s'.rl = .idle ∧ s'.muHeld = s.muHeld := by
  simp only [step, hrl, hun] at hs
  split at hs
  · simp at hs; subst hs; simp
  · contradiction

/-- Once a call has unregistered (or was swept by `closeError`), or before it has registered, its id
is not in the registry - so by `unknown_id_dropped` any further envelope with that id is dropped
without touching any call (C13 `extra_envelopes_harmless`). -/
theorem extra_envelopes_harmless (cfg : Cfg) (hc : cfg.idAllocAtomic = true) (s : State)
    (hr : Reachable cfg s) (i : Nat) (c : Caller) (hci : s.callers[i]? = some c)
    (hp : c.pc.isReg = false ∨ c.done = true) : c.id ∉ s.handlers := by
  obtain ⟨-, hB, -, -⟩ := inv_reachable cfg hc s hr
  unfold InvB at hB
  intro hin
  have := ((hB.1 i c hci).1).mp hin
  rcases hp with hp | hp <;> simp [hp] at this

/-- No reachable state contains a crash, with or without stats handlers installed: no call returns
the `(nil, nil)` that its user would dereference, no call dereferences the header of a reply that has
none, and the read loop never sends on a closed channel. -/
theorem client_total_no_panic (cfg : Cfg) (hc : cfg.idAllocAtomic = true)
    (hok : cfg.okStatusIsSuccess = true) (hns : cfg.statsHeaderNilSafe = true) (s : State)
    (hr : Reachable cfg s) :
    s.rl ≠ .panicked ∧
    (∀ (i : Nat) (c : Caller), s.callers[i]? = some c →
      c.result ≠ some .nilDeref ∧ c.result ≠ some .nilHeaderDeref) := by
  obtain ⟨-, -, hD, hE⟩ := inv_reachable cfg hc s hr
  unfold InvD at hD; unfold InvE at hE
  refine ⟨hE.2, ?_⟩
  intro i c hci
  refine ⟨?_, ?_⟩
  · intro h
    have := hD.2.2.2 i c hci h
    simp [hok] at this
  · intro h
    have := (invH_reachable cfg s hr i c hci h).1
    simp [hns] at this

/-- The same conclusion for the pre-repair header access, provided no stats handler is installed. -/
theorem client_total_no_panic_without_stats (cfg : Cfg) (hc : cfg.idAllocAtomic = true)
    (hok : cfg.okStatusIsSuccess = true) (hst : cfg.statsHandlers = false) (s : State)
    (hr : Reachable cfg s) :
    s.rl ≠ .panicked ∧
    (∀ (i : Nat) (c : Caller), s.callers[i]? = some c →
      c.result ≠ some .nilDeref ∧ c.result ≠ some .nilHeaderDeref) := by
  obtain ⟨-, -, hD, hE⟩ := inv_reachable cfg hc s hr
  unfold InvD at hD; unfold InvE at hE
  refine ⟨hE.2, ?_⟩
  intro i c hci
  refine ⟨?_, ?_⟩
  · intro h
    have := hD.2.2.2 i c hci h
    simp [hok] at this
  · intro h
    have := (invH_reachable cfg s hr i c hci h).2
    simp [hst] at this

/-- with stats handlers installed and the code as it is, a reply without a header is classified
like any other: here the call returns `ok [7]` -/
example : ∃ s c, run { statsHandlers := true } init
      [.alloc .unary, .register 0, .write 0 (reqE 1) true, .rlRead (respBody 1 [7]), .rlLookup,
       .rlDeliver, .recvTake 0] = some s ∧
    s.callers[0]? = some c ∧ c.result = some (.ok [7]) := by
  refine ⟨_, _, rfl, rfl, ?_⟩; decide

/-- The read loop never sends on a closed channel, in every variant of the code (pre-repair the
channel is closed only under the mutex the read loop holds while it sends). -/
theorem no_send_on_closed (cfg : Cfg) (hc : cfg.idAllocAtomic = true) (s : State)
    (hr : Reachable cfg s) : s.rl ≠ .panicked :=
  (inv_reachable cfg hc s hr).2.2.2.2

/-- in `demoRun`, just before the last two labels, the read loop holds an envelope for the unknown
id 9 -/
example : ∃ s, run Cfg.good init (demoRun.take 20) = some s ∧ s.rl = .got (respBody 9 [0]) ∧
    9 ∉ s.handlers := by
  refine ⟨_, rfl, ?_, ?_⟩ <;> decide

/-! ## 8. The read loop cannot wedge the connection (C11) -/

/-- While the read loop is at its send for caller `i`: the mutex is free (so every call's
`registerHandler` / `unregisterHandler` can run), and the send can complete (`rlDeliver`), or give up
(`rlDrop`), or the owner itself has an enabled step: take the queued envelope (`recvTake`), run its
teardown (`unregister`), or - a unary call whose reply overtook its own request - write its
request.  `take_frees`, `unregister_drops`, `write_then_take` below show that these owner steps lead
to `rlDeliver` / `rlDrop` being enabled. -/
theorem mux_no_wedge (cfg : Cfg) (hc : cfg.idAllocAtomic = true)
    (hd : cfg.dispatchOutsideLock = true) (s : State) (hr : Reachable cfg s)
    (i : Nat) (e : Env) (hrl : s.rl = .lookedUp i e) :
    s.muHeld = false ∧ ∃ c, s.callers[i]? = some c ∧
      ((step cfg s .rlDeliver).isSome = true ∨ (step cfg s .rlDrop).isSome = true ∨
       (step cfg s (.recvTake i)).isSome = true ∨ (step cfg s (.unregister i)).isSome = true ∨
       (step cfg s (.write i (reqOf c) true)).isSome = true) :=
  no_wedge_lemma cfg hd s (inv_reachable cfg hc s hr) i e hrl

/-- after the owner's `recvTake`, `rlDeliver` is enabled -/
theorem mux_no_wedge_take (cfg : Cfg) (hd : cfg.dispatchOutsideLock = true) (s s' : State)
    (i : Nat) (e : Env) (hrl : s.rl = .lookedUp i e)
    (hs : step cfg s (.recvTake i) = some s') : (step cfg s' .rlDeliver).isSome = true :=
  take_frees cfg hd s s' i e hrl hs

/-- after the owner's `unregister`, `rlDrop` is enabled -/
theorem mux_no_wedge_unregister (cfg : Cfg) (hc : cfg.idAllocAtomic = true)
    (hd : cfg.dispatchOutsideLock = true) (s s' : State) (hr : Reachable cfg s) (i : Nat) (e : Env)
    (hrl : s.rl = .lookedUp i e) (hs : step cfg s (.unregister i) = some s') :
    (step cfg s' .rlDrop).isSome = true :=
  unregister_drops cfg hd s s' (inv_reachable cfg hc s hr) i e hrl hs

/-- a call that is in `recv` with a cancelled context can always give up (`recvCtx`), which takes it
to its teardown -/
theorem recvCtx_enabled (cfg : Cfg) (s : State) (i : Nat) (c : Caller)
    (hci : s.callers[i]? = some c) (hctx : c.ctxDone = true)
    (hp : c.pc = .written ∨ c.pc = .opened) : (step cfg s (.recvCtx i)).isSome = true := by
  rcases hp with hp | hp <;> simp [step, hci, hctx, hp]

/-- in `demoRun` the read loop is at its send for the stream, whose channel is full: `rlDeliver`
and `rlDrop` are both disabled, and it is the stream's own `recvTake` that is enabled -/
example : ∃ s, run Cfg.good init demoRun = some s ∧ s.rl = .lookedUp 1 (respBody 2 [8]) ∧
    (step Cfg.good s .rlDeliver).isNone = true ∧ (step Cfg.good s .rlDrop).isNone = true ∧
    (step Cfg.good s (.recvTake 1)).isSome = true := by
  refine ⟨_, rfl, ?_, ?_, ?_, ?_⟩ <;> decide

/-! ## 9. Negative witnesses: what each flag is needed for -/

def cfgNoRegCheck : Cfg := { registerChecksErr := false }

/-- the run forced on the pre-repair code in the confirmation: the failure lands between the
caller's `readErrorIfDone` and its `registerHandler` -/
def lateRegisterRun : List Label :=
  [.alloc .unary, .checkErr 0, .rlFail, .register 0, .write 0 (reqE 1) true]

/-- `registerChecksErr = false`: the connection has failed, yet call 0 sits in the registry with its
done signal not raised (so `fail_closes_all` is violated) and NO step of its own is enabled: it
hangs until its context is cancelled, even though the transport still accepts writes. -/
theorem bad_registerChecksErr :
    ∃ s c, run cfgNoRegCheck init lateRegisterRun = some s ∧ s.rErr = true ∧
      s.callers[0]? = some c ∧ c.pc = .written ∧ c.done = false ∧ s.handlers = [1] ∧
      ∀ l, l.owner = some 0 → step cfgNoRegCheck s l = none := by
  refine ⟨_, _, rfl, ?_, rfl, ?_, ?_, ?_, ?_⟩
  · decide
  · decide
  · decide
  · decide
  · intro l ho
    cases l <;> simp only [Label.owner, Option.some.injEq] at ho <;> try contradiction
    all_goals subst ho
    case write e ok => exact write_disabled _ _ 0 _ e ok rfl (by decide)
    all_goals decide

def cfgLockedDispatch : Cfg := { dispatchOutsideLock := false }

/-- a unary call gets two replies; the first fills its channel; the read loop looks up the second
and - pre-repair - keeps the mutex while it waits for room; the caller's context ends and it gives
up without taking the queued reply; a second call has just been allocated -/
def wedgeRun : List Label :=
  [.alloc .unary, .register 0, .write 0 (reqE 1) true, .rlRead (respOk 1), .rlLookup, .rlDeliver,
   .rlRead (respOk 1), .rlLookup, .ctxCancel 0, .recvCtx 0, .alloc .unary]

/-- `dispatchOutsideLock = false`: deadlock.  The read loop holds the mutex and waits for room in
call 0's channel; call 0 needs the mutex to unregister; call 1 needs it to register.  No label of
the read loop, of call 0 or of call 1 is enabled. -/
theorem bad_dispatchOutsideLock :
    ∃ s, run cfgLockedDispatch init wedgeRun = some s ∧ s.muHeld = true ∧
      s.rl = .lookedUp 0 (respOk 1) ∧
      ∀ l, (l.isRl = true ∨ l.owner = some 0 ∨ l.owner = some 1) →
        step cfgLockedDispatch s l = none := by
  refine ⟨_, rfl, ?_, ?_, ?_⟩
  · decide
  · decide
  · intro l ho
    cases l <;> simp only [Label.owner, Label.isRl, Option.some.injEq, Bool.false_eq_true,
      false_or, or_false, reduceCtorEq] at ho <;> try contradiction
    case rlRead e => exact rlRead_disabled _ _ e (by decide)
    case write i e ok =>
      rcases ho with ho | ho <;> subst ho
      · exact write_disabled _ _ 0 _ e ok rfl (by decide)
      · exact write_disabled _ _ 1 _ e ok rfl (by decide)
    all_goals first
      | decide
      | (rcases ho with ho | ho <;> subst ho <;> decide)

def cfgAnyStatusFails : Cfg := { okStatusIsSuccess := false }

/-- `okStatusIsSuccess = false`: a reply with an explicit OK status and a body makes the call
return `(nil, nil)`, which its user dereferences. -/
theorem bad_okStatus :
    ∃ s c, run cfgAnyStatusFails init
        [.alloc .unary, .register 0, .write 0 (reqE 1) true, .rlRead (respOk 1), .rlLookup,
         .rlDeliver, .recvTake 0] = some s ∧
      s.callers[0]? = some c ∧ c.result = some .nilDeref := by
  refine ⟨_, _, rfl, rfl, ?_⟩; decide

def cfgStatsUnsafeHeader : Cfg := { statsHandlers := true, statsHeaderNilSafe := false }

/-- `statsHeaderNilSafe = false` (pre-repair `resp.GetHeader().Headers`, repaired by commit 568bd88):
a unary reply without a header crashes a client that has a stats handler installed (confirmed on the
pre-repair code). -/
theorem bad_statsNilHeader :
    ∃ s c, run cfgStatsUnsafeHeader init
        [.alloc .unary, .register 0, .write 0 (reqE 1) true, .rlRead (respBody 1 [7]), .rlLookup,
         .rlDeliver, .recvTake 0] = some s ∧
      s.callers[0]? = some c ∧ c.result = some .nilHeaderDeref := by
  refine ⟨_, _, rfl, rfl, ?_⟩; decide

def cfgRacyAlloc : Cfg := { idAllocAtomic := false }

/-- `idAllocAtomic = false`: two calls that both load the counter before either stores it get the
same id. -/
theorem bad_idAlloc :
    ∃ s c0 c1, run cfgRacyAlloc init
        [.allocLoad .unary, .allocLoad .unary, .allocStore 0, .allocStore 1] = some s ∧
      s.callers[0]? = some c0 ∧ s.callers[1]? = some c1 ∧ c0.id = c1.id ∧ c0.pc = .start ∧
      c1.pc = .start := by
  refine ⟨_, _, _, rfl, rfl, rfl, ?_, ?_, ?_⟩ <;> decide

end Goat.Mux
