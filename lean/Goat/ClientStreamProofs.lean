/-
  Invariants of the client-stream model and the lemmas the property theorems call.
-/
import Goat.ClientStream

namespace Goat.ClientStream

/-! ## Generic: invariants along runs -/

theorem run_append (cfg : Cfg) (s : State) (l1 l2 : List Label) :
    run cfg s (l1 ++ l2) = (run cfg s l1).bind (fun s' => run cfg s' l2) := by
  induction l1 generalizing s with
  | nil => simp [run]
  | cons l ls ih =>
    simp only [List.cons_append, run]
    cases step cfg s l with
    | none => simp
    | some s1 => simp [ih]

theorem inv_run {P : State → Prop} (cfg : Cfg)
    (hstep : ∀ s s' l, P s → step cfg s l = some s' → P s')
    (ls : List Label) : ∀ s s', P s → run cfg s ls = some s' → P s' := by
  induction ls with
  | nil => intro s s' hi h; simp [run] at h; exact h ▸ hi
  | cons l ls ih =>
    intro s s' hi h
    simp only [run] at h
    cases hs : step cfg s l with
    | none => simp [hs] at h
    | some s1 => simp [hs] at h; exact ih s1 s' (hstep s s1 l hi hs) h

theorem inv_reachable {P : State → Prop} (cfg : Cfg) (h0 : P init)
    (hstep : ∀ s s' l, P s → step cfg s l = some s' → P s')
    (s : State) (hr : Reachable cfg s) : P s := by
  obtain ⟨ls, h⟩ := hr
  exact inv_run cfg hstep ls init s h0 h

/-! ## Core invariant: program counters, mutex, done, context, latch -/

def Core (cfg : Cfg) (s : State) : Prop :=
  (s.mu = true ↔ (s.rl = .fin0 ∨ s.rl = .fin1 ∨ s.rl = .fin2 ∨ s.rl = .fin3 ∨ s.rl = .fin4)) ∧
  (s.done = true ↔ s.rl = .exited) ∧
  (s.rl = .exited → s.rErr = s.pending ∧ s.trailerStored = s.trailerLocal) ∧
  (s.rl ≠ .exited → s.rErr = none ∧ s.trailerStored = none) ∧
  (s.rChClosed = true ↔ (s.rl = .fin1 ∨ s.rl = .fin2 ∨ s.rl = .fin3 ∨ s.rl = .fin4 ∨ s.rl = .exited)) ∧
  (s.ctxDone = true ↔ (s.ctxByCaller = true ∨ s.ctxBySend = true ∨ s.ctxByFin = true)) ∧
  (s.ctxByFin = true ↔ (s.rl = .fin4 ∨ s.rl = .exited)) ∧
  (s.pending = some .ctxErr → s.ctxByCaller = true ∨ s.ctxBySend = true) ∧
  ((s.rl = .reading ∨ ∃ b, s.rl = .offering b) → s.pending = none ∧ s.trailerLocal = none) ∧
  (cfg.badMetaSetsErr = true → s.pending = none → (s.rl = .reading ∨ ∃ b, s.rl = .offering b)) ∧
  (s.trailerLocal ≠ none → s.pending ≠ some .ctxErr ∧ s.pending ≠ some .muxErr ∧
      s.pending ≠ some .internalMeta ∧ s.pending ≠ none) ∧
  (s.rstSent = true → s.trailerLocal = none ∧
      (s.rl = .fin2 ∨ s.rl = .fin3 ∨ s.rl = .fin4 ∨ s.rl = .exited)) ∧
  (s.rl = .fin2 → s.rstSent = true) ∧
  (s.cancelEarly = true → s.ctxByCaller = true) ∧
  ((s.rl = .fin3 ∨ s.rl = .fin4 ∨ s.rl = .exited) → s.cancelEarly = true → s.trailerLocal = none →
      s.rstSent = true) ∧
  (s.readyTwice = false) ∧
  (s.ready = true ↔ (s.headerSet = true ∨ s.headerErr ≠ none)) ∧
  (cfg.badMetaSetsErr = true → (s.rl ≠ .reading) → s.ready = true) ∧
  (s.rl = .reading → s.headerErr = none) ∧
  (s.headerSet = true → s.headerErr = none) ∧
  ((∃ b, s.rl = .offering b) → s.headerSet = true)

theorem core_init (cfg : Cfg) : Core cfg init := by
  simp [Core, init]

theorem errorIfDone_kind (cfg : Cfg) (e : InEnv) (t : Term) (h : errorIfDone cfg e = some t) :
    t ≠ .ctxErr ∧ t ≠ .muxErr ∧ t ≠ .internalMeta := by
  unfold errorIfDone at h
  repeat' split at h
  all_goals simp_all
  all_goals (subst h; simp)

/-- Case analysis on one step: afterwards `s'` is replaced by an explicit record update of `s`,
all projections are reduced, and the guards of the step are hypotheses. -/
macro "step_cases" hs:ident : tactic => `(tactic| (
  simp only [step, classify] at $hs:ident <;>
  (repeat' split at $hs:ident) <;>
  first
    | contradiction
    | (simp only [Option.some.injEq] at $hs:ident; subst $hs:ident; dsimp only at *)))

theorem core_step (cfg : Cfg) (s s' : State) (l : Label) (hi : Core cfg s)
    (hs : step cfg s l = some s') : Core cfg s' := by
  unfold Core at *
  cases l
  case callerCancel => step_cases hs <;> grind [beforeRstDecision]
  case rlGet e => step_cases hs <;> grind [errorIfDone_kind]
  case rlGetErr => step_cases hs <;> grind
  case rlGetCtx => step_cases hs <;> grind
  case rlCtx => step_cases hs <;> grind
  case finLock => step_cases hs <;> grind
  case finCloseRCh => step_cases hs <;> grind
  case finRst => step_cases hs <;> grind
  case finUnregister =>
    step_cases hs
    rename_i h
    rcases h with h | ⟨h1, h2⟩ <;> grind
  case finCancel => step_cases hs <;> grind
  case finSetDone => step_cases hs <;> grind
  case recvCheck => step_cases hs <;> grind
  case recvTake => step_cases hs <;> grind
  case recvCtx => step_cases hs <;> grind
  case recvClosed => step_cases hs <;> grind
  case sendCheck => step_cases hs <;> grind
  case sendWrite => step_cases hs <;> grind
  case sendTeardown => step_cases hs <;> grind
  case closeCheck => step_cases hs <;> grind
  case closeWrite => step_cases hs <;> grind
  case headerWait => step_cases hs <;> grind
  case trailerGet => step_cases hs <;> grind

/-! ## The delivered sequence -/

theorem live_snoc (cfg : Cfg) (f : Bool) (es : List InEnv) (e : InEnv) :
    live cfg f (es ++ [e]) = (live cfg f es && !isTerminal cfg (f && es.isEmpty) e) := by
  induction es generalizing f with
  | nil => simp [live]
  | cons x xs ih => simp [live, ih, Bool.and_assoc]

theorem spec_snoc (cfg : Cfg) (f : Bool) (es : List InEnv) (e : InEnv) (hl : live cfg f es = true) :
    specBodies cfg f (es ++ [e]) =
      specBodies cfg f es ++ (if isTerminal cfg (f && es.isEmpty) e then [] else e.body.toList) := by
  induction es generalizing f with
  | nil => simp [specBodies]
  | cons x xs ih =>
    simp only [live, Bool.and_eq_true, Bool.not_eq_eq_eq_not, Bool.not_true] at hl
    simp [specBodies, hl.1, ih false hl.2]

/-- What `RecvMsg` returned, then what the read loop holds or gave up, is exactly what the read
loop took out of the envelopes it was handed. -/
def Seq (cfg : Cfg) (s : State) : Prop :=
  s.offered = s.received ++ inflight s ∧
  s.offered = specBodies cfg true s.inbox ∧
  ((s.rl = .reading ∨ ∃ b, s.rl = .offering b) → live cfg true s.inbox = true ∧ s.dropped = none) ∧
  (s.rl = .reading → (s.headerSet = true ↔ s.inbox ≠ [])) ∧
  ((∃ b, s.rl = .offering b) → s.headerSet = true ∧ s.inbox ≠ []) ∧
  (s.dropped ≠ none → s.pending = some .ctxErr) ∧
  live cfg true s.inbox.dropLast = true

theorem seq_init (cfg : Cfg) : Seq cfg init := by
  simp [Seq, init, inflight, specBodies, live]

theorem seq_step (cfg : Cfg) (s s' : State) (l : Label) (hi : Seq cfg s)
    (hs : step cfg s l = some s') : Seq cfg s' := by
  unfold Seq at *
  cases l
  case rlGet e =>
    obtain ⟨h1, h2, h3, h4, h5, h6, h7⟩ := hi
    have hr : s.rl = .reading := by
      simp only [step] at hs; split at hs
      · assumption
      · contradiction
    have hl := (h3 (Or.inl hr)).1
    have hd := (h3 (Or.inl hr)).2
    have hh := h4 hr
    step_cases hs
    all_goals simp_all [inflight, spec_snoc, live_snoc, isTerminal, specBodies, live]
  case recvTake =>
    step_cases hs
    rename_i b heq h
    obtain ⟨h1, h2, h3, h4, h5, h6, h7⟩ := hi
    have := h3 (Or.inr ⟨b, heq⟩)
    have := h5 ⟨b, heq⟩
    simp_all [inflight]
  all_goals (step_cases hs <;> first | (simp_all [inflight]; done) | grind [inflight])

/-! ## The terminal status is a function of the envelopes -/

theorem isTerminal_eq_decide1 (cfg : Cfg) (f : Bool) (e : InEnv) :
    isTerminal cfg f e = (decide1 cfg f e).isSome := by
  unfold isTerminal decide1
  cases f <;> cases hm : e.metaBad <;> cases he : errorIfDone cfg e <;> simp

theorem specTerminal_live (cfg : Cfg) (f : Bool) (es : List InEnv) (hl : live cfg f es = true) :
    specTerminal cfg f es = none := by
  induction es generalizing f with
  | nil => simp [specTerminal]
  | cons x xs ih =>
    simp only [live, Bool.and_eq_true, Bool.not_eq_eq_eq_not, Bool.not_true] at hl
    have h1 : decide1 cfg f x = none := by
      have := hl.1; rw [isTerminal_eq_decide1] at this
      cases hd : decide1 cfg f x <;> simp_all
    simp [specTerminal, h1, ih false hl.2]

theorem specTerminal_snoc (cfg : Cfg) (f : Bool) (es : List InEnv) (e : InEnv)
    (hl : live cfg f es = true) :
    specTerminal cfg f (es ++ [e]) = decide1 cfg (f && es.isEmpty) e := by
  induction es generalizing f with
  | nil => simp [specTerminal]; cases decide1 cfg f e <;> rfl
  | cons x xs ih =>
    simp only [live, Bool.and_eq_true, Bool.not_eq_eq_eq_not, Bool.not_true] at hl
    have h1 : decide1 cfg f x = none := by
      have := hl.1; rw [isTerminal_eq_decide1] at this
      cases hd : decide1 cfg f x <;> simp_all
    simp [specTerminal, h1, ih false hl.2]

/-- The read loop's verdict (`pending`, the local `rErr`) is what the envelopes say, unless no
envelope was terminal: then it is nothing yet, or the context / multiplexer error. -/
def TermI (cfg : Cfg) (s : State) : Prop :=
  (∀ p, specTerminal cfg true s.inbox = some p →
      s.pending = p ∧ s.rl ≠ .reading ∧ ∀ b, s.rl ≠ .offering b) ∧
  (specTerminal cfg true s.inbox = none →
      (s.pending = none ∨ s.pending = some .ctxErr ∨ s.pending = some .muxErr) ∧ s.trailerLocal = none)

theorem termI_init (cfg : Cfg) : TermI cfg init := by
  simp [TermI, init, specTerminal]

theorem termI_step (cfg : Cfg) (s s' : State) (l : Label) (hc : Core cfg s) (hq : Seq cfg s)
    (hi : TermI cfg s) (hs : step cfg s l = some s') : TermI cfg s' := by
  have hn : (s.rl = .reading ∨ ∃ b, s.rl = .offering b) → specTerminal cfg true s.inbox = none :=
    fun h => specTerminal_live cfg true s.inbox (hq.2.2.1 h).1
  have hp := hc.2.2.2.2.2.2.2.2.1
  unfold TermI at *
  cases l
  case rlGet e =>
    have hr : s.rl = .reading := by
      simp only [step] at hs; split at hs
      · assumption
      · contradiction
    have hl := (hq.2.2.1 (Or.inl hr)).1
    have hh := hq.2.2.2.1 hr
    have hsn := specTerminal_snoc cfg true s.inbox e hl
    have hpn := hp (Or.inl hr)
    clear hq hc hn hp
    step_cases hs
    all_goals simp_all [decide1, specTerminal]
  all_goals (clear hq hc; step_cases hs <;> grind)

/-! ## What `RecvMsg` returns -/

/-- What is known about one value returned by `RecvMsg` (stable under all later steps). -/
def ResOk (cfg : Cfg) (s : State) : Res → Prop
  | .msg b => b ∈ s.offered
  | .nilNoMsg => cfg.badMetaSetsErr = false ∧ s.done = true ∧ s.pending = none
  | .err t =>
    (t = .ctxErr ∧ s.ctxDone = true ∧
        (cfg.recvRechecksDoneOnCtx = true → s.ctxByCaller = true ∨ s.ctxBySend = true)) ∨
    (s.done = true ∧ s.pending = some t)
  | .panic => False

theorem resOk_stable (cfg : Cfg) (s s' : State) (l : Label) (r : Res) (hc : Core cfg s)
    (hr : ResOk cfg s r) (hs : step cfg s l = some s') : ResOk cfg s' r := by
  unfold Core at hc
  cases r <;> simp only [ResOk] at hr ⊢
  all_goals (cases l <;> step_cases hs <;> grind)

theorem offering_mem_offered (cfg : Cfg) (s : State) (hq : Seq cfg s) (b : Bytes)
    (h : s.rl = .offering b) : b ∈ s.offered := by
  rw [hq.1]; simp [inflight, h]

theorem recvResults_step (cfg : Cfg) (s s' : State) (l : Label) (hc : Core cfg s) (hq : Seq cfg s)
    (hs : step cfg s l = some s') :
    (s'.recvResults = s.recvResults ∧ s'.received = s.received) ∨
    ∃ r, s'.recvResults = s.recvResults ++ [r] ∧ ResOk cfg s' r ∧
      s'.received = s.received ++ (Res.msg? r).toList := by
  have hoff := offering_mem_offered cfg s hq
  clear hq
  unfold Core at hc
  cases l <;> step_cases hs <;>
    first
    | (left; exact ⟨rfl, rfl⟩)
    | (right; refine ⟨_, rfl, ?_, ?_⟩ <;> simp [ResOk, Res.msg?, resOfRErr] <;> grind [resOfRErr, ResOk])

/-- Every value `RecvMsg` returned so far is accounted for, and the messages among them are
`received`. -/
def ResAll (cfg : Cfg) (s : State) : Prop :=
  (∀ r ∈ s.recvResults, ResOk cfg s r) ∧ s.received = s.recvResults.filterMap Res.msg?

theorem resAll_init (cfg : Cfg) : ResAll cfg init := by
  simp [ResAll, init]

theorem resAll_step (cfg : Cfg) (s s' : State) (l : Label) (hc : Core cfg s) (hq : Seq cfg s)
    (hi : ResAll cfg s) (hs : step cfg s l = some s') : ResAll cfg s' := by
  obtain ⟨h1, h2⟩ := hi
  rcases recvResults_step cfg s s' l hc hq hs with ⟨e1, e2⟩ | ⟨r, e1, hr, e2⟩
  · refine ⟨?_, by rw [e1, e2]; exact h2⟩
    intro r hr; rw [e1] at hr
    exact resOk_stable cfg s s' l r hc (h1 r hr) hs
  · refine ⟨?_, ?_⟩
    · intro x hx; rw [e1] at hx
      rcases List.mem_append.1 hx with hx | hx
      · exact resOk_stable cfg s s' l x hc (h1 x hx) hs
      · simp at hx; subst hx; exact hr
    · rw [e1, e2, h2]; cases r <;> simp [Res.msg?]

/-! ## Trailer presence -/

theorem errorIfDone_trailer (cfg : Cfg) (e : InEnv) (t : Term) (h : errorIfDone cfg e = some t) :
    ((t = .eof ∨ ∃ c, t = .status c) → e.trailer = true) ∧ (t = .unavailable → e.reset = true) ∧
    (t = .eof ∨ t = .unavailable ∨ ∃ c, t = .status c) := by
  unfold errorIfDone at h
  repeat' split at h
  all_goals simp_all
  all_goals (subst h; simp)

def TrI (s : State) : Prop :=
  ((s.pending = some .eof ∨ ∃ c, s.pending = some (.status c)) → s.trailerLocal ≠ none) ∧
  (s.trailerLocal ≠ none → ∃ e ∈ s.inbox, e.trailer = true)

theorem trI_init : TrI init := by simp [TrI, init]

theorem trI_step (cfg : Cfg) (s s' : State) (l : Label) (hi : TrI s)
    (hs : step cfg s l = some s') : TrI s' := by
  unfold TrI at *
  cases l
  case rlGet e =>
    step_cases hs
    all_goals first
      | grind
      | (rename_i t heq; have := errorIfDone_trailer cfg e t heq; simp_all [trailerOf] <;> grind)
  all_goals (step_cases hs <;> grind)

end Goat.ClientStream
