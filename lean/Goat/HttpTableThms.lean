/-
  C19 — the HTTP connection table never closes a connection's `done` channel twice (no crash of a sender,
  of the cleaner or of a failing writer), and a connection object is registered exactly as long as its
  `done` channel is open (so a reader of an unregistered connection fails at once instead of hanging).
-/
import Goat.HttpTable
namespace Goat.HttpTable

/-- the invariant: keys distinct; a registered object exists, carries its key and is open; an open
    object is registered; nothing has panicked -/
structure Inv (s : State) : Prop where
  keys : (s.table.map (·.1)).Nodup
  reg : ∀ a j, (a, j) ∈ s.table → ∃ o, s.objs[j]? = some o ∧ o.addr = a ∧ o.doneClosed = false
  openReg : ∀ j o, s.objs[j]? = some o → o.doneClosed = false → (o.addr, j) ∈ s.table
  noPanic : s.panicked = false

theorem lookup_mem {t : List (Nat × Nat)} {a j : Nat} (h : lookup t a = some j) : (a, j) ∈ t := by
  unfold lookup at h
  cases hf : t.find? (·.1 = a) with
  | none => simp [hf] at h
  | some p =>
    simp [hf] at h
    have hm := List.mem_of_find?_eq_some hf
    have hp := List.find?_some hf
    simp at hp
    cases p with
    | mk x y => simp_all

theorem lookup_none {t : List (Nat × Nat)} {a : Nat} (h : lookup t a = none) : ∀ j, (a, j) ∉ t := by
  intro j hm
  unfold lookup at h
  cases hf : t.find? (·.1 = a) with
  | none =>
    have := List.find?_eq_none.mp hf (a, j) hm
    simp at this
  | some p => simp [hf] at h

theorem key_unique {t : List (Nat × Nat)} (hn : (t.map (·.1)).Nodup) {a j k : Nat}
    (h1 : (a, j) ∈ t) (h2 : (a, k) ∈ t) : j = k := by
  induction t with
  | nil => cases h1
  | cons p t ih =>
    simp only [List.map_cons, List.nodup_cons] at hn
    simp only [List.mem_cons] at h1 h2
    rcases h1 with h1 | h1 <;> rcases h2 with h2 | h2
    · rw [← h1] at h2; cases h2; rfl
    · exfalso; apply hn.1; rw [← h1]; exact List.mem_map.mpr ⟨(a, k), h2, rfl⟩
    · exfalso; apply hn.1; rw [← h2]; exact List.mem_map.mpr ⟨(a, j), h1, rfl⟩
    · exact ih hn.2 h1 h2

theorem inv_unregisterLocked {s : State} (h : Inv s) (a : Nat) : Inv (unregisterLocked s a) := by
  unfold unregisterLocked
  cases hl : lookup s.table a with
  | none => simpa using h
  | some j =>
    have hmem := lookup_mem hl
    obtain ⟨o, ho, hoa, hoo⟩ := h.reg a j hmem
    simp only [ho]
    have hlt : j < s.objs.length := (List.getElem?_eq_some_iff.mp ho).1
    refine ⟨?_, ?_, ?_, ?_⟩
    · -- keys
      have : (List.filter (fun x => decide (x.1 ≠ a)) s.table).map (·.1) =
          (s.table.map (·.1)).filter (fun x => decide (x ≠ a)) := by
        rw [List.filter_map]; rfl
      simp only [this]
      exact h.keys.filter _
    · intro a' j' hm
      simp only [List.mem_filter, decide_eq_true_eq] at hm
      obtain ⟨o', ho', hoa', hoo'⟩ := h.reg a' j' hm.1
      have hne : j' ≠ j := by
        intro he; subst he; rw [ho] at ho'; cases ho'; exact hm.2 (by rw [← hoa', hoa])
      refine ⟨o', ?_, hoa', hoo'⟩
      simp [List.getElem?_set, Ne.symm hne, ho']
    · intro k o' hk hopen
      simp only [List.getElem?_set] at hk
      by_cases hkj : j = k
      · subst hkj; simp [hlt] at hk; subst hk; simp at hopen
      · simp [hkj] at hk
        have hin := h.openReg k o' hk hopen
        simp only [List.mem_filter, decide_eq_true_eq]
        refine ⟨hin, ?_⟩
        intro hae
        rw [hae] at hin
        exact hkj (key_unique h.keys hmem hin)
    · simp [h.noPanic, hoo]

theorem inv_sweep {s : State} (h : Inv s) (as : List Nat) : Inv (as.foldl unregisterLocked s) := by
  induction as generalizing s with
  | nil => simpa
  | cons a as ih => exact ih (inv_unregisterLocked h a)

theorem inv_init : Inv {} := ⟨by simp, by simp, by simp, rfl⟩

theorem inv_step {s s' : State} {l : Label} (h : Inv s) (hs : step s l = some s') : Inv s' := by
  cases l with
  | retrieve a =>
    simp only [step] at hs
    cases hl : lookup s.table a with
    | some j => simp [hl] at hs; subst hs; exact h
    | none =>
      simp [hl] at hs; subst hs
      have hnone := lookup_none hl
      refine ⟨?_, ?_, ?_, h.noPanic⟩
      · simp only [List.map_cons, List.nodup_cons]
        refine ⟨?_, h.keys⟩
        intro hm
        obtain ⟨p, hp, hpa⟩ := List.mem_map.mp hm
        cases p with
        | mk x y => simp at hpa; subst hpa; exact hnone y hp
      · intro a' j' hm
        simp only [List.mem_cons, Prod.mk.injEq] at hm
        rcases hm with ⟨rfl, rfl⟩ | hm
        · exact ⟨{ addr := a' }, by simp, rfl, rfl⟩
        · obtain ⟨o, ho, hoa, hoo⟩ := h.reg a' j' hm
          have hlt : j' < s.objs.length := (List.getElem?_eq_some_iff.mp ho).1
          exact ⟨o, by simp [List.getElem?_append_left hlt, ho], hoa, hoo⟩
      · intro k o hk hopen
        by_cases hlt : k < s.objs.length
        · rw [List.getElem?_append_left hlt] at hk
          exact List.mem_cons_of_mem _ (h.openReg k o hk hopen)
        · have hge : s.objs.length ≤ k := Nat.le_of_not_lt hlt
          rw [List.getElem?_append_right hge] at hk
          have : k - s.objs.length = 0 := by
            cases hd : k - s.objs.length with
            | zero => rfl
            | succ n => simp [hd] at hk
          have hk' : k = s.objs.length := by omega
          simp [this] at hk; subst hk; subst hk'
          simp
  | sweep as => simp only [step, Option.some.injEq] at hs; subst hs; exact inv_sweep h as
  | writeFail i =>
    simp only [step] at hs
    cases ho : s.objs[i]? with
    | none => simp [ho] at hs
    | some o => simp [ho] at hs; subst hs; exact inv_unregisterLocked h o.addr
  | writeGaveUp i =>
    simp only [step] at hs
    cases ho : s.objs[i]? with
    | none => simp [ho] at hs
    | some o => simp [ho] at hs; subst hs; exact h

theorem inv_run {s s' : State} {ls : List Label} (h : Inv s) (hr : run s ls = some s') : Inv s' := by
  induction ls generalizing s with
  | nil => simp [run] at hr; subst hr; exact h
  | cons l ls ih =>
    simp only [run] at hr
    cases hs : step s l with
    | none => simp [hs] at hr
    | some s1 => simp [hs] at hr; exact ih (inv_step h hs) hr

theorem inv_reachable {s : State} (h : Reachable s) : Inv s := by
  obtain ⟨ls, hr⟩ := h; exact inv_run inv_init hr

/-- **no double close.** Whatever the sequence of connections, idle sweeps and failing writes — including a
    Write on a connection object that idled out long ago and whose address has been taken over — no
    `done` channel is ever closed twice: nothing in the table code can crash its caller. -/
theorem http_table_never_panics {s : State} (h : Reachable s) : s.panicked = false := (inv_reachable h).noPanic

/-- **registered iff open.** A connection object is in the table exactly as long as its `done` channel is
    open; so a Read on an unregistered connection fails at once ("readCh closed") and a Read on a
    registered one waits for a delivery. -/
theorem registered_iff_open {s : State} (h : Reachable s) (j : Nat) (o : Obj) (ho : s.objs[j]? = some o) :
    (o.addr, j) ∈ s.table ↔ o.doneClosed = false := by
  have hi := inv_reachable h
  constructor
  · intro hm
    obtain ⟨o', ho', _, hoo⟩ := hi.reg o.addr j hm
    rw [ho] at ho'; cases ho'; exact hoo
  · exact hi.openReg j o ho

/-- at most one registered connection per address -/
theorem one_connection_per_address {s : State} (h : Reachable s) {a j k : Nat}
    (h1 : (a, j) ∈ s.table) (h2 : (a, k) ∈ s.table) : j = k := key_unique (inv_reachable h).keys h1 h2

/-- the idle sweep fails the readers of every connection it releases -/
theorem sweep_fails_readers {s : State} (h : Reachable s) (a j : Nat) (hm : (a, j) ∈ s.table) :
    readOutcome (unregisterLocked s a) j = "closed" := by
  have hi := inv_reachable h
  obtain ⟨o, ho, hoa, hoo⟩ := hi.reg a j hm
  have hl : lookup s.table a = some j := by
    cases hl : lookup s.table a with
    | none => exact absurd hm (lookup_none hl j)
    | some k => rw [key_unique hi.keys (lookup_mem hl) hm]
  have hlt : j < s.objs.length := (List.getElem?_eq_some_iff.mp ho).1
  simp [unregisterLocked, hl, ho, readOutcome, hlt]

/-- A Write that ends with its CALLER's context (the caller gave up) leaves the table and every
    connection as they were: the calls still using the connection are not disturbed. -/
theorem write_given_up_keeps_connections {s s' : State} {i : Nat} (hs : step s (.writeGaveUp i) = some s') :
    s' = s ∧ ∀ j, readOutcome s' j = readOutcome s j := by
  simp only [step] at hs
  cases ho : s.objs[i]? with
  | none => simp [ho] at hs
  | some o => simp [ho] at hs; subst hs; exact ⟨rfl, fun _ => rfl⟩

/-- … whereas a Write that FAILS retires the connection registered under the object's address (the
    witness that the two labels differ: the reader of a live connection is failed by the one, not by the other) -/
example : (step { objs := [{ addr := 1 }], table := [(1, 0)] } (.writeFail 0)).map (readOutcome · 0) = some "closed" ∧
    (step { objs := [{ addr := 1 }], table := [(1, 0)] } (.writeGaveUp 0)).map (readOutcome · 0) = some "pending" := by decide

/-- Behaviour of the code as it is (not demanded by C19, recorded for the maintainers): the cancel hook
    of a failed Write releases the ADDRESS, so a failure of a stale connection object takes the newer
    connection under the same address down with it. -/
theorem stale_write_evicts_current :
    ∃ s, run {} [.retrieve 7, .sweep [7], .retrieve 7, .writeFail 0] = some s ∧
      readOutcome s 1 = "closed" ∧ s.table = [] ∧ s.panicked = false := by
  refine ⟨_, rfl, ?_, ?_, ?_⟩ <;> decide

/-- non-vacuity: two addresses, a sweep, a re-registration and a stale failing write -/
example : ∃ s, run {} [.retrieve 1, .retrieve 2, .retrieve 1, .sweep [1], .retrieve 1, .writeFail 0, .writeFail 0] = some s ∧
    s.objs.length = 3 ∧ s.table = [(2, 1)] ∧ s.panicked = false := by
  refine ⟨_, rfl, ?_, ?_, ?_⟩ <;> decide

end Goat.HttpTable
