/-
  C07 — cancelling a streaming call cancels its handler and fails the caller's calls.
  Client side: Goat/ClientStreamThms.lean (cancel_fails_recv, cancel_fails_recv_path, terminal_sticky,
  done_sticky, at_most_one_reset, cancel_sends_one_reset, cancel_before_terminal_sends_one_reset,
  no_reset_after_trailer). Here: what the server does with that reset.
-/
import Goat.ClientStreamThms
import Goat.ServerConnThms
namespace Goat.Props.C07
open Goat Goat.ServerConn

/-- A reset for a registered stream cancels that stream's handler context, in the same step in which the
    read loop processes it, and the read loop goes straight back to reading (it does not wait for the handler). -/
theorem reset_cancels_handler (cfg : Cfg) (s s' : State) (x : Nat) (h : step cfg s (.rlCancelStream x) = some s') :
    (∃ st, s'.streams[x]? = some st ∧ st.ctxDone = true) ∧ s'.rl = .reading := by
  simp only [step] at h
  split at h <;> try contradiction
  split at h <;> try contradiction
  split at h <;> try contradiction
  rename_i e _ st hst hc
  injection h with h
  subst h
  have hlen : x < s.streams.length := (List.getElem?_eq_some_iff.mp hst).1
  exact ⟨⟨{ st with ctxDone := true }, by simp [hlen], rfl⟩, rfl⟩

/-- … and it is always possible: a reset envelope for a registered stream, with the registry lock free, has
    that step enabled (the lock is only ever held across a blocking operation by the read loop itself). -/
theorem reset_step_enabled (cfg : Cfg) (s : State) (x : Nat) (e : InEnv) (st : StreamRec)
    (hrl : s.rl = .wantLock e) (hmu : s.muHeld = false) (hst : s.streams[x]? = some st)
    (hreg : st.registered = true) (hid : st.id = e.id) (hr : e.reset = true) :
    (step cfg s (.rlCancelStream x)).isSome = true := by
  simp [step, hrl, hst, hmu, hreg, hid, hr]

/-! ### non-vacuity -/
example : ∃ s s', run good init [.rlRead { id := 5 }, .rlOpen, .rlRead { id := 5, reset := true }] = some s ∧
    step good s (.rlCancelStream 0) = some s' ∧ (s'.streams[0]?.map (·.ctxDone)) = some true :=
  ⟨_, _, rfl, rfl, by decide⟩

end Goat.Props.C07
