/-
  C20 — interceptors and stats handlers see every RPC exactly once, in order.
-/
import Goat.Chain
import Goat.Stats
namespace Goat.Props.C20
open Goat Goat.Chain Goat.Stats

/-- Chained interceptors (any number ≥ 1, unary or streaming — both helpers have this shape) are the
    nesting of the interceptors in registration order around the handler: each is entered exactly
    once, interceptor k's `next` is interceptor k+1, the last one's `next` is the handler. -/
theorem chain_is_nesting {α ρ} (i0 : Interceptor α ρ) (rest : List (Interceptor α ρ)) (final : Handler α ρ) :
    chained i0 rest final = nest (i0 :: rest) final := chained_eq_nest i0 rest final

/-- The call log of a chain of n logging interceptors: enter 0 … enter n-1, the handler, exit n-1 …
    exit 0 — and what each stage changed (request/context on the way down, reply/error on the way up)
    is exactly what the next stage, and finally the caller, observes. For every n ≥ 1. -/
theorem chain_log {α β} (p : (α → α) × (β → β)) (fg : List ((α → α) × (β → β))) (h : α → β) (req : α) :
    let r := chained (logI 0 p.1 p.2) (logChain 1 fg) (logFinal h) req
    r.log = enters 0 (fg.length + 1) ++ [.final] ++ exits 0 (fg.length + 1) ∧
    r.val = upAll ((p :: fg).map (·.2)) (h (downAll ((p :: fg).map (·.1)) req)) := by
  have h1 := chained_eq_nest (logI 0 p.1 p.2) (logChain 1 fg) (logFinal h)
  have h2 := nest_log (p :: fg) h 0 req
  simp only [logChain, List.length_cons] at h2
  simp only [h1]
  exact h2

/-- every interceptor is entered exactly once per RPC -/
theorem interceptor_once_per_rpc {α β} (p : (α → α) × (β → β)) (fg : List ((α → α) × (β → β))) (h : α → β) (req : α)
    (k : Nat) (hk : k < fg.length + 1) :
    ((chained (logI 0 p.1 p.2) (logChain 1 fg) (logFinal h) req).log.filter (· = .enter k)).length = 1 := by
  rw [(chain_log p fg h req).1]
  have he : ∀ (a n : Nat), ((enters a n).filter (· = .enter k)).length = if a ≤ k ∧ k < a + n then 1 else 0 := by
    intro a n
    induction n generalizing a with
    | zero =>
      have : ¬ (a ≤ k ∧ k < a + 0) := by omega
      simp [enters, this]
    | succ n ih =>
      simp only [enters, List.filter_cons]
      by_cases hak : a = k
      · subst hak
        have h1 : ¬ (a + 1 ≤ a ∧ a < a + 1 + n) := by omega
        have h2 : (a ≤ a ∧ a < a + (n + 1)) := by omega
        simp [ih, h1, h2]
      · have : ¬ (Ev.enter a = Ev.enter k) := by simpa using hak
        simp only [this, decide_false, Bool.false_eq_true, ite_false, ih]
        by_cases hc : a + 1 ≤ k ∧ k < a + 1 + n
        · have : a ≤ k ∧ k < a + (n + 1) := by omega
          simp [hc, this]
        · have : ¬ (a ≤ k ∧ k < a + (n + 1)) := by omega
          simp [hc, this]
  have hx : ∀ (a n : Nat), (exits a n).filter (· = .enter k) = [] := by
    intro a n
    induction n generalizing a with
    | zero => rfl
    | succ n ih => simp [exits, List.filter_append, ih]
  simp [List.filter_append, he, hx]
  omega

/-! ### stats: Begin first, End once, on every path -/

theorem stats_client_unary (m r e : Bool) : shapeOK true (clientUnary m r e) = true := by
  cases m <;> cases r <;> cases e <;> decide

theorem stats_server_unary (b e : Bool) : shapeOK true (serverUnary b e) = true := by
  cases b <;> cases e <;> decide

theorem stats_server_stream (ops : List SOp) (e : Bool) : shapeOK true (serverStream ops e) = true := by
  simp [shapeOK, serverStream, isBegin, isEnd, List.filter_cons, List.filter_append, filter_isBegin_ops, filter_isEnd_ops]

theorem stats_client_stream (o : Bool) (pre post : List COp) (e : Bool) : shapeOK true (clientStream o pre post e) = true := by
  cases o
  · simp [shapeOK, clientStream, isBegin, isEnd, List.filter_cons, List.filter_append, filter_isBegin_cops, filter_isEnd_cops]
  · simp [shapeOK, clientStream, isBegin, isEnd, List.filter_cons]

/-- the End event's error is nil exactly when the path says the RPC succeeded -/
theorem end_error_nil_iff_success_server (ops : List SOp) (e : Bool) : endErr (serverStream ops e) = some e := by
  have hnone : (serverStreamOps false ops).findSome? endOf = none := by
    rw [List.findSome?_eq_none_iff]
    intro k hk
    have := (ops_kinds ops false k hk).2
    cases k <;> simp_all [isEnd, endOf]
  simp only [endErr, serverStream, List.findSome?_append, List.cons_append, List.nil_append, List.findSome?_cons, endOf]
  rw [hnone]; simp [endOf]

theorem end_error_nil_iff_success_unary (b e : Bool) : endErr (serverUnary b e) = some e := by
  cases b <;> cases e <;> decide

/-! ### the monitor rejects what the property forbids -/
example : shapeOK true [.inHeader, .begin_, .end_ false] = false := by decide      -- Begin not first
example : shapeOK true [.begin_, .outHeader] = false := by decide                    -- finished without End
example : shapeOK true [.begin_, .end_ false, .end_ true] = false := by decide       -- two Ends
example : shapeOK true [.begin_, .begin_, .end_ false] = false := by decide          -- two Begins
example : shapeOK true (serverStream [.recvOk, .sendMsg, .recvEnd, .sendMsg] true) = true := by decide

end Goat.Props.C20
