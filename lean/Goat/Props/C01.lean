/-
  C01 — a unary call returns exactly the handler's reply to exactly the caller's request.
  Component guarantees (client multiplexer: Goat/MuxThms.lean; server unary path with contents:
  Goat/UnaryPool.lean) and their composition over a reliable ordered transport, by list reasoning on
  the wire histories — no product state space, hence any number of concurrent calls, any interleaving
  of their envelopes and of the worker pool.
-/
import Goat.MuxThms
import Goat.UnaryPool
namespace Goat.Props.C01
open Goat

/-- Server side, with contents: every reply on the wire is `reply f q` for a request q that was read,
    and the handler is only ever run on requests that were read — any number of workers, any interleaving. -/
theorem srv_unary_reply_from_request (f : Bytes → Bytes) (n : Nat) (s : UnaryPool.State)
    (h : UnaryPool.Reachable f n s) :
    (∀ r ∈ s.wireOut, ∃ q ∈ s.wireIn, r = UnaryPool.reply f q) ∧ (∀ q ∈ s.invocations, q ∈ s.wireIn) :=
  let hi := UnaryPool.inv_reachable f n s h
  ⟨hi.2.2.1, hi.2.2.2⟩

theorem countP_set (p : UnaryPool.WPc → Bool) : ∀ (l : List UnaryPool.WPc) (i : Nat) (v : UnaryPool.WPc) (h : i < l.length),
    (l.set i v).countP p + (if p l[i] then 1 else 0) = l.countP p + (if p v then 1 else 0)
  | [], i, v, h => by simp at h
  | a :: t, 0, v, _ => by simp [List.countP_cons]; omega
  | a :: t, i + 1, v, h => by
    have := countP_set p t i v (by simpa using h)
    simp [List.countP_cons] at this ⊢
    omega

def isRunning : UnaryPool.WPc → Bool | .running _ => true | _ => false
def isHandoff : UnaryPool.WPc → Bool | .handoff _ => true | _ => false

/-- the bookkeeping that makes "exactly once" a counting fact -/
def Counts (s : UnaryPool.State) : Prop :=
  s.wireOut.length + s.workers.countP isHandoff = s.invocations.length ∧
  s.invocations.length + s.workers.countP isRunning + (if s.offer.isSome then 1 else 0) = s.wireIn.length

theorem counts_init (n : Nat) : Counts (UnaryPool.init n) := by
  simp [Counts, UnaryPool.init, List.countP_replicate, isHandoff, isRunning]

theorem counts_step (f) (s s' : UnaryPool.State) (l : UnaryPool.Label) (hc : Counts s)
    (hs : UnaryPool.step f s l = some s') : Counts s' := by
  obtain ⟨c1, c2⟩ := hc
  cases l with
  | read q =>
    simp only [UnaryPool.step] at hs
    split at hs <;> simp at hs
    subst hs; rename_i ho
    simp [Counts, ho] at c2 ⊢
    exact ⟨c1, by omega⟩
  | take w =>
    simp only [UnaryPool.step] at hs
    split at hs <;> simp at hs
    rename_i q hq hw
    subst hs
    obtain ⟨hlen, hget⟩ := List.getElem?_eq_some_iff.mp hw
    have e1 := countP_set isHandoff s.workers w (.running q) hlen
    have e2 := countP_set isRunning s.workers w (.running q) hlen
    simp [hget, isHandoff, isRunning] at e1 e2
    simp [Counts, hq] at c2 ⊢
    constructor <;> omega
  | run w =>
    simp only [UnaryPool.step] at hs
    split at hs <;> simp at hs
    rename_i q hw
    subst hs
    obtain ⟨hlen, hget⟩ := List.getElem?_eq_some_iff.mp hw
    have e1 := countP_set isHandoff s.workers w (.handoff (UnaryPool.reply f q)) hlen
    have e2 := countP_set isRunning s.workers w (.handoff (UnaryPool.reply f q)) hlen
    simp [hget, isHandoff, isRunning] at e1 e2
    simp [Counts] at c1 c2 ⊢
    constructor <;> omega
  | write w =>
    simp only [UnaryPool.step] at hs
    split at hs <;> simp at hs
    rename_i r hw
    subst hs
    obtain ⟨hlen, hget⟩ := List.getElem?_eq_some_iff.mp hw
    have e1 := countP_set isHandoff s.workers w .idle hlen
    have e2 := countP_set isRunning s.workers w .idle hlen
    simp [hget, isHandoff, isRunning] at e1 e2
    simp [Counts] at c1 c2 ⊢
    constructor <;> omega

theorem counts_reachable (f) (n) (s) (h : UnaryPool.Reachable f n s) : Counts s := by
  obtain ⟨ls, hl⟩ := h
  suffices ∀ ls s0 s1, Counts s0 → UnaryPool.run f s0 ls = some s1 → Counts s1 from this ls _ _ (counts_init n) hl
  intro ls
  induction ls with
  | nil => intro s0 s1 hc h; simp [UnaryPool.run] at h; exact h ▸ hc
  | cons l ls ih =>
    intro s0 s1 hc h
    simp only [UnaryPool.run] at h
    cases hs : UnaryPool.step f s0 l with
    | none => simp [hs] at h
    | some s2 => simp [hs] at h; exact ih s2 s1 (counts_step f s0 s2 l hc hs) h

/-- Exactly once, as counting: never more invocations than requests read, never more replies than
    invocations; and when the connection is quiescent (nothing offered, every worker idle) each
    request read has been run exactly once and answered exactly once. -/
theorem srv_unary_exactly_once (f : Bytes → Bytes) (n : Nat) (s : UnaryPool.State) (h : UnaryPool.Reachable f n s) :
    s.wireOut.length ≤ s.invocations.length ∧ s.invocations.length ≤ s.wireIn.length ∧
    (s.offer = none → (∀ w ∈ s.workers, w = .idle) →
       s.invocations.length = s.wireIn.length ∧ s.wireOut.length = s.wireIn.length) := by
  obtain ⟨c1, c2⟩ := counts_reachable f n s h
  refine ⟨by omega, by omega, ?_⟩
  intro ho hw
  have z1 : s.workers.countP isHandoff = 0 := by
    rw [List.countP_eq_zero]; intro w hm; rw [hw w hm]; simp [isHandoff]
  have z2 : s.workers.countP isRunning = 0 := by
    rw [List.countP_eq_zero]; intro w hm; rw [hw w hm]; simp [isRunning]
  simp [ho] at c2
  omega

/-- Composition over a reliable ordered transport (`<+:` = prefix: what has arrived so far is a prefix
    of what was written). If call i's request is the only envelope with its id the client wrote, every
    server reply answers a request the server read, and call i returned `b` taken from an envelope with
    its id, then `b` is the handler's function of call i's own request — never another call's reply. -/
theorem compose_unary (f : Bytes → Bytes) (wireOutC wireInS wireOutS wireInC : List Env)
    (idi : Nat) (req b : Bytes)
    (hT1 : wireInS <+: wireOutC) (hT2 : wireInC <+: wireOutS)
    (hSrv : ∀ r ∈ wireOutS, ∃ q ∈ wireInS, r = UnaryPool.reply f q)
    (hOwn : ∀ q ∈ wireOutC, q.id = idi → q.body = some req)
    (hRes : ∃ e ∈ wireInC, e.id = idi ∧ e.body = some b) :
    b = f req := by
  obtain ⟨e, he, hid, hb⟩ := hRes
  obtain ⟨q, hq, rfl⟩ := hSrv e (hT2.subset he)
  have hqid : q.id = idi := by simpa [UnaryPool.reply] using hid
  have hbody := hOwn q (hT1.subset hq) hqid
  simp [UnaryPool.reply, hbody] at hb
  exact hb.symm

/-- the same end to end, with the two component theorems plugged in: client multiplexer state `sc`,
    server unary path state `ss`, connected by the transport. -/
theorem unary_end_to_end (cfg : Mux.Cfg) (hc : cfg.idAllocAtomic = true) (f : Bytes → Bytes) (n : Nat)
    (sc : Mux.State) (ss : UnaryPool.State) (hrc : Mux.Reachable cfg sc) (hrs : UnaryPool.Reachable f n ss)
    (hT1 : ss.wireIn <+: sc.wireOut) (hT2 : sc.wireIn <+: ss.wireOut)
    (i : Nat) (c : Mux.Caller) (hci : sc.callers[i]? = some c) (req b : Bytes)
    (hOwn : ∀ q ∈ sc.wireOut, q.id = c.id → q.body = some req)
    (hres : c.result = some (.ok b)) : b = f req := by
  obtain ⟨e, he, hid, hb, _⟩ := Mux.no_fabricated_success cfg hc sc hrc i c hci b hres
  exact compose_unary f sc.wireOut ss.wireIn ss.wireOut sc.wireIn c.id req b hT1 hT2
    (srv_unary_reply_from_request f n ss hrs).1 hOwn ⟨e, he, hid, hb⟩

/-! ### non-vacuity -/
example : ∃ s, UnaryPool.run (fun b => b ++ [1]) (UnaryPool.init 2)
    [.read { id := 1, body := some [7] }, .take 1, .read { id := 2, body := some [8] }, .take 0, .run 0, .write 0, .run 1, .write 1] = some s ∧
    s.wireOut.map (fun e => (e.id, e.body)) = [(2, some [8, 1]), (1, some [7, 1])] ∧ s.offer = none := by
  refine ⟨_, rfl, ?_, ?_⟩ <;> decide

end Goat.Props.C01
