/-
  C03 — the status a handler finishes with is the status the caller observes.
  (Reset/trailer ordering on the wire and the position-independence over the stream LTS are in
   the ServerConn / ClientStream theorem files; this file has the mapping laws.)
-/
import Goat.Status
namespace Goat.Props.C03
open Goat Goat.StatusM

/-- Unary: a failed handler is observed as exactly the normalised status (code, message, details),
    whatever body the reply carries. -/
theorem status_roundtrip_unary (e : HErr) (h : NonOK e) (body : Option Bytes) :
    clientUnary true (serverUnaryStatus e) body = .error (normalise true e) := by
  cases e <;> simp_all [NonOK, serverUnaryStatus, fromError, fromContextError, clientUnary, normalise,
    codeOK, codeUnknown, codeCanceled, codeDeadline]

/-- Streams: likewise through the trailer. -/
theorem status_roundtrip_stream (e : HErr) (h : e ≠ .nil) :
    clientStreamTerminal true false (some (serverTrailerStatus e)) = .error (normalise false e) := by
  cases e with
  | nil => contradiction
  | status s =>
    by_cases hc : s.code = 0 <;>
      simp [serverTrailerStatus, fromError, clientStreamTerminal, normalise, hc, codeOK, codeInternal]
  | wrapped s o =>
    by_cases hc : s.code = 0 <;>
      simp [serverTrailerStatus, fromError, clientStreamTerminal, normalise, hc, codeOK, codeInternal]
  | plain t => simp [serverTrailerStatus, fromError, clientStreamTerminal, normalise, codeOK, codeUnknown]
  | ctxCanceled => simp [serverTrailerStatus, fromError, clientStreamTerminal, normalise, codeOK, codeUnknown]
  | ctxDeadline => simp [serverTrailerStatus, fromError, clientStreamTerminal, normalise, codeOK, codeUnknown]

/-- Success at the caller exactly when the handler returned nil — unary. -/
theorem success_iff_nil_unary (e : HErr) (b : Bytes) :
    (∃ r, clientUnary true (serverUnaryStatus e) (some b) = .success r) ↔ e = .nil ∨ ¬ NonOK e := by
  cases e with
  | nil => simp [serverUnaryStatus, clientUnary]
  | status s =>
    by_cases hc : s.code = 0 <;> simp [serverUnaryStatus, fromError, clientUnary, NonOK, hc, codeOK]
  | wrapped s o =>
    by_cases hc : s.code = 0 <;> simp [serverUnaryStatus, fromError, clientUnary, NonOK, hc, codeOK]
  | plain t => simp [serverUnaryStatus, fromError, fromContextError, clientUnary, NonOK, codeOK, codeUnknown]
  | ctxCanceled => simp [serverUnaryStatus, fromError, fromContextError, clientUnary, NonOK, codeOK, codeCanceled]
  | ctxDeadline => simp [serverUnaryStatus, fromError, fromContextError, clientUnary, NonOK, codeOK, codeDeadline]

/-- A handler that failed produces no reply body, so even an OK-coded error is never a success. -/
theorem failed_handler_never_success_unary (e : HErr) (h : e ≠ .nil) :
    ∀ r, clientUnary true (serverUnaryStatus e) none ≠ .success r := by
  intro r
  cases e <;> simp_all [serverUnaryStatus, fromError, fromContextError, clientUnary]
  all_goals (repeat' split) <;> simp_all

/-- Success (io.EOF) at the caller exactly when the handler returned nil — streams. -/
theorem success_iff_nil_stream (e : HErr) :
    clientStreamTerminal true false (some (serverTrailerStatus e)) = .eof ↔ e = .nil := by
  constructor
  · intro h
    cases e with
    | nil => rfl
    | _ => rw [status_roundtrip_stream _ (by simp)] at h; cases h
  · intro h; subst h; simp [serverTrailerStatus, clientStreamTerminal, codeOK]

/-- A reply with an explicit OK status and a body is a success with that body. -/
theorem ok_status_with_body_is_success (s : Status) (h : s.code = codeOK) (b : Bytes) :
    clientUnary true (some s) (some b) = .success b := by simp [clientUnary, h]

/-- A reset by the peer is never a success, whatever else the envelope carries. -/
theorem reset_is_never_success (st : Option Status) :
    clientStreamTerminal true true st ≠ .eof := by simp [clientStreamTerminal]

/-- A reply with neither body nor status is an error. -/
theorem no_body_no_status_is_error : clientUnary true none none = .malformed := rfl

/-- A non-OK status wins over a body (TestUnaryMethodFailureDespiteBody). -/
theorem status_wins_over_body (s : Status) (h : s.code ≠ codeOK) (b : Option Bytes) :
    clientUnary true (some s) b = .error s := by simp [clientUnary, h]

/-! ### negative witnesses -/
/-- pre-repair: OK status + body made CallUnaryMethod return (nil, nil) -/
theorem bad_okStatusIsSuccess : clientUnary false (some { code := 0 }) (some [1]) = .nilDeref := by decide
/-- pre-repair: the server's reset envelope (empty trailer, no status) was read as io.EOF -/
theorem bad_resetIsError : clientStreamTerminal false true none = .eof := by decide

/-! ### non-vacuity -/
example : NonOK (.status { code := 5, message := [110], details := [[1,2]] }) := by decide
example : clientUnary true (serverUnaryStatus (.status { code := 5, message := [110], details := [[1,2]] })) (some [9])
    = .error { code := 5, message := [110], details := [[1,2]] } := by decide
example : clientStreamTerminal true false (some (serverTrailerStatus (.plain [120]))) = .error { code := 2, message := [120] } := by decide

end Goat.Props.C03
