/-
  C15 — API-permitted concurrent use is free of data races.  PARTIAL by nature: the theorems are about
  lock discipline in an abstract memory model (threads, mutexes, spawn, reads/writes); the Go memory
  model itself, closures and interface values outside the access table, and third-party packages are
  not modelled. The discipline each tracked field follows is checked against the access table that
  is regenerated from the source on every run (Goat/Tie/C15.lean); the race detector runs the
  workloads as the search for a counterexample.
-/
import Goat.Lockset
namespace Goat.Props.C15
open Goat.Lockset

/-- Discipline "guarded by m": two accesses to a location, both made while holding mutex m, are
    ordered by happens-before — every well-formed trace, any length, any number of threads and mutexes. -/
theorem guarded_accesses_ordered (tr : List Ev) (hwf : WF tr) (m : Lock) (x : Loc)
    (i j : Nat) (hij : i < j) (t u : Tid) (o1 o2 : Op)
    (h1 : tr[i]? = some ⟨t, o1⟩) (h2 : tr[j]? = some ⟨u, o2⟩)
    (a1 : isAccess x o1) (a2 : isAccess x o2)
    (g1 : holderAt tr m i = some t) (g2 : holderAt tr m j = some u) : HB tr i j :=
  Lockset.guarded_accesses_ordered tr hwf m x i j hij t u o1 o2 h1 h2 a1 a2 g1 g2

/-- Discipline "written before publication": a write before the `go` that starts the reader is ordered
    before every access of that goroutine. -/
theorem pre_publication_ordered (tr : List Ev) (i k j : Nat) (t c : Tid) (o1 o2 : Op)
    (hik : i < k) (hkj : k < j)
    (h1 : tr[i]? = some ⟨t, o1⟩) (hs : tr[k]? = some ⟨t, .spawn c⟩) (h2 : tr[j]? = some ⟨c, o2⟩) : HB tr i j :=
  Lockset.pre_publication_ordered tr i k j t c o1 o2 hik hkj h1 hs h2

/-- Discipline "single owner": accesses by one goroutine are ordered by program order. -/
theorem same_thread_ordered (tr : List Ev) (i j : Nat) (t : Tid) (o1 o2 : Op) (hij : i < j)
    (h1 : tr[i]? = some ⟨t, o1⟩) (h2 : tr[j]? = some ⟨t, o2⟩) : HB tr i j :=
  Lockset.same_thread_ordered tr i j t o1 o2 hij h1 h2

/-- The mixed discipline of `clientStream.header`: every write holds m and is made by the owner thread;
    every other access either holds m or is made by the owner. Any two accesses one of which is a write
    are then ordered. -/
theorem owner_or_guarded_ordered (tr : List Ev) (hwf : WF tr) (m : Lock) (x : Loc) (owner : Tid)
    (i j : Nat) (hij : i < j) (t u : Tid) (o1 o2 : Op)
    (h1 : tr[i]? = some ⟨t, o1⟩) (h2 : tr[j]? = some ⟨u, o2⟩)
    (a1 : isAccess x o1) (a2 : isAccess x o2)
    (d1 : holderAt tr m i = some t ∨ t = owner) (d2 : holderAt tr m j = some u ∨ u = owner)
    (w : (o1 = .wr x → holderAt tr m i = some t ∧ t = owner) ∧ (o2 = .wr x → holderAt tr m j = some u ∧ u = owner))
    (conflict : o1 = .wr x ∨ o2 = .wr x) : HB tr i j := by
  rcases conflict with c | c
  · obtain ⟨g1, ht⟩ := w.1 c
    rcases d2 with g2 | hu
    · exact Lockset.guarded_accesses_ordered tr hwf m x i j hij t u o1 o2 h1 h2 a1 a2 g1 g2
    · subst ht; subst hu; exact HB.po hij h1 h2
  · obtain ⟨g2, hu⟩ := w.2 c
    rcases d1 with g1 | ht
    · exact Lockset.guarded_accesses_ordered tr hwf m x i j hij t u o1 o2 h1 h2 a1 a2 g1 g2
    · subst ht; subst hu; exact HB.po hij h1 h2

/-! ### non-vacuity -/
example : WF [⟨1, .acq 0⟩, ⟨1, .wr 7⟩, ⟨1, .rel 0⟩, ⟨2, .acq 0⟩, ⟨2, .rd 7⟩, ⟨2, .rel 0⟩] := by
  intro k t m
  match k with
  | 0 | 1 | 2 | 3 | 4 | 5 => constructor <;> intro h <;> simp at h <;> (try (obtain ⟨_, rfl⟩ := h)) <;> simp [holderAt] <;> try omega
  | k+6 => simp
example : HB [⟨1, .wr 7⟩, ⟨1, .spawn 2⟩, ⟨2, .rd 7⟩] 0 2 :=
  pre_publication_ordered _ 0 1 2 1 2 (.wr 7) (.rd 7) (by decide) (by decide) rfl rfl rfl

end Goat.Props.C15
