/-
  C08 — caller deadlines reach the handler; timeout header values mean what they say.
  Only property theorems, their negative witnesses and non-vacuity examples live here.
-/
import Goat.Timeout
import Goat.ReqHeaders
namespace Goat.Props.C08
open Goat Goat.Timeout

/-- Every value of the gRPC grammar (1..8 digits, then H, M, S, m, u or n) is read as exactly that
    duration, saturating at MaxInt64: never negative, never wrapped, never short. -/
theorem parse_grammar_exact (ds : Bytes) (u n : Nat)
    (hlen1 : 1 ≤ ds.length) (hlen8 : ds.length ≤ 8)
    (hd : ∀ b ∈ ds, isDigit b = true) (hu : unitNanos u = some n) :
    parseTimeout (ds ++ [u]) = some (min (digitsVal ds * n) maxInt64) := by
  have hv : digitsVal ds < 10 ^ 8 :=
    Nat.lt_of_lt_of_le (digitsVal_lt ds hd) (Nat.pow_le_pow_right (by omega) hlen8)
  have hne : ds ≠ [] := by intro h; simp [h] at hlen1
  have hall : ds.all isDigit = true := by simpa [List.all_eq_true] using hd
  simp only [parseTimeout, List.getLast?_append, List.getLast?_singleton, Option.some_or, List.dropLast_concat]
  have hv' : ¬ digitsVal ds > maxInt64 := by simp [maxInt64]; omega
  simp [hne, hall, hu, hv']
  exact sat _ _ _ (unitNanos_pos u n hu)

/-- Overlong all-digit values (outside the grammar, but emitted by GOAT's own client for timeouts
    above 27.7 h — interpretation I1): read exactly (saturating), or ignored when the number itself
    does not fit 63 bits. Never misread. -/
theorem parse_digits_any_length (ds : Bytes) (u n : Nat) (hne : ds ≠ [])
    (hd : ∀ b ∈ ds, isDigit b = true) (hu : unitNanos u = some n) :
    parseTimeout (ds ++ [u]) =
      if digitsVal ds > maxInt64 then none else some (min (digitsVal ds * n) maxInt64) := by
  have hall : ds.all isDigit = true := by simpa [List.all_eq_true] using hd
  simp only [parseTimeout, List.getLast?_append, List.getLast?_singleton, Option.some_or, List.dropLast_concat]
  simp only [hne, hall, hu, List.isEmpty_iff, Bool.not_true, Bool.false_eq_true, ite_false]
  split
  · rfl
  · exact sat _ _ _ (unitNanos_pos u n hu)

/-- Malformed values are ignored: empty; no digits; a non-digit (a sign, a letter, a space …)
    anywhere before the last byte; a last byte that is not one of the six units. -/
theorem parse_malformed_none (s : Bytes) :
    (s = [] ∨ s.dropLast = [] ∨ (∃ b ∈ s.dropLast, isDigit b = false) ∨
      (∀ u, s.getLast? = some u → unitNanos u = none)) → parseTimeout s = none := by
  intro h
  unfold parseTimeout
  cases hl : s.getLast? with
  | none => rfl
  | some u =>
    simp only
    rcases h with h | h | ⟨b, hb, hbd⟩ | h
    · subst h; simp at hl
    · simp [h]
    · have : s.dropLast.all isDigit = false := by
        simp only [List.all_eq_false]; exact ⟨b, hb, by simp [hbd]⟩
      simp [this]
    · have := h u hl
      simp only [this]
      repeat' split
      all_goals rfl

/-- what the parser returns is never more than MaxInt64 nanoseconds (a valid time.Duration) -/
theorem parse_in_range (s : Bytes) (d : Nat) (h : parseTimeout s = some d) : d ≤ maxInt64 := by
  unfold parseTimeout at h
  split at h
  · simp at h
  · simp only at h
    split at h
    · simp at h
    · split at h
      · simp at h
      · split at h
        · simp at h
        · split at h
          · simp at h
          · rename_i n hn
            split at h
            · simp at h; omega
            · rename_i hgt
              simp at h; subst h
              have hpos := unitNanos_pos _ n hn
              exact (Nat.le_div_iff_mul_le hpos).mp (Nat.le_of_not_lt hgt)

/-- the key is matched case-insensitively -/
theorem key_case_insensitive (k v : Bytes) (rest : List KV) (d : Nat)
    (hk : lower k = timeoutKey) (hv : parseTimeout v = some d) :
    timeoutFromHeaders ({ key := k, value := v } :: rest) = some d := by
  simp [timeoutFromHeaders, List.findSome?, hk, hv]

/-- … wherever the entry stands: headers before it that are not (parsable) timeout entries and
    whatever follows it do not change what is read (the application's own metadata rides in the same
    list; a proxy's interceptor may append to it) -/
theorem timeout_position_independent (pre post : List KV) (k v : Bytes) (d : Nat)
    (hpre : ∀ x ∈ pre, lower x.key ≠ timeoutKey ∨ parseTimeout x.value = none)
    (hk : lower k = timeoutKey) (hv : parseTimeout v = some d) :
    timeoutFromHeaders (pre ++ { key := k, value := v } :: post) = some d := by
  unfold timeoutFromHeaders
  induction pre with
  | nil => simp [hk, hv]
  | cons x xs ih =>
    have hx := hpre x (by simp)
    have hxs : ∀ y ∈ xs, lower y.key ≠ timeoutKey ∨ parseTimeout y.value = none :=
      fun y hy => hpre y (by simp [hy])
    rw [List.cons_append, List.findSome?_cons]
    rcases hx with hx | hx
    · simp only [if_neg hx]; exact ih hxs
    · by_cases hkx : lower x.key = timeoutKey
      · simp only [if_pos hkx, hx]; exact ih hxs
      · simp only [if_neg hkx]; exact ih hxs

example : timeoutFromHeaders
    [{ key := [120], value := [49] }, { key := timeoutKey, value := [53, 83] }, { key := [121], value := [] }]
    = some 5000000000 := by decide

/-- without any grpc-timeout entry there is no deadline -/
theorem no_header_no_deadline (hs : List KV) (h : ∀ x ∈ hs, lower x.key ≠ timeoutKey) :
    timeoutFromHeaders hs = none := by
  unfold timeoutFromHeaders
  rw [List.findSome?_eq_none_iff]
  intro x hx; simp [h x hx]

theorem tdiv_nonpos (a : Int) (ha : a ≤ 0) : a.tdiv 1000000 ≤ 0 := by
  have h := Int.tdiv_nonneg (a := -a) (b := 1000000) (by omega) (by decide)
  rw [Int.neg_tdiv] at h; omega

/-- what the client writes is in the grammar the server reads, and means `max 1ms (floor to ms)` -/
theorem encode_then_parse (r : Int) (hr : r ≤ (maxInt64 : Int)) :
    parseTimeout (encodeTimeout r) = some (encodeMillis r * 1000000) := by
  obtain ⟨h1, h2, h3⟩ := toDec_spec (encodeMillis r)
  have hms : encodeMillis r * 1000000 ≤ maxInt64 := by
    unfold encodeMillis
    simp only
    split
    · decide
    · rename_i hpos
      have hpos' : 0 < r.tdiv 1000000 := by omega
      have hr0 : 0 ≤ r := by
        by_cases hneg : r < 0
        · have : r.tdiv 1000000 ≤ 0 := tdiv_nonpos r (Int.le_of_lt hneg)
          omega
        · omega
      have : r.tdiv 1000000 = r / 1000000 := Int.tdiv_eq_ediv_of_nonneg hr0
      rw [this]
      have : (r / 1000000).toNat * 1000000 ≤ r.toNat := by omega
      unfold maxInt64 at hr ⊢
      omega
  have := parse_digits_any_length (toDec (encodeMillis r)) 109 1000000 h3 h2 (by decide)
  unfold encodeTimeout
  rw [this, h1]
  have : ¬ encodeMillis r > maxInt64 := by omega
  simp only [this, ite_false]
  congr 1
  exact Nat.min_eq_left hms

/-- End to end on the header list the client really writes (client.go headersFromContext: the
    caller's metadata first, the timeout entry last): whatever metadata the caller attaches — short of
    a grpc-timeout key of its own — the server reads the caller's remaining time, floored to
    milliseconds and at least one. -/
theorem request_headers_carry_deadline (md : Metadata.MD) (r : Int) (hr : r ≤ (maxInt64 : Int))
    (hmd : ∀ p ∈ md, lower p.1 ≠ timeoutKey) :
    timeoutFromHeaders (ReqHeaders.headersFromContext md (some r)) = some (encodeMillis r * 1000000) := by
  unfold ReqHeaders.headersFromContext
  apply timeout_position_independent
  · intro x hx
    obtain ⟨p, hp, hk⟩ := ReqHeaders.toKeyValue_keys md x hx
    exact Or.inl (hk ▸ hmd p hp)
  · exact ReqHeaders.lower_timeoutHdrKey
  · exact encode_then_parse r hr

/-- … and a caller without a deadline sends no timeout: the handler has none -/
theorem request_headers_without_deadline (md : Metadata.MD) (hmd : ∀ p ∈ md, lower p.1 ≠ timeoutKey) :
    timeoutFromHeaders (ReqHeaders.headersFromContext md none) = none := by
  apply no_header_no_deadline
  intro x hx
  simp only [ReqHeaders.headersFromContext, List.append_nil] at hx
  obtain ⟨p, hp, hk⟩ := ReqHeaders.toKeyValue_keys md x hx
  exact hk ▸ hmd p hp

/-- Deadline transport, over abstract instants (nanoseconds). `D` the caller's deadline, `tHdr` the
    instant headersFromContext reads the clock, `tCtx ≥ tHdr` the instant the server derives the
    handler context. The handler's deadline `tCtx + parse (encode (D - tHdr))` is not earlier than
    D - 1ms and not later than D + transit; an expired or sub-millisecond deadline is conveyed as 1 ms. -/
theorem deadline_bounds (D tHdr tCtx : Int) (hle : tHdr ≤ tCtx) (hfit : D - tHdr ≤ (maxInt64 : Int)) :
    ∃ d : Nat, parseTimeout (encodeTimeout (D - tHdr)) = some d ∧
      (D - tHdr ≥ 1000000 → D - 1000000 < tCtx + d ∧ tCtx + (d : Int) ≤ D + (tCtx - tHdr)) ∧
      (D - tHdr < 1000000 → d = 1000000) := by
  refine ⟨_, encode_then_parse _ hfit, ?_, ?_⟩
  · intro hge
    unfold encodeMillis
    have hr0 : 0 ≤ D - tHdr := by omega
    have ht : (D - tHdr).tdiv 1000000 = (D - tHdr) / 1000000 := Int.tdiv_eq_ediv_of_nonneg hr0
    simp only [ht]
    have hpos : ¬ ((D - tHdr) / 1000000 ≤ 0) := by omega
    simp only [hpos, ite_false]
    have : (((D - tHdr) / 1000000).toNat : Int) = (D - tHdr) / 1000000 := by omega
    constructor <;> omega
  · intro hlt
    unfold encodeMillis
    have : (D - tHdr).tdiv 1000000 ≤ 0 := by
      by_cases hneg : D - tHdr < 0
      · exact tdiv_nonpos _ (Int.le_of_lt hneg)
      · rw [Int.tdiv_eq_ediv_of_nonneg (by omega)]; omega
    simp [this]

/-! ### negative witnesses: the pre-repair parser violates the property -/

/-- "99999999H" (in the grammar) was read as a negative duration: an already expired deadline -/
theorem bad_timeoutSaturates :
    ∃ d, parseTimeoutLegacy [57,57,57,57,57,57,57,57,72] = some d ∧ d < 0 := by
  refine ⟨_, rfl, ?_⟩; decide

/-- "-5S" (not in the grammar) was accepted, as minus five seconds -/
theorem bad_timeoutDigitsOnly : parseTimeoutLegacy [45, 53, 83] = some (-5000000000) := by decide

/-! ### non-vacuity -/
example : parseTimeout [57,57,57,57,57,57,57,57,72] = some maxInt64 := by decide   -- "99999999H"
example : parseTimeout [52, 109] = some 4000000 := by decide                        -- "4m"
example : parseTimeout [45, 53, 83] = none := by decide                             -- "-5S"
example : parseTimeout [43, 53, 83] = none := by decide                             -- "+5S"
example : parseTimeout [53] = none := by decide                                     -- "5"
example : parseTimeout [83] = none := by decide                                     -- "S"
example : timeoutFromHeaders [⟨[71,82,80,67,45,84,105,109,101,111,117,116], [52,109]⟩] = some 4000000 := by decide
example : encodeTimeout 2500000 = [50, 109] := by simp [encodeTimeout, encodeMillis, toDec]                            -- 2.5 ms -> "2m"
example : encodeTimeout (-7) = [49, 109] := by simp [encodeTimeout, encodeMillis, toDec]                               -- expired -> "1m"

end Goat.Props.C08
