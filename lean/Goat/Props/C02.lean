/-
  C02 — streams deliver every message once, in order, then the correct end-of-stream.
  The client stream's receive path is Goat/ClientStreamThms.lean (cs_recv_sequence, cs_eof_iff_ok_trailer,
  cs_never_canceled_after_trailer, …); here: what the handler side receives, and the composition
  "what one side's stream object emits is exactly what the other side's receive path delivers".
-/
import Goat.ClientStreamThms
import Goat.ServerStreamProofs
namespace Goat.Props.C02
open Goat

/-! ### server → client: ServerStream.emitted ⟶ ClientStream.specBodies / specTerminal -/

/-- how the client's read loop sees an envelope the server's stream object produced (its metadata
    decodes: Props.C04.kvOf_decodes) -/
def toIn (e : Env) : ClientStream.InEnv :=
  { metaBad := false, reset := e.reset.isSome, trailer := e.trailer.isSome, trMetaBad := false,
    code := (match e.status with | some s => s.code | none => 0), body := e.body }

/-- the payloads the handler's successful SendMsg calls carried, in order -/
def sentBodies : List ServerStream.Op → List Bytes
  | [] => []
  | .sendMsg b true :: t => b :: sentBodies t
  | _ :: t => sentBodies t

theorem isTerminal_first (e : ClientStream.InEnv) (h : e.metaBad = false) (f : Bool) :
    ClientStream.isTerminal ClientStream.Cfg.good f e = ClientStream.isTerminal ClientStream.Cfg.good false e := by
  simp [ClientStream.isTerminal, h]

theorem specBodies_first (es : List Env) (f : Bool) :
    ClientStream.specBodies ClientStream.Cfg.good f (es.map toIn) = ClientStream.specBodies ClientStream.Cfg.good false (es.map toIn) := by
  cases es with
  | nil => rfl
  | cons e t =>
    simp only [List.map_cons, ClientStream.specBodies]
    rw [isTerminal_first (toIn e) rfl f]

theorem specTerminal_first (es : List Env) (f : Bool) :
    ClientStream.specTerminal ClientStream.Cfg.good f (es.map toIn) = ClientStream.specTerminal ClientStream.Cfg.good false (es.map toIn) := by
  cases es with
  | nil => rfl
  | cons e t => simp [ClientStream.specTerminal, ClientStream.decide1, toIn]

theorem nonterminal_cons (e : Env) (rest : List Env) (ht : e.trailer = none) (hr : e.reset = none) :
    ClientStream.specBodies ClientStream.Cfg.good false ((e :: rest).map toIn)
      = e.body.toList ++ ClientStream.specBodies ClientStream.Cfg.good false (rest.map toIn) ∧
    ClientStream.specTerminal ClientStream.Cfg.good false ((e :: rest).map toIn)
      = ClientStream.specTerminal ClientStream.Cfg.good false (rest.map toIn) := by
  simp [ClientStream.specBodies, ClientStream.specTerminal, ClientStream.isTerminal, ClientStream.errorIfDone,
    ClientStream.decide1, ClientStream.Cfg.good, toIn, ht, hr]

theorem trailer_last (e : Env) (st : Status) (ht : e.trailer.isSome = true) (hr : e.reset = none) (hs : e.status = some st) :
    ClientStream.specBodies ClientStream.Cfg.good false ([e].map toIn) = [] ∧
    ClientStream.specTerminal ClientStream.Cfg.good false ([e].map toIn)
      = some (some (if st.code = 0 then .eof else .status st.code)) := by
  by_cases hc : st.code = 0 <;>
    simp [ClientStream.specBodies, ClientStream.specTerminal, ClientStream.isTerminal, ClientStream.errorIfDone,
      ClientStream.decide1, ClientStream.Cfg.good, toIn, ht, hr, hs, hc]

/-- what one handler operation puts on the wire, as the client's read loop will see it -/
theorem step_emits (s : ServerStream.SS) (op : ServerStream.Op) :
    (ServerStream.step s op).2.1 = none ∨
    ∃ e, (ServerStream.step s op).2.1 = some e ∧ e.trailer = none ∧ e.reset = none ∧
      e.body.toList = sentBodies [op] := by
  cases op with
  | setHeader md => left; simp only [ServerStream.step]; split <;> rfl
  | setTrailer md => left; simp only [ServerStream.step]; split <;> rfl
  | sendHeader md wk =>
    simp only [ServerStream.step]
    split
    · left; rfl
    · cases wk
      · left; rfl
      · right; exact ⟨_, rfl, rfl, rfl, rfl⟩
  | sendMsg b wk =>
    cases wk
    · left; rfl
    · right; exact ⟨_, rfl, rfl, rfl, by simp [ServerStream.step, sentBodies]⟩

theorem sentBodies_cons (op : ServerStream.Op) (ops : List ServerStream.Op) :
    sentBodies (op :: ops) = sentBodies [op] ++ sentBodies ops := by
  cases op with
  | sendMsg b wk => cases wk <;> simp [sentBodies]
  | _ => simp [sentBodies]

theorem step_none_sent (s : ServerStream.SS) (op : ServerStream.Op) (h : (ServerStream.step s op).2.1 = none) :
    sentBodies [op] = [] := by
  cases op with
  | sendMsg b wk => cases wk <;> simp_all [ServerStream.step, sentBodies]
  | _ => simp [sentBodies]

/-- Every message the handler sent arrives at the caller exactly once and in order, nothing else does,
    and the caller's end of stream is io.EOF exactly when the handler's status is OK — for every handler
    program (any mix of SetHeader / SendHeader / SendMsg / SetTrailer, failed writes delivering nothing). -/
theorem s2c_stream_exact (ops : List ServerStream.Op) : ∀ (s : ServerStream.SS) (st : Status), s.trailersSent = false →
    ClientStream.specBodies ClientStream.Cfg.good false ((ServerStream.emitted s ops st true).map toIn) = sentBodies ops ∧
    ClientStream.specTerminal ClientStream.Cfg.good false ((ServerStream.emitted s ops st true).map toIn)
      = some (some (if st.code = 0 then .eof else .status st.code)) := by
  induction ops with
  | nil =>
    intro s st hT
    have : ServerStream.emitted s [] st true =
        [{ id := s.id, header := some (ServerStream.hdr s (if s.headersSent then [] else ServerStream.kvOf s.headers)),
           status := some st, trailer := some (ServerStream.kvOf s.trailers) }] := by
      simp [ServerStream.emitted, ServerStream.sendTrailer, hT]
    rw [this]
    simpa [sentBodies] using trailer_last _ st rfl rfl rfl
  | cons op ops ih =>
    intro s st hT
    have hk := (ServerStream.step_keeps s op).2.2.1
    obtain ⟨ih1, ih2⟩ := ih (ServerStream.step s op).1 st (by rw [hk]; exact hT)
    have hem : ServerStream.emitted s (op :: ops) st true =
        (ServerStream.step s op).2.1.toList ++ ServerStream.emitted (ServerStream.step s op).1 ops st true := by
      simp [ServerStream.emitted]
    rw [hem, sentBodies_cons]
    rcases step_emits s op with hn | ⟨e, he, ht, hr, hb⟩
    · rw [hn, step_none_sent s op hn]; simpa using ⟨ih1, ih2⟩
    · rw [he]
      obtain ⟨n1, n2⟩ := nonterminal_cons e (ServerStream.emitted (ServerStream.step s op).1 ops st true) ht hr
      simp only [Option.toList_some, List.cons_append, List.nil_append]
      rw [n1, n2, ih1, ih2, hb]
      exact ⟨rfl, rfl⟩

/-! ### client → server: what the handler's RecvMsg sees (internal/server/stream.go RecvMsg) -/

inductive SrvTerm where | eof | status (code : Int)
  deriving DecidableEq, Repr

/-- successive RecvMsg results on the envelopes forwarded to the stream: bodies up to the first trailer,
    then io.EOF for an OK (or absent) status and the status error otherwise -/
def serverRecv : List Env → List Bytes × Option SrvTerm
  | [] => ([], none)
  | e :: t =>
    if e.trailer.isSome then
      ([], some (match e.status with | some s => if s.code = 0 then .eof else .status s.code | none => .eof))
    else
      let (bs, term) := serverRecv t
      ((e.body.getD []) :: bs, term)

/-- what the client stream writes for its caller's program: one body per SendMsg, then the half-close -/
def clientEmits (id : Nat) (bodies : List Bytes) : List Env :=
  bodies.map (fun b => ({ id := id, header := some {}, body := some b } : Env)) ++
    [{ id := id, header := some {}, status := some { code := 0 }, trailer := some [] }]

/-- The handler receives exactly the caller's messages, in order, and then observes io.EOF after the
    half-close — for any number of messages. -/
theorem c2s_stream_exact (id : Nat) (bodies : List Bytes) :
    serverRecv (clientEmits id bodies) = (bodies, some .eof) := by
  induction bodies with
  | nil => simp [clientEmits, serverRecv]
  | cons b t ih =>
    simp only [clientEmits, List.map_cons, List.cons_append, serverRecv] at ih ⊢
    simp [ih]

/-- messages still arrive in order when the caller has not half-closed yet (no premature EOF) -/
theorem c2s_no_premature_eof (id : Nat) (bodies : List Bytes) :
    serverRecv (bodies.map (fun b => ({ id := id, header := some {}, body := some b } : Env))) = (bodies, none) := by
  induction bodies with
  | nil => rfl
  | cons b t ih => simp [serverRecv, ih]

/-! ### non-vacuity -/
example : sentBodies [.setHeader [], .sendMsg [1] true, .sendMsg [2] false, .sendMsg [3] true] = [[1], [3]] := by decide
example : ClientStream.specBodies ClientStream.Cfg.good false
    ((ServerStream.emitted {} [.setHeader [], .sendMsg [1] true, .sendMsg [2] false, .sendMsg [3] true] { code := 0 } true).map toIn)
    = [[1], [3]] := by decide

end Goat.Props.C02
