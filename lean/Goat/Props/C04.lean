/-
  C04 — request metadata, response headers and trailers arrive intact.
  (The ServerStream / unary transport-stream emission theorems are added in Goat/Props/C04b.lean.)
-/
import Goat.Metadata
import Goat.ReqHeaders
import Goat.ServerStreamProofs
namespace Goat.Props.C04
open Goat Goat.Metadata

/-- Binary values survive the wire byte for byte: for every byte string (NUL, 0xFF, empty, any length). -/
theorem b64_roundtrip (bs : Bytes) (h : bs.WF) : Base64.decode (Base64.encode bs) = some bs :=
  Base64.roundtrip bs h

/-- The metadata codec round trip, for every metadata set and EVERY iteration order of the Go map
    (the entry list `md` is arbitrary): decoding what was encoded succeeds, and under each lower-cased
    key the receiver finds exactly the values stored under the keys that lower-case to it, in entry
    order, byte-exact (binary keys included). -/
theorem md_roundtrip (md : MD) (h : BinWF md) :
    ∃ md', toMetadata (toKeyValue md) = some md' ∧
      ∀ k', get md' k' = (md.filter (fun p => lower p.1 = k')).flatMap (·.2) :=
  ⟨lowered md, toMetadata_toKeyValue md h, get_lowered md⟩

/-- Request side, with or without a deadline (client.go headersFromContext): the header list the
    client writes decodes to the caller's metadata, key for key and in per-key order; the only other
    thing in it is the transport's own grpc-timeout entry. In particular keys of the "grpc-" namespace
    that the caller attaches (grpc-trace-bin …) are metadata like any other. -/
theorem request_metadata_survives_deadline (md : MD) (h : BinWF md) (remaining : Option Int) :
    ∃ md', toMetadata (ReqHeaders.headersFromContext md remaining) = some md' ∧
      ∀ k', k' ≠ Timeout.timeoutKey →
        get md' k' = (md.filter (fun p => lower p.1 = k')).flatMap (·.2) := by
  cases remaining with
  | none =>
    refine ⟨lowered md, ?_, fun k' _ => get_lowered md k'⟩
    simp [ReqHeaders.headersFromContext, toMetadata_toKeyValue md h]
  | some r =>
    refine ⟨lowered md ++ [(Timeout.timeoutKey, [Timeout.encodeTimeout r])], ?_, ?_⟩
    · simp [ReqHeaders.headersFromContext, ReqHeaders.toMetadata_append, toMetadata_toKeyValue md h,
        ReqHeaders.toMetadata_timeout_entry]
    · intro k' hk'
      rw [get_append, get_lowered]
      have : get [(Timeout.timeoutKey, [Timeout.encodeTimeout r])] k' = [] := by
        unfold Metadata.get
        simp [List.filter, Ne.symm hk']
      rw [this, List.append_nil]

example : ∃ md', toMetadata (ReqHeaders.headersFromContext [([103, 114, 112, 99, 45, 120], [[49]])] (some 5000000)) = some md'
    ∧ get md' [103, 114, 112, 99, 45, 120] = [[49]] := by decide

/-- With keys that stay distinct after lower-casing (I3: what a caller can meaningfully set), the value
    list of every key arrives unchanged under the lower-cased key, whatever the iteration order. -/
theorem md_roundtrip_per_key (md : MD) (h : BinWF md) (hd : CaseDistinct md) (k : Bytes) (vs : List Bytes)
    (hk : (k, vs) ∈ md) :
    ∃ md', toMetadata (toKeyValue md) = some md' ∧ get md' (lower k) = get md k := by
  obtain ⟨md', h1, h2⟩ := md_roundtrip md h
  refine ⟨md', h1, ?_⟩
  rw [h2]
  unfold Metadata.get
  congr 1
  apply List.filter_congr
  intro p hp
  have := hd p hp (k, vs) hk
  simp only [decide_eq_decide]
  constructor
  · exact this
  · intro e; rw [e]

/-- Merging (SetHeader repeated, metadata.Join) keeps per-key order of the calls. -/
theorem join_per_key_order (mds : List MD) (k : Bytes) :
    get (join mds) k = mds.flatMap (fun md => get md k) := get_join mds k

/-- keys the receiver sees are exactly the lower-cased keys that were sent: nothing invented -/
theorem md_no_invented_key (md : MD) (h : BinWF md) (k' : Bytes)
    (hk : ∀ p ∈ md, lower p.1 ≠ k') :
    ∃ md', toMetadata (toKeyValue md) = some md' ∧ get md' k' = [] := by
  obtain ⟨md', h1, h2⟩ := md_roundtrip md h
  refine ⟨md', h1, ?_⟩
  rw [h2]
  have : md.filter (fun p => lower p.1 = k') = [] := by
    rw [List.filter_eq_nil_iff]; intro p hp; simp [hk p hp]
  simp [this]

/-- The error branch, exactly: ToMetadata fails iff some value under a binary key is not valid base64. -/
theorem bad_b64_is_error (kvs : List KV) :
    toMetadata kvs = none ↔ ∃ h ∈ kvs, isBinKey h.key = true ∧ Base64.decode h.value = none := by
  rw [ToMetadata_error_iff]
  constructor
  · rintro ⟨h, hm, hd⟩
    refine ⟨h, hm, ?_⟩
    unfold decValue at hd
    rw [isBinKey_lower] at hd
    by_cases hb : isBinKey h.key = true
    · simp [hb] at hd; exact ⟨hb, hd⟩
    · simp [hb] at hd
  · rintro ⟨h, hm, hb, hd⟩
    exact ⟨h, hm, by unfold decValue; rw [isBinKey_lower]; simp [hb, hd]⟩

/-! ### emission: which envelope carries the response metadata, and that the trailer carries all of it -/
open Goat.ServerStream in
/-- Response metadata is on at most the first envelope that leaves the stream, for every handler
    program and every outcome of the transport writes. -/
theorem headers_once_and_first (ops : List Op) (s : SS) (st : Status) (w : Bool) :
    emitted s ops st w = [] ∨ ∃ e rest, emitted s ops st w = e :: rest ∧ ∀ x ∈ rest, metaOf x = [] :=
  meta_only_on_first ops s st w

open Goat.ServerStream in
/-- Headers leave explicitly (SendHeader), carrying everything set so far plus SendHeader's argument … -/
theorem headers_leave_with_sendHeader (sets : List MD) (md : MD) (rest : List Op) (st w) :
    ∃ tl, emitted {} (sets.map .setHeader ++ .sendHeader md true :: rest) st w =
      { id := 0, header := some (hdr {} (kvOf (sets ++ [md]))) } :: tl := by
  simpa using headers_with_sendHeader {} rfl sets md rest st w

open Goat.ServerStream in
/-- … or with the first response message … -/
theorem headers_leave_with_first_message (sets : List MD) (b : Bytes) (rest : List Op) (st w) :
    ∃ tl, emitted {} (sets.map .setHeader ++ .sendMsg b true :: rest) st w =
      { id := 0, header := some (hdr {} (kvOf sets)), body := some b } :: tl := by
  simpa using headers_with_first_message {} rfl sets b rest st w

open Goat.ServerStream in
/-- … or together with the final status. -/
theorem headers_leave_with_trailer (sets : List MD) (st : Status) :
    emitted {} (sets.map .setHeader) st true =
      [{ id := 0, header := some (hdr {} (kvOf sets)), status := some st, trailer := some (kvOf []) }] := by
  simpa using headers_with_trailer {} rfl rfl sets st

open Goat.ServerStream in
/-- The trailer envelope carries the join of all SetTrailer arguments in call order, also on error return. -/
theorem trailer_md_complete (ops : List Op) (st : Status) :
    ∃ pre e, emitted {} ops st true = pre ++ [e] ∧ e.trailer = some (kvOf (trailerArgs ops)) ∧ e.status = some st := by
  simpa using ServerStream.trailer_md_complete ops {} rfl st

/-- what `kvOf` (ToKeyValue of the joined arguments) means for the receiver: per key, the values of all
    calls in call order -/
theorem kvOf_decodes (mds : List MD) (h : BinWF (join mds)) :
    ∃ md', toMetadata (ServerStream.kvOf mds) = some md' ∧
      ∀ k', Metadata.get md' k' = ((join mds).filter (fun p => lower p.1 = k')).flatMap (·.2) :=
  md_roundtrip (join mds) h

/-- unaryServerTransportStream: SetHeader/SendHeader accumulate with metadata.Join until SendHeader marks
    the headers sent; later calls fail and change nothing. -/
def utsStep (st : List MD × Bool) (op : MD × Bool) : List MD × Bool :=
  if st.2 then st else (st.1 ++ [op.1], op.2)

theorem uts_collects (ops : List (MD × Bool)) (h : ∀ o ∈ ops, o.2 = false) :
    (ops.foldl utsStep ([], false)).1 = ops.map (·.1) := by
  suffices ∀ acc, (ops.foldl utsStep (acc, false)).1 = acc ++ ops.map (·.1) by simpa using this []
  induction ops with
  | nil => simp
  | cons o t ih =>
    intro acc
    have ho : o.2 = false := h o (by simp)
    simp only [List.foldl, utsStep, Bool.false_eq_true, ite_false, ho]
    rw [ih (fun x hx => h x (by simp [hx]))]; simp

/-! ### non-vacuity -/
-- two keys, one binary with NUL / 0xFF / empty values, mixed letter case
example : BinWF [([65, 45, 66, 105, 110], [[0, 255], [], [1,2,3]]), ([120], [[49], [50]])] := by
  unfold BinWF Bytes.WF; decide
example : toMetadata (toKeyValue [([65, 45, 66, 105, 110], [[0, 255], [], [1,2,3]]), ([120], [[49], [50]])])
    = some [([97,45,98,105,110],[[0,255]]), ([97,45,98,105,110],[[]]), ([97,45,98,105,110],[[1,2,3]]), ([120],[[49]]), ([120],[[50]])] := by
  decide
-- an undecodable binary value is an error
example : toMetadata [⟨[97,45,98,105,110], [33, 33]⟩] = none := by decide

end Goat.Props.C04
