/-
  C14 — nothing is left behind: the part that is specific to OPENING a stream.
  The registry-exactness theorems (Mux.registry_exact, registry_empty_when_idle,
  ClientStream.finishing_block_once, ServerConn.srv_registry_exact, streams_finished_at_return) say that
  a call between `register` and `unregister` is in the registry and nothing else is. Here: every way
  `ClientConn.newStream` can return either has performed that `unregister` itself or has handed the
  registration to a read loop (whose finishing block unregisters exactly once).
-/
import Goat.OpenStream
import Goat.ClientStreamThms
namespace Goat.Props.C14
open Goat Goat.OpenStream

/-- An open that fails — refused registration or refused opening write — leaves no registration and
    no goroutine behind, whatever failed. -/
theorem failed_open_leaves_nothing (cfg : Cfg) (hc : cfg.openFailureTearsDown = true) (regOk writeOk : Bool)
    (herr : (newStream cfg regOk writeOk).err = true) :
    registeredAfter (newStream cfg regOk writeOk) = 0 ∧ readLoopStarted (newStream cfg regOk writeOk) = false := by
  cases regOk <;> cases writeOk <;> simp_all [newStream, registeredAfter, readLoopStarted]

/-- `newStream` fails exactly when the registration or the opening write failed. -/
theorem open_err_iff (cfg : Cfg) (regOk writeOk : Bool) :
    (newStream cfg regOk writeOk).err = true ↔ (regOk = false ∨ writeOk = false) := by
  cases regOk <;> cases writeOk <;> simp [newStream]

/-- A successful open holds exactly one registration and has started exactly the read loop that will
    release it (ClientStream.finishing_block_once: the finishing block runs once and unregisters). -/
theorem successful_open_owned_by_read_loop (cfg : Cfg) (regOk writeOk : Bool)
    (hok : (newStream cfg regOk writeOk).err = false) :
    registeredAfter (newStream cfg regOk writeOk) = 1 ∧ readLoopStarted (newStream cfg regOk writeOk) = true := by
  cases regOk <;> cases writeOk <;> simp_all [newStream, registeredAfter, readLoopStarted]

/-- Either way the registration is accounted for: #registrations left = 1 iff a read loop owns it. -/
theorem registration_accounted (cfg : Cfg) (hc : cfg.openFailureTearsDown = true) (regOk writeOk : Bool) :
    registeredAfter (newStream cfg regOk writeOk) = (if readLoopStarted (newStream cfg regOk writeOk) then 1 else 0) := by
  cases regOk <;> cases writeOk <;> simp_all [newStream, registeredAfter, readLoopStarted]

/-- Stats (C20, I4): a Begin is always matched by exactly one End on the failing paths, and a refused
    registration emits neither. -/
theorem failed_open_stats_balanced (cfg : Cfg) (regOk writeOk : Bool)
    (herr : (newStream cfg regOk writeOk).err = true) :
    (newStream cfg regOk writeOk).trace.count .statsBegin = (newStream cfg regOk writeOk).trace.count (.statsEnd true) := by
  cases regOk <;> cases writeOk <;> cases h : cfg.openFailureTearsDown <;> simp_all [newStream]

/-- NEGATIVE witness (the code before `fix: a stream whose opening write fails no longer leaks its
    registration`): the failed open returns an error and leaves its handler in the registry for ever. -/
theorem bad_openFailureTearsDown :
    (newStream { openFailureTearsDown := false } true false).err = true ∧
    registeredAfter (newStream { openFailureTearsDown := false } true false) = 1 ∧
    readLoopStarted (newStream { openFailureTearsDown := false } true false) = false := by decide

/-! non-vacuity: all three outcomes exist -/
example : (newStream {} false true).err = true ∧ (newStream {} true false).err = true ∧ (newStream {} true true).err = false := by decide
example : (newStream {} true false).trace = [.register, .statsBegin, .writeFail, .teardown, .statsEnd true] := by decide

end Goat.Props.C14
