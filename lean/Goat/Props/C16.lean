/-
  C16 (composition) — one proxy plus the host's `Demux` keyed by the envelope's source give every
  (client, host) pair a reliable ordered *virtual connection*: the path

      client k ─transport─▶ proxy object i ─serve loop─▶ proxy object j ─transport─▶ Demux.Run
                                                     ─(key = header source)─▶ logical connection of k

  and the path back satisfy the same "what arrived is a prefix of what was written" that the
  end-to-end theorems of C01/C02 assume of a direct transport — up to the two routing fields the
  proxy rewrites (`ProxyRecord` gets the proxy's name appended, `ProxyNext` loses its last hop).

  Component theorems used: `Proxy.proxy_fifo_pair`, `Proxy.proxy_dropped_is_logged`, the proxy's state
  invariant, `Demux.demux_per_key_fifo_single_epoch`, `Demux.demux_write_passthrough`; the bridge
  lemmas are in `Goat/ProxyCompose.lean` (`pair_routed`, `pair_wire`).

  Vocabulary (ProxyCompose): `keyOf e` = the header's source; `addressed a b e` = `e` has a header
  with source `a` that the proxy routes to `b`; `fwdEnv cfg e` = `e` as `forwardRpc` leaves it;
  `core e` = `e` with `ProxyRecord`/`ProxyNext` erased (`core (fwdEnv cfg e) = core e`).
  `ReachableIc cfg P s`: `s` is reachable by a run in which every answer of the interceptor obeys
  `P`; `Transparent P a`: `P` leaves headers with source `a` alone and never forges source `a`
  (`noIc`, no interceptor, is transparent for everybody; `ReachableIc cfg anyIc` = `Reachable cfg`).
-/
import Goat.ProxyCompose
import Goat.Props.C01
import Goat.Props.C02

namespace Goat.Props.C16
open Goat Goat.Proxy

/-! ## 1. client → host -/

/-- **virtual_c2s.**  What the host's logical connection for key `k` has been handed is, in order,
a *prefix of the forwarded images of the envelopes addressed `k → host` that client `k` wrote*:
nothing reordered, nothing twice, nothing from another peer, nothing invented, every field but
`ProxyRecord`/`ProxyNext` untouched; the only loss is a not-yet-arrived tail.

Hypotheses (each is needed — see REPORT.md):
* `hsp`, `hick`: the proxy state is reachable, under an interceptor that is transparent for `k`;
* `hsd`, `hkey`: the demux state is reachable, its key function is the header's source;
* `hi … hjh`: object `i` is attached under `k`, object `j` under `host`;
* `hsrc`, `htgt`: `k` and `host` were not re-attached (or the other objects were never used);
* `hroom`: no envelope *of `k`* found `host`'s queue full (other peers' may have been dropped);
* `hTh`, `hTc`: the two transports are reliable and ordered (arrived = prefix of written);
* `hc`, `hck`, `hepoch`: `c` is the logical connection of key `k`, never cancelled. -/
theorem virtual_c2s
    {pcfg : Proxy.Cfg} {P : IcSpec} {sp : Proxy.State} (hsp : ReachableIc pcfg P sp)
    {dcfg : Demux.Cfg} {sd : Demux.State} (hsd : Demux.Reachable dcfg sd)
    (hkey : ∀ e, dcfg.demuxOn e = keyOf e)
    {k host : Bytes} {i j : Nat} {ci cj : Conn}
    (hi : sp.conns[i]? = some ci) (hik : ci.name = k)
    (hj : sp.conns[j]? = some cj) (hjh : cj.name = host)
    (hsrc : SoleSource sp i k) (htgt : SoleTarget sp j host) (hick : Transparent P k)
    (hroom : ∀ e ∈ cj.dropped, keyOf e ≠ k)
    (hTh : sd.wireIn <+: cj.out)
    {wireOutClient : List Env} (hTc : ci.wireIn <+: wireOutClient)
    {c : Nat} {conn : Demux.DConn} (hc : sd.conns[c]? = some conn) (hck : conn.key = k)
    (hepoch : ∀ c' conn', sd.conns[c']? = some conn' → conn'.key = k → c' = c) :
    conn.delivered <+: (wireOutClient.filter (addressed k host)).map (fwdEnv pcfg) := by
  have d1 := Demux.delivered_prefix_wireIn hsd hc (fun c' conn' h1 h2 => hepoch c' conn' h1 (h2.trans hck))
  have hf : (fun e => decide (dcfg.demuxOn e = conn.key)) = (fun e => decide (keyOf e = k)) := by
    funext e; rw [hkey, hck]
  rw [hf] at d1
  exact d1.trans (((hTh.filter _).trans (pair_wire hsp hi hik hj hjh hsrc htgt hick hroom)).trans
    (((hTc.filter _).map _)))

/-- the same modulo the routing fields: the form the end-to-end theorems consume -/
theorem virtual_c2s_core
    {pcfg : Proxy.Cfg} {P : IcSpec} {sp : Proxy.State} (hsp : ReachableIc pcfg P sp)
    {dcfg : Demux.Cfg} {sd : Demux.State} (hsd : Demux.Reachable dcfg sd)
    (hkey : ∀ e, dcfg.demuxOn e = keyOf e)
    {k host : Bytes} {i j : Nat} {ci cj : Conn}
    (hi : sp.conns[i]? = some ci) (hik : ci.name = k)
    (hj : sp.conns[j]? = some cj) (hjh : cj.name = host)
    (hsrc : SoleSource sp i k) (htgt : SoleTarget sp j host) (hick : Transparent P k)
    (hroom : ∀ e ∈ cj.dropped, keyOf e ≠ k)
    (hTh : sd.wireIn <+: cj.out)
    {wireOutClient : List Env} (hTc : ci.wireIn <+: wireOutClient)
    {c : Nat} {conn : Demux.DConn} (hc : sd.conns[c]? = some conn) (hck : conn.key = k)
    (hepoch : ∀ c' conn', sd.conns[c']? = some conn' → conn'.key = k → c' = c) :
    conn.delivered.map core <+: (wireOutClient.filter (addressed k host)).map core := by
  have := (virtual_c2s hsp hsd hkey hi hik hj hjh hsrc htgt hick hroom hTh hTc hc hck hepoch).map core
  rwa [map_core_fwdEnv] at this

/-- … and when everything client `k` wrote is addressed `k → host` (a client of one host), exactly
the assumption `wireInS <+: wireOutC` of `C01.compose_unary` / C02, modulo `core` -/
theorem virtual_c2s_direct
    {pcfg : Proxy.Cfg} {P : IcSpec} {sp : Proxy.State} (hsp : ReachableIc pcfg P sp)
    {dcfg : Demux.Cfg} {sd : Demux.State} (hsd : Demux.Reachable dcfg sd)
    (hkey : ∀ e, dcfg.demuxOn e = keyOf e)
    {k host : Bytes} {i j : Nat} {ci cj : Conn}
    (hi : sp.conns[i]? = some ci) (hik : ci.name = k)
    (hj : sp.conns[j]? = some cj) (hjh : cj.name = host)
    (hsrc : SoleSource sp i k) (htgt : SoleTarget sp j host) (hick : Transparent P k)
    (hroom : ∀ e ∈ cj.dropped, keyOf e ≠ k)
    (hTh : sd.wireIn <+: cj.out)
    {wireOutClient : List Env} (hTc : ci.wireIn <+: wireOutClient)
    (hall : ∀ e ∈ wireOutClient, addressed k host e = true)
    {c : Nat} {conn : Demux.DConn} (hc : sd.conns[c]? = some conn) (hck : conn.key = k)
    (hepoch : ∀ c' conn', sd.conns[c']? = some conn' → conn'.key = k → c' = c) :
    conn.delivered.map core <+: wireOutClient.map core := by
  have := virtual_c2s_core hsp hsd hkey hi hik hj hjh hsrc htgt hick hroom hTh hTc hc hck hepoch
  rwa [List.filter_eq_self.mpr hall] at this

/-! ## 2. host → client -/

/-- **virtual_s2c.**  Of what client `k`'s transport delivered, the envelopes with source `host`
are, in order, a *prefix of the forwarded images of the envelopes addressed `host → k` that the
host's logical connection `c` accepted* (`Write` returned nil).

Hypotheses: as in `virtual_c2s` with the roles swapped (`host` is the source, `k` the target;
no envelope *of `host`* found `k`'s queue full; the interceptor is transparent for `host`), and
`hothers`: no *other* logical connection of the host ever accepted an envelope addressed
`host → k` (a `Serve` bound to another client's logical connection answers that client).
Neither the demux key function nor "never cancelled" is needed in this direction. -/
theorem virtual_s2c
    {pcfg : Proxy.Cfg} {P : IcSpec} {sp : Proxy.State} (hsp : ReachableIc pcfg P sp)
    {dcfg : Demux.Cfg} {sd : Demux.State} (hsd : Demux.Reachable dcfg sd)
    {k host : Bytes} {i j : Nat} {ci cj : Conn}
    (hi : sp.conns[i]? = some ci) (hik : ci.name = k)
    (hj : sp.conns[j]? = some cj) (hjh : cj.name = host)
    (hsrc : SoleSource sp j host) (htgt : SoleTarget sp i k) (hich : Transparent P host)
    (hroom : ∀ e ∈ ci.dropped, keyOf e ≠ host)
    (hTh : cj.wireIn <+: sd.wireOut.map (·.2))
    {wireInClient : List Env} (hTc : wireInClient <+: ci.out)
    {c : Nat} {conn : Demux.DConn} (hc : sd.conns[c]? = some conn)
    (hothers : ∀ c' conn', sd.conns[c']? = some conn' → c' ≠ c →
      ∀ e ∈ conn'.accepted, addressed host k e = false) :
    wireInClient.filter (fun e => keyOf e = host) <+:
      (conn.accepted.filter (addressed host k)).map (fwdEnv pcfg) :=
  ((hTc.filter _).trans (pair_wire hsp hj hjh hi hik hsrc htgt hich hroom)).trans
    (((hTh.filter _).trans (Demux.wireOut_filter_prefix hsd hc _ hothers)).map _)

/-- the same modulo the routing fields -/
theorem virtual_s2c_core
    {pcfg : Proxy.Cfg} {P : IcSpec} {sp : Proxy.State} (hsp : ReachableIc pcfg P sp)
    {dcfg : Demux.Cfg} {sd : Demux.State} (hsd : Demux.Reachable dcfg sd)
    {k host : Bytes} {i j : Nat} {ci cj : Conn}
    (hi : sp.conns[i]? = some ci) (hik : ci.name = k)
    (hj : sp.conns[j]? = some cj) (hjh : cj.name = host)
    (hsrc : SoleSource sp j host) (htgt : SoleTarget sp i k) (hich : Transparent P host)
    (hroom : ∀ e ∈ ci.dropped, keyOf e ≠ host)
    (hTh : cj.wireIn <+: sd.wireOut.map (·.2))
    {wireInClient : List Env} (hTc : wireInClient <+: ci.out)
    {c : Nat} {conn : Demux.DConn} (hc : sd.conns[c]? = some conn)
    (hothers : ∀ c' conn', sd.conns[c']? = some conn' → c' ≠ c →
      ∀ e ∈ conn'.accepted, addressed host k e = false) :
    (wireInClient.filter (fun e => keyOf e = host)).map core <+:
      (conn.accepted.filter (addressed host k)).map core := by
  have := (virtual_s2c hsp hsd hi hik hj hjh hsrc htgt hich hroom hTh hTc hc hothers).map core
  rwa [map_core_fwdEnv] at this

/-- … and when client `k` received nothing but envelopes of source `host`, and `c` accepted
nothing but envelopes addressed `host → k`: the assumption `wireInC <+: wireOutS`, modulo `core` -/
theorem virtual_s2c_direct
    {pcfg : Proxy.Cfg} {P : IcSpec} {sp : Proxy.State} (hsp : ReachableIc pcfg P sp)
    {dcfg : Demux.Cfg} {sd : Demux.State} (hsd : Demux.Reachable dcfg sd)
    {k host : Bytes} {i j : Nat} {ci cj : Conn}
    (hi : sp.conns[i]? = some ci) (hik : ci.name = k)
    (hj : sp.conns[j]? = some cj) (hjh : cj.name = host)
    (hsrc : SoleSource sp j host) (htgt : SoleTarget sp i k) (hich : Transparent P host)
    (hroom : ∀ e ∈ ci.dropped, keyOf e ≠ host)
    (hTh : cj.wireIn <+: sd.wireOut.map (·.2))
    {wireInClient : List Env} (hTc : wireInClient <+: ci.out)
    (hfrom : ∀ e ∈ wireInClient, keyOf e = host)
    {c : Nat} {conn : Demux.DConn} (hc : sd.conns[c]? = some conn)
    (hall : ∀ e ∈ conn.accepted, addressed host k e = true)
    (hothers : ∀ c' conn', sd.conns[c']? = some conn' → c' ≠ c →
      ∀ e ∈ conn'.accepted, addressed host k e = false) :
    wireInClient.map core <+: conn.accepted.map core := by
  have := virtual_s2c_core hsp hsd hi hik hj hjh hsrc htgt hich hroom hTh hTc hc hothers
  rwa [List.filter_eq_self.mpr hall,
    List.filter_eq_self.mpr (fun e he => by simpa using hfrom e he)] at this

/-! ## 3. a unary call through proxy + demux -/

/-- `C01.compose_unary` with the transports only reliable *modulo the routing fields*: the proof
looks at ids and bodies only, which `core` keeps. -/
theorem compose_unary_core (f : Bytes → Bytes) (wireOutC wireInS wireOutS wireInC : List Env)
    (idi : Nat) (req b : Bytes)
    (hT1 : wireInS.map core <+: wireOutC.map core) (hT2 : wireInC.map core <+: wireOutS.map core)
    (hSrv : ∀ r ∈ wireOutS, ∃ q ∈ wireInS, r = UnaryPool.reply f q)
    (hOwn : ∀ q ∈ wireOutC, q.id = idi → q.body = some req)
    (hRes : ∃ e ∈ wireInC, e.id = idi ∧ e.body = some b) :
    b = f req := by
  obtain ⟨e, he, hid, hb⟩ := hRes
  obtain ⟨r, hr, hre⟩ := List.mem_map.mp (hT2.subset (List.mem_map_of_mem (f := core) he))
  obtain ⟨q, hq, rfl⟩ := hSrv r hr
  obtain ⟨q', hq', hqq⟩ := List.mem_map.mp (hT1.subset (List.mem_map_of_mem (f := core) hq))
  have e1 : q'.id = q.id := by have := congrArg Env.id hqq; exact this
  have e2 : q'.body = q.body := by have := congrArg Env.body hqq; exact this
  have e3 : (UnaryPool.reply f q).id = e.id := by have := congrArg Env.id hre; exact this
  have e4 : (UnaryPool.reply f q).body = e.body := by have := congrArg Env.body hre; exact this
  have hbody := hOwn q' hq' (by rw [e1, ← hid, ← e3]; rfl)
  rw [e2] at hbody
  rw [hb] at e4
  simp [UnaryPool.reply, hbody] at e4
  exact e4.symm

/-- **proxied_unary_end_to_end.**  Client `k`'s multiplexer `sc` and the host's unary server
path `ss` (the `Serve` bound to the logical connection `c` of key `k`), connected by

    sc ─transport─ proxy object i … proxy object j ─transport─ Demux ─ logical connection c ─ ss

instead of a direct transport.  If call `x` of client `k` returned `ok b`, its request was the
only envelope with its id that client wrote, and every envelope with its id the client received
has source `host`, then `b = f (its own request)` — never another call's or another client's
reply.  Hypotheses = those of the two virtual-connection theorems (`k` and `host` each the only
object of their name) + the component hypotheses of `C01.unary_end_to_end` + the two ties
`hS1`/`hS2` between the logical connection and the server path reading / writing it. -/
theorem proxied_unary_end_to_end
    (mcfg : Mux.Cfg) (hmc : mcfg.idAllocAtomic = true) (f : Bytes → Bytes) (n : Nat)
    {sc : Mux.State} {ss : UnaryPool.State}
    (hrc : Mux.Reachable mcfg sc) (hrs : UnaryPool.Reachable f n ss)
    {pcfg : Proxy.Cfg} {P : IcSpec} {sp : Proxy.State} (hsp : ReachableIc pcfg P sp)
    {dcfg : Demux.Cfg} {sd : Demux.State} (hsd : Demux.Reachable dcfg sd)
    (hkey : ∀ e, dcfg.demuxOn e = keyOf e)
    {k host : Bytes} {i j : Nat} {ci cj : Conn}
    (hi : sp.conns[i]? = some ci) (hik : ci.name = k)
    (hj : sp.conns[j]? = some cj) (hjh : cj.name = host)
    (honlyk : OnlyObject sp i k) (honlyh : OnlyObject sp j host)
    (hick : Transparent P k) (hich : Transparent P host)
    (hroomj : ∀ e ∈ cj.dropped, keyOf e ≠ k) (hroomi : ∀ e ∈ ci.dropped, keyOf e ≠ host)
    (hTc1 : ci.wireIn <+: sc.wireOut) (hTc2 : sc.wireIn <+: ci.out)
    (hTh1 : sd.wireIn <+: cj.out) (hTh2 : cj.wireIn <+: sd.wireOut.map (·.2))
    {c : Nat} {conn : Demux.DConn} (hc : sd.conns[c]? = some conn) (hck : conn.key = k)
    (hepoch : ∀ c' conn', sd.conns[c']? = some conn' → conn'.key = k → c' = c)
    (hothers : ∀ c' conn', sd.conns[c']? = some conn' → c' ≠ c →
      ∀ e ∈ conn'.accepted, addressed host k e = false)
    (hS1 : ss.wireIn <+: conn.delivered) (hS2 : conn.accepted <+: ss.wireOut)
    (x : Nat) (cl : Mux.Caller) (hcl : sc.callers[x]? = some cl) (req b : Bytes)
    (hOwn : ∀ q ∈ sc.wireOut, q.id = cl.id → q.body = some req)
    (hfrom : ∀ e ∈ sc.wireIn, e.id = cl.id → keyOf e = host)
    (hres : cl.result = some (.ok b)) : b = f req := by
  obtain ⟨e, he, hid, hb, _⟩ := Mux.no_fabricated_success mcfg hmc sc hrc x cl hcl b hres
  have t1 := virtual_c2s_core hsp hsd hkey hi hik hj hjh honlyk.source honlyh.target hick hroomj
    hTh1 hTc1 hc hck hepoch
  have t2 := virtual_s2c_core hsp hsd hi hik hj hjh honlyh.source honlyk.target hich hroomi
    hTh2 hTc2 hc hothers
  refine compose_unary_core f (sc.wireOut.filter (addressed k host)) ss.wireIn
    (ss.wireOut.filter (addressed host k)) (sc.wireIn.filter (fun e => keyOf e = host)) cl.id req b
    ((hS1.map core).trans t1) (t2.trans ((hS2.filter _).map core)) ?_ ?_ ?_
  · intro r hr
    exact (C01.srv_unary_reply_from_request f n ss hrs).1 r (List.mem_filter.mp hr).1
  · intro q hq
    exact hOwn q (List.mem_filter.mp hq).1
  · exact ⟨e, List.mem_filter.mpr ⟨he, by simpa using hfrom e he hid⟩, hid, hb⟩

/-! ## 3b. streams: the receive paths of C02 look at `core` only -/

theorem toIn_core (e : Env) : C02.toIn (core e) = C02.toIn e := rfl

theorem serverRecv_core (l : List Env) : C02.serverRecv (l.map core) = C02.serverRecv l := by
  induction l with
  | nil => rfl
  | cons e t ih =>
    simp only [List.map_cons, C02.serverRecv, ih]
    rfl

/-- two envelope sequences that agree modulo the routing fields are the same to the handler's
`RecvMsg` (`C02.serverRecv`) and to the client stream's receive path (`C02.toIn`) -/
theorem stream_views_modulo_core {l1 l2 : List Env} (h : l1.map core = l2.map core) :
    C02.serverRecv l1 = C02.serverRecv l2 ∧ l1.map C02.toIn = l2.map C02.toIn := by
  constructor
  · rw [← serverRecv_core l1, ← serverRecv_core l2, h]
  · have : ∀ l : List Env, l.map C02.toIn = (l.map core).map C02.toIn := by
      intro l; simp [List.map_map, Function.comp_def, toIn_core]
    rw [this l1, this l2, h]

/-! ## 4. non-vacuity -/

/-- the proxy `[5]`, no interceptor; the host's demux keyed by source -/
def cfgP : Proxy.Cfg := { name := [5] }
def cfgD : Demux.Cfg := { demuxOn := keyOf }

/-- request number `id` of client `k` for host `[9]` -/
def rq (k : Bytes) (id : Nat) (b : Bytes) : Env :=
  { id := id, header := some { method := [1], src := k, dst := [9] }, body := some b }

/-- the host's handler, and the reply its unary path builds for `[1]`'s request 1 as it arrives
(source and destination swapped: `[9] → [1]`, body `[7, 0]`) -/
def fEx : Bytes → Bytes := fun b => b ++ [0]
def rp1 : Env := UnaryPool.reply fEx (fwdEnv cfgP (rq [1] 1 [7]))

/-- clients `[1]` (object 0) and `[2]` (object 1), host `[9]` (object 2).  `[1]` sends requests 1
and 2, `[2]` sends its own request 1 in between; the host's writer delivers all three; the host
answers `[1]`'s request 1 and the answer is written to `[1]`. -/
def proxyRun : List Proxy.Label :=
  [.attach [1], .attach [2], .attach [9],
   .readerGet 0 (rq [1] 1 [7]), .cmdRpc 0 (rq [1] 1 [7]).header false,
   .readerGet 1 (rq [2] 1 [8]), .cmdRpc 1 (rq [2] 1 [8]).header false,
   .readerGet 0 (rq [1] 2 [6]), .cmdRpc 0 (rq [1] 2 [6]).header false,
   .writerTake 2, .writerWrite 2 true, .writerTake 2, .writerWrite 2 true,
   .writerTake 2, .writerWrite 2 true,
   .readerGet 2 rp1, .cmdRpc 2 rp1.header false,
   .writerTake 0, .writerWrite 0 true]

/-- the host's demux reads the three forwarded requests, hands them to the logical connections
of `[1]` (object 0) and `[2]` (object 1); connection 0 writes the reply -/
def demuxRun : List Demux.Label :=
  [.runRead (fwdEnv cfgP (rq [1] 1 [7])), .runLookup, .connReadStart 0, .runHandoff,
   .runRead (fwdEnv cfgP (rq [2] 1 [8])), .runLookup, .connReadStart 1, .runHandoff,
   .runRead (fwdEnv cfgP (rq [1] 2 [6])), .runLookup, .connReadStart 0, .runHandoff,
   .connWriteStart 0 rp1, .writerTake 0, .writerWrite 0 true]

def spEx : Proxy.State := (runPlain cfgP Proxy.init proxyRun).getD Proxy.init
def sdEx : Demux.State := (Demux.run cfgD Demux.init demuxRun).getD Demux.init

theorem spEx_reachable : ReachableIc cfgP noIc spEx :=
  reachableIc_of_runPlain proxyRun ReachableIc.init (by decide)

theorem sdEx_reachable : Demux.Reachable cfgD sdEx := ⟨demuxRun, by decide⟩

/-- what client `[1]` wrote (the third request has not reached the proxy yet) and what it received -/
def wireOutEx : List Env := [rq [1] 1 [7], rq [1] 2 [6], rq [1] 3 [5]]
def wireInEx : List Env := [fwdEnv cfgP rp1]

/-- **non-vacuity.**  In the run above every hypothesis of `virtual_c2s` and of `virtual_s2c` holds
(client `[1]` = object 0, host `[9]` = object 2, logical connection 0), the logical connection
of `[1]` has received `[1]`'s two requests — not `[2]`'s —, and `[1]` has received the reply. -/
example : ∃ ci cj conn,
    spEx.conns[0]? = some ci ∧ spEx.conns[2]? = some cj ∧ sdEx.conns[0]? = some conn ∧
    ci.name = [1] ∧ cj.name = [9] ∧ OnlyObject spEx 0 [1] ∧ OnlyObject spEx 2 [9] ∧
    cj.dropped = [] ∧ ci.dropped = [] ∧
    sdEx.wireIn <+: cj.out ∧ ci.wireIn <+: wireOutEx ∧
    cj.wireIn <+: sdEx.wireOut.map (·.2) ∧ wireInEx <+: ci.out ∧
    conn.key = [1] ∧
    (∀ c' conn', sdEx.conns[c']? = some conn' → conn'.key = [1] → c' = 0) ∧
    (∀ c' conn', sdEx.conns[c']? = some conn' → c' ≠ 0 →
      ∀ e ∈ conn'.accepted, addressed [9] [1] e = false) ∧
    conn.delivered = [fwdEnv cfgP (rq [1] 1 [7]), fwdEnv cfgP (rq [1] 2 [6])] ∧
    (wireOutEx.filter (addressed [1] [9])).map (fwdEnv cfgP) = conn.delivered ++ [fwdEnv cfgP (rq [1] 3 [5])] ∧
    conn.accepted = [rp1] ∧
    wireInEx.filter (fun e => keyOf e = [9]) = (conn.accepted.filter (addressed [9] [1])).map (fwdEnv cfgP) := by
  refine ⟨_, _, _, rfl, rfl, rfl, by decide, by decide, ?_, ?_, by decide, by decide, by decide,
    by decide, by decide, by decide, by decide, ?_, ?_, by decide, by decide, by decide, by decide⟩
  · exact forall_idx spEx.conns (fun a' c' => c'.name = [1] → a' = 0) (by decide)
  · exact forall_idx spEx.conns (fun a' c' => c'.name = [9] → a' = 2) (by decide)
  · exact forall_idx sdEx.conns (fun c' conn' => conn'.key = [1] → c' = 0) (by decide)
  · exact forall_idx sdEx.conns
      (fun c' conn' => c' ≠ 0 → ∀ e ∈ conn'.accepted, addressed [9] [1] e = false) (by decide)

/-- the theorems apply to it: their hypotheses are exactly the facts above -/
example : ∃ conn, sdEx.conns[0]? = some conn ∧
    conn.delivered <+: (wireOutEx.filter (addressed [1] [9])).map (fwdEnv cfgP) ∧
    wireInEx.filter (fun e => keyOf e = [9]) <+:
      (conn.accepted.filter (addressed [9] [1])).map (fwdEnv cfgP) := by
  have o1 : OnlyObject spEx 0 [1] :=
    forall_idx spEx.conns (fun a' c' => c'.name = [1] → a' = 0) (by decide)
  have o9 : OnlyObject spEx 2 [9] :=
    forall_idx spEx.conns (fun a' c' => c'.name = [9] → a' = 2) (by decide)
  refine ⟨_, rfl, ?_, ?_⟩
  · exact virtual_c2s (k := [1]) (host := [9]) (i := 0) (j := 2) spEx_reachable sdEx_reachable
      (fun _ => rfl) rfl rfl rfl rfl o1.source o9.target (noIc_transparent _) (by decide)
      (by decide) (by decide) rfl rfl
      (forall_idx sdEx.conns (fun c' conn' => conn'.key = [1] → c' = 0) (by decide))
  · exact virtual_s2c (k := [1]) (host := [9]) (i := 0) (j := 2) spEx_reachable sdEx_reachable
      rfl rfl rfl rfl o9.source o1.target (noIc_transparent _) (by decide)
      (by decide) (by decide) rfl
      (forall_idx sdEx.conns
        (fun c' conn' => c' ≠ 0 → ∀ e ∈ conn'.accepted, addressed [9] [1] e = false) (by decide))

/-- client `[1]`'s multiplexer: two unary calls written, the reply to the first one received and
returned to the caller; the host's unary path on the logical connection of `[1]`: first request
answered, second one being handled -/
def muxRun : List Mux.Label :=
  [.alloc .unary, .register 0, .write 0 (rq [1] 1 [7]) true,
   .alloc .unary, .register 1, .write 1 (rq [1] 2 [6]) true,
   .rlRead (fwdEnv cfgP rp1), .rlLookup, .rlDeliver, .recvTake 0, .unregister 0, .ret 0]
def poolRun : List UnaryPool.Label :=
  [.read (fwdEnv cfgP (rq [1] 1 [7])), .take 0, .run 0, .write 0,
   .read (fwdEnv cfgP (rq [1] 2 [6])), .take 1]
def scEx : Mux.State := (Mux.run Mux.Cfg.good Mux.init muxRun).getD Mux.init
def ssEx : UnaryPool.State := (UnaryPool.run fEx (UnaryPool.init 2) poolRun).getD (UnaryPool.init 2)

/-- non-vacuity of `proxied_unary_end_to_end`: all its hypotheses hold together in the four runs
above (the conclusion, `[7, 0] = fEx [7]`, is then of course also true by computation) -/
example : ([7, 0] : Bytes) = fEx [7] :=
  proxied_unary_end_to_end Mux.Cfg.good rfl fEx 2 (sc := scEx) (ss := ssEx)
    ⟨muxRun, by decide⟩ ⟨poolRun, by decide⟩ spEx_reachable sdEx_reachable (fun _ => rfl)
    (k := [1]) (host := [9]) (i := 0) (j := 2) rfl rfl rfl rfl
    (forall_idx spEx.conns (fun a' c' => c'.name = [1] → a' = 0) (by decide))
    (forall_idx spEx.conns (fun a' c' => c'.name = [9] → a' = 2) (by decide))
    (noIc_transparent _) (noIc_transparent _) (by decide) (by decide)
    (by decide) (by decide) (by decide) (by decide) (c := 0) rfl rfl
    (forall_idx sdEx.conns (fun c' conn' => conn'.key = [1] → c' = 0) (by decide))
    (forall_idx sdEx.conns
      (fun c' conn' => c' ≠ 0 → ∀ e ∈ conn'.accepted, addressed [9] [1] e = false) (by decide))
    (by decide) (by decide) 0 _ rfl [7] [7, 0] (by decide) (by decide) (by decide)

/-! ### the no-drop hypothesis matters -/

/-- client `[1]` (object 0) pushes request `n` towards host `[9]` (object 1) -/
def pushRq (n : Nat) : List Proxy.Label :=
  [.readerGet 0 (rq [1] n []), .cmdRpc 0 (rq [1] n []).header false]

/-- the host's writer is stuck while `[1]` sends requests 0..16 (the 17th finds the queue full
and is dropped), then drains the 16 queued ones; request 17 then goes through -/
def dropRun : List Proxy.Label :=
  [.attach [1], .attach [9]] ++ (List.range 17).flatMap pushRq ++
  (List.range 16).flatMap (fun _ => [.writerTake 1, .writerWrite 1 true]) ++
  pushRq 17 ++ [.writerTake 1, .writerWrite 1 true]

/-- the host's demux reads and hands on everything the proxy wrote -/
def dropDemuxRun : List Demux.Label :=
  (List.range 16 ++ [17]).flatMap fun n =>
    [.runRead (fwdEnv cfgP (rq [1] n [])), .runLookup, .connReadStart 0, .runHandoff]

def spDrop : Proxy.State := (runPlain cfgP Proxy.init dropRun).getD Proxy.init
def sdDrop : Demux.State := (Demux.run cfgD Demux.init dropDemuxRun).getD Demux.init
def wireOutDrop : List Env := (List.range 18).map (fun n => rq [1] n [])

theorem spDrop_reachable : ReachableIc cfgP noIc spDrop :=
  reachableIc_of_runPlain dropRun ReachableIc.init (by decide)

theorem sdDrop_reachable : Demux.Reachable cfgD sdDrop := ⟨dropDemuxRun, by decide⟩

/-- **negative witness for `hroom`.**  Every other hypothesis of `virtual_c2s` holds (both states
reachable, no interceptor, one object per name, both transports reliable and ordered, one epoch),
one envelope of `[1]` was dropped for the host — and what the logical connection of `[1]` received
is *not* a prefix of what `[1]` wrote, even modulo the routing fields: request 16 is missing
between 15 and 17, and nobody was told. -/
theorem drop_breaks_virtual_c2s : ∃ ci cj conn,
    spDrop.conns[0]? = some ci ∧ spDrop.conns[1]? = some cj ∧ sdDrop.conns[0]? = some conn ∧
    ci.name = [1] ∧ cj.name = [9] ∧ OnlyObject spDrop 0 [1] ∧ OnlyObject spDrop 1 [9] ∧
    sdDrop.wireIn <+: cj.out ∧ ci.wireIn <+: wireOutDrop ∧ conn.key = [1] ∧
    (∀ c' conn', sdDrop.conns[c']? = some conn' → conn'.key = [1] → c' = 0) ∧
    cj.dropped = [fwdEnv cfgP (rq [1] 16 [])] ∧
    conn.delivered.map (·.id) = List.range 16 ++ [17] ∧
    ¬ (conn.delivered.map core <+: (wireOutDrop.filter (addressed [1] [9])).map core) := by
  refine ⟨_, _, _, rfl, rfl, rfl, by decide, by decide, ?_, ?_, by decide, by decide, by decide, ?_,
    by decide, by decide, by decide⟩
  · exact forall_idx spDrop.conns (fun a' c' => c'.name = [1] → a' = 0) (by decide)
  · exact forall_idx spDrop.conns (fun a' c' => c'.name = [9] → a' = 1) (by decide)
  · exact forall_idx sdDrop.conns (fun c' conn' => conn'.key = [1] → c' = 0) (by decide)

/-! ### the other hypotheses matter too (proxy level: what is written to the host) -/

/-- an interceptor that forges a source (not `Transparent` for `[1]`): client `[2]`'s envelope is
rewritten to source `[1]`, passes the proxy's sanity check (made *before* the interceptor runs) and
reaches the host under key `[1]` although client `[1]` never wrote anything -/
theorem forging_interceptor_breaks_pair : ∃ s ci cj,
    Proxy.run cfgP Proxy.init
      [.attach [1], .attach [2], .attach [9], .readerGet 1 (rq [2] 1 [8]),
       .cmdRpc 1 (some { method := [1], src := [1], dst := [9] }) false,
       .writerTake 2, .writerWrite 2 true] = some s ∧
    s.conns[0]? = some ci ∧ s.conns[2]? = some cj ∧ ci.wireIn = [] ∧ cj.dropped = [] ∧
    cj.out.filter (fun e => keyOf e = [1]) = [fwdEnv cfgP (rq [1] 1 [8])] := by
  refine ⟨_, _, _, rfl, rfl, rfl, ?_, ?_, ?_⟩ <;> decide

/-- the host re-attaches (object 2 replaces object 1) between two requests of `[1]` (not
`SoleTarget`): the new connection gets request 2 without request 1 -/
theorem reattached_host_breaks_pair : ∃ s ci cj,
    runPlain cfgP Proxy.init
      ([.attach [1], .attach [9]] ++ pushRq 1 ++ [.attach [9]] ++ pushRq 2 ++
       [.writerTake 2, .writerWrite 2 true]) = some s ∧
    s.conns[0]? = some ci ∧ s.conns[2]? = some cj ∧ cj.name = [9] ∧ cj.dropped = [] ∧
    ci.wireIn = [rq [1] 1 [], rq [1] 2 []] ∧ cj.out = [fwdEnv cfgP (rq [1] 2 [])] ∧
    ¬ (cj.out.map core <+: ci.wireIn.map core) := by
  refine ⟨_, _, _, rfl, rfl, rfl, ?_, ?_, ?_, ?_, ?_⟩ <;> decide

end Goat.Props.C16
