/-
  C12 — no envelope sequence from a peer can crash or stall a server.
-/
import Goat.Classify
namespace Goat.Props.C12
open Goat Goat.Classify

/-- No envelope makes the read loop panic, whatever the registry holds. -/
theorem classify_total_no_panic (v : ServerView) (reg : List Nat) (e : Env) :
    classify true v reg e ≠ .panic := by
  unfold classify
  repeat' split
  all_goals simp_all

/-- Handlers run only for well-formed requests addressed to the server's own name: header present,
    method parses, destination = name, service and method registered, metadata decodes. -/
theorem handler_only_if_wellformed (v : ServerView) (reg : List Nat) (e : Env)
    (h : classify true v reg e = .dispatchUnary ∨ classify true v reg e = .openStream) :
    ∃ hd svc meth u s, e.header = some hd ∧ parseRawMethod hd.method = some (svc, meth) ∧ hd.dst = v.name ∧
      v.services.find? (·.1 = svc) = some (svc, u, s) ∧ (u.contains meth ∨ s.contains meth) ∧ metaDecodes hd = true := by
  unfold classify at h
  split at h
  · simp at h
  · rename_i hd hhd
    split at h
    · simp at h
    · rename_i svc meth hpm
      split at h
      · simp at h
      · rename_i hdst
        split at h
        · simp at h
        · rename_i x u s hfind
          have hx : x = svc := by
            have := List.find?_some hfind
            simpa using this
          subst hx
          refine ⟨hd, x, meth, u, s, hhd, hpm, by simpa using hdst, hfind, ?_⟩
          split at h
          · rename_i hu
            split at h
            · rename_i hm; exact ⟨Or.inl hu, hm⟩
            · split at h <;> simp at h
          · split at h
            · rename_i hs
              refine ⟨Or.inr hs, ?_⟩
              repeat' split at h
              all_goals simp_all
            · simp at h

/-- The method grammar, exactly: a method resolves to (service, method) iff, after ONE optional leading
    slash, it is `service ++ "/" ++ method` with no slash in `method` (the split is at the last slash). -/
theorem method_parse_spec (sm svc meth : Bytes) (h : parseRawMethod sm = some (svc, meth)) :
    strip sm = svc ++ 47 :: meth ∧ 47 ∉ meth := by
  rw [parse_eq] at h
  exact parseS_spec _ _ _ h

/-- … and every canonical name `/service/method` resolves to its parts -/
theorem method_canonical (svc meth : Bytes) (hm : 47 ∉ meth) :
    parseRawMethod (47 :: (svc ++ 47 :: meth)) = some (svc, meth) := by
  rw [parse_eq]
  exact parseS_complete svc meth hm

/-- A method with MORE than one leading slash never resolves to a service whose name is non-empty and
    does not itself begin with a slash: only one slash is optional. -/
theorem method_extra_slash_never_resolves (rest svc meth : Bytes)
    (h : parseRawMethod (47 :: 47 :: rest) = some (svc, meth)) : svc = [] ∨ svc.head? = some 47 := by
  obtain ⟨hs, _⟩ := method_parse_spec _ _ _ h
  cases svc with
  | nil => exact Or.inl rfl
  | cons a t =>
    right
    simp only [strip, List.cons_append, List.cons.injEq] at hs
    simp [hs.1]

/-- … so no handler runs for it on a server whose services have ordinary names -/
theorem extra_slash_no_handler (v : ServerView) (reg : List Nat) (e : Env) (hd : Header) (rest : Bytes)
    (hh : e.header = some hd) (hm : hd.method = 47 :: 47 :: rest)
    (hv : ∀ x ∈ v.services, x.1 ≠ [] ∧ x.1.head? ≠ some 47) :
    classify true v reg e ≠ .dispatchUnary ∧ classify true v reg e ≠ .openStream := by
  have key : ¬ (classify true v reg e = .dispatchUnary ∨ classify true v reg e = .openStream) := by
    intro h
    obtain ⟨hd', svc, meth, u, s, hh', hp, _, hf, _⟩ := handler_only_if_wellformed v reg e h
    rw [hh] at hh'; cases hh'
    rw [hm] at hp
    have hmem : (svc, u, s) ∈ v.services := List.mem_of_find?_eq_some hf
    have := hv _ hmem
    rcases method_extra_slash_never_resolves _ _ _ hp with h0 | h0
    · exact this.1 h0
    · exact this.2 h0
  exact ⟨fun h => key (Or.inl h), fun h => key (Or.inr h)⟩

example : parseRawMethod [47, 47, 97, 47, 98] = some ([47, 97], [98]) ∧ parseRawMethod [47, 97, 47, 98] = some ([97], [98])
    ∧ parseRawMethod [97, 47, 98] = some ([97], [98]) := by decide

/-- A body for a stream the server does not know is answered with a reset for that id. -/
theorem body_unknown_id_resets (v : ServerView) (reg : List Nat) (e : Env) (hd : Header) (svc meth : Bytes) (u s : List Bytes)
    (h1 : e.header = some hd) (h2 : parseRawMethod hd.method = some (svc, meth)) (h3 : hd.dst = v.name)
    (h4 : v.services.find? (·.1 = svc) = some (svc, u, s)) (h5 : u.contains meth = false) (h6 : s.contains meth = true)
    (h7 : reg.contains e.id = false) (h8 : isRst e = false) (h9 : e.body.isSome = true) :
    classify true v reg e = .resetBody ∧ effectOf e .resetBody = [.reset e.id] := by
  have h5' : meth ∉ u := by simpa using h5
  have h6' : meth ∈ s := by simpa using h6
  have h7' : e.id ∉ reg := by simpa using h7
  simp [classify, h1, h2, h3, h4, h5', h6', h7', h8, h9, effectOf]

/-- Trailers and resets for streams that are not open are ignored (no handler, no reply). -/
theorem trailer_or_reset_unknown_ignored (v : ServerView) (reg : List Nat) (e : Env) (hd : Header) (svc meth : Bytes) (u s : List Bytes)
    (h1 : e.header = some hd) (h2 : parseRawMethod hd.method = some (svc, meth)) (h3 : hd.dst = v.name)
    (h4 : v.services.find? (·.1 = svc) = some (svc, u, s)) (h5 : u.contains meth = false) (h6 : s.contains meth = true)
    (h7 : reg.contains e.id = false) (h8 : isRst e = true ∨ (e.body = none ∧ e.trailer.isSome = true)) :
    effectOf e (classify true v reg e) = [] := by
  have h5' : meth ∉ u := by simpa using h5
  have h6' : meth ∈ s := by simpa using h6
  have h7' : e.id ∉ reg := by simpa using h7
  rcases h8 with h8 | ⟨hb, ht⟩
  · simp [classify, h1, h2, h3, h4, h5', h6', h7', h8, effectOf]
  · by_cases hr : isRst e = true <;> simp [classify, h1, h2, h3, h4, h5', h6', h7', hr, hb, ht, effectOf]

/-- A duplicate open for a registered id does not start a second handler. -/
theorem duplicate_open_no_second_handler (v : ServerView) (reg : List Nat) (e : Env) (h : reg.contains e.id = true) :
    classify true v reg e ≠ .openStream := by
  unfold classify
  repeat' split
  all_goals simp_all

/-- The server survives every envelope sequence, of any length. -/
theorem server_survives (v : ServerView) (es : List Env) : ∀ reg, (runSeq true v reg es).2 = true := by
  induction es with
  | nil => intro reg; rfl
  | cons e es ih =>
    intro reg
    simp only [runSeq, classify_total_no_panic, if_false]
    exact ih _

/-- … and serves a later valid request: a well-formed unary request appended to ANY sequence is
    dispatched to its handler (exactly one `invokeUnary` for it at the end of the effect list). -/
theorem probe_after_garbage (v : ServerView) (es : List Env) (probe : Env) :
    ∀ reg, (∀ reg', classify true v reg' probe = .dispatchUnary) →
    ∃ pre, (runSeq true v reg (es ++ [probe])).1 = pre ++ [.invokeUnary probe.id] := by
  induction es with
  | nil =>
    intro reg hp
    exact ⟨[], by simp [runSeq, hp reg, effectOf]⟩
  | cons e es ih =>
    intro reg hp
    obtain ⟨pre, h⟩ := ih (nextRegistered reg e (classify true v reg e)) hp
    refine ⟨effectOf e (classify true v reg e) ++ pre, ?_⟩
    simp only [List.cons_append, runSeq, classify_total_no_panic, if_false]
    rw [h]; simp

/-- the unary classification does not depend on the stream registry -/
theorem unary_ignores_registry (v : ServerView) (reg reg' : List Nat) (e : Env)
    (h : classify true v reg e = .dispatchUnary) : classify true v reg' e = .dispatchUnary := by
  unfold classify at h ⊢
  repeat' split at h
  all_goals simp_all
  all_goals (repeat' split) <;> simp_all

/-! ### negative witness: pre-repair, one envelope with an undecodable -bin value crashed the process -/
def demoView : ServerView := { name := [115], services := [([118], [[117]], [[98]])] }
def badMetaUnary : Env :=
  { id := 1, header := some { method := [47,118,47,117], dst := [115], headers := [⟨[120,45,98,105,110], [33]⟩] }, body := some [] }
theorem bad_unaryBadMetaIsErrorReply : classify false demoView [] badMetaUnary = .panic := by decide
example : classify true demoView [] badMetaUnary = .unaryErrorReply := by decide

/-! ### non-vacuity -/
example : parseRawMethod [47,118,47,117] = some ([118], [117]) := by decide
example : parseRawMethod [118,47,117] = some ([118], [117]) := by decide
example : parseRawMethod [97,47,98,47,99] = some ([97,47,98], [99]) := by decide
example : parseRawMethod [47] = none := by decide
example : parseRawMethod [] = none := by decide
example : classify true demoView [] { id := 4, header := some { method := [47,118,47,98], dst := [115] }, body := some [1] } = .resetBody := by decide
example : ∀ reg', classify true demoView reg' { id := 9, header := some { method := [47,118,47,117], dst := [115] }, body := some [] } = .dispatchUnary := by
  intro reg'; simp [classify, demoView, parseRawMethod, metaDecodes, Metadata.toMetadata]

end Goat.Props.C12
