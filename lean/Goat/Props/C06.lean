/-
  C06 — every emitted envelope sequence conforms to the documented wire protocol.
  The automata `accC` / `accS` (Goat/Protocol.lean) are also the executable monitors run on every
  wire tap. Here: what the server side emits is accepted, for every handler program.
  (Client-side emission and the reset/trailer order through the single writer are proved over the
   ClientStream and ServerConn transition systems; see Goat/Props/C06b.lean when present.)
-/
import Goat.ServerStreamProofs
namespace Goat.Props.C06
open Goat Goat.Protocol Goat.ServerStream Goat.StatusM

/-- Streams: whatever the handler does (any sequence of SetHeader / SendHeader / SendMsg /
    SetTrailer, any outcome of each transport write) and however it ends, the envelopes that reach
    the wire for its id are accepted by the server→client automaton: optional header-only envelope
    first, bodies, exactly one trailer with a status, response metadata on the first envelope only,
    constant route, nothing after the trailer. -/
theorem server_stream_emits_conform (s : SS) (hH : s.headersSent = false) (hT : s.trailersSent = false)
    (ops : List Op) (st : Status) (w : Bool) :
    accS false ((emitted s ops st w).map shapeOf) = true := by
  unfold accS
  exact emits_conform_aux ops s .start hT (Or.inl rfl) st w

/-- the trailer is always present when the final write succeeds, and carries the handler's status -/
theorem trailer_present (s : SS) (hT : s.trailersSent = false) (ops : List Op) (st : Status) :
    ∃ pre e, emitted s ops st true = pre ++ [e] ∧ e.trailer.isSome ∧ e.status = some st := by
  obtain ⟨pre, e, h1, h2, h3⟩ := trailer_md_complete ops s hT st
  exact ⟨pre, e, h1, by simp [h2], h3⟩

/-- every envelope the stream object emits carries the stream's id -/
theorem stream_envelopes_carry_id (ops : List Op) : ∀ (s : SS) st w, ∀ e ∈ emitted s ops st w, e.id = s.id := by
  induction ops with
  | nil =>
    intro s st w e he
    simp only [emitted, sendTrailer] at he
    split at he
    · simp at he
    · cases w <;> simp at he
      subst he; rfl
  | cons op ops ih =>
    intro s st w e he
    simp only [emitted, List.mem_append] at he
    rcases he with he | he
    · cases op with
      | setHeader md => simp only [step] at he; split at he <;> simp at he
      | setTrailer md => simp only [step] at he; split at he <;> simp at he
      | sendHeader md wk =>
        simp only [step] at he
        split at he
        · simp at he
        · cases wk <;> simp at he
          subst he; rfl
      | sendMsg b wk =>
        cases wk <;> simp [step] at he
        subst he; rfl
    · rw [ih _ st w e he]; exact (step_keeps s op).1

/-- the unary reply built by processUnaryRpc -/
def unaryReply (req : Env) (fullMethod : Bytes) (body : Option Bytes) (e : HErr) (hdrs trailers : List KV) : Env :=
  { id := req.id
    header := some { method := fullMethod,
                     src := (req.header.map (·.dst)).getD [], dst := (req.header.map (·.src)).getD [],
                     headers := hdrs }
    status := serverUnaryStatus e
    body := body
    trailer := some trailers }

/-- Unary: the response is exactly one envelope with header and trailer, and a body or a non-OK
    status — provided the handler returned a reply or a non-OK error (every generated handler does). -/
theorem unary_reply_conforms (req : Env) (m : Bytes) (body : Option Bytes) (e : HErr) (h t : List KV)
    (hres : body.isSome = true ∨ NonOK e) :
    accS true [shapeOf (unaryReply req m body e h t)] = true := by
  rcases hres with hb | he
  · cases body with
    | none => simp at hb
    | some b => simp [accS, runS, stepS, shapeOf, unaryReply]
  · have : clientUnary true (serverUnaryStatus e) body = .error (normalise true e) := by
      cases e <;> simp_all [NonOK, serverUnaryStatus, fromError, fromContextError, clientUnary, normalise,
        codeOK, codeUnknown, codeCanceled, codeDeadline]
    cases hs : serverUnaryStatus e with
    | none => cases e <;> simp_all [serverUnaryStatus, NonOK]
    | some s =>
      have hne : s.code ≠ 0 := by
        intro h0
        simp [hs, clientUnary, codeOK, h0] at this
        cases body <;> simp at this
      simp [accS, runS, stepS, shapeOf, unaryReply, hs, hne]

/-- responses swap source and destination of the request and echo its id -/
theorem unary_reply_swaps_route (req : Env) (hq : Header) (hreq : req.header = some hq) (m : Bytes) (b e h t) :
    (unaryReply req m b e h t).id = req.id ∧
    ((unaryReply req m b e h t).header.map (fun x => (x.src, x.dst))) = some (hq.dst, hq.src) := by
  simp [unaryReply, hreq]

/-! ### the automata reject what the property forbids (the monitors are not vacuous) -/
example : accS false [{ hasBody := true }, { hasTrailer := true, hasStatus := true }, { hasBody := true }] = false := by decide
example : accS false [{ hasBody := true }, { isReset := true, hasTrailer := true }] = false := by decide      -- reset overtakes trailer
example : accS false [{ hasBody := true }, { hasTrailer := true, hasStatus := true }, { isReset := true, hasTrailer := true }] = true := by decide
example : accS false [{ hasBody := true, hasMeta := true }, { hasBody := true, hasMeta := true }] = false := by decide
example : accS true [{ hasTrailer := true }] = false := by decide                                              -- unary without body or status
example : accC [{ }, { hasBody := true }, { hasTrailer := true, hasStatus := true }, { isReset := true }] = true := by decide
example : accC [{ }, { isReset := true }, { hasBody := true }] = false := by decide                            -- the reset is final
example : accC [{ hasBody := true }, { hasBody := true }] = false := by decide                                 -- unary: exactly one request
-- a non-trivial handler program satisfying the theorem's hypotheses
example : accS false ((emitted {} [.setHeader [([97],[[1]])], .sendMsg [1] true, .sendMsg [2] false, .setTrailer [([98],[[2]])], .sendMsg [3] true]
    { code := 5 } true).map shapeOf) = true := by decide

end Goat.Props.C06
