/-
  Property theorems of the client stream (`/repo/internal/client/stream.go`):
  C02 (receive sequence, end of stream, the done-check/select window), C03 (stream part: reset is
  never a success), C07 (cancellation), C13 (no hang, no crash), C14/C06 (finishing block).

  Every theorem quantifies over ALL label sequences (`Reachable cfg s`), i.e. over all
  interleavings of the read loop, the receiver, the sender, `Header()`/`Trailer()` callers, the
  caller's context and the envelopes/errors the multiplexer delivers.  Proofs are short calls to
  the invariants of `ClientStreamProofs`/`ClientStreamProofs2`.  Each `Cfg` flag has a negative
  witness (a concrete run, checked by `decide`), each theorem a non-vacuity `example`.
-/
import Goat.ClientStreamProofs2

namespace Goat.ClientStream

/-! ## Concrete runs used as witnesses -/

/-- an envelope with (decodable) headers and a body -/
def envBody (b : Bytes) : InEnv := { body := some b }
/-- trailer, status OK -/
def envOk : InEnv := { trailer := true }
/-- trailer, status code `c` -/
def envStatus (c : Int) : InEnv := { trailer := true, code := c }
/-- the reset envelope the GOAT server writes: `Reset_` set, empty trailer, no status -/
def envReset : InEnv := { reset := true, trailer := true }
/-- first envelope with an invalid `-bin` header value -/
def envBadMeta : InEnv := { metaBad := true, body := some [1] }
/-- OK trailer whose metadata is undecodable -/
def envBadTrailer : InEnv := { trailer := true, trMetaBad := true }

/-- the finishing block without a reset -/
def finNoRst : List Label := [.finLock, .finCloseRCh, .finUnregister, .finCancel, .finSetDone]
/-- the finishing block with a reset -/
def finWithRst : List Label :=
  [.finLock, .finCloseRCh, .finRst, .finUnregister, .finCancel, .finSetDone]

/-- two messages delivered, then an OK trailer, then two more `RecvMsg` -/
def runTwoThenEof : List Label :=
  [.recvCheck, .rlGet (envBody [1]), .recvTake, .rlGet (envBody [2]), .recvCheck, .recvTake,
   .rlGet envOk] ++ finNoRst ++ [.recvCheck, .recvCheck]

/-- one message delivered, the second offered, the caller cancels: the read loop gives up,
a reset goes out, `RecvMsg` reports the cancellation twice -/
def runCancelMidStream : List Label :=
  [.rlGet (envBody [1]), .recvCheck, .recvTake, .rlGet (envBody [2]), .recvCheck, .callerCancel,
   .rlCtx, .recvCtx] ++ finWithRst ++ [.recvCheck]

/-- the window: `RecvMsg` passes its done-check, then the OK trailer is processed and the whole
finishing block runs, then the select looks at `ctx.Done` -/
def runWindow : List Label :=
  [.recvCheck, .rlGet envOk] ++ finNoRst ++ [.recvCtx]

/-! ## 1. C02: the receive sequence -/

/-- `cs_recv_sequence`.  For every run: the messages `RecvMsg` returned, in order, followed by
the body the read loop is offering (or gave up offering when its context ended), are exactly the
bodies of the envelopes handed to the read loop, in order, up to the first terminal envelope.
In particular what was received is a prefix of it, and each message is returned once. -/
theorem cs_recv_sequence (cfg : Cfg) (s : State) (h : Reachable cfg s) :
    s.received = s.recvResults.filterMap Res.msg? ∧
    s.received ++ inflight s = specBodies cfg true s.inbox ∧
    s.received <+: specBodies cfg true s.inbox := by
  have hi := inv_of_reachable cfg s h
  have h1 := hi.seq.1
  have h2 := hi.seq.2.1
  refine ⟨hi.res.2, by rw [← h1, h2], ⟨inflight s, by rw [← h1, h2]⟩⟩

/-- If `RecvMsg` has reported `io.EOF`, then ALL bodies up to the trailer have been delivered:
nothing was dropped. -/
theorem cs_eof_complete (cfg : Cfg) (s : State) (h : Reachable cfg s)
    (he : .err .eof ∈ s.recvResults) : s.received = specBodies cfg true s.inbox := by
  have hi := inv_of_reachable cfg s h
  have hr := hi.res.1 _ he
  simp only [ResOk] at hr
  have hd : s.done = true ∧ s.pending = some .eof := by
    rcases hr with ⟨h, _⟩ | h
    · cases h
    · exact h
  have hex := hi.core.2.1.1 hd.1
  have hdrop : s.dropped = none := by
    cases hdr : s.dropped with
    | none => rfl
    | some b => have := hi.seq.2.2.2.2.2.1 (by simp [hdr]); rw [hd.2] at this; cases this
  have := (cs_recv_sequence cfg s h).2.1
  simpa [inflight, hex, hdrop] using this

example : ∃ s, run Cfg.good init runTwoThenEof = some s ∧
    s.recvResults = [.msg [1], .msg [2], .err .eof, .err .eof] ∧ s.received = [[1], [2]] :=
  ⟨_, rfl, by decide, by decide⟩

/-! ## 2. C02/C03: end of stream -/

/-- `cs_eof_iff_ok_trailer`, direction "→".  If some `RecvMsg` returned `io.EOF`, then the first
terminal envelope the read loop was handed is a trailer with status OK that is not a reset
(and not a first envelope with undecodable headers). -/
theorem cs_eof_only_after_ok_trailer (cfg : Cfg) (s : State) (h : Reachable cfg s)
    (he : .err .eof ∈ s.recvResults) :
    ∃ pre e post, s.inbox = pre ++ e :: post ∧ live cfg true pre = true ∧
      e.trailer = true ∧ e.code = 0 ∧ ¬(cfg.resetIsError = true ∧ e.reset = true) ∧
      ¬(pre = [] ∧ e.metaBad = true) := by
  have hi := inv_of_reachable cfg s h
  have hr := hi.res.1 _ he
  simp only [ResOk] at hr
  have hp : s.pending = some .eof := by
    rcases hr with ⟨h, _⟩ | h
    · cases h
    · exact h.2
  have hspec : specTerminal cfg true s.inbox = some (some .eof) := by
    cases hsp : specTerminal cfg true s.inbox with
    | none =>
      have := (hi.term.2 hsp).1; rw [hp] at this
      rcases this with h | h | h <;> cases h
    | some p => have := (hi.term.1 p hsp).1; rw [hp] at this; rw [← this]
  obtain ⟨pre, e, post, hin, hl, hd⟩ := (specTerminal_some_iff cfg true s.inbox _).1 hspec
  have := (decide1_eof_iff cfg _ e).1 hd
  refine ⟨pre, e, post, hin, hl, this.2.1, this.2.2.1, this.2.2.2, ?_⟩
  intro hh; apply this.1; simp [hh.1, hh.2]

/-- `cs_eof_iff_ok_trailer`, direction "←".  If the first terminal envelope handed to the read
loop is an OK trailer that is not a reset, then the read loop's verdict is `io.EOF`; once the
stream is done that is what is stored, every terminal result already returned is `io.EOF`, and a
`RecvMsg` that starts now returns `io.EOF`. -/
theorem cs_ok_trailer_gives_eof (cfg : Cfg) (s : State) (h : Reachable cfg s)
    (pre post : List InEnv) (e : InEnv) (hin : s.inbox = pre ++ e :: post)
    (hl : live cfg true pre = true) (ht : e.trailer = true) (hc : e.code = 0)
    (hr : ¬(cfg.resetIsError = true ∧ e.reset = true)) (hm : ¬(pre = [] ∧ e.metaBad = true)) :
    s.pending = some .eof ∧
    (s.done = true → s.rErr = some .eof ∧
      (∀ r ∈ s.recvResults, r.isTerminal = true → r = .err .eof) ∧
      (s.recv = .idle → s.mu = false ∧
        step cfg s .recvCheck = some { s with recvResults := s.recvResults ++ [.err .eof] })) := by
  have hi := inv_of_reachable cfg s h
  have hd : decide1 cfg (true && pre.isEmpty) e = some (some .eof) := by
    apply (decide1_eof_iff cfg _ e).2
    refine ⟨?_, ht, hc, hr⟩
    intro hh; apply hm; simp at hh; exact ⟨hh.1, hh.2⟩
  have hspec := (specTerminal_some_iff cfg true s.inbox _).2 ⟨pre, e, post, hin, hl, hd⟩
  have hp := (hi.term.1 _ hspec).1
  refine ⟨hp, ?_⟩
  intro hdone
  have hex := hi.core.2.1.1 hdone
  have hre : s.rErr = some .eof := by rw [(hi.core.2.2.1 hex).1, hp]
  have hmu : s.mu = false := by
    cases hmm : s.mu with
    | false => rfl
    | true => have := hi.core.1.1 hmm; rw [hex] at this; simp at this
  refine ⟨hre, ?_, ?_⟩
  · intro r hm' ht'
    have := (terminal_res_done cfg s hi.core r (hi.res.1 r hm') ht').2
    rw [this, hre]; rfl
  · intro hidle
    refine ⟨hmu, ?_⟩
    simp [step, hidle, hmu, hdone, hre, resOfRErr]

/-- `cs_eof_iff_ok_trailer`.  On a finished stream: `RecvMsg` reports `io.EOF` (the stored
status is `io.EOF`; it is what every `RecvMsg` from now on returns, see `done_sticky`) if and only
if the first terminal envelope handed to the read loop is a trailer with status OK that is not a
reset (nor a first envelope with undecodable headers). -/
theorem cs_eof_iff_ok_trailer (cfg : Cfg) (s : State) (h : Reachable cfg s) (hd : s.done = true) :
    resOfRErr s.rErr = .err .eof ↔
    ∃ pre e post, s.inbox = pre ++ e :: post ∧ live cfg true pre = true ∧
      e.trailer = true ∧ e.code = 0 ∧ ¬(cfg.resetIsError = true ∧ e.reset = true) ∧
      ¬(pre = [] ∧ e.metaBad = true) := by
  have hi := inv_of_reachable cfg s h
  have hre := (hi.core.2.2.1 (hi.core.2.1.1 hd)).1
  constructor
  · intro he
    have hp : s.pending = some .eof := by
      rw [← hre]; cases hr : s.rErr with
      | none => rw [hr] at he; simp [resOfRErr] at he
      | some t => rw [hr] at he; simp [resOfRErr] at he; rw [he]
    have hspec : specTerminal cfg true s.inbox = some (some .eof) := by
      cases hsp : specTerminal cfg true s.inbox with
      | none =>
        have := (hi.term.2 hsp).1; rw [hp] at this
        rcases this with h | h | h <;> cases h
      | some p => have := (hi.term.1 p hsp).1; rw [hp] at this; rw [← this]
    obtain ⟨pre, e, post, hin, hl, hdec⟩ := (specTerminal_some_iff cfg true s.inbox _).1 hspec
    have := (decide1_eof_iff cfg _ e).1 hdec
    refine ⟨pre, e, post, hin, hl, this.2.1, this.2.2.1, this.2.2.2, ?_⟩
    intro hh; apply this.1; simp [hh.1, hh.2]
  · rintro ⟨pre, e, post, hin, hl, ht, hc, hr, hm⟩
    have := (cs_ok_trailer_gives_eof cfg s h pre post e hin hl ht hc hr hm).2 hd
    rw [this.1]; rfl

example : ∃ s, run Cfg.good init runTwoThenEof = some s ∧ .err .eof ∈ s.recvResults ∧
    s.done = true ∧ s.inbox = [envBody [1], envBody [2]] ++ envOk :: [] :=
  ⟨_, rfl, by decide, by decide, by decide⟩

/-- a non-OK trailer is reported as its status, not as `io.EOF` -/
example : ∃ s, run Cfg.good init ([.rlGet (envStatus 5)] ++ finNoRst ++ [.recvCheck]) = some s ∧
    s.recvResults = [.err (.status 5)] :=
  ⟨_, rfl, by decide⟩

/-- `reset_is_never_success` (C03, `resetIsError`).  Once a reset envelope has been handed to the
read loop, the stream can not end successfully: the verdict is not `io.EOF` (nor nil), no
`RecvMsg` has returned or will return `io.EOF`. -/
theorem reset_is_never_success (cfg : Cfg) (hf : cfg.resetIsError = true) (s : State)
    (h : Reachable cfg s) (e : InEnv) (he : e ∈ s.inbox) (hr : e.reset = true) :
    s.pending ≠ some .eof ∧ .err .eof ∉ s.recvResults ∧
    (s.pending = some .unavailable ∨ s.pending = some .internalMeta ∨
      (cfg.badMetaSetsErr = false ∧ s.pending = none)) := by
  have hi := inv_of_reachable cfg s h
  have hlive := hi.seq.2.2.2.2.2.2
  have hterm : errorIfDone cfg e = some .unavailable := by simp [errorIfDone, hf, hr]
  have hne : s.inbox ≠ [] := by intro h0; rw [h0] at he; cases he
  have hsplit := List.dropLast_concat_getLast hne
  have hlast : e = s.inbox.getLast hne := by
    rw [← hsplit] at he
    rcases List.mem_append.1 he with h1 | h1
    · have := live_mem cfg true _ hlive e h1; rw [hterm] at this; cases this
    · simpa using h1
  have hspec : specTerminal cfg true s.inbox = decide1 cfg (true && s.inbox.dropLast.isEmpty) e := by
    rw [hlast]
    conv => lhs; rw [← hsplit]
    exact specTerminal_snoc cfg true _ _ hlive
  have hdec : decide1 cfg (true && s.inbox.dropLast.isEmpty) e = some (some .unavailable) ∨
      decide1 cfg (true && s.inbox.dropLast.isEmpty) e = some (some .internalMeta) ∨
      (cfg.badMetaSetsErr = false ∧
        decide1 cfg (true && s.inbox.dropLast.isEmpty) e = some none) := by
    unfold decide1
    split
    · cases hb : cfg.badMetaSetsErr <;> simp
    · simp [hterm]
  have hp : s.pending = some .unavailable ∨ s.pending = some .internalMeta ∨
      (cfg.badMetaSetsErr = false ∧ s.pending = none) := by
    rcases hdec with hd | hd | ⟨hb, hd⟩
    · exact Or.inl (hi.term.1 _ (hspec.trans hd)).1
    · exact Or.inr (Or.inl (hi.term.1 _ (hspec.trans hd)).1)
    · exact Or.inr (Or.inr ⟨hb, (hi.term.1 _ (hspec.trans hd)).1⟩)
  have hpe : s.pending ≠ some .eof := by
    rcases hp with h1 | h1 | ⟨_, h1⟩ <;> rw [h1] <;> simp
  refine ⟨hpe, ?_, hp⟩
  intro hmem
  have := hi.res.1 _ hmem
  simp only [ResOk] at this
  rcases this with ⟨h1, _⟩ | h1
  · cases h1
  · exact hpe h1.2

example : ∃ s, run Cfg.good init
    ([.rlGet (envBody [1]), .recvCheck, .recvTake, .rlGet envReset] ++ finNoRst ++ [.recvCheck])
    = some s ∧ envReset ∈ s.inbox ∧ s.recvResults = [.msg [1], .err .unavailable] :=
  ⟨_, rfl, by decide, by decide⟩

/-- Negative for `resetIsError`: before the repair the server's reset envelope (empty trailer, no
status) ended the stream with `io.EOF`. -/
theorem bad_resetIsError :
    ∃ s, run { resetIsError := false } init ([.rlGet envReset] ++ finNoRst ++ [.recvCheck]) = some s ∧
      envReset ∈ s.inbox ∧ s.recvResults = [.err .eof] :=
  ⟨_, rfl, by decide, by decide⟩

/-! ## 3. C02: the done-check / select window -/

/-- `cs_never_canceled_after_trailer` (`recvRechecksDoneOnCtx`).  In every run in which the
caller's context never ended (and no `SendMsg` tore the stream down after a failed write), no
`RecvMsg` ever returns the context error — whatever the interleaving of the finishing block with
`RecvMsg`'s done-check and select. -/
theorem cs_never_canceled_after_trailer (cfg : Cfg) (hf : cfg.recvRechecksDoneOnCtx = true)
    (s : State) (h : Reachable cfg s) (hc : s.ctxByCaller = false) (hs : s.ctxBySend = false) :
    .err .ctxErr ∉ s.recvResults := by
  have hi := inv_of_reachable cfg s h
  intro hmem
  have := hi.res.1 _ hmem
  simp only [ResOk] at this
  rcases this with ⟨_, _, h3⟩ | ⟨_, h2⟩
  · rcases h3 hf with h | h
    · rw [hc] at h; cases h
    · rw [hs] at h; cases h
  · rcases hi.core.2.2.2.2.2.2.2.1 h2 with h | h
    · rw [hc] at h; cases h
    · rw [hs] at h; cases h

/-- The hypothesis `ctxBySend = false` cannot be dropped, on the code as it is now: the OK
trailer has been processed, the caller never cancels, a concurrent `SendMsg` fails in the
transport and tears the stream down (`cs.teardown(false)` cancels `cs.ctx`) before the finishing
block has taken the mutex — `RecvMsg` re-checks, finds the stream not yet done, and returns the
context status.  (Reported in REPORT.md as a residual of the window.) -/
theorem send_teardown_window :
    ∃ s, run Cfg.good init
        [.recvCheck, .sendCheck, .rlGet envOk, .sendWrite [7] false, .sendTeardown, .recvCtx] = some s ∧
      s.ctxByCaller = false ∧ s.ctxBySend = true ∧ s.pending = some .eof ∧
      s.recvResults = [.err .ctxErr] :=
  ⟨_, rfl, by decide, by decide, by decide, by decide⟩

/-- ... and then what a finished stream reports is what the read loop decided. -/
theorem cs_terminal_result_is_verdict (cfg : Cfg) (s : State) (h : Reachable cfg s) (r : Res)
    (hr : r ∈ s.recvResults) (ht : r.isTerminal = true) :
    s.done = true ∧ r = resOfRErr s.pending := by
  have hi := inv_of_reachable cfg s h
  have := terminal_res_done cfg s hi.core r (hi.res.1 r hr) ht
  refine ⟨this.1, ?_⟩
  rw [this.2, (hi.core.2.2.1 (hi.core.2.1.1 this.1)).1]

/-- `cs_no_closed_rch_panic`: the "cs.rCh was closed but cs.done == false!" panic is unreachable
(for every configuration: `readErrorIfDone` waits for the stream mutex, which the finishing block
holds from before closing `rCh` until after setting `done`). -/
theorem cs_no_closed_rch_panic (cfg : Cfg) (s : State) (h : Reachable cfg s) :
    .panic ∉ s.recvResults := by
  have hi := inv_of_reachable cfg s h
  intro hmem
  exact hi.res.1 _ hmem

/-- `recvClosed` is taken on a real run, and finds the stream done. -/
example : ∃ s, run Cfg.good init ([.recvCheck, .rlGet envOk] ++ finNoRst ++ [.recvClosed]) = some s ∧
    s.recvResults = [.err .eof] :=
  ⟨_, rfl, by decide⟩

/-- Negative `cs_window_bug`: without the re-check, the OK trailer is processed, the caller never
cancels, and `RecvMsg` returns the cancellation of the stream's own teardown. -/
theorem cs_window_bug :
    ∃ s, run { recvRechecksDoneOnCtx := false } init runWindow = some s ∧
      s.ctxByCaller = false ∧ s.ctxBySend = false ∧ s.pending = some .eof ∧
      s.recvResults = [.err .ctxErr] :=
  ⟨_, rfl, by decide, by decide, by decide, by decide⟩

/-- The same schedule on the repaired code (non-vacuity of `cs_never_canceled_after_trailer`). -/
example : ∃ s, run Cfg.good init runWindow = some s ∧ s.ctxByCaller = false ∧
    s.ctxBySend = false ∧ s.recvResults = [.err .eof] :=
  ⟨_, rfl, by decide, by decide, by decide⟩

/-! ## 4. C07: cancellation -/

/-- `cancel_fails_recv`, progress part.  A `RecvMsg` at its select whose context is done:
if the stream mutex is free its `ctx.Done` branch is enabled and returns the context status, or
the terminal status if the stream is done; if the mutex is held (by the finishing block) then
the finishing block's next step is enabled and moves it strictly towards releasing the mutex
(at most 5 steps, `Rl.rank ≤ 7`), and it does not touch the receiver. -/
theorem cancel_fails_recv (cfg : Cfg) (s : State) (h : Reachable cfg s)
    (hr : s.recv = .checked) (hx : s.ctxDone = true) :
    (s.mu = false → ∃ s', step cfg s .recvCtx = some s' ∧ s'.recv = .idle ∧
        (s'.recvResults = s.recvResults ++ [.err .ctxErr] ∨
         (s.done = true ∧ s'.recvResults = s.recvResults ++ [resOfRErr s.rErr]))) ∧
    (s.mu = true → ∃ s', step cfg s (nextFin s) = some s' ∧ s.rl.rank < s'.rl.rank ∧
        s'.recv = .checked ∧ s'.ctxDone = true) := by
  have hi := inv_of_reachable cfg s h
  refine ⟨recvCtx_enabled cfg s hr hx, ?_⟩
  intro hm
  obtain ⟨s', hs', hrank⟩ := fin_progress cfg s hi.core hm
  have hf := nextFin_frame cfg s s' hm hi.core hs'
  exact ⟨s', hs', hrank, by rw [hf.1, hr], hf.2.2 hx⟩

/-- both cases of `cancel_fails_recv` occur: mutex free, and mutex held by the finishing block -/
example : ∃ s, run Cfg.good init [.recvCheck, .callerCancel] = some s ∧
    s.recv = .checked ∧ s.ctxDone = true ∧ s.mu = false :=
  ⟨_, rfl, by decide, by decide, by decide⟩
example : ∃ s, run Cfg.good init [.recvCheck, .callerCancel, .rlGetCtx, .finLock, .finCloseRCh]
    = some s ∧ s.recv = .checked ∧ s.ctxDone = true ∧ s.mu = true ∧ nextFin s = .finRst :=
  ⟨_, rfl, by decide, by decide, by decide, by decide⟩

/-- `cancel_fails_recv`, path form: from such a state there IS a continuation — at most five steps
of the finishing block, then `RecvMsg`'s `ctx.Done` branch — after which `RecvMsg` has returned. -/
theorem cancel_fails_recv_path (cfg : Cfg) (s : State) (h : Reachable cfg s)
    (hr : s.recv = .checked) (hx : s.ctxDone = true) :
    ∃ ls s' r, run cfg s ls = some s' ∧ ls.length ≤ 8 - s.rl.rank ∧
      s'.recvResults = s.recvResults ++ [r] ∧ s'.recv = .idle := by
  have key : ∀ n (s : State), Reachable cfg s → s.recv = .checked → s.ctxDone = true →
      7 - s.rl.rank ≤ n →
      ∃ ls s' r, run cfg s ls = some s' ∧ ls.length ≤ 8 - s.rl.rank ∧
        s'.recvResults = s.recvResults ++ [r] ∧ s'.recv = .idle := by
    intro n
    induction n with
    | zero =>
      intro s h hr hx hn
      have hi := inv_of_reachable cfg s h
      have hmu : s.mu = false := by
        cases hm : s.mu with
        | false => rfl
        | true =>
          obtain ⟨s', _, hlt⟩ := fin_progress cfg s hi.core hm
          have : s'.rl.rank ≤ 7 := by cases s'.rl <;> simp [Rl.rank]
          omega
      obtain ⟨s', hs', hidle, hres⟩ := recvCtx_enabled cfg s hr hx hmu
      have h7 : s.rl.rank ≤ 7 := by cases s.rl <;> simp [Rl.rank]
      rcases hres with hres | ⟨_, hres⟩
      · exact ⟨[.recvCtx], s', _, by simp [run, hs'], by simp; omega, hres, hidle⟩
      · exact ⟨[.recvCtx], s', _, by simp [run, hs'], by simp; omega, hres, hidle⟩
    | succ n ih =>
      intro s h hr hx hn
      have hi := inv_of_reachable cfg s h
      cases hm : s.mu with
      | false =>
        obtain ⟨s', hs', hidle, hres⟩ := recvCtx_enabled cfg s hr hx hm
        have hle : 1 ≤ 8 - s.rl.rank := by cases s.rl <;> simp [Rl.rank]
        rcases hres with hres | ⟨_, hres⟩
        · exact ⟨[.recvCtx], s', _, by simp [run, hs'], by simpa using hle, hres, hidle⟩
        · exact ⟨[.recvCtx], s', _, by simp [run, hs'], by simpa using hle, hres, hidle⟩
      | true =>
        obtain ⟨s1, hs1, hlt⟩ := fin_progress cfg s hi.core hm
        have hf := nextFin_frame cfg s s1 hm hi.core hs1
        have hreach : Reachable cfg s1 := by
          obtain ⟨l0, hl0⟩ := h
          exact ⟨l0 ++ [nextFin s], by rw [run_append, hl0]; simp [run, hs1]⟩
        have h7 : s1.rl.rank ≤ 7 := by cases s1.rl <;> simp [Rl.rank]
        obtain ⟨ls, s', r, hrun, hlen, hres, hidle⟩ :=
          ih s1 hreach (by rw [hf.1, hr]) (hf.2.2 hx) (by omega)
        refine ⟨nextFin s :: ls, s', r, by simp [run, hs1, hrun], by simp; omega, ?_, hidle⟩
        rw [hres, hf.2.1]
  exact key (7 - s.rl.rank) s h hr hx (Nat.le_refl _)

/-- `cancel_fails_recv`, result part (`badMetaSetsErr`).  Whatever `RecvMsg` returns, in any
run, is: a message that is the body of an envelope handed to the read loop; or the context
status, and then the stream's context is done; or the terminal status the read loop decided on a
finished stream.  Never nil-without-a-message, never a panic. -/
theorem recv_results_classified (cfg : Cfg) (hb : cfg.badMetaSetsErr = true) (s : State)
    (h : Reachable cfg s) (r : Res) (hr : r ∈ s.recvResults) :
    (∃ b, r = .msg b ∧ ∃ e ∈ s.inbox, e.body = some b) ∨
    (r = .err .ctxErr ∧ s.ctxDone = true) ∨
    (∃ t, r = .err t ∧ s.done = true ∧ s.rErr = some t) := by
  have hi := inv_of_reachable cfg s h
  have hok := hi.res.1 r hr
  cases r with
  | msg b =>
    left
    refine ⟨b, rfl, ?_⟩
    simp only [ResOk] at hok
    rw [hi.seq.2.1] at hok
    exact specBodies_mem cfg true s.inbox b hok
  | nilNoMsg => simp only [ResOk] at hok; rw [hb] at hok; cases hok.1
  | panic => exact hok.elim
  | err t =>
    simp only [ResOk] at hok
    rcases hok with ⟨h1, h2, _⟩ | ⟨h1, h2⟩
    · right; left; exact ⟨by rw [h1], h2⟩
    · right; right
      refine ⟨t, rfl, h1, ?_⟩
      rw [(hi.core.2.2.1 (hi.core.2.1.1 h1)).1, h2]

/-- `terminal_sticky`.  Once `RecvMsg` has returned a terminal status (any error other than the
context status), every later `RecvMsg` returns that same status — in every run. -/
theorem terminal_sticky (cfg : Cfg) (s : State) (h : Reachable cfg s)
    (pre post : List Res) (r : Res) (hsplit : s.recvResults = pre ++ r :: post)
    (ht : r.isTerminal = true) : ∀ x ∈ post, x = r :=
  (inv_of_reachable cfg s h).sticky.1 pre r post hsplit ht

/-- `done_sticky` (`recvRechecksDoneOnCtx`): once the stream is done, `done` and the stored
status never change, and everything `RecvMsg` returns from then on — including the context
status when that is what the read loop decided — is that stored status. -/
theorem done_sticky (cfg : Cfg) (hf : cfg.recvRechecksDoneOnCtx = true) (ls : List Label) :
    ∀ (s s' : State), Reachable cfg s → s.done = true → run cfg s ls = some s' →
      s'.done = true ∧ s'.rErr = s.rErr ∧
      ∃ k, s'.recvResults = s.recvResults ++ List.replicate k (resOfRErr s.rErr) := by
  induction ls with
  | nil =>
    intro s s' _ hd hrun
    simp [run] at hrun; subst hrun
    exact ⟨hd, rfl, 0, by simp⟩
  | cons l ls ih =>
    intro s s' hre hd hrun
    simp only [run] at hrun
    cases hs : step cfg s l with
    | none => simp [hs] at hrun
    | some s1 =>
      simp [hs] at hrun
      have hi := inv_of_reachable cfg s hre
      have hstep := done_step cfg s s1 l hi.core hd hs
      have hre1 : Reachable cfg s1 := by
        obtain ⟨l0, hl0⟩ := hre
        exact ⟨l0 ++ [l], by rw [run_append, hl0]; simp [run, hs]⟩
      obtain ⟨h1, h2, k, h3⟩ := ih s1 s' hre1 hstep.1 hrun
      refine ⟨h1, by rw [h2, hstep.2.1], ?_⟩
      rcases hstep.2.2.2.2.2.2 with h4 | h4 | ⟨h4, _⟩
      · exact ⟨k, by rw [h3, h4, hstep.2.1]⟩
      · refine ⟨k + 1, ?_⟩
        rw [h3, h4, hstep.2.1, List.replicate_succ]; simp
      · rw [hf] at h4; cases h4

/-- The context status itself is NOT sticky in the model: a `RecvMsg` that returned it before the
stream was done can be followed by one that returns the status of a trailer the read loop still
got to process (`rw.Read` may return an envelope although the context is done). -/
example : ∃ s, run Cfg.good init
    ([.recvCheck, .callerCancel, .recvCtx, .rlGet envOk] ++ finNoRst ++ [.recvCheck]) = some s ∧
    s.recvResults = [.err .ctxErr, .err .eof] :=
  ⟨_, rfl, by decide⟩

example : ∃ s, run Cfg.good init runCancelMidStream = some s ∧
    s.recvResults = [.msg [1], .err .ctxErr, .err .ctxErr] ∧ s.received = [[1]] ∧
    s.dropped = some [2] :=
  ⟨_, rfl, by decide, by decide, by decide⟩

/-- At most one reset is ever written, in every run. -/
theorem at_most_one_reset (cfg : Cfg) (s : State) (h : Reachable cfg s) :
    s.wireOut.count .reset ≤ 1 := by
  have := (inv_of_reachable cfg s h).wire.2.1
  rw [this]; split <;> simp

/-- `cancel_sends_one_reset`.  If the caller's context ended before the finishing block decided
about the reset, and the read loop did not process a trailer, then when the read loop has exited
exactly one reset has been written for the id, the finishing block ran
closeRCh, rst, unreg, cancel, done in that order — so the reset is the last thing the read-loop
side wrote and it precedes the unregistration — and the verdict is not a success. -/
theorem cancel_sends_one_reset (cfg : Cfg) (s : State) (h : Reachable cfg s)
    (hex : s.rl = .exited) (hc : s.cancelEarly = true) (ht : s.trailerLocal = none) :
    s.wireOut.count .reset = 1 ∧
    s.finLog = [.closeRCh, .rst, .unreg, .cancel, .done] ∧
    s.pending ≠ some .eof := by
  have hi := inv_of_reachable cfg s h
  have hrst : s.rstSent = true :=
    hi.core.2.2.2.2.2.2.2.2.2.2.2.2.2.2.1 (Or.inr (Or.inr hex)) hc ht
  refine ⟨by rw [hi.wire.2.1, hrst]; simp, by rw [hi.wire.1, hex, hrst]; rfl, ?_⟩
  intro hp
  exact hi.tr.1 (Or.inl hp) ht

/-- The same when no terminal envelope was processed at all (the usual reading of C07): the
caller cancels while the stream is open, the read loop exits → exactly one reset. -/
theorem cancel_before_terminal_sends_one_reset (cfg : Cfg) (s : State) (h : Reachable cfg s)
    (hex : s.rl = .exited) (hc : s.cancelEarly = true)
    (hn : specTerminal cfg true s.inbox = none) :
    s.wireOut.count .reset = 1 ∧ s.finLog = [.closeRCh, .rst, .unreg, .cancel, .done] := by
  have hi := inv_of_reachable cfg s h
  have := cancel_sends_one_reset cfg s h hex hc (hi.term.2 hn).2
  exact ⟨this.1, this.2.1⟩

example : ∃ s, run Cfg.good init runCancelMidStream = some s ∧ s.rl = .exited ∧
    s.cancelEarly = true ∧ specTerminal Cfg.good true s.inbox = none ∧
    s.wireOut = [.reset] :=
  ⟨_, rfl, by decide, by decide, by decide, by decide⟩

/-- `no_reset_after_trailer`.  If the read loop processed a trailer (in particular whenever the
verdict is `io.EOF` or a trailer status), no reset is ever written — in every state of every run,
hence also in all continuations. -/
theorem no_reset_after_trailer (cfg : Cfg) (s : State) (h : Reachable cfg s)
    (ht : s.trailerLocal ≠ none ∨ s.pending = some .eof ∨ ∃ c, s.pending = some (.status c)) :
    s.wireOut.count .reset = 0 := by
  have hi := inv_of_reachable cfg s h
  have ht' : s.trailerLocal ≠ none := by
    rcases ht with h1 | h1 | h1
    · exact h1
    · exact hi.tr.1 (Or.inl h1)
    · exact hi.tr.1 (Or.inr h1)
  rw [hi.wire.2.1]
  cases hr : s.rstSent with
  | false => simp
  | true => exact (ht' (hi.core.2.2.2.2.2.2.2.2.2.2.2.1 hr).1).elim

example : ∃ s, run Cfg.good init
    ([.rlGet (envStatus 5), .callerCancel] ++ finNoRst) = some s ∧
    s.pending = some (.status 5) ∧ s.ctxByCaller = true ∧ s.wireOut = [] :=
  ⟨_, rfl, by decide, by decide, by decide⟩

/-! ## 5. C13: no hang, no nil-without-message, no crash -/

/-- `header_always_released` (`badMetaSetsErr`).  In every run, as soon as the read loop has
processed its first envelope or failed — in particular when it has exited — the `ready` latch is
released, exactly once; `Header()` is then enabled whenever the stream mutex is free, and what it
returns never changes: a header with nil error, or no header with the error that ended the loop. -/
theorem header_always_released (cfg : Cfg) (hb : cfg.badMetaSetsErr = true) (s : State)
    (h : Reachable cfg s) :
    ((s.rl ≠ .reading ∨ s.inbox ≠ []) → s.ready = true) ∧
    (s.ready = true → s.mu = false → (step cfg s .headerWait).isSome = true) ∧
    s.readyTwice = false ∧
    (∀ hr ∈ s.headerResults, hr = (s.headerSet, s.headerErr) ∧
        (hr.1 = true → hr.2 = none) ∧ (hr.1 = false → hr.2 ≠ none)) := by
  have hi := inv_of_reachable cfg s h
  have hc := hi.core
  unfold Core at hc
  refine ⟨?_, headerWait_enabled cfg s, hc.2.2.2.2.2.2.2.2.2.2.2.2.2.2.2.1, ?_⟩
  · intro hh
    by_cases hr : s.rl = .reading
    · rcases hh with hh | hh
      · exact (hh hr).elim
      · have := (hi.seq.2.2.2.1 hr).2 hh
        grind
    · exact hc.2.2.2.2.2.2.2.2.2.2.2.2.2.2.2.2.2.1 hb hr
  · intro hr hm
    have := hi.misc.1 hr hm
    refine ⟨this.1, ?_, ?_⟩ <;> grind

example : ∃ s, run Cfg.good init ([.rlGet envBadMeta] ++ finNoRst ++ [.headerWait, .recvCheck])
    = some s ∧ s.headerResults = [(false, some .internalMeta)] ∧
    s.recvResults = [.err .internalMeta] :=
  ⟨_, rfl, by decide, by decide⟩

/-- `recv_never_nil_without_message` (`badMetaSetsErr`): `RecvMsg` never returns nil without a
message, and every message it returns is the body of an envelope handed to the read loop. -/
theorem recv_never_nil_without_message (cfg : Cfg) (hb : cfg.badMetaSetsErr = true) (s : State)
    (h : Reachable cfg s) :
    .nilNoMsg ∉ s.recvResults ∧
    ∀ b, .msg b ∈ s.recvResults → ∃ e ∈ s.inbox, e.body = some b := by
  refine ⟨?_, ?_⟩
  · intro hm
    rcases recv_results_classified cfg hb s h _ hm with ⟨b, h1, _⟩ | ⟨h1, _⟩ | ⟨t, h1, _⟩ <;> cases h1
  · intro b hm
    rcases recv_results_classified cfg hb s h _ hm with ⟨b', h1, h2⟩ | ⟨h1, _⟩ | ⟨t, h1, _⟩
    · cases h1; exact h2
    · cases h1
    · cases h1

/-- Negative for `badMetaSetsErr`: before the repair a first envelope with undecodable headers
made the read loop exit without releasing `ready` — `Header()` is disabled in the final state
although the read loop has exited — and `RecvMsg` returned nil with no message. -/
theorem bad_badMetaSetsErr :
    ∃ s, run { badMetaSetsErr := false } init ([.rlGet envBadMeta] ++ finNoRst ++ [.recvCheck])
        = some s ∧
      s.rl = .exited ∧ s.ready = false ∧ step { badMetaSetsErr := false } s .headerWait = none ∧
      s.recvResults = [.nilNoMsg] :=
  ⟨_, rfl, by decide, by decide, by decide, by decide⟩

/-- `trailer_never_panics` (`trailerNoPanic`): `Trailer()` never panics, whatever the peer sent. -/
theorem trailer_never_panics (cfg : Cfg) (hf : cfg.trailerNoPanic = true) (s : State)
    (h : Reachable cfg s) : .panic ∉ s.trailerResults := by
  intro hm
  exact (inv_of_reachable cfg s h).misc.2.1 hf _ hm rfl

example : ∃ s, run Cfg.good init ([.rlGet envBadTrailer] ++ finNoRst ++ [.trailerGet]) = some s ∧
    s.trailerResults = [.nil_] :=
  ⟨_, rfl, by decide⟩

theorem bad_trailerNoPanic :
    ∃ s, run { trailerNoPanic := false } init ([.rlGet envBadTrailer] ++ finNoRst ++ [.trailerGet])
        = some s ∧ s.trailerResults = [.panic] :=
  ⟨_, rfl, by decide⟩

/-- `closeSend_noop_when_done` (`closeSendNoopWhenDone`, C03 `status_at_every_position`, stream
part): a `CloseSend` called on a finished stream returns nil — in every run. -/
theorem closeSend_noop_when_done (cfg : Cfg) (hf : cfg.closeSendNoopWhenDone = true) (s : State)
    (h : Reachable cfg s) : ∀ c ∈ s.closeResults, c.1 = true → c.2 = true :=
  ((inv_of_reachable cfg s h).misc.2.2.1 hf).1

example : ∃ s, run Cfg.good init ([.rlGet envOk] ++ finNoRst ++ [.closeCheck]) = some s ∧
    s.closeResults = [(true, true)] ∧ s.wireOut = [] :=
  ⟨_, rfl, by decide, by decide⟩

theorem bad_closeSendNoopWhenDone :
    ∃ s, run { closeSendNoopWhenDone := false } init
        ([.rlGet envOk] ++ finNoRst ++ [.closeCheck, .closeWrite false]) = some s ∧
      s.pending = some .eof ∧ s.closeResults = [(true, false)] :=
  ⟨_, rfl, by decide, by decide⟩

/-! ## 6. C14/C06: the finishing block runs once -/

/-- `finishing_block_once`.  In every run the finishing block unregisters the stream from the
multiplexer at most once, exactly once when the read loop has exited; its log is one of the two
sequences closeRCh, [rst,] unreg, cancel, done (a prefix of it while it runs), so no reset
follows the unregistration. -/
theorem finishing_block_once (cfg : Cfg) (s : State) (h : Reachable cfg s) :
    s.finLog.count .unreg ≤ 1 ∧
    (s.rl = .exited → s.finLog.count .unreg = 1) ∧
    (s.finLog <+: [.closeRCh, .rst, .unreg, .cancel, .done] ∨
      s.finLog <+: [.closeRCh, .unreg, .cancel, .done]) ∧
    (∀ pre post, s.finLog = pre ++ .unreg :: post → .rst ∉ post) ∧
    s.unregs = s.finLog.count .unreg + s.sendResults.count .writeErr := by
  have hi := inv_of_reachable cfg s h
  have hlog := hi.wire.1
  refine ⟨?_, ?_, ?_, ?_, hi.wire.2.2⟩
  · rw [hlog]; cases s.rl <;> cases s.rstSent <;> first | decide | simp [expectedLog]
  · intro hex; rw [hlog, hex]; cases s.rstSent <;> decide
  · rw [hlog]; cases s.rl <;> cases s.rstSent <;> first | decide | simp [expectedLog]
  · intro pre post hsplit hmem
    have hsub : List.Sublist [FinEv.unreg, FinEv.rst] s.finLog := by
      rw [hsplit]
      have h1 : List.Sublist [FinEv.unreg, FinEv.rst] (FinEv.unreg :: post) :=
        List.Sublist.cons_cons _ (List.singleton_sublist.2 hmem)
      exact h1.trans (List.sublist_append_right pre _)
    rw [hlog] at hsub
    revert hsub
    cases s.rl <;> cases s.rstSent <;> first | decide | simp [expectedLog]

/-- ... and once it has unregistered, the read-loop side writes nothing more: in every
continuation the number of resets on the wire stays what it was. -/
theorem no_output_after_unregister (cfg : Cfg) (ls : List Label) :
    ∀ (s s' : State), Reachable cfg s → .unreg ∈ s.finLog → run cfg s ls = some s' →
      s'.wireOut.count .reset = s.wireOut.count .reset ∧ .unreg ∈ s'.finLog ∧
      s'.finLog.count .unreg = 1 := by
  have hrank : ∀ s : State, Reachable cfg s → (.unreg ∈ s.finLog ↔ 5 ≤ s.rl.rank) := by
    intro s h
    have hlog := (inv_of_reachable cfg s h).wire.1
    rw [hlog]; cases s.rl <;> cases s.rstSent <;> simp [expectedLog, Rl.rank]
  have hcount : ∀ s : State, Reachable cfg s → 5 ≤ s.rl.rank → s.finLog.count .unreg = 1 := by
    intro s h
    have hlog := (inv_of_reachable cfg s h).wire.1
    rw [hlog]; cases s.rl <;> cases s.rstSent <;> simp [expectedLog, Rl.rank]
  induction ls with
  | nil =>
    intro s s' hre hm hrun
    simp [run] at hrun; subst hrun
    exact ⟨rfl, hm, hcount s hre ((hrank s hre).1 hm)⟩
  | cons l ls ih =>
    intro s s' hre hm hrun
    simp only [run] at hrun
    cases hs : step cfg s l with
    | none => simp [hs] at hrun
    | some s1 =>
      simp [hs] at hrun
      have hi := inv_of_reachable cfg s hre
      have hre1 : Reachable cfg s1 := by
        obtain ⟨l0, hl0⟩ := hre
        exact ⟨l0 ++ [l], by rw [run_append, hl0]; simp [run, hs]⟩
      have hst := after_unreg_step cfg s s1 l hi.core ((hrank s hre).1 hm) hs
      have hm1 := (hrank s1 hre1).2 hst.1
      obtain ⟨h1, h2, h3⟩ := ih s1 s' hre1 hm1 hrun
      refine ⟨?_, h2, h3⟩
      rw [h1, (inv_of_reachable cfg s1 hre1).wire.2.1, hi.wire.2.1, hst.2]

example : ∃ s, run Cfg.good init runCancelMidStream = some s ∧
    s.finLog = [.closeRCh, .rst, .unreg, .cancel, .done] ∧ s.unregs = 1 :=
  ⟨_, rfl, by decide, by decide⟩

/-- A failed `SendMsg` runs the multiplexer's teardown a second time (harmless there: the delete
is idempotent), and its cancellation of the stream context makes the read loop send a reset. -/
example : ∃ s, run Cfg.good init
    ([.rlGet (envBody [1]), .sendCheck, .sendWrite [7] false, .sendTeardown, .rlCtx] ++ finWithRst)
      = some s ∧ s.unregs = 2 ∧ s.ctxByCaller = false ∧ s.wireOut = [.reset] ∧
      s.pending = some .ctxErr :=
  ⟨_, rfl, by decide, by decide, by decide, by decide⟩

/-- A `SendMsg` that passed its done-check before the cancellation can still hand a body to the
transport after the reset (a transport that ignores the context, like the HTTP one, accepts it). -/
example : ∃ s, run Cfg.good init
    ([.sendCheck, .callerCancel, .rlGetCtx] ++ finWithRst ++ [.sendWrite [7] true]) = some s ∧
      s.wireOut = [.reset, .body [7]] :=
  ⟨_, rfl, by decide⟩

end Goat.ClientStream
