/-
  Lemmas for the protobuf codec (Goat/Proto.lean): varint round trip, wire-layer round trip
  (`parseFields (putFields fs) = some fs`), per-message round trips.
-/
import Goat.Proto
namespace Goat.Proto
open Goat

/-! ### varints -/

theorem putVarintAux_ne_nil (n v : Nat) : putVarintAux n v ≠ [] := by
  cases n with
  | zero => simp [putVarintAux]
  | succ n => simp only [putVarintAux]; split <;> simp

theorem putVarint_ne_nil (v : Nat) : putVarint v ≠ [] := putVarintAux_ne_nil 9 v

theorem getVarintAux_put (n : Nat) : ∀ (v : Nat) (rest : Bytes), v < 2 ^ (7 * n + 1) →
    getVarintAux (n + 1) (putVarintAux n v ++ rest) = some (v, rest) := by
  induction n with
  | zero =>
    intro v rest h
    have : v < 2 := by simpa using h
    simp [putVarintAux, getVarintAux]; omega
  | succ n ih =>
    intro v rest h
    simp only [putVarintAux]
    split
    · rename_i hv
      simp [getVarintAux, hv]
    · rename_i hv
      have h2 : v / 128 < 2 ^ (7 * n + 1) := by
        have e : 2 ^ (7 * (n + 1) + 1) = 128 * 2 ^ (7 * n + 1) := by
          rw [show 7 * (n + 1) + 1 = 7 + (7 * n + 1) by omega, Nat.pow_add]
        rw [e] at h
        exact Nat.div_lt_of_lt_mul h
      have hb : ¬ (v % 128 + 128 < 128) := by omega
      simp only [List.cons_append, getVarintAux, hb, if_false, ih _ rest h2]
      congr 2
      omega

theorem getVarint_put (v : Nat) (rest : Bytes) (h : v < 18446744073709551616) :
    getVarint (putVarint v ++ rest) = some (v, rest) := by
  unfold getVarint putVarint
  exact getVarintAux_put 9 v rest (by simpa using h)


/-! ### wire layer -/

/-- what `putField` can write and `getField` reads back: a valid field number, a 64-bit varint,
    fixed-width values of their width, a length that fits a varint; no groups -/
def FieldOK : Field → Prop
  | (n, .varint v) => 1 ≤ n ∧ n ≤ maxFieldNum ∧ v < 18446744073709551616
  | (n, .fixed64 b) => 1 ≤ n ∧ n ≤ maxFieldNum ∧ b.length = 8
  | (n, .bytes b) => 1 ≤ n ∧ n ≤ maxFieldNum ∧ b.length < 18446744073709551616
  | (_, .group) => False
  | (n, .fixed32 b) => 1 ≤ n ∧ n ≤ maxFieldNum ∧ b.length = 4

theorem getField_put (f : Field) (rest : Bytes) (h : FieldOK f) :
    getField (putField f ++ rest) = some (f, rest) := by
  obtain ⟨n, v⟩ := f
  cases v with
  | varint v =>
    obtain ⟨h1, h2, h3⟩ := h
    simp only [maxFieldNum] at h2
    have e1 : (n * 8) % 8 = 0 := by omega
    have e2 : (n * 8) / 8 = n := by omega
    have hn : ¬ (n < 1 ∨ maxFieldNum < n) := by simp only [maxFieldNum]; omega
    simp only [putField, List.append_assoc, getField, getVarint_put (n * 8) _ (by omega), e1, e2, hn,
      if_false, getVarint_put v rest h3]
  | fixed64 b =>
    obtain ⟨h1, h2, h3⟩ := h
    simp only [maxFieldNum] at h2
    have e1 : (n * 8 + 1) % 8 = 1 := by omega
    have e2 : (n * 8 + 1) / 8 = n := by omega
    have hn : ¬ (n < 1 ∨ maxFieldNum < n) := by simp only [maxFieldNum]; omega
    have hl : 8 ≤ (b ++ rest).length := by simp; omega
    simp only [putField, List.append_assoc, getField, getVarint_put (n * 8 + 1) _ (by omega), e1, e2, hn,
      if_false, hl, if_true]
    simp [← h3]
  | bytes b =>
    obtain ⟨h1, h2, h3⟩ := h
    simp only [maxFieldNum] at h2
    have e1 : (n * 8 + 2) % 8 = 2 := by omega
    have e2 : (n * 8 + 2) / 8 = n := by omega
    have hn : ¬ (n < 1 ∨ maxFieldNum < n) := by simp only [maxFieldNum]; omega
    have hl : b.length ≤ (b ++ rest).length := by simp
    simp only [putField, List.append_assoc, getField, getVarint_put (n * 8 + 2) _ (by omega), e1, e2, hn,
      if_false, getVarint_put b.length _ h3, hl, if_true]
    simp
  | group => exact absurd h (by simp [FieldOK])
  | fixed32 b =>
    obtain ⟨h1, h2, h3⟩ := h
    simp only [maxFieldNum] at h2
    have e1 : (n * 8 + 5) % 8 = 5 := by omega
    have e2 : (n * 8 + 5) / 8 = n := by omega
    have hn : ¬ (n < 1 ∨ maxFieldNum < n) := by simp only [maxFieldNum]; omega
    have hl : 4 ≤ (b ++ rest).length := by simp; omega
    simp only [putField, List.append_assoc, getField, getVarint_put (n * 8 + 5) _ (by omega), e1, e2, hn,
      if_false, hl, if_true]
    simp [← h3]

theorem putField_ne_nil (f : Field) : putField f ≠ [] := by
  obtain ⟨n, v⟩ := f
  cases v <;> simp [putField, putVarint_ne_nil]

theorem parseFieldsAux_put (fs : List Field) : ∀ (n : Nat), fs.length ≤ n → (∀ f ∈ fs, FieldOK f) →
    parseFieldsAux n (putFields fs) = some fs := by
  induction fs with
  | nil => intro n _ _; cases n <;> simp [putFields, parseFieldsAux]
  | cons f fs ih =>
    intro n hn hok
    cases n with
    | zero => simp at hn
    | succ n =>
      have hne : (putField f ++ putFields fs).isEmpty = false := by
        have := putField_ne_nil f
        cases h : putField f with
        | nil => exact absurd h this
        | cons a t => simp
      have hf := getField_put f (putFields fs) (hok f (by simp))
      have ht := ih n (by simpa using hn) (fun g hg => hok g (by simp [hg]))
      have e : putFields (f :: fs) = putField f ++ putFields fs := by simp [putFields]
      rw [e]
      simp only [parseFieldsAux, hne, hf, ht]
      simp

theorem putFields_length_ge (fs : List Field) : fs.length ≤ (putFields fs).length := by
  induction fs with
  | nil => simp [putFields]
  | cons f fs ih =>
    have e : putFields (f :: fs) = putField f ++ putFields fs := by simp [putFields]
    have : 1 ≤ (putField f).length := by
      have := putField_ne_nil f
      cases h : putField f with
      | nil => exact absurd h this
      | cons a t => simp
    rw [e]; simp; omega

theorem parseFields_put (fs : List Field) (hok : ∀ f ∈ fs, FieldOK f) :
    parseFields (putFields fs) = some fs :=
  parseFieldsAux_put fs _ (putFields_length_ge fs) hok


/-- the fields the schema layer writes: varints and length-delimited values under valid numbers -/
def NumOK : Field → Prop
  | (n, .varint v) => 1 ≤ n ∧ n ≤ maxFieldNum ∧ v < 18446744073709551616
  | (n, .bytes _) => 1 ≤ n ∧ n ≤ maxFieldNum
  | _ => False

theorem mem_putFields_len {n : Nat} {b : Bytes} {fs : List Field} (h : (n, WVal.bytes b) ∈ fs) :
    b.length ≤ (putFields fs).length := by
  induction fs with
  | nil => simp at h
  | cons f fs ih =>
    have e : putFields (f :: fs) = putField f ++ putFields fs := by simp [putFields]
    rw [e, List.length_append]
    rcases List.mem_cons.1 h with h | h
    · subst h; simp [putField]; omega
    · have := ih h; omega

theorem parseFields_put' (fs : List Field) (hn : ∀ f ∈ fs, NumOK f)
    (hs : (putFields fs).length < 18446744073709551616) : parseFields (putFields fs) = some fs := by
  apply parseFields_put
  intro f hf
  obtain ⟨n, v⟩ := f
  have h := hn _ hf
  cases v with
  | varint v => exact h
  | bytes b => exact ⟨h.1, h.2, Nat.lt_of_le_of_lt (mem_putFields_len hf) hs⟩
  | fixed64 b => exact absurd h (by simp [NumOK])
  | group => exact absurd h (by simp [NumOK])
  | fixed32 b => exact absurd h (by simp [NumOK])

theorem mem_optBytes {f : Field} {n : Nat} {b : Bytes} (h : f ∈ optBytes n b) : f = (n, .bytes b) := by
  unfold optBytes at h; split at h <;> simp_all

theorem mem_optMsg {f : Field} {n : Nat} {o : Option Bytes} (h : f ∈ optMsg n o) : ∃ b, o = some b ∧ f = (n, .bytes b) := by
  cases o <;> simp_all [optMsg]

theorem foldlM_append_some {α β : Type} {step : β → α → Option β} {acc mid : β} {l1 l2 : List α}
    (h1 : l1.foldlM step acc = some mid) : (l1 ++ l2).foldlM step acc = l2.foldlM step mid := by
  simp [List.foldlM_append, h1]

/-! ### KeyValue and Any -/

theorem numOK_kv (kv : KV) : ∀ f ∈ kvFields kv, NumOK f := by
  intro f hf
  simp only [kvFields, List.mem_append] at hf
  rcases hf with hf | hf <;> (rw [mem_optBytes hf]; simp [NumOK, maxFieldNum])

theorem decodeKV_encode (kv : KV) (hw : KV.PWF kv) (hs : (encodeKV kv).length < 18446744073709551616) :
    decodeKV (encodeKV kv) = some kv := by
  obtain ⟨k, v⟩ := kv
  obtain ⟨hk, hv⟩ := hw
  simp only [Str] at hk hv
  unfold decodeKV decodeKVInto
  unfold encodeKV at hs ⊢
  rw [parseFields_put' _ (numOK_kv _) hs]
  simp only [kvFields, optBytes, emptyKV]
  split <;> split <;> simp_all [kvStep]

theorem numOK_any (a : AnyMsg) : ∀ f ∈ anyFields a, NumOK f := by
  intro f hf
  simp only [anyFields, List.mem_append] at hf
  rcases hf with hf | hf <;> (rw [mem_optBytes hf]; simp [NumOK, maxFieldNum])

theorem decodeAny_encode (a : AnyMsg) (hw : Str a.typeUrl) (hs : (encodeAny a).length < 18446744073709551616) :
    decodeAny (encodeAny a) = some a := by
  obtain ⟨k, v⟩ := a
  simp only [Str] at hw
  unfold decodeAny
  unfold encodeAny at hs ⊢
  rw [parseFields_put' _ (numOK_any _) hs]
  simp only [anyFields, optBytes]
  split <;> split <;> simp_all [anyStep]


/-! ### RequestHeader -/

theorem numOK_header (h : Header) : ∀ f ∈ headerFields h, NumOK f := by
  intro f hf
  simp only [headerFields, List.mem_append, List.mem_map] at hf
  rcases hf with hf | ⟨_, _, rfl⟩ | hf | hf | ⟨_, _, rfl⟩ | ⟨_, _, rfl⟩
  all_goals first
    | (rw [mem_optBytes hf]; simp [NumOK, maxFieldNum])
    | simp [NumOK, maxFieldNum]

theorem fold_headers (l : List KV) : ∀ (h : Header), (∀ kv ∈ l, decodeKV (encodeKV kv) = some kv) →
    (l.map (fun kv => ((2 : Nat), WVal.bytes (encodeKV kv)))).foldlM headerStep h
      = some { h with headers := h.headers ++ l } := by
  induction l with
  | nil => intro h _; simp
  | cons kv l ih =>
    intro h hok
    simp only [List.map_cons, List.foldlM_cons, headerStep, hok kv (by simp)]
    simp only [Option.bind_eq_bind, Option.bind_some]
    rw [ih _ (fun kv' hk => hok kv' (by simp [hk]))]
    simp

theorem fold_record (l : List Bytes) : ∀ (h : Header), (∀ s ∈ l, Str s) →
    (l.map (fun s => ((5 : Nat), WVal.bytes s))).foldlM headerStep h
      = some { h with record := h.record ++ l } := by
  induction l with
  | nil => intro h _; simp
  | cons s l ih =>
    intro h hok
    have hs : validUTF8 s = true := hok s (by simp)
    simp only [List.map_cons, List.foldlM_cons, headerStep, hs, if_true]
    simp only [Option.bind_eq_bind, Option.bind_some]
    rw [ih _ (fun s' hk => hok s' (by simp [hk]))]
    simp

theorem fold_next (l : List Bytes) : ∀ (h : Header), (∀ s ∈ l, Str s) →
    (l.map (fun s => ((6 : Nat), WVal.bytes s))).foldlM headerStep h
      = some { h with next := h.next ++ l } := by
  induction l with
  | nil => intro h _; simp
  | cons s l ih =>
    intro h hok
    have hs : validUTF8 s = true := hok s (by simp)
    simp only [List.map_cons, List.foldlM_cons, headerStep, hs, if_true]
    simp only [Option.bind_eq_bind, Option.bind_some]
    rw [ih _ (fun s' hk => hok s' (by simp [hk]))]
    simp

theorem decodeHeader_encode (h : Header) (hw : Header.PWF h) (hs : (encodeHeader h).length < 18446744073709551616) :
    decodeHeaderInto {} (encodeHeader h) = some h := by
  obtain ⟨m, src, dst, hdrs, rec, nxt⟩ := h
  obtain ⟨hm, hsrc, hdst, hkv, hrec, hnxt⟩ := hw
  simp only [Str] at hm hsrc hdst
  unfold decodeHeaderInto
  unfold encodeHeader at hs ⊢
  rw [parseFields_put' _ (numOK_header _) hs]
  have hkv' : ∀ kv ∈ hdrs, decodeKV (encodeKV kv) = some kv := by
    intro kv hmem
    apply decodeKV_encode kv (hkv kv hmem)
    refine Nat.lt_of_le_of_lt (mem_putFields_len (n := 2) ?_) hs
    simp only [headerFields, List.mem_append, List.mem_map]
    exact Or.inr (Or.inl ⟨kv, hmem, rfl⟩)
  simp only [headerFields]
  rw [foldlM_append_some (mid := ({ method := m } : Header))
        (by unfold optBytes; split <;> simp_all [headerStep])]
  rw [foldlM_append_some (fold_headers hdrs _ hkv')]
  rw [foldlM_append_some (mid := ({ method := m, src := src, headers := hdrs } : Header))
        (by unfold optBytes; split <;> simp_all [headerStep])]
  rw [foldlM_append_some (mid := ({ method := m, src := src, dst := dst, headers := hdrs } : Header))
        (by unfold optBytes; split <;> simp_all [headerStep])]
  rw [foldlM_append_some (fold_record rec _ hrec)]
  rw [fold_next nxt _ hnxt]
  simp


/-! ### ResponseStatus -/

theorem int32ToWire_lt (c : Int) : int32ToWire c < 18446744073709551616 := by
  unfold int32ToWire; omega

theorem wireToInt32_int32ToWire (c : Int) (h : -2147483648 ≤ c ∧ c < 2147483648) :
    wireToInt32 (int32ToWire c) = c := by
  unfold wireToInt32 int32ToWire
  simp only
  split <;> omega

theorem int32ToWire_ne_zero (c : Int) (h : -2147483648 ≤ c ∧ c < 2147483648) (hc : c ≠ 0) : int32ToWire c ≠ 0 := by
  unfold int32ToWire; omega

theorem numOK_status (s : PStatus) : ∀ f ∈ statusFields s, NumOK f := by
  intro f hf
  simp only [statusFields, List.mem_append, List.mem_map] at hf
  rcases hf with hf | hf | ⟨_, _, rfl⟩
  · split at hf
    · simp at hf
    · simp only [List.mem_singleton] at hf; subst hf
      exact ⟨by decide, by decide, int32ToWire_lt _⟩
  · rw [mem_optBytes hf]; simp [NumOK, maxFieldNum]
  · simp [NumOK, maxFieldNum]

theorem fold_details (l : List AnyMsg) : ∀ (s : PStatus), (∀ a ∈ l, decodeAny (encodeAny a) = some a) →
    (l.map (fun a => ((3 : Nat), WVal.bytes (encodeAny a)))).foldlM statusStep s
      = some { s with details := s.details ++ l } := by
  induction l with
  | nil => intro s _; simp
  | cons a l ih =>
    intro s hok
    simp only [List.map_cons, List.foldlM_cons, statusStep, hok a (by simp)]
    simp only [Option.bind_eq_bind, Option.bind_some]
    rw [ih _ (fun a' hk => hok a' (by simp [hk]))]
    simp

theorem decodeStatus_encode (s : PStatus) (hw : PStatus.WF s) (hs : (encodeStatus s).length < 18446744073709551616) :
    decodeStatusInto {} (encodeStatus s) = some s := by
  obtain ⟨c, msg, det⟩ := s
  obtain ⟨hc, hm, hd⟩ := hw
  simp only [Str] at hm
  simp only at hc
  unfold decodeStatusInto
  unfold encodeStatus at hs ⊢
  rw [parseFields_put' _ (numOK_status _) hs]
  have hd' : ∀ a ∈ det, decodeAny (encodeAny a) = some a := by
    intro a hmem
    apply decodeAny_encode a (hd a hmem).1
    refine Nat.lt_of_le_of_lt (mem_putFields_len (n := 3) ?_) hs
    simp only [statusFields, List.mem_append, List.mem_map]
    exact Or.inr (Or.inr ⟨a, hmem, rfl⟩)
  simp only [statusFields]
  rw [foldlM_append_some (mid := ({ code := c } : PStatus))
        (by split <;> simp_all [statusStep, wireToInt32_int32ToWire])]
  rw [foldlM_append_some (mid := ({ code := c, message := msg } : PStatus))
        (by unfold optBytes; split <;> simp_all [statusStep])]
  rw [fold_details det _ hd']
  simp

/-! ### Body, Trailer, Reset -/

theorem numOK_opt1 (b : Bytes) : ∀ f ∈ optBytes 1 b, NumOK f := by
  intro f hf; rw [mem_optBytes hf]; simp [NumOK, maxFieldNum]

theorem decodeBody_encode (d : Bytes) (hs : (encodeBody d).length < 18446744073709551616) :
    decodeBodyInto [] (encodeBody d) = some d := by
  unfold decodeBodyInto
  unfold encodeBody bodyFields at hs ⊢
  rw [parseFields_put' _ (numOK_opt1 _) hs]
  simp only [optBytes]
  split <;> simp_all [bodyStep]

theorem decodeReset_encode (t : Bytes) (hw : Str t) (hs : (encodeReset t).length < 18446744073709551616) :
    decodeResetInto [] (encodeReset t) = some t := by
  simp only [Str] at hw
  unfold decodeResetInto
  unfold encodeReset resetFields at hs ⊢
  rw [parseFields_put' _ (numOK_opt1 _) hs]
  simp only [optBytes]
  split <;> simp_all [resetStep]

theorem numOK_trailer (t : List KV) : ∀ f ∈ trailerFields t, NumOK f := by
  intro f hf
  simp only [trailerFields, List.mem_map] at hf
  obtain ⟨_, _, rfl⟩ := hf
  simp [NumOK, maxFieldNum]

theorem fold_trailer (l : List KV) : ∀ (t : List KV), (∀ kv ∈ l, decodeKV (encodeKV kv) = some kv) →
    (l.map (fun kv => ((1 : Nat), WVal.bytes (encodeKV kv)))).foldlM trailerStep t = some (t ++ l) := by
  induction l with
  | nil => intro t _; simp
  | cons kv l ih =>
    intro t hok
    simp only [List.map_cons, List.foldlM_cons, trailerStep, hok kv (by simp)]
    simp only [Option.bind_eq_bind, Option.bind_some]
    rw [ih _ (fun kv' hk => hok kv' (by simp [hk]))]
    simp

theorem decodeTrailer_encode (t : List KV) (hw : ∀ kv ∈ t, KV.PWF kv)
    (hs : (encodeTrailer t).length < 18446744073709551616) :
    decodeTrailerInto [] (encodeTrailer t) = some t := by
  unfold decodeTrailerInto
  unfold encodeTrailer at hs ⊢
  rw [parseFields_put' _ (numOK_trailer _) hs]
  have hkv : ∀ kv ∈ t, decodeKV (encodeKV kv) = some kv := by
    intro kv hmem
    apply decodeKV_encode kv (hw kv hmem)
    refine Nat.lt_of_le_of_lt (mem_putFields_len (n := 1) ?_) hs
    simp only [trailerFields, List.mem_map]
    exact ⟨kv, hmem, rfl⟩
  simp only [trailerFields]
  rw [fold_trailer t _ hkv]
  simp


/-! ### Rpc -/

theorem numOK_rpc (m : Rpc) (hid : m.id < 18446744073709551616) : ∀ f ∈ rpcFields m, NumOK f := by
  intro f hf
  simp only [rpcFields, List.mem_append] at hf
  rcases hf with hf | hf | hf | hf | hf | hf
  · split at hf
    · simp at hf
    · simp only [List.mem_singleton] at hf; subst hf
      exact ⟨by decide, by decide, hid⟩
  all_goals
    obtain ⟨b, _, rfl⟩ := mem_optMsg hf
    simp [NumOK, maxFieldNum]

theorem decode_encode (m : Rpc) (hw : WF m) : decode (encode m) = some m := by
  obtain ⟨hid, hh, hst, _, htr, hrs, hs⟩ := hw
  unfold decode decodeInto
  unfold encode at hs ⊢
  rw [parseFields_put' _ (numOK_rpc m hid) hs]
  obtain ⟨id, hdr, st, body, tr, rs⟩ := m
  simp only at hid hh hst htr hrs
  have szh : ∀ (n : Nat) (b : Bytes), (n, WVal.bytes b) ∈ rpcFields ⟨id, hdr, st, body, tr, rs⟩ →
      b.length < 18446744073709551616 := fun n b hmem => Nat.lt_of_le_of_lt (mem_putFields_len hmem) hs
  have e2 : (optMsg 2 (hdr.map encodeHeader)).foldlM rpcStep ({ id := id } : Rpc)
      = some ({ id := id, header := hdr } : Rpc) := by
    cases hdr with
    | none => simp [optMsg]
    | some h =>
      have := decodeHeader_encode h (hh h rfl) (szh 2 _ (by simp [rpcFields, optMsg]))
      simp [optMsg, rpcStep, this]
  have e3 : (optMsg 3 (st.map encodeStatus)).foldlM rpcStep ({ id := id, header := hdr } : Rpc)
      = some ({ id := id, header := hdr, status := st } : Rpc) := by
    cases st with
    | none => simp [optMsg]
    | some s =>
      have := decodeStatus_encode s (hst s rfl) (szh 3 _ (by simp [rpcFields, optMsg]))
      simp [optMsg, rpcStep, this]
  have e4 : (optMsg 4 (body.map encodeBody)).foldlM rpcStep ({ id := id, header := hdr, status := st } : Rpc)
      = some ({ id := id, header := hdr, status := st, body := body } : Rpc) := by
    cases body with
    | none => simp [optMsg]
    | some d =>
      have := decodeBody_encode d (szh 4 _ (by simp [rpcFields, optMsg]))
      simp [optMsg, rpcStep, this]
  have e5 : (optMsg 5 (tr.map encodeTrailer)).foldlM rpcStep
      ({ id := id, header := hdr, status := st, body := body } : Rpc)
      = some ({ id := id, header := hdr, status := st, body := body, trailer := tr } : Rpc) := by
    cases tr with
    | none => simp [optMsg]
    | some t =>
      have := decodeTrailer_encode t (htr t rfl) (szh 5 _ (by simp [rpcFields, optMsg]))
      simp [optMsg, rpcStep, this]
  have e6 : (optMsg 6 (rs.map encodeReset)).foldlM rpcStep
      ({ id := id, header := hdr, status := st, body := body, trailer := tr } : Rpc)
      = some ({ id := id, header := hdr, status := st, body := body, trailer := tr, reset := rs } : Rpc) := by
    cases rs with
    | none => simp [optMsg]
    | some t =>
      have := decodeReset_encode t (hrs t rfl) (szh 6 _ (by simp [rpcFields, optMsg]))
      simp [optMsg, rpcStep, this]
  simp only [rpcFields]
  rw [foldlM_append_some (mid := ({ id := id } : Rpc)) (by split <;> simp_all [rpcStep])]
  rw [foldlM_append_some e2, foldlM_append_some e3, foldlM_append_some e4, foldlM_append_some e5, e6]

/-! ### totality: every step consumes input, so the fuel is never what makes `decode` fail -/

theorem getVarintAux_shorter (n : Nat) : ∀ (bs : Bytes) (v : Nat) (r : Bytes),
    getVarintAux n bs = some (v, r) → r.length < bs.length := by
  induction n with
  | zero => intro bs v r h; simp [getVarintAux] at h
  | succ n ih =>
    intro bs v r h
    cases bs with
    | nil => simp [getVarintAux] at h
    | cons b rest =>
      simp only [getVarintAux] at h
      split at h
      · split at h
        · simp at h
        · simp only [Option.some.injEq, Prod.mk.injEq] at h
          obtain ⟨_, rfl⟩ := h
          simp
      · split at h
        · rename_i v' r' hrec
          simp only [Option.some.injEq, Prod.mk.injEq] at h
          obtain ⟨_, rfl⟩ := h
          have := ih _ _ _ hrec
          simp; omega
        · simp at h

theorem getVarint_shorter {bs : Bytes} {v : Nat} {r : Bytes} (h : getVarint bs = some (v, r)) :
    r.length < bs.length := getVarintAux_shorter 10 bs v r h

theorem skipGroup_shorter (n : Nat) : ∀ (st : List Nat) (bs r : Bytes),
    skipGroup n st bs = some r → r.length ≤ bs.length := by
  induction n with
  | zero =>
    intro st bs r h
    cases st with
    | nil => simp [skipGroup] at h; subst h; exact Nat.le_refl _
    | cons a t => simp [skipGroup] at h
  | succ n ih =>
    intro st bs r h
    cases st with
    | nil => simp [skipGroup] at h; subst h; exact Nat.le_refl _
    | cons top stack =>
      simp only [skipGroup] at h
      split at h
      · simp at h
      · rename_i tag r0 hv
        have h0 := getVarint_shorter hv
        try simp only at h
        split at h
        · simp at h
        · split at h
          · split at h
            · rename_i _ r1 hv1
              have := getVarint_shorter hv1
              have := ih _ _ _ h
              omega
            · simp at h
          · split at h
            · have := ih _ _ _ h
              simp at this; omega
            · simp at h
          · split at h
            · rename_i l r1 hv1
              have := getVarint_shorter hv1
              split at h
              · have := ih _ _ _ h
                simp at this; omega
              · simp at h
            · simp at h
          · split at h
            · simp at h
            · have := ih _ _ _ h
              omega
          · split at h
            · have := ih _ _ _ h
              omega
            · simp at h
          · split at h
            · have := ih _ _ _ h
              simp at this; omega
            · simp at h
          · simp at h


theorem getField_shorter {bs : Bytes} {f : Field} {r : Bytes} (h : getField bs = some (f, r)) :
    r.length < bs.length := by
  simp only [getField] at h
  split at h
  · simp at h
  · rename_i tag r0 hv
    have h0 := getVarint_shorter hv
    try simp only at h
    split at h
    · simp at h
    · split at h
      · split at h
        · rename_i _ r1 hv1
          have := getVarint_shorter hv1
          simp only [Option.some.injEq, Prod.mk.injEq] at h
          obtain ⟨_, rfl⟩ := h
          omega
        · simp at h
      · split at h
        · simp only [Option.some.injEq, Prod.mk.injEq] at h
          obtain ⟨_, rfl⟩ := h
          simp; omega
        · simp at h
      · split at h
        · rename_i l r1 hv1
          have := getVarint_shorter hv1
          split at h
          · simp only [Option.some.injEq, Prod.mk.injEq] at h
            obtain ⟨_, rfl⟩ := h
            simp; omega
          · simp at h
        · simp at h
      · split at h
        · rename_i r1 hs
          have := skipGroup_shorter _ _ _ _ hs
          simp only [Option.some.injEq, Prod.mk.injEq] at h
          obtain ⟨_, rfl⟩ := h
          omega
        · simp at h
      · split at h
        · simp only [Option.some.injEq, Prod.mk.injEq] at h
          obtain ⟨_, rfl⟩ := h
          simp; omega
        · simp at h
      · simp at h

/-- the fuel of `parseFieldsAux` is not observable once it covers the input -/
theorem parseFieldsAux_fuel (n : Nat) : ∀ (m : Nat) (bs : Bytes), bs.length ≤ n → bs.length ≤ m →
    parseFieldsAux n bs = parseFieldsAux m bs := by
  induction n with
  | zero =>
    intro m bs hn _
    have : bs = [] := List.eq_nil_of_length_eq_zero (by omega)
    subst this
    cases m <;> simp [parseFieldsAux]
  | succ n ih =>
    intro m bs hn hm
    cases m with
    | zero =>
      have : bs = [] := List.eq_nil_of_length_eq_zero (by omega)
      subst this
      simp [parseFieldsAux]
    | succ m =>
      simp only [parseFieldsAux]
      split
      · rfl
      · split
        · rfl
        · rename_i f r hf
          have := getField_shorter hf
          rw [ih m r (by omega) (by omega)]


/-- the fuel of `skipGroup` is not observable once it covers the input -/
theorem skipGroup_fuel (n : Nat) : ∀ (m : Nat) (st : List Nat) (bs : Bytes), bs.length ≤ n → bs.length ≤ m →
    skipGroup n st bs = skipGroup m st bs := by
  induction n with
  | zero =>
    intro m st bs hn _
    have : bs = [] := List.eq_nil_of_length_eq_zero (by omega)
    subst this
    cases st with
    | nil => cases m <;> simp [skipGroup]
    | cons a t => cases m <;> simp [skipGroup, getVarint, getVarintAux]
  | succ n ih =>
    intro m st bs hn hm
    cases st with
    | nil => cases m <;> simp [skipGroup]
    | cons top stack =>
      cases m with
      | zero =>
        have : bs = [] := List.eq_nil_of_length_eq_zero (by omega)
        subst this
        simp [skipGroup, getVarint, getVarintAux]
      | succ m =>
        simp only [skipGroup]
        split
        · rfl
        · rename_i tag r0 hv
          have h0 := getVarint_shorter hv
          try simp only
          split
          · rfl
          · split
            · split
              · rename_i _ r1 hv1
                have := getVarint_shorter hv1
                exact ih _ _ _ (by omega) (by omega)
              · rfl
            · split
              · exact ih _ _ _ (by simp; omega) (by simp; omega)
              · rfl
            · split
              · rename_i l r1 hv1
                have := getVarint_shorter hv1
                split
                · exact ih _ _ _ (by simp; omega) (by simp; omega)
                · rfl
              · rfl
            · split
              · rfl
              · exact ih _ _ _ (by omega) (by omega)
            · split
              · exact ih _ _ _ (by omega) (by omega)
              · rfl
            · split
              · exact ih _ _ _ (by simp; omega) (by simp; omega)
              · rfl
            · rfl

/-! ### unknown fields -/

theorem rpcStep_unknown (m : Rpc) (n : Nat) (v : WVal) (h : 7 ≤ n) : rpcStep m (n, v) = some m := by
  unfold rpcStep
  split <;> first | rfl | (rename_i heq; simp only [Prod.mk.injEq] at heq; omega)

theorem putFields_append (a b : List Field) : putFields (a ++ b) = putFields a ++ putFields b := by
  simp [putFields]

/-- an unknown field after an encoding is skipped -/
theorem decode_skips_unknown (m : Rpc) (hw : WF m) (f : Field) (hf : FieldOK f) (hn : 7 ≤ f.1) :
    decode (encode m ++ putField f) = some m := by
  have hrt := decode_encode m hw
  obtain ⟨hid, -, -, -, -, -, hs⟩ := hw
  unfold decode decodeInto at hrt ⊢
  unfold encode at hs hrt ⊢
  have hp := parseFields_put' _ (numOK_rpc m hid) hs
  rw [hp] at hrt
  have e : putFields (rpcFields m) ++ putField f = putFields (rpcFields m ++ [f]) := by
    simp [putFields]
  rw [e]
  have hok : ∀ g ∈ rpcFields m ++ [f], FieldOK g := by
    intro g hg
    rcases List.mem_append.1 hg with hg | hg
    · obtain ⟨k, v⟩ := g
      have h := numOK_rpc m hid _ hg
      cases v with
      | varint v => exact h
      | bytes b => exact ⟨h.1, h.2, Nat.lt_of_le_of_lt (mem_putFields_len hg) hs⟩
      | fixed64 b => exact absurd h (by simp [NumOK])
      | group => exact absurd h (by simp [NumOK])
      | fixed32 b => exact absurd h (by simp [NumOK])
    · simp only [List.mem_singleton] at hg; subst hg; exact hf
  rw [parseFields_put _ hok]
  obtain ⟨n, v⟩ := f
  simp only at hrt ⊢
  rw [foldlM_append_some hrt]
  simp [rpcStep_unknown m n v hn]

/-! ### valid UTF-8 consists of bytes -/

theorem wf_cons {b : Nat} {r : Bytes} (hb : b < 256) (hr : r.WF) : Bytes.WF (b :: r) := by
  intro x hx
  rcases List.mem_cons.1 hx with rfl | hx
  · exact hb
  · exact hr x hx

theorem validUTF8_bytes (n : Nat) : ∀ (bs : Bytes), bs.length ≤ n → validUTF8 bs = true → bs.WF := by
  induction n with
  | zero =>
    intro bs hl _
    have : bs = [] := List.eq_nil_of_length_eq_zero (by omega)
    subst this; intro b hb; simp at hb
  | succ n ih =>
    intro bs hl hv
    cases bs with
    | nil => intro b hb; simp at hb
    | cons b0 rest =>
      unfold validUTF8 at hv
      simp only [isCont, Bool.and_eq_true, decide_eq_true_eq] at hv
      repeat' split at hv
      all_goals try (simp at hv; done)
      all_goals simp only [List.length_cons] at hl
      all_goals try (split at hv <;> try (simp at hv; done))
      all_goals try simp only [decide_eq_true_eq] at *
      all_goals first
        | exact wf_cons (by omega) (ih _ (by omega) hv)
        | exact wf_cons (by omega) (wf_cons (by omega) (ih _ (by omega) hv))
        | exact wf_cons (by omega) (wf_cons (by omega) (wf_cons (by omega) (ih _ (by omega) hv)))
        | exact wf_cons (by omega) (wf_cons (by omega) (wf_cons (by omega) (wf_cons (by omega) (ih _ (by omega) hv))))


theorem Str.bytes {b : Bytes} (h : Str b) : b.WF := validUTF8_bytes b.length b (Nat.le_refl _) h

/-! ### concatenation is merge -/

theorem getVarintAux_append (n : Nat) : ∀ (bs x : Bytes) (v : Nat) (r : Bytes),
    getVarintAux n bs = some (v, r) → getVarintAux n (bs ++ x) = some (v, r ++ x) := by
  induction n with
  | zero => intro bs x v r h; simp [getVarintAux] at h
  | succ n ih =>
    intro bs x v r h
    cases bs with
    | nil => simp [getVarintAux] at h
    | cons b rest =>
      simp only [getVarintAux, List.cons_append] at h ⊢
      split at h
      · split at h
        · simp at h
        · rename_i h1 h2
          simp only [Option.some.injEq, Prod.mk.injEq] at h
          obtain ⟨rfl, rfl⟩ := h
          simp [h1, h2]
      · rename_i h1
        split at h
        · rename_i v' r' hrec
          simp only [Option.some.injEq, Prod.mk.injEq] at h
          obtain ⟨rfl, rfl⟩ := h
          simp [h1, ih _ x _ _ hrec]
        · simp at h

theorem getVarint_append {bs x : Bytes} {v : Nat} {r : Bytes} (h : getVarint bs = some (v, r)) :
    getVarint (bs ++ x) = some (v, r ++ x) := getVarintAux_append 10 bs x v r h

theorem skipGroup_append (x : Bytes) (k : Nat) (n : Nat) : ∀ (st : List Nat) (bs r : Bytes),
    skipGroup n st bs = some r → skipGroup (n + k) st (bs ++ x) = some (r ++ x) := by
  induction n with
  | zero =>
    intro st bs r h
    cases st with
    | nil => simp [skipGroup] at h; subst h; cases k <;> simp [skipGroup]
    | cons a t => simp [skipGroup] at h
  | succ n ih =>
    intro st bs r h
    cases st with
    | nil => simp [skipGroup] at h; subst h; simp [skipGroup]
    | cons top stack =>
      rw [show n + 1 + k = (n + k) + 1 by omega]
      simp only [skipGroup] at h ⊢
      split at h
      · simp at h
      · rename_i tag r0 hv
        rw [getVarint_append hv]
        try simp only at h ⊢
        split at h
        · simp at h
        · rename_i hnum
          simp only [hnum, if_false]
          split at h
          · rename_i h8
            split at h
            · rename_i _ r1 hv1
              rw [getVarint_append hv1]
              exact ih _ _ _ h
            · simp at h
          · rename_i h8
            split at h
            · rename_i hl
              have : 8 ≤ (r0 ++ x).length := by simp; omega
              simp only [this, if_true, List.drop_append_of_le_length hl]
              exact ih _ _ _ h
            · simp at h
          · rename_i h8
            split at h
            · rename_i l r1 hv1
              rw [getVarint_append hv1]
              split at h
              · rename_i hl
                have : l ≤ (r1 ++ x).length := by simp; omega
                simp only [this, if_true, List.drop_append_of_le_length hl]
                exact ih _ _ _ h
              · simp at h
            · simp at h
          · rename_i h8
            split at h
            · simp at h
            · rename_i hd
              simp only [hd, if_false]
              exact ih _ _ _ h
          · rename_i h8
            split at h
            · rename_i he
              simp only [he, if_true]
              exact ih _ _ _ h
            · simp at h
          · rename_i h8
            split at h
            · rename_i hl
              have : 4 ≤ (r0 ++ x).length := by simp; omega
              simp only [this, if_true, List.drop_append_of_le_length hl]
              exact ih _ _ _ h
            · simp at h
          · simp at h


theorem getField_append {bs x : Bytes} {f : Field} {r : Bytes} (h : getField bs = some (f, r)) :
    getField (bs ++ x) = some (f, r ++ x) := by
  simp only [getField] at h ⊢
  split at h
  · simp at h
  · rename_i tag r0 hv
    rw [getVarint_append hv]
    try simp only at h ⊢
    split at h
    · simp at h
    · rename_i hnum
      simp only [hnum, if_false]
      split at h
      · split at h
        · rename_i _ r1 hv1
          rw [getVarint_append hv1]
          simp only [Option.some.injEq, Prod.mk.injEq] at h ⊢
          obtain ⟨rfl, rfl⟩ := h
          exact ⟨rfl, rfl⟩
        · simp at h
      · split at h
        · rename_i hl
          have : 8 ≤ (r0 ++ x).length := by simp; omega
          simp only [this, if_true, List.drop_append_of_le_length hl, List.take_append_of_le_length hl]
          simp only [Option.some.injEq, Prod.mk.injEq] at h ⊢
          obtain ⟨rfl, rfl⟩ := h
          exact ⟨rfl, rfl⟩
        · simp at h
      · split at h
        · rename_i l r1 hv1
          rw [getVarint_append hv1]
          split at h
          · rename_i hl
            have : l ≤ (r1 ++ x).length := by simp; omega
            simp only [this, if_true, List.drop_append_of_le_length hl, List.take_append_of_le_length hl]
            simp only [Option.some.injEq, Prod.mk.injEq] at h ⊢
            obtain ⟨rfl, rfl⟩ := h
            exact ⟨rfl, rfl⟩
          · simp at h
        · simp at h
      · split at h
        · rename_i r1 hs
          have := skipGroup_append x x.length _ _ _ _ hs
          rw [List.length_append, this]
          simp only [Option.some.injEq, Prod.mk.injEq] at h ⊢
          obtain ⟨rfl, rfl⟩ := h
          exact ⟨rfl, rfl⟩
        · simp at h
      · split at h
        · rename_i hl
          have : 4 ≤ (r0 ++ x).length := by simp; omega
          simp only [this, if_true, List.drop_append_of_le_length hl, List.take_append_of_le_length hl]
          simp only [Option.some.injEq, Prod.mk.injEq] at h ⊢
          obtain ⟨rfl, rfl⟩ := h
          exact ⟨rfl, rfl⟩
        · simp at h
      · simp at h

theorem parseFieldsAux_append (b : Bytes) (n : Nat) : ∀ (a : Bytes) (fa : List Field), a.length ≤ n →
    parseFieldsAux n a = some fa →
    parseFieldsAux (n + b.length) (a ++ b) = (parseFields b).map (fa ++ ·) := by
  induction n with
  | zero =>
    intro a fa hl h
    have : a = [] := List.eq_nil_of_length_eq_zero (by omega)
    subst this
    simp [parseFieldsAux] at h
    subst h
    simp [parseFields]
  | succ n ih =>
    intro a fa hl h
    cases a with
    | nil =>
      simp [parseFieldsAux] at h
      subst h
      simp only [List.nil_append]
      rw [parseFieldsAux_fuel (n + 1 + b.length) b.length b (by omega) (Nat.le_refl _)]
      simp [parseFields]
    | cons a0 at' =>
      rw [show n + 1 + b.length = (n + b.length) + 1 by omega]
      simp only [parseFieldsAux] at h ⊢
      simp only [List.isEmpty_cons, Bool.false_eq_true, if_false] at h
      have hne : ((a0 :: at') ++ b).isEmpty = false := by simp
      simp only [hne, Bool.false_eq_true, if_false]
      split at h
      · simp at h
      · rename_i f r hf
        rw [getField_append hf]
        have hr := getField_shorter hf
        split at h
        · rename_i fs hfs
          simp only [Option.some.injEq] at h
          subst h
          simp only
          rw [ih r fs (by simp at hl hr; omega) hfs]
          cases parseFields b <;> simp
        · simp at h

/-- splitting a message body where a field ends: the fields of the concatenation are the fields of the parts -/
theorem parseFields_append (a b : Bytes) (fa : List Field) (h : parseFields a = some fa) :
    parseFields (a ++ b) = (parseFields b).map (fa ++ ·) := by
  have := parseFieldsAux_append b a.length a fa (Nat.le_refl _) h
  unfold parseFields
  rw [List.length_append]
  exact this

/-- concatenation is merge: decoding `a ++ b` (with `a` ending at a field boundary) is decoding `b` into the result of `a` -/
theorem decodeInto_append (m : Rpc) (a b : Bytes) (fa : List Field) (h : parseFields a = some fa) :
    decodeInto m (a ++ b) = (decodeInto m a).bind (fun m' => decodeInto m' b) := by
  unfold decodeInto
  rw [parseFields_append a b fa h, h]
  cases parseFields b with
  | none => cases List.foldlM rpcStep m fa <;> simp
  | some fb => simp [List.foldlM_append]

end Goat.Proto
