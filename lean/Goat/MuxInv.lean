/-
  Basic inductive invariants of the multiplexer LTS, part 1 (InvA, InvB; InvD, InvE are in MuxInv2), each with
  one preservation lemma per label.  `Goat/MuxProofs.lean` combines them and adds the history
  invariants (per-call order, requests on the wire) and the termination measure.
-/
import Goat.Mux

set_option linter.unusedVariables false

namespace Goat.Mux

/-! ## Runs -/

theorem run_append (cfg : Cfg) (s : State) (l1 l2 : List Label) :
    run cfg s (l1 ++ l2) = (run cfg s l1).bind (fun s' => run cfg s' l2) := by
  induction l1 generalizing s with
  | nil => simp [run]
  | cons l ls ih =>
    simp only [List.cons_append, run]
    cases step cfg s l with
    | none => simp
    | some s1 => simp [ih]

theorem reachable_step (cfg : Cfg) (s s' : State) (l : Label)
    (hr : Reachable cfg s) (hs : step cfg s l = some s') : Reachable cfg s' := by
  obtain ⟨ls, h⟩ := hr
  exact ⟨ls ++ [l], by simp [run_append, h, run, hs]⟩

theorem run_induction (cfg : Cfg) (P : State → Prop)
    (hstep : ∀ s s' l, Reachable cfg s → P s → step cfg s l = some s' → P s') :
    ∀ ls s s', Reachable cfg s → P s → run cfg s ls = some s' → P s' := by
  intro ls
  induction ls with
  | nil => intro s s' _ hp hr; simp [run] at hr; subst hr; exact hp
  | cons l ls ih =>
    intro s s' hreach hp hr
    simp only [run] at hr
    cases h2 : step cfg s l with
    | none => simp [h2] at hr
    | some s2 =>
      simp [h2] at hr
      exact ih s2 s' (reachable_step cfg s s2 l hreach h2) (hstep s s2 l hreach hp h2) hr

/-- Induction principle: a predicate that holds initially and is preserved by every step taken
from a reachable state holds in every reachable state. -/
theorem reachable_induction (cfg : Cfg) (P : State → Prop) (h0 : P init)
    (hstep : ∀ s s' l, Reachable cfg s → P s → step cfg s l = some s' → P s') :
    ∀ s, Reachable cfg s → P s := by
  intro s ⟨ls, hr⟩
  exact run_induction cfg P hstep ls init s ⟨[], rfl⟩ h0 hr

/-! ## Small facts about pcs -/

theorem failPc_facts (k : Kind) :
    failPc k ≠ .loading ∧ (failPc k).okFor k = true ∧ (failPc k).isReg = false ∧
    (failPc k).weight < Pc.start.weight ∧ (failPc k).weight < Pc.checked.weight ∧
    (failPc k).isPre = false := by
  cases k <;> simp [failPc, Pc.okFor, Pc.isReg, Pc.weight, Pc.isPre]

theorem regPc_facts (k : Kind) :
    regPc k ≠ .loading ∧ (regPc k).okFor k = true ∧ (regPc k).isReg = true ∧
    (regPc k).weight < Pc.start.weight ∧ (regPc k).weight < Pc.checked.weight ∧
    (regPc k).isPre = false := by
  cases k <;> simp [regPc, Pc.okFor, Pc.isReg, Pc.weight, Pc.isPre]

theorem isPre_not_isReg (p : Pc) (h : p.isPre = true) : p.isReg = false := by
  cases p <;> simp_all [Pc.isPre, Pc.isReg]

theorem clientUnaryOutcome_ok (cfg : Cfg) (e : Env) (b : Bytes)
    (h : clientUnaryOutcome cfg e = .ok b) : e.body = some b ∧ okLike e = true := by
  unfold clientUnaryOutcome at h
  unfold okLike
  repeat' split at h
  all_goals simp_all

theorem clientUnaryOutcome_nilHeader (cfg : Cfg) (e : Env)
    (h : clientUnaryOutcome cfg e = .nilHeaderDeref) :
    cfg.statsHeaderNilSafe = false ∧ cfg.statsHandlers = true := by
  unfold clientUnaryOutcome at h
  repeat' split at h
  all_goals simp_all

theorem clientUnaryOutcome_nilDeref (cfg : Cfg) (e : Env)
    (h : clientUnaryOutcome cfg e = .nilDeref) : cfg.okStatusIsSuccess = false := by
  unfold clientUnaryOutcome at h
  repeat' split at h
  all_goals simp_all

theorem written_unary (c : Caller) (h : c.pc.okFor c.kind = true) (hp : c.pc = .written) :
    c.kind = .unary := by
  cases hk : c.kind <;> simp_all [Pc.okFor]

/-! ## `closeAll` -/

@[simp] theorem closeAll_length (hs : List Nat) (cs : List Caller) :
    (closeAll hs cs).length = cs.length := by simp [closeAll]

theorem closeAll_get (hs : List Nat) (cs : List Caller) (i : Nat) (c' : Caller)
    (h : (closeAll hs cs)[i]? = some c') :
    ∃ c, cs[i]? = some c ∧ c'.kind = c.kind ∧ c'.id = c.id ∧ c'.pc = c.pc ∧ c'.buf = c.buf ∧
      c'.ctxDone = c.ctxDone ∧ c'.delivered = c.delivered ∧ c'.result = c.result ∧
      (c'.done = true ↔ (c.id ∈ hs ∨ c.done = true)) := by
  simp only [closeAll, List.getElem?_map] at h
  cases hc : cs[i]? with
  | none => simp [hc] at h
  | some c =>
    simp [hc] at h
    refine ⟨c, rfl, ?_⟩
    subst h
    split <;> simp_all

/-! ## The tactic used for every "invariant is preserved by this label" lemma

Open the step function at the label, split its guards, turn `some t = some s'` into `s' = t`,
and let `grind` close each branch.  (`hs` is the step hypothesis; the macro is deliberately
unhygienic so that it can refer to it.) -/

set_option hygiene false in
macro "step_grind" : tactic => `(tactic| (
  simp only [step] at hs
  repeat' split at hs
  all_goals first | contradiction | (simp only [Option.some.injEq] at hs; subst hs; try simp only [])
  all_goals grind [Caller.new, Pc.okFor, Pc.isReg, Pc.isPre, failPc_facts, regPc_facts,
    closeAll_length, closeAll_get, isPre_not_isReg, clientUnaryOutcome_ok,
    clientUnaryOutcome_nilDeref, clientUnaryOutcome_nilHeader]))

/-! ## Invariant A: ids, shape of the read-loop state, the mutex -/

def InvA (cfg : Cfg) (s : State) : Prop :=
  s.callers.length = s.counter ∧
  (∀ (i : Nat) (c : Caller), s.callers[i]? = some c →
      c.id = i + 1 ∧ c.pc ≠ .loading ∧ c.pc.okFor c.kind = true ∧
      (cfg.registerChecksErr = true → c.pc ≠ .checked)) ∧
  (∀ id, id ∈ s.handlers → 1 ≤ id ∧ id ≤ s.counter) ∧
  (match s.rl with
   | .lookedUp i e => e.id = i + 1 ∧ i < s.callers.length ∧ s.muHeld = !cfg.dispatchOutsideLock
   | .panicked => True
   | _ => s.muHeld = false)

theorem invA_init (cfg : Cfg) : InvA cfg init := by
  simp [InvA, init]


theorem invA_alloc (cfg : Cfg) (s s' : State) {k} (_hc : cfg.idAllocAtomic = true)
    (hi : InvA cfg s) (hs : step cfg s (.alloc k) = some s') : InvA cfg s' := by
  unfold InvA at *; step_grind

theorem invA_allocLoad (cfg : Cfg) (s s' : State) {k} (_hc : cfg.idAllocAtomic = true)
    (hi : InvA cfg s) (hs : step cfg s (.allocLoad k) = some s') : InvA cfg s' := by
  unfold InvA at *; step_grind

theorem invA_allocStore (cfg : Cfg) (s s' : State) {i} (_hc : cfg.idAllocAtomic = true)
    (hi : InvA cfg s) (hs : step cfg s (.allocStore i) = some s') : InvA cfg s' := by
  unfold InvA at *; step_grind

theorem invA_ctxCancel (cfg : Cfg) (s s' : State) {i} (_hc : cfg.idAllocAtomic = true)
    (hi : InvA cfg s) (hs : step cfg s (.ctxCancel i) = some s') : InvA cfg s' := by
  unfold InvA at *; step_grind

theorem invA_checkErr (cfg : Cfg) (s s' : State) {i} (_hc : cfg.idAllocAtomic = true)
    (hi : InvA cfg s) (hs : step cfg s (.checkErr i) = some s') : InvA cfg s' := by
  unfold InvA at *; step_grind

theorem invA_register (cfg : Cfg) (s s' : State) {i} (_hc : cfg.idAllocAtomic = true)
    (hi : InvA cfg s) (hs : step cfg s (.register i) = some s') : InvA cfg s' := by
  unfold InvA at *; step_grind

theorem invA_write (cfg : Cfg) (s s' : State) {i} {e} {ok} (_hc : cfg.idAllocAtomic = true)
    (hi : InvA cfg s) (hs : step cfg s (.write i e ok) = some s') : InvA cfg s' := by
  unfold InvA at *; step_grind

theorem invA_rlRead (cfg : Cfg) (s s' : State) {e} (_hc : cfg.idAllocAtomic = true)
    (hi : InvA cfg s) (hs : step cfg s (.rlRead e) = some s') : InvA cfg s' := by
  unfold InvA at *; step_grind

theorem invA_rlFail (cfg : Cfg) (s s' : State) (_hc : cfg.idAllocAtomic = true)
    (hi : InvA cfg s) (hs : step cfg s .rlFail = some s') : InvA cfg s' := by
  unfold InvA at *; step_grind

theorem invA_rlLookup (cfg : Cfg) (s s' : State) (_hc : cfg.idAllocAtomic = true)
    (hi : InvA cfg s) (hs : step cfg s .rlLookup = some s') : InvA cfg s' := by
  unfold InvA at *; step_grind

theorem invA_rlDeliver (cfg : Cfg) (s s' : State) (_hc : cfg.idAllocAtomic = true)
    (hi : InvA cfg s) (hs : step cfg s .rlDeliver = some s') : InvA cfg s' := by
  unfold InvA at *; step_grind

theorem invA_rlDrop (cfg : Cfg) (s s' : State) (_hc : cfg.idAllocAtomic = true)
    (hi : InvA cfg s) (hs : step cfg s .rlDrop = some s') : InvA cfg s' := by
  unfold InvA at *; step_grind

theorem invA_recvTake (cfg : Cfg) (s s' : State) {i} (_hc : cfg.idAllocAtomic = true)
    (hi : InvA cfg s) (hs : step cfg s (.recvTake i) = some s') : InvA cfg s' := by
  unfold InvA at *; step_grind

theorem invA_recvClosed (cfg : Cfg) (s s' : State) {i} (_hc : cfg.idAllocAtomic = true)
    (hi : InvA cfg s) (hs : step cfg s (.recvClosed i) = some s') : InvA cfg s' := by
  unfold InvA at *; step_grind

theorem invA_recvCtx (cfg : Cfg) (s s' : State) {i} (_hc : cfg.idAllocAtomic = true)
    (hi : InvA cfg s) (hs : step cfg s (.recvCtx i) = some s') : InvA cfg s' := by
  unfold InvA at *; step_grind

theorem invA_unregister (cfg : Cfg) (s s' : State) {i} (_hc : cfg.idAllocAtomic = true)
    (hi : InvA cfg s) (hs : step cfg s (.unregister i) = some s') : InvA cfg s' := by
  unfold InvA at *; step_grind

theorem invA_ret (cfg : Cfg) (s s' : State) {i} (_hc : cfg.idAllocAtomic = true)
    (hi : InvA cfg s) (hs : step cfg s (.ret i) = some s') : InvA cfg s' := by
  unfold InvA at *; step_grind

theorem invA_step (cfg : Cfg) (hc : cfg.idAllocAtomic = true) (s s' : State) (l : Label)
    (hi : InvA cfg s) (hs : step cfg s l = some s') : InvA cfg s' := by
  cases l with
  | alloc k => exact invA_alloc cfg s s' hc hi hs
  | allocLoad k => exact invA_allocLoad cfg s s' hc hi hs
  | allocStore i => exact invA_allocStore cfg s s' hc hi hs
  | ctxCancel i => exact invA_ctxCancel cfg s s' hc hi hs
  | checkErr i => exact invA_checkErr cfg s s' hc hi hs
  | register i => exact invA_register cfg s s' hc hi hs
  | write i e ok => exact invA_write cfg s s' hc hi hs
  | rlRead e => exact invA_rlRead cfg s s' hc hi hs
  | rlFail => exact invA_rlFail cfg s s' hc hi hs
  | rlLookup => exact invA_rlLookup cfg s s' hc hi hs
  | rlDeliver => exact invA_rlDeliver cfg s s' hc hi hs
  | rlDrop => exact invA_rlDrop cfg s s' hc hi hs
  | recvTake i => exact invA_recvTake cfg s s' hc hi hs
  | recvClosed i => exact invA_recvClosed cfg s s' hc hi hs
  | recvCtx i => exact invA_recvCtx cfg s s' hc hi hs
  | unregister i => exact invA_unregister cfg s s' hc hi hs
  | ret i => exact invA_ret cfg s s' hc hi hs


/-! ## Invariant B: the registry is exact; failure closes everything -/

def InvB (cfg : Cfg) (s : State) : Prop :=
  (∀ (i : Nat) (c : Caller), s.callers[i]? = some c →
      (c.id ∈ s.handlers ↔ (c.pc.isReg = true ∧ c.done = false)) ∧
      (c.pc.isPre = true → c.done = false)) ∧
  s.handlers.Nodup ∧
  (s.rErr = true ↔ s.rl = .exited) ∧
  (cfg.registerChecksErr = true → s.rErr = true →
      ∀ (i : Nat) (c : Caller), s.callers[i]? = some c → c.pc.isReg = true → c.done = true)

theorem invB_init (cfg : Cfg) : InvB cfg init := by
  simp [InvB, init]

theorem invB_alloc (cfg : Cfg) (s s' : State) {k} (_hc : cfg.idAllocAtomic = true)
    (hA : InvA cfg s) (hi : InvB cfg s) (hs : step cfg s (.alloc k) = some s') : InvB cfg s' := by
  unfold InvB at *; unfold InvA at hA; step_grind

theorem invB_allocLoad (cfg : Cfg) (s s' : State) {k} (_hc : cfg.idAllocAtomic = true)
    (hA : InvA cfg s) (hi : InvB cfg s) (hs : step cfg s (.allocLoad k) = some s') : InvB cfg s' := by
  unfold InvB at *; unfold InvA at hA; step_grind

theorem invB_allocStore (cfg : Cfg) (s s' : State) {i} (_hc : cfg.idAllocAtomic = true)
    (hA : InvA cfg s) (hi : InvB cfg s) (hs : step cfg s (.allocStore i) = some s') : InvB cfg s' := by
  unfold InvB at *; unfold InvA at hA; step_grind

theorem invB_ctxCancel (cfg : Cfg) (s s' : State) {i} (_hc : cfg.idAllocAtomic = true)
    (hA : InvA cfg s) (hi : InvB cfg s) (hs : step cfg s (.ctxCancel i) = some s') : InvB cfg s' := by
  unfold InvB at *; unfold InvA at hA; step_grind

theorem invB_checkErr (cfg : Cfg) (s s' : State) {i} (_hc : cfg.idAllocAtomic = true)
    (hA : InvA cfg s) (hi : InvB cfg s) (hs : step cfg s (.checkErr i) = some s') : InvB cfg s' := by
  unfold InvB at *; unfold InvA at hA; step_grind

theorem invB_register (cfg : Cfg) (s s' : State) {i} (_hc : cfg.idAllocAtomic = true)
    (hA : InvA cfg s) (hi : InvB cfg s) (hs : step cfg s (.register i) = some s') : InvB cfg s' := by
  unfold InvB at *; unfold InvA at hA; step_grind

theorem invB_write (cfg : Cfg) (s s' : State) {i} {e} {ok} (_hc : cfg.idAllocAtomic = true)
    (hA : InvA cfg s) (hi : InvB cfg s) (hs : step cfg s (.write i e ok) = some s') : InvB cfg s' := by
  unfold InvB at *; unfold InvA at hA; step_grind

theorem invB_rlRead (cfg : Cfg) (s s' : State) {e} (_hc : cfg.idAllocAtomic = true)
    (hA : InvA cfg s) (hi : InvB cfg s) (hs : step cfg s (.rlRead e) = some s') : InvB cfg s' := by
  unfold InvB at *; unfold InvA at hA; step_grind

theorem invB_rlFail (cfg : Cfg) (s s' : State) (_hc : cfg.idAllocAtomic = true)
    (hA : InvA cfg s) (hi : InvB cfg s) (hs : step cfg s .rlFail = some s') : InvB cfg s' := by
  unfold InvB at *; unfold InvA at hA; step_grind

theorem invB_rlLookup (cfg : Cfg) (s s' : State) (_hc : cfg.idAllocAtomic = true)
    (hA : InvA cfg s) (hi : InvB cfg s) (hs : step cfg s .rlLookup = some s') : InvB cfg s' := by
  unfold InvB at *; unfold InvA at hA; step_grind

theorem invB_rlDeliver (cfg : Cfg) (s s' : State) (_hc : cfg.idAllocAtomic = true)
    (hA : InvA cfg s) (hi : InvB cfg s) (hs : step cfg s .rlDeliver = some s') : InvB cfg s' := by
  unfold InvB at *; unfold InvA at hA; step_grind

theorem invB_rlDrop (cfg : Cfg) (s s' : State) (_hc : cfg.idAllocAtomic = true)
    (hA : InvA cfg s) (hi : InvB cfg s) (hs : step cfg s .rlDrop = some s') : InvB cfg s' := by
  unfold InvB at *; unfold InvA at hA; step_grind

theorem invB_recvTake (cfg : Cfg) (s s' : State) {i} (_hc : cfg.idAllocAtomic = true)
    (hA : InvA cfg s) (hi : InvB cfg s) (hs : step cfg s (.recvTake i) = some s') : InvB cfg s' := by
  unfold InvB at *; unfold InvA at hA; step_grind

theorem invB_recvClosed (cfg : Cfg) (s s' : State) {i} (_hc : cfg.idAllocAtomic = true)
    (hA : InvA cfg s) (hi : InvB cfg s) (hs : step cfg s (.recvClosed i) = some s') : InvB cfg s' := by
  unfold InvB at *; unfold InvA at hA; step_grind

theorem invB_recvCtx (cfg : Cfg) (s s' : State) {i} (_hc : cfg.idAllocAtomic = true)
    (hA : InvA cfg s) (hi : InvB cfg s) (hs : step cfg s (.recvCtx i) = some s') : InvB cfg s' := by
  unfold InvB at *; unfold InvA at hA; step_grind

theorem invB_unregister (cfg : Cfg) (s s' : State) {i} (_hc : cfg.idAllocAtomic = true)
    (hA : InvA cfg s) (hi : InvB cfg s) (hs : step cfg s (.unregister i) = some s') : InvB cfg s' := by
  unfold InvB at *; unfold InvA at hA; step_grind

theorem invB_ret (cfg : Cfg) (s s' : State) {i} (_hc : cfg.idAllocAtomic = true)
    (hA : InvA cfg s) (hi : InvB cfg s) (hs : step cfg s (.ret i) = some s') : InvB cfg s' := by
  unfold InvB at *; unfold InvA at hA; step_grind

theorem invB_step (cfg : Cfg) (hc : cfg.idAllocAtomic = true) (s s' : State) (l : Label)
    (hA : InvA cfg s) (hi : InvB cfg s) (hs : step cfg s l = some s') : InvB cfg s' := by
  cases l with
  | alloc k => exact invB_alloc cfg s s' hc hA hi hs
  | allocLoad k => exact invB_allocLoad cfg s s' hc hA hi hs
  | allocStore i => exact invB_allocStore cfg s s' hc hA hi hs
  | ctxCancel i => exact invB_ctxCancel cfg s s' hc hA hi hs
  | checkErr i => exact invB_checkErr cfg s s' hc hA hi hs
  | register i => exact invB_register cfg s s' hc hA hi hs
  | write i e ok => exact invB_write cfg s s' hc hA hi hs
  | rlRead e => exact invB_rlRead cfg s s' hc hA hi hs
  | rlFail => exact invB_rlFail cfg s s' hc hA hi hs
  | rlLookup => exact invB_rlLookup cfg s s' hc hA hi hs
  | rlDeliver => exact invB_rlDeliver cfg s s' hc hA hi hs
  | rlDrop => exact invB_rlDrop cfg s s' hc hA hi hs
  | recvTake i => exact invB_recvTake cfg s s' hc hA hi hs
  | recvClosed i => exact invB_recvClosed cfg s s' hc hA hi hs
  | recvCtx i => exact invB_recvCtx cfg s s' hc hA hi hs
  | unregister i => exact invB_unregister cfg s s' hc hA hi hs
  | ret i => exact invB_ret cfg s s' hc hA hi hs


end Goat.Mux
