/-
  server.go: parseGrpcTimeout, the grpc-timeout lookup of contextFromHeaders;
  client.go: the "GRPC-Timeout: <ms>m" header written by headersFromContext.
  Durations are natural numbers of nanoseconds (the repaired parser never
  returns a negative one); instants are integers.
-/
import Goat.Basic
namespace Goat.Timeout
open Goat

def isDigit (b : Nat) : Bool := 48 ≤ b && b ≤ 57

def digitsVal (ds : Bytes) : Nat := ds.foldl (fun acc b => acc * 10 + (b - 48)) 0

def maxInt64 : Nat := 9223372036854775807

/-- the `switch` in parseGrpcTimeout; the table is regenerated from the source and
    compared with this definition in Goat/Tie -/
def unitTable : List (Nat × Nat) :=
  [(72, 3600000000000), (77, 60000000000), (83, 1000000000), (109, 1000000), (117, 1000), (110, 1)]

def unitNanos (u : Nat) : Option Nat := (unitTable.find? (·.1 = u)).map (·.2)

/-- parseGrpcTimeout as /repo has it now: empty → no; non-digit before the unit → no;
    ParseInt range error → no; unknown unit → no; otherwise the saturating product. -/
def parseTimeout (s : Bytes) : Option Nat :=
  match s.getLast? with
  | none => none
  | some u =>
    let ds := s.dropLast
    if ds.isEmpty then none
    else if !ds.all isDigit then none
    else
      let v := digitsVal ds
      if v > maxInt64 then none
      else match unitNanos u with
        | none => none
        | some n => if v > maxInt64 / n then some maxInt64 else some (v * n)

/-- "grpc-timeout" -/
def timeoutKey : Bytes := [103, 114, 112, 99, 45, 116, 105, 109, 101, 111, 117, 116]

/-- contextFromHeaders: the first entry whose lower-cased key is grpc-timeout and whose value parses -/
def timeoutFromHeaders (hs : List KV) : Option Nat :=
  hs.findSome? (fun h => if lower h.key = timeoutKey then parseTimeout h.value else none)

/-- decimal rendering (`%d` of a non-negative number) -/
def toDec (n : Nat) : Bytes :=
  if h : n < 10 then [48 + n] else toDec (n / 10) ++ [48 + n % 10]
termination_by n
decreasing_by omega

/-- headersFromContext: `ms := int64(timeout / time.Millisecond); if ms <= 0 { ms = 1 }`, rendered "%dm" -/
def encodeMillis (remaining : Int) : Nat :=
  let ms := remaining.tdiv 1000000
  if ms ≤ 0 then 1 else ms.toNat

def encodeTimeout (remaining : Int) : Bytes := toDec (encodeMillis remaining) ++ [109]

/-- `strconv.ParseInt(s, 10, 64)`: optional sign, at least one digit, digits only, int64 range -/
def parseInt64 (s : Bytes) : Option Int :=
  let (neg, ds) := match s with
    | 45 :: t => (true, t)
    | 43 :: t => (false, t)
    | _ => (false, s)
  if ds.isEmpty || !ds.all isDigit then none
  else
    let v := digitsVal ds
    if neg then (if v > maxInt64 + 1 then none else some (-(v : Int)))
    else (if v > maxInt64 then none else some (v : Int))

/-- parseGrpcTimeout before the repair (`Cfg.timeoutSaturates = false`, `timeoutDigitsOnly = false`):
    signed values accepted, the product wraps in 64 bits. Used only for the negative witnesses. -/
def parseTimeoutLegacy (s : Bytes) : Option Int :=
  match s.getLast? with
  | none => none
  | some u =>
    match parseInt64 s.dropLast with
    | none => none
    | some v => match unitNanos u with
      | none => none
      | some n => some ((v * (n : Int)).bmod (2 ^ 64))

/-! ### lemmas -/

theorem foldl_bound (ds : Bytes) (h : ∀ b ∈ ds, isDigit b = true) (acc : Nat) :
    ds.foldl (fun acc b => acc * 10 + (b - 48)) acc < (acc + 1) * 10 ^ ds.length := by
  induction ds generalizing acc with
  | nil => simp
  | cons b ds ih =>
    have hb : isDigit b = true := h b (by simp)
    have hb' : b - 48 ≤ 9 := by
      have h2 : b ≤ 57 := by unfold isDigit at hb; simp at hb; exact hb.2
      omega
    have := ih (fun x hx => h x (by simp [hx])) (acc * 10 + (b - 48))
    simp only [List.foldl, List.length_cons]
    calc _ < (acc * 10 + (b - 48) + 1) * 10 ^ ds.length := this
      _ ≤ ((acc + 1) * 10) * 10 ^ ds.length := Nat.mul_le_mul_right _ (by omega)
      _ = (acc + 1) * 10 ^ (ds.length + 1) := by rw [Nat.pow_succ, Nat.mul_assoc, Nat.mul_comm 10]

theorem digitsVal_lt (ds : Bytes) (h : ∀ b ∈ ds, isDigit b = true) : digitsVal ds < 10 ^ ds.length := by
  have := foldl_bound ds h 0
  simpa [digitsVal] using this

theorem sat (v c M : Nat) (hc : 0 < c) :
    (if M / c < v then some M else some (v * c)) = some (min (v * c) M) := by
  by_cases h : M / c < v
  · have : M < v * c := (Nat.div_lt_iff_lt_mul hc).mp h
    simp [h, Nat.min_def]; omega
  · have : v * c ≤ M := (Nat.le_div_iff_mul_le hc).mp (Nat.le_of_not_lt h)
    simp [h, this]

theorem unitNanos_pos (u n : Nat) (h : unitNanos u = some n) : 0 < n := by
  simp only [unitNanos, unitTable] at h
  simp only [List.find?] at h
  repeat' split at h
  all_goals simp at h
  all_goals omega

theorem digitsVal_append (a : Bytes) (d : Nat) : digitsVal (a ++ [d]) = digitsVal a * 10 + (d - 48) := by
  simp [digitsVal, List.foldl_append]

theorem toDec_spec (n : Nat) : digitsVal (toDec n) = n ∧ (∀ b ∈ toDec n, isDigit b = true) ∧ toDec n ≠ [] := by
  induction n using toDec.induct with
  | case1 n h =>
    rw [toDec]; simp only [h, dite_true]
    refine ⟨by simp [digitsVal], ?_, by simp⟩
    intro b hb; simp at hb; subst hb; simp [isDigit]; omega
  | case2 n h ih =>
    rw [toDec]; simp only [h, dite_false]
    obtain ⟨h1, h2, _⟩ := ih
    refine ⟨?_, ?_, by simp⟩
    · rw [digitsVal_append, h1]; omega
    · intro b hb
      simp only [List.mem_append, List.mem_singleton] at hb
      rcases hb with hb | hb
      · exact h2 b hb
      · subst hb; simp [isDigit]; omega

end Goat.Timeout
