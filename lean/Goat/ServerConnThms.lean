/-
  ServerConn — the property theorems (C03/C05/C06/C10/C11/C14 for `server.go`),
  the negative witnesses (one per `Cfg` flag) and the non-vacuity examples.
  Proofs are in `ServerConnProofs.lean` and the `ServerConnInv*.lean` files.
-/
import Goat.ServerConnProofs
import Goat.ServerConnWaitTerm

namespace Goat.ServerConn

/-! ### Vocabulary for the concrete runs -/

/-- the code as it is in /repo now -/
def good : Cfg := {}

/-- opening envelope of stream 5 -/
def o5 : InEnv := { id := 5 }
/-- a message of stream 5 -/
def b5 : InEnv := { id := 5, body := true }
/-- a unary request, id 1 -/
def u1 : InEnv := { id := 1, unary := true }

/-! ## 1. C11 — an abandoned stream never wedges its connection -/

/-- **srv_no_wedge.**  In the repaired code (`forwardSelectsOnStreamDone`), for every reachable
state — any number of streams, workers in any state — in which the read loop is parked in the
forwarding `select` for stream `x` (it holds `h.mu` there): one of its own completions is
enabled (`sent`, `dropped`, `abort`), or handler `x` can take a step that needs nobody else
(`recv` frees the slot; `return`, `cancel` lead to its context being done), or handler `x` is
waiting to hand its trailer to the writer and the writer can take its step. -/
theorem srv_no_wedge (cfg : Cfg) (hc : cfg.forwardSelectsOnStreamDone = true) (s : State)
    (hr : Reachable cfg s) (x : Nat) (e : InEnv) (hx : s.rl = .forwarding x e) :
    s.muHeld = true ∧
    ((step cfg s .rlForwardSent).isSome ∨ (step cfg s .rlForwardDropped).isSome ∨
     (step cfg s (.rlForwardAbort false)).isSome ∨
     (step cfg s (.hRecv x)).isSome ∨ (step cfg s (.hReturn x)).isSome ∨
     (step cfg s (.hTrailer x)).isSome ∨ (step cfg s (.hCancel x)).isSome ∨
     (step cfg s (.writerWrite true)).isSome) := by
  have hi := invS_reachable hr
  refine ⟨?_, no_wedge_of_inv cfg hc s hi x e hx⟩
  have := hi.mu
  unfold InvMu at this
  rw [this, hx]; rfl

/-- The run that wedges the pre-repair code: open stream 5, deliver one message (fills the
one-slot queue), the handler returns without reading it, sends its trailer, cancels; a second
message arrives and the read loop parks in the forwarding select holding `h.mu`. -/
def wedgeRun : List Label :=
  [.rlRead o5, .rlOpen, .rlRead b5, .rlForwardEnter 0, .rlForwardSent, .rlRead b5,
   .rlForwardEnter 0, .hReturn 0, .hTrailer 0, .writerWrite true, .hCancel 0]

/-- non-vacuity of `srv_no_wedge`: the same run in the repaired code reaches a state that
satisfies its hypotheses (queue full, handler finished) — there `rlForwardDropped` is enabled. -/
example : ∃ s, Reachable good s ∧ s.rl = .forwarding 0 b5 ∧
    (step good s .rlForwardSent).isNone ∧ (step good s .rlForwardDropped).isSome :=
  ⟨_, ⟨wedgeRun, rfl⟩, by decide⟩

/-- The state `wedgeRun` ends in, in the pre-repair code. -/
def wedged : State :=
  { rl := .forwarding 0 b5, muHeld := true,
    streams := [{ id := 5, queue := some b5, ctxDone := true, hpc := .wantUnreg }],
    wireOut := [.trailer 5], usedIds := [5] }

theorem wedged_workers (w : Nat) (pc : WorkerPc) (h : wedged.workers[w]? = some pc) :
    pc = .idle := by
  have := List.mem_of_getElem? h
  simp [wedged] at this
  exact this.2

/-- **wedge_witness** (negative, `forwardSelectsOnStreamDone = false`): after `wedgeRun` the
read loop holds `h.mu` in the forwarding select and NO label of any goroutine of the connection
is enabled; only the outside world (`Stop`, the `Serve` caller's context) can end it.  The
handler's `hUnregister 0` is among the disabled labels: it needs `h.mu`. -/
theorem wedge_witness :
    run { good with forwardSelectsOnStreamDone := false } init wedgeRun = some wedged ∧
      wedged.rl = .forwarding 0 b5 ∧ wedged.muHeld = true ∧
      ∀ l : Label, l.isEnv = false →
        step { good with forwardSelectsOnStreamDone := false } wedged l = none := by
  refine ⟨by decide, rfl, rfl, ?_⟩
  intro l hl
  cases l <;> simp [Label.isEnv] at hl
  all_goals (try (simp [step, wedged, sdone, good]; done))
  case workerRan w | workerHandoff w | workerAbandon w | workerExit w =>
    simp only [step]
    split
    · rename_i h; have := wedged_workers _ _ h; simp_all [wedged]
    · rfl
  all_goals
    rename_i x
    rcases x with _ | x <;> simp [step, wedged, sdone]

/-- **reset_no_wedge.**  `resetStream` also runs under `h.mu` and (repaired) waits for the
writer.  That cannot wedge either: the hand-over or the abort is enabled, or the writer is inside
`Write` and can take its step. -/
theorem reset_no_wedge (cfg : Cfg) (hc : cfg.resetViaWriter = true) (s : State)
    (hr : Reachable cfg s) (e : InEnv) (hx : s.rl = .resetOffer e) :
    (step cfg s .rlResetHandoff).isSome ∨ (step cfg s .rlResetAbort).isSome ∨
    (step cfg s (.writerWrite true)).isSome := by
  have hp := (invS_reachable hr).proc.1
  cases hw : s.writer <;> simp_all [step]

/-- non-vacuity of `reset_no_wedge`: the writer busy with a trailer while a reset is due. -/
example : ∃ s, Reachable good s ∧ s.rl = .resetOffer b5 ∧ s.writer = .writing (.trailer 5) ∧
    (step good s .rlResetHandoff).isNone :=
  ⟨_, ⟨[.rlRead o5, .rlOpen, .hReturn 0, .hTrailer 0, .hCancel 0, .hUnregister 0, .rlRead b5,
        .rlResetEnter], rfl⟩, by decide⟩

/-! ## 2. C03/C06 — a reset never overtakes the trailer -/

/-- **reset_after_trailer_in_wire_order.**  In the repaired code (`resetViaWriter`), for every
reachable state in which the peer has not reused a stream id (`idReused = false`; GOAT clients
allocate ids from a counter), and for every id `i`: wherever a trailer of `i` stands on the
wire, (a) no reset of `i` precedes it, (b) there is no other trailer of `i` before or after it,
(c) no body of `i` follows it — so only resets of `i` can follow; moreover (d) no body of `i`
follows a reset of `i`.  Also the executable checker accepts: `wireOk s.wireOut`. -/
theorem reset_after_trailer_in_wire_order (cfg : Cfg) (hc : cfg.resetViaWriter = true)
    (s : State) (hr : Reachable cfg s) (hn : s.idReused = false) :
    wireOk s.wireOut = true ∧
    (∀ (i : Nat) (pre post : List OutEv), s.wireOut = pre ++ OutEv.trailer i :: post →
      OutEv.reset i ∉ pre ∧ OutEv.trailer i ∉ pre ∧ OutEv.trailer i ∉ post ∧
      OutEv.body i ∉ post) ∧
    (∀ (i : Nat) (pre post : List OutEv), s.wireOut = pre ++ OutEv.reset i :: post →
      OutEv.body i ∉ post ∧ OutEv.trailer i ∉ post) := by
  have hw := ((invWire_reachable hc hr).w hn).1
  refine ⟨hw, ?_, ?_⟩
  · intro i pre post heq
    have h1 := (admissible_trailer _ _).mp (wireOk_split _ pre post (.trailer i) hw heq)
    refine ⟨h1.2, h1.1, ?_, ?_⟩
    · intro hm
      obtain ⟨p1, p2, hp⟩ := List.append_of_mem hm
      have h2 := (admissible_trailer _ _).mp
        (wireOk_split _ (pre ++ OutEv.trailer i :: p1) p2 (.trailer i) hw (by simp [heq, hp]))
      simp at h2
    · intro hm
      obtain ⟨p1, p2, hp⟩ := List.append_of_mem hm
      have h2 := (admissible_body _ _).mp
        (wireOk_split _ (pre ++ OutEv.trailer i :: p1) p2 (.body i) hw (by simp [heq, hp]))
      simp at h2
  · intro i pre post heq
    constructor
    · intro hm
      obtain ⟨p1, p2, hp⟩ := List.append_of_mem hm
      have h2 := (admissible_body _ _).mp
        (wireOk_split _ (pre ++ OutEv.reset i :: p1) p2 (.body i) hw (by simp [heq, hp]))
      simp at h2
    · intro hm
      obtain ⟨p1, p2, hp⟩ := List.append_of_mem hm
      have h2 := (admissible_trailer _ _).mp
        (wireOk_split _ (pre ++ OutEv.reset i :: p1) p2 (.trailer i) hw (by simp [heq, hp]))
      simp at h2

/-- A stream that ends normally, then a late message for it which is answered by a reset. -/
def lateBodyRun : List Label :=
  [.rlRead o5, .rlOpen, .hSend 0, .writerWrite true, .hReturn 0, .hTrailer 0, .hCancel 0,
   .hUnregister 0, .rlRead b5, .rlResetEnter]

/-- non-vacuity: in the repaired code the trailer and the reset both reach the wire, in order. -/
example : ∃ s, Reachable good s ∧ s.idReused = false ∧
    s.wireOut = [.body 5, .trailer 5, .reset 5] :=
  ⟨_, ⟨lateBodyRun ++ [.writerWrite true, .rlResetHandoff, .writerWrite true], rfl⟩, by decide⟩

/-- **reset_overtakes_trailer** (negative, `resetViaWriter = false`): the trailer is still in
the writer's hands when the read loop writes the reset itself: the reset reaches the wire
first, although the peer did not reuse any id. -/
theorem reset_overtakes_trailer :
    ∃ s, run { good with resetViaWriter := false } init
        (lateBodyRun ++ [.rlResetWrite true, .writerWrite true]) = some s ∧
      s.idReused = false ∧ s.wireOut = [.body 5, .reset 5, .trailer 5] ∧
      wireOk s.wireOut = false := by
  refine ⟨_, rfl, ?_, ?_, ?_⟩ <;> decide

/-! ## 3. C14 / C05 — the registry is exact; envelopes are routed by id -/

/-- **srv_registry_exact.**  In every reachable state: (a) a stream is in the registry exactly
while its goroutine has not finished `unregisterStream`; (b) at most one registered stream per
id (there is never a second handler for an id that is still registered) — in particular `rlOpen`
is refused for a known id; (c) when every stream goroutine is gone the registry is empty. -/
theorem srv_registry_exact (cfg : Cfg) (s : State) (hr : Reachable cfg s) :
    (∀ (k : Nat) (st : StreamRec), s.streams[k]? = some st →
      (st.registered = true ↔ st.hpc ≠ .gone)) ∧
    (∀ (j k : Nat) (sj sk : StreamRec), s.streams[j]? = some sj → s.streams[k]? = some sk →
      sj.registered = true → sk.registered = true → sj.id = sk.id → j = k) ∧
    (∀ e, s.rl = .wantLock e → known s e.id = true → step cfg s .rlOpen = none) ∧
    ((∀ (k : Nat) (st : StreamRec), s.streams[k]? = some st → st.hpc = .gone) →
      ∀ i, known s i = false) := by
  have hi := invS_reachable hr
  refine ⟨fun k st hk => (hi.stream k st hk).1, hi.uniq, ?_, ?_⟩
  · intro e he hk
    simp [step, he, hk]
  · intro hall i
    apply (known_false_iff s i).mpr
    intro k st hk hreg
    have := (hi.stream k st hk).1.mp hreg
    exact absurd (hall k st hk) this

/-- **srv_route_by_id** (C05).  An envelope sits in a stream's queue only if it carries that
stream's id. -/
theorem srv_route_by_id (cfg : Cfg) (s : State) (hr : Reachable cfg s)
    (k : Nat) (st : StreamRec) (e : InEnv) (hk : s.streams[k]? = some st)
    (hq : st.queue = some e) : e.id = st.id := by
  have := (invS_reachable hr).route k st hk
  rw [hq] at this
  exact this

/-- **unregister_never_blocks.**  `unregisterStream` sends on `done` (capacity 1) while holding
`h.mu`; the slot is always free at that point, so the critical section never blocks. -/
theorem unregister_never_blocks (cfg : Cfg) (s : State) (hr : Reachable cfg s)
    (x : Nat) (st : StreamRec) (hk : s.streams[x]? = some st)
    (hen : (step cfg s (.hUnregister x)).isSome = true) : st.doneSig = false := by
  have h1 := ((invS_reachable hr).stream x st hk).2.2.2
  simp [step, hk] at hen
  cases hd : st.doneSig with
  | false => rfl
  | true => have := h1 hd; rw [this] at hen; simp at hen

/-- non-vacuity: two live streams, one gone one, an envelope queued to the second. -/
example : ∃ s, Reachable good s ∧ s.streams.length = 3 ∧
    (s.streams.map (·.registered)) = [false, true, true] ∧
    (s.streams.map (·.queue)) = [none, some { id := 7, body := true }, none] :=
  ⟨_, ⟨[.rlRead o5, .rlOpen, .rlRead { id := 7 }, .rlOpen, .hReturn 0, .hTrailer 0,
        .writerWrite true, .hCancel 0, .hUnregister 0, .rlRead o5, .rlOpen,
        .rlRead { id := 7, body := true }, .rlForwardEnter 1, .rlForwardSent], rfl⟩, by decide⟩

/-! ## 4. C10 — server connections end cleanly -/

/-- **serve_returns_on_read_err.**  A read error takes the read loop out at once, and the
deferred cancel (`serveExit`) is then enabled. -/
theorem serve_returns_on_read_err (cfg : Cfg) (s s' : State) (hr : Reachable cfg s)
    (hs : step cfg s .rlReadErr = some s') :
    s'.rl = .exited ∧ (step cfg s' .serveExit).isSome = true := by
  have hw := (invS_reachable hr).waitA
  unfold InvWaitA at hw
  simp only [step] at hs
  split at hs <;> try contradiction
  rename_i hrl
  injection hs with hs
  subst hs
  have : s.wait = .notStarted := by
    rcases Classical.em (s.wait = .notStarted) with h | h
    · exact h
    · have := (hw h).1; rw [hrl] at this; contradiction
  simp [step, this]

/-- **serve_returns_on_write_err.**  After a write error (the writer cancels `h.ctx`), in every
later state: the read loop is out, or it has an enabled step that needs no input from the peer,
and every such step brings it strictly closer to `exited` (at most three steps; in the
forwarding select the abort on `h.ctx` is the enabled one). -/
theorem serve_returns_on_write_err (cfg : Cfg) (s s' s'' : State) (ls : List Label)
    (hr : Reachable cfg s) (hs : step cfg s (.writerWrite false) = some s')
    (hrun : run cfg s' ls = some s'') : ReadLoopEnds cfg s'' := by
  have hd : s'.connDone = true := by
    simp only [step] at hs
    split at hs <;> simp at hs
    subst hs; rfl
  exact readLoopEnds_of_connDone cfg s'' (reachable_run (reachable_step hr hs) hrun)
    (connDone_run cfg ls s' s'' hd hrun)

/-- **serve_returns_on_stop.**  The same after `Server.Stop`. -/
theorem serve_returns_on_stop (cfg : Cfg) (s s' s'' : State) (ls : List Label)
    (hr : Reachable cfg s) (hs : step cfg s .stop = some s')
    (hrun : run cfg s' ls = some s'') : ReadLoopEnds cfg s'' := by
  have hd : s'.connDone = true := by
    simp only [step] at hs
    injection hs with hs
    subst hs; rfl
  exact readLoopEnds_of_connDone cfg s'' (reachable_run (reachable_step hr hs) hrun)
    (connDone_run cfg ls s' s'' hd hrun)

/-- **serve_can_return.**  Possibility form of the same: from every reachable state whose
connection context is done there is a run of at most three read-loop steps, none of them an
input from the peer, after which the loop has left. -/
theorem serve_can_return (cfg : Cfg) (s : State) (hr : Reachable cfg s)
    (hd : s.connDone = true) :
    ∃ ls s', run cfg s ls = some s' ∧ s'.rl = .exited ∧ ls.length ≤ 3 ∧
      ∀ l ∈ ls, l.isRlInternal = true :=
  rl_can_exit cfg 3 s hr hd (by cases s.rl <;> simp [Rl.dist])

/-- non-vacuity: `Stop` while the read loop is parked in the forwarding select on a full queue
whose handler is still running: only the abort is enabled for the loop, and it is. -/
example : ∃ s, Reachable good s ∧ s.connDone = true ∧ s.rl = .forwarding 0 b5 ∧
    (step good s .rlForwardSent).isNone ∧ (step good s .rlForwardDropped).isNone ∧
    (step good s (.rlForwardAbort false)).isSome :=
  ⟨_, ⟨[.rlRead o5, .rlOpen, .rlRead b5, .rlForwardEnter 0, .rlForwardSent, .rlRead b5,
        .rlForwardEnter 0, .stop], rfl⟩, by decide⟩

/-- **wait_loop_progress.**  `cancelAndWaitForStreams` never blocks for good on a cooperative
handler: at the top of the loop it can finish or pick a stream; while it waits for stream `x`,
either the done token is there, or handler `x` — whose context is done — has an enabled step
of its own that moves it strictly closer to `gone` (return, trailer-fails-on-context, cancel,
unregister: `h.mu` is free because the read loop has left). -/
theorem wait_loop_progress (cfg : Cfg) (s : State) (hr : Reachable cfg s) :
    (s.wait = .looping →
      (step cfg s .waitFinish).isSome = true ∨ ∃ x, (step cfg s (.waitPick x)).isSome = true) ∧
    (∀ x, s.wait = .waiting x →
      (step cfg s .waitDone).isSome = true ∨
      ∃ st l, s.streams[x]? = some st ∧ sdone s st = true ∧
        (l = .hReturn x ∨ l = .hTrailerFail x ∨ l = .hCancel x ∨ l = .hUnregister x) ∧
        (step cfg s l).isSome = true ∧
        ∀ s', step cfg s l = some s' →
          ∃ st', s'.streams[x]? = some st' ∧ st'.hpc.dist < st.hpc.dist) :=
  ⟨wait_progress_looping cfg s (invS_reachable hr),
   fun x hx => wait_progress_waiting cfg s (invS_reachable hr) x hx⟩

/-- **wait_loop_can_finish.**  Possibility form: from every reachable state in which `serve` has
returned there is a run consisting only of wait-loop steps and of steps of cancelled handlers
on their way out (`hReturn`, `hTrailerFail`, `hCancel`, `hUnregister` — the cooperative-handler
hypothesis is that a handler whose context is done takes them) after which
`cancelAndWaitForStreams` has finished, for any number of streams in any state.  The run is
produced by a strictly decreasing measure (`waitMeasure`), i.e. no such step sequence can go
round in circles. -/
theorem wait_loop_can_finish (cfg : Cfg) (s : State) (hr : Reachable cfg s)
    (hex : serveExited s = true) :
    ∃ ls s', run cfg s ls = some s' ∧ serveReturned s' = true ∧
      ∀ l ∈ ls, l.isShutdown = true := by
  obtain ⟨ls, s', h1, h2, h3⟩ :=
    wait_can_finish_aux cfg (waitMeasure s) s hr (by simpa [serveExited] using hex) (Nat.le_refl _)
  exact ⟨ls, s', h1, by simp [serveReturned, h2], h3⟩

/-- **streams_finished_at_return.**  When `Serve` returns (the wait loop has finished), every
stream goroutine has finished, is out of the registry, and its context is done. -/
theorem streams_finished_at_return (cfg : Cfg) (s : State) (hr : Reachable cfg s)
    (hret : serveReturned s = true) :
    ∀ (k : Nat) (st : StreamRec), s.streams[k]? = some st →
      st.hpc = .gone ∧ st.registered = false ∧ st.ctxDone = true := by
  have hi := invS_reachable hr
  have hc := hi.waitC
  unfold InvWaitC at hc
  have hw : s.wait = .finished := by simpa [serveReturned] using hret
  intro k st hk
  have hreg := hc hw k st hk
  have h1 := hi.stream k st hk
  have hg : st.hpc = .gone := by
    rcases Classical.em (st.hpc = .gone) with h | h
    · exact h
    · have := h1.1.mpr h; rw [hreg] at this; contradiction
  exact ⟨hg, hreg, h1.2.2.1 hg⟩

/-- The wait loop really waits: two streams, both cancelled and collected. -/
def twoStreamsRun : List Label :=
  [.rlRead o5, .rlOpen, .rlRead { id := 7 }, .rlOpen, .rlReadErr, .serveExit,
   .waitPick 1, .hReturn 1, .hTrailerFail 1, .hCancel 1, .hUnregister 1, .waitDone,
   .waitPick 0, .hReturn 0, .hTrailerFail 0, .hCancel 0, .hUnregister 0, .waitDone, .waitFinish]

/-- non-vacuity of `streams_finished_at_return`. -/
example : ∃ s, Reachable good s ∧ serveReturned s = true ∧ s.streams.length = 2 :=
  ⟨_, ⟨twoStreamsRun, rfl⟩, by decide⟩

/-- **handlers_cancelled_at_return.**  In the repaired code (`unaryCtxFollowsConn`): once
`serve` has returned, the connection context is done, hence the context of every unary handler
still running is done; and once `Serve` has returned every stream context is done. -/
theorem handlers_cancelled_at_return (cfg : Cfg) (hc : cfg.unaryCtxFollowsConn = true)
    (s : State) (hr : Reachable cfg s) (hex : serveExited s = true) :
    s.connDone = true ∧
    (∀ (w id : Nat), s.workers[w]? = some (.running id) → unaryCtxDone cfg s = true) ∧
    (serveReturned s = true →
      ∀ (k : Nat) (st : StreamRec), s.streams[k]? = some st → sdone s st = true) := by
  have hw := (invS_reachable hr).waitA
  unfold InvWaitA at hw
  have hd : s.connDone = true := (hw (by simpa [serveExited] using hex)).2
  refine ⟨hd, fun _ _ _ => by simp [unaryCtxDone, hc, hd], ?_⟩
  intro hret k st hk
  simp [sdone, (streams_finished_at_return cfg s hr hret k st hk).2.2]

/-- A unary handler still running when `Serve` returns. -/
def unaryRunningRun : List Label :=
  [.rlRead u1, .workerTake 0, .rlReadErr, .serveExit, .waitFinish]

/-- non-vacuity of `handlers_cancelled_at_return`. -/
example : ∃ s, Reachable good s ∧ serveExited s = true ∧ s.workers[0]? = some (.running 1) :=
  ⟨_, ⟨unaryRunningRun, rfl⟩, by decide⟩

/-- **unary_ctx_survives_conn** (negative, `unaryCtxFollowsConn = false`): `Serve` has returned,
a unary handler is still running and its context is not done. -/
theorem unary_ctx_survives_conn :
    ∃ s, run { good with unaryCtxFollowsConn := false } init unaryRunningRun = some s ∧
      serveReturned s = true ∧ s.workers[0]? = some (.running 1) ∧
      unaryCtxDone { good with unaryCtxFollowsConn := false } s = false := by
  refine ⟨_, rfl, ?_, ?_, ?_⟩ <;> decide

/-- **no_goroutine_left.**  In the repaired code (`workerHandoffSelectsOnConn`), once the
connection context is done: the writer has left or has an enabled step of its own that brings
it strictly closer to `exited`; and so has each of the workers (an idle worker exits, a worker
in the hand-over abandons it, a worker inside a handler needs the handler to return — its
context is done by `handlers_cancelled_at_return` — and then abandons).  None of these steps
needs any other goroutine.  Together with `ReadLoopEnds`, `wait_loop_progress` and
`streams_finished_at_return` this covers the whole census: reader, writer, 8 workers, one
goroutine per stream. -/
theorem no_goroutine_left (cfg : Cfg) (hc : cfg.workerHandoffSelectsOnConn = true)
    (s : State) (hr : Reachable cfg s) (hd : s.connDone = true) :
    s.workers.length = numWorkers ∧
    (cfg.unaryCtxFollowsConn = true → unaryCtxDone cfg s = true) ∧
    (s.writer = .exited ∨
      ∃ l, (l = .writerExit ∨ l = .writerWrite true) ∧ (step cfg s l).isSome = true ∧
        ∀ s', step cfg s l = some s' → s'.writer.dist < s.writer.dist) ∧
    (∀ (w : Nat) (pc : WorkerPc), s.workers[w]? = some pc →
      pc = .exited ∨
      ∃ l, (l = .workerExit w ∨ l = .workerAbandon w ∨ l = .workerRan w) ∧
        (step cfg s l).isSome = true ∧
        ∀ s', step cfg s l = some s' →
          ∃ pc', s'.workers[w]? = some pc' ∧ pc'.dist < pc.dist) :=
  ⟨(invS_reachable hr).proc.2.2, fun hu => by simp [unaryCtxDone, hu, hd], writer_can_exit cfg s hd,
   fun w pc hw => worker_can_exit cfg hc s hd w pc hw⟩

/-- The writer has left; a unary handler then returns and its worker wants to hand over. -/
def lateReplyRun : List Label :=
  [.rlRead u1, .workerTake 0, .rlReadErr, .serveExit, .writerExit, .workerRan 0]

/-- non-vacuity of `no_goroutine_left`: in the repaired code that worker can abandon. -/
example : ∃ s, Reachable good s ∧ s.connDone = true ∧ s.writer = .exited ∧
    s.workers[0]? = some (.handoff 1) ∧ (step good s (.workerAbandon 0)).isSome :=
  ⟨_, ⟨lateReplyRun, rfl⟩, by decide⟩

/-- **worker_stuck_in_handoff** (negative, `workerHandoffSelectsOnConn = false`): after
`lateReplyRun` worker 0 is parked in the hand-over, the writer is gone, and whatever happens
afterwards — any label sequence at all — worker 0 is still parked there: a leaked goroutine. -/
theorem worker_stuck_in_handoff :
    ∃ s, run { good with workerHandoffSelectsOnConn := false } init lateReplyRun = some s ∧
      s.connDone = true ∧
      ∀ ls s', run { good with workerHandoffSelectsOnConn := false } s ls = some s' →
        s'.writer = .exited ∧ s'.workers[0]? = some (.handoff 1) := by
  refine ⟨_, rfl, by decide, ?_⟩
  intro ls s' h
  exact handoff_stuck_run _ rfl 0 1 ls _ s' (by decide) h

/-- Observation (not a property asked for): after a failed `Write` the writer goes round its
loop again and may well take and write the next envelope before it notices `h.ctx.Done()`; if
the transport accepts that one, the wire has a gap — here the trailer without the body. -/
example : ∃ s, Reachable good s ∧ s.connDone = true ∧ s.wireOut = [.trailer 5] :=
  ⟨_, ⟨[.rlRead o5, .rlOpen, .hSend 0, .writerWrite false, .hReturn 0, .hTrailer 0,
        .writerWrite true], rfl⟩, by decide⟩

/-- The census is exact and reaches zero: a connection with a stream blocked in its handler, a
unary handler in flight and a reply on its way is stopped; every goroutine then leaves by its
own steps (the handlers are cooperative: `hReturn 0`, `workerRan 0`). -/
def shutdownRun : List Label :=
  [.rlRead o5, .rlOpen, .rlRead u1, .workerTake 0, .rlRead { id := 2, unary := true },
   .workerTake 1, .workerRan 1, .workerHandoff 1, .stop,
   .rlReadErr, .serveExit, .writerWrite true, .writerExit, .workerRan 0, .workerAbandon 0,
   .workerExit 1, .workerExit 2, .workerExit 3, .workerExit 4, .workerExit 5, .workerExit 6,
   .workerExit 7, .waitPick 0, .hReturn 0, .hTrailerFail 0, .hCancel 0, .hUnregister 0,
   .waitDone, .waitFinish]

example : ∃ s s', run good init (shutdownRun.take 9) = some s ∧ census s = 11 ∧
    run good init shutdownRun = some s' ∧ census s' = 0 ∧ serveReturned s' = true :=
  ⟨_, _, rfl, by decide, rfl, by decide, by decide⟩

end Goat.ServerConn
