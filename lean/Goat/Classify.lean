/-
  server.go: what the read loop does with one incoming envelope — the checks of `serve` in their
  order, then `processStreamingRpc` — and `parseRawMethod`.
-/
import Goat.Metadata
namespace Goat.Classify
open Goat

/-- parseRawMethod: drop one leading '/', split at the LAST '/'; `none` when there is no '/' -/
def parseRawMethod (sm : Bytes) : Option (Bytes × Bytes) :=
  let s := match sm with
    | 47 :: t => t
    | _ => sm
  if s.contains 47 then
    let rev := s.reverse
    let meth := (rev.takeWhile (· ≠ 47)).reverse
    let svc := (rev.dropWhile (· ≠ 47)).drop 1 |>.reverse
    some (svc, meth)
  else none

/-! ### `parseRawMethod` characterised (used by Props/C12) -/

theorem tw_no (l : List Nat) : ∀ x ∈ l.takeWhile (· ≠ 47), x ≠ 47 := by
  induction l with
  | nil => simp
  | cons a t ih =>
    intro x hx
    by_cases ha : a = 47
    · simp [List.takeWhile, ha] at hx
    · simp only [List.takeWhile_cons, ne_eq, ha, not_false_eq_true, decide_true, if_true, List.mem_cons] at hx
      rcases hx with rfl | hx
      · exact ha
      · exact ih x hx

theorem dw_shape (l : List Nat) (h : 47 ∈ l) : ∃ d, l.dropWhile (· ≠ 47) = 47 :: d := by
  induction l with
  | nil => simp at h
  | cons a t ih =>
    by_cases ha : a = 47
    · exact ⟨t, by simp [List.dropWhile, ha]⟩
    · have : 47 ∈ t := by
        rcases List.mem_cons.mp h with h1 | h1
        · exact absurd h1.symm ha
        · exact h1
      obtain ⟨d, hd⟩ := ih this
      refine ⟨d, ?_⟩
      rw [List.dropWhile_cons]
      simp only [ne_eq, ha, not_false_eq_true, decide_true, if_true]
      exact hd

def strip (sm : Bytes) : Bytes := match sm with | 47 :: t => t | _ => sm

def parseS (s : Bytes) : Option (Bytes × Bytes) :=
  if s.contains 47 then
    some (((s.reverse.dropWhile (· ≠ 47)).drop 1).reverse, (s.reverse.takeWhile (· ≠ 47)).reverse)
  else none

theorem parse_eq (sm : Bytes) : parseRawMethod sm = parseS (strip sm) := by
  unfold parseRawMethod parseS strip
  rfl

theorem parseS_spec (s svc meth : Bytes) (h : parseS s = some (svc, meth)) :
    s = svc ++ 47 :: meth ∧ 47 ∉ meth := by
  unfold parseS at h
  split at h
  · rename_i hc
    simp only [Option.some.injEq, Prod.mk.injEq] at h
    obtain ⟨hs, hm⟩ := h
    have hmem : 47 ∈ s.reverse := by simpa using hc
    obtain ⟨d, hd⟩ := dw_shape _ hmem
    have hsplit := List.takeWhile_append_dropWhile (p := (· ≠ 47)) (l := s.reverse)
    have hrev : s = (s.reverse.dropWhile (· ≠ 47)).reverse ++ (s.reverse.takeWhile (· ≠ 47)).reverse := by
      have := congrArg List.reverse hsplit
      rw [List.reverse_append, List.reverse_reverse] at this
      exact this.symm
    refine ⟨?_, ?_⟩
    · rw [hd] at hs hrev
      simp only [List.drop_succ_cons, List.drop_zero] at hs
      rw [← hs, ← hm]
      simpa using hrev
    · rw [← hm]
      intro hin
      exact tw_no _ 47 (List.mem_reverse.mp hin) rfl
  · simp at h

theorem tw_prefix (l r : List Nat) (hl : ∀ x ∈ l, x ≠ 47) :
    (l ++ 47 :: r).takeWhile (· ≠ 47) = l ∧ (l ++ 47 :: r).dropWhile (· ≠ 47) = 47 :: r := by
  induction l with
  | nil => simp [List.takeWhile, List.dropWhile]
  | cons a t ih =>
    have ha : a ≠ 47 := hl a (by simp)
    have := ih (fun x hx => hl x (by simp [hx]))
    simp only [List.cons_append, List.takeWhile_cons, List.dropWhile_cons, ne_eq, ha, not_false_eq_true,
      decide_true, if_true]
    exact ⟨by rw [this.1], this.2⟩

theorem parseS_complete (svc meth : Bytes) (hm : 47 ∉ meth) : parseS (svc ++ 47 :: meth) = some (svc, meth) := by
  unfold parseS
  have hc : (svc ++ 47 :: meth).contains 47 = true := by simp
  rw [if_pos hc]
  have hrev : (svc ++ 47 :: meth).reverse = meth.reverse ++ 47 :: svc.reverse := by simp
  have hno : ∀ x ∈ meth.reverse, x ≠ 47 := by
    intro x hx h47; subst h47; exact hm (List.mem_reverse.mp hx)
  obtain ⟨h1, h2⟩ := tw_prefix meth.reverse svc.reverse hno
  rw [hrev, h1, h2]
  simp

/-- what a Server knows: its name and the registered services -/
structure ServerView where
  name : Bytes
  services : List (Bytes × List Bytes × List Bytes)   -- service, unary methods, streaming methods
  deriving Repr

inductive Action where
  | ignoreNoHeader | ignoreBadMethod | ignoreWrongDest | ignoreUnknownService | ignoreUnknownMethod
  | dispatchUnary                 -- handed to a unary worker: handler runs once, reply follows
  | unaryErrorReply               -- undecodable metadata: Internal error reply, handler NOT run
  | streamCancel                  -- reset for a registered stream: cancel its handler
  | streamForward                 -- queued to the registered stream (or dropped if its handler is done)
  | ignoreResetUnknown
  | resetBody                     -- body for an id that is not registered: answer with a reset
  | ignoreTrailerUnknown
  | resetBadMeta                  -- open with undecodable metadata: answer with a reset
  | openStream                    -- register and start the handler
  | panic                         -- pre-repair only: log.Panic on undecodable unary metadata
  deriving DecidableEq, Repr

def isRst (e : Env) : Bool := e.reset = some rstStream

def metaDecodes (h : Header) : Bool := (Metadata.toMetadata h.headers).isSome

def classify (unaryBadMetaIsErrorReply : Bool) (v : ServerView) (registered : List Nat) (e : Env) : Action :=
  match e.header with
  | none => .ignoreNoHeader
  | some h =>
    match parseRawMethod h.method with
    | none => .ignoreBadMethod
    | some (svc, meth) =>
      if h.dst ≠ v.name then .ignoreWrongDest else
      match v.services.find? (·.1 = svc) with
      | none => .ignoreUnknownService
      | some (_, unary, streams) =>
        if unary.contains meth then
          (if metaDecodes h then .dispatchUnary
           else if unaryBadMetaIsErrorReply then .unaryErrorReply else .panic)
        else if streams.contains meth then
          (if registered.contains e.id then
             (if isRst e then .streamCancel else .streamForward)
           else if isRst e then .ignoreResetUnknown
           else if e.body.isSome then .resetBody
           else if e.trailer.isSome then .ignoreTrailerUnknown
           else if metaDecodes h then .openStream else .resetBadMeta)
        else .ignoreUnknownMethod

/-- the registry after the envelope, for handlers that consume their input until it ends:
    a reset cancels the handler and a forwarded trailer ends its input; either way it returns and
    unregisters (the harness waits for that before the next envelope) -/
def nextRegistered (registered : List Nat) (e : Env) : Action → List Nat
  | .openStream => e.id :: registered
  | .streamCancel => registered.filter (· ≠ e.id)
  | .streamForward => if e.trailer.isSome then registered.filter (· ≠ e.id) else registered
  | _ => registered

/-- observable effects of one envelope -/
inductive Effect where
  | invokeUnary (id : Nat) | startStream (id : Nat) | reset (id : Nat) | errorReply (id : Nat) | cancelStream (id : Nat)
  deriving DecidableEq, Repr

def effectOf (e : Env) : Action → List Effect
  | .dispatchUnary => [.invokeUnary e.id]
  | .unaryErrorReply => [.errorReply e.id]
  | .openStream => [.startStream e.id]
  | .resetBody => [.reset e.id]
  | .resetBadMeta => [.reset e.id]
  | .streamCancel => [.cancelStream e.id]
  | _ => []

/-- the whole connection, one envelope at a time (each reset of a known stream is followed by that
    handler's unregistration before the next envelope is read — the harness waits for it) -/
def runSeq (flag : Bool) (v : ServerView) : List Nat → List Env → List Effect × Bool
  | _, [] => ([], true)
  | reg, e :: es =>
    let a := classify flag v reg e
    if a = .panic then ([], false) else
    let (effs, alive) := runSeq flag v (nextRegistered reg e a) es
    (effectOf e a ++ effs, alive)

end Goat.Classify
