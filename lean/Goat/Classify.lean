/-
  server.go: what the read loop does with one incoming envelope — the checks of `serve` in their
  order, then `processStreamingRpc` — and `parseRawMethod`.
-/
import Goat.Metadata
namespace Goat.Classify
open Goat

/-- parseRawMethod: drop one leading '/', split at the LAST '/'; `none` when there is no '/' -/
def parseRawMethod (sm : Bytes) : Option (Bytes × Bytes) :=
  let s := match sm with
    | 47 :: t => t
    | _ => sm
  if s.contains 47 then
    let rev := s.reverse
    let meth := (rev.takeWhile (· ≠ 47)).reverse
    let svc := (rev.dropWhile (· ≠ 47)).drop 1 |>.reverse
    some (svc, meth)
  else none

/-- what a Server knows: its name and the registered services -/
structure ServerView where
  name : Bytes
  services : List (Bytes × List Bytes × List Bytes)   -- service, unary methods, streaming methods
  deriving Repr

inductive Action where
  | ignoreNoHeader | ignoreBadMethod | ignoreWrongDest | ignoreUnknownService | ignoreUnknownMethod
  | dispatchUnary                 -- handed to a unary worker: handler runs once, reply follows
  | unaryErrorReply               -- undecodable metadata: Internal error reply, handler NOT run
  | streamCancel                  -- reset for a registered stream: cancel its handler
  | streamForward                 -- queued to the registered stream (or dropped if its handler is done)
  | ignoreResetUnknown
  | resetBody                     -- body for an id that is not registered: answer with a reset
  | ignoreTrailerUnknown
  | resetBadMeta                  -- open with undecodable metadata: answer with a reset
  | openStream                    -- register and start the handler
  | panic                         -- pre-repair only: log.Panic on undecodable unary metadata
  deriving DecidableEq, Repr

def isRst (e : Env) : Bool := e.reset = some rstStream

def metaDecodes (h : Header) : Bool := (Metadata.toMetadata h.headers).isSome

def classify (unaryBadMetaIsErrorReply : Bool) (v : ServerView) (registered : List Nat) (e : Env) : Action :=
  match e.header with
  | none => .ignoreNoHeader
  | some h =>
    match parseRawMethod h.method with
    | none => .ignoreBadMethod
    | some (svc, meth) =>
      if h.dst ≠ v.name then .ignoreWrongDest else
      match v.services.find? (·.1 = svc) with
      | none => .ignoreUnknownService
      | some (_, unary, streams) =>
        if unary.contains meth then
          (if metaDecodes h then .dispatchUnary
           else if unaryBadMetaIsErrorReply then .unaryErrorReply else .panic)
        else if streams.contains meth then
          (if registered.contains e.id then
             (if isRst e then .streamCancel else .streamForward)
           else if isRst e then .ignoreResetUnknown
           else if e.body.isSome then .resetBody
           else if e.trailer.isSome then .ignoreTrailerUnknown
           else if metaDecodes h then .openStream else .resetBadMeta)
        else .ignoreUnknownMethod

/-- the registry after the envelope, for handlers that consume their input until it ends:
    a reset cancels the handler and a forwarded trailer ends its input; either way it returns and
    unregisters (the harness waits for that before the next envelope) -/
def nextRegistered (registered : List Nat) (e : Env) : Action → List Nat
  | .openStream => e.id :: registered
  | .streamCancel => registered.filter (· ≠ e.id)
  | .streamForward => if e.trailer.isSome then registered.filter (· ≠ e.id) else registered
  | _ => registered

/-- observable effects of one envelope -/
inductive Effect where
  | invokeUnary (id : Nat) | startStream (id : Nat) | reset (id : Nat) | errorReply (id : Nat) | cancelStream (id : Nat)
  deriving DecidableEq, Repr

def effectOf (e : Env) : Action → List Effect
  | .dispatchUnary => [.invokeUnary e.id]
  | .unaryErrorReply => [.errorReply e.id]
  | .openStream => [.startStream e.id]
  | .resetBody => [.reset e.id]
  | .resetBadMeta => [.reset e.id]
  | .streamCancel => [.cancelStream e.id]
  | _ => []

/-- the whole connection, one envelope at a time (each reset of a known stream is followed by that
    handler's unregistration before the next envelope is read — the harness waits for it) -/
def runSeq (flag : Bool) (v : ServerView) : List Nat → List Env → List Effect × Bool
  | _, [] => ([], true)
  | reg, e :: es =>
    let a := classify flag v reg e
    if a = .panic then ([], false) else
    let (effs, alive) := runSeq flag v (nextRegistered reg e a) es
    (effectOf e a ++ effs, alive)

end Goat.Classify
