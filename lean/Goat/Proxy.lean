/-
  Model of `/repo/proxy.go` (core Lean only: this file is also compiled into the driver).

  Part 1: the forwarding decision `forward` — an exact, executable transcription of
          `Proxy.forwardRpc` (it runs in the single `serveClients` goroutine, so it is a
          sequential function of the routing table and the command it received).
  Part 2: the LTS around it: per-connection reader / writer / dialer processes, the serve
          loop, `AddClient`, cancellation of the proxy context.

  Heap and identity.  `p.clients` is a Go map from names to *pointers* to `proxyClient`
  objects; an object that was replaced (`AddClient` under the same name) or removed
  (`delete`) keeps living: its goroutines still run and its queue still drains.  So the model
  has a heap `conns : List Conn` that only grows (index = object identity = "generation") and
  a map `names : List (Bytes × Nat)` from names to heap indices.
-/
import Goat.Basic

namespace Goat.Proxy

/-- `name` is the proxy's own id (`p.id`), a static parameter.  Each Boolean flag: `true` = the
code in /repo now, `false` = the behaviour before the corresponding `fix:` commit. -/
structure Cfg where
  name : Bytes := []
  /-- fa180fa: missing header / wrong source → log and return (before: `log.Panic`). -/
  badSourceIsIgnored : Bool := true
  /-- 63eac4f: `delete(p.clients, id)` only if the table still holds the failing object. -/
  removeComparesIdentity : Bool := true
  /-- d955a3a: the error report is `select { commands <- cmd ; <-proxyCtx.Done() }`
  (before: a bare send, which blocks for ever once `Serve` has returned). -/
  errReportSelectsOnCtx : Bool := true
  /-- 6d5dbe5: the route test is `len(ProxyNext) > 0` (before: `ProxyNext != nil`, which lets an
  empty but non-nil slice through to `ProxyNext[len-1]`). -/
  emptyNextIsNoRoute : Bool := true
  deriving DecidableEq, Repr

def clientBufferSize : Nat := 16

/-! ## Part 1: the heap, the name table, `forward` -/

/-- which goroutine of a connection -/
inductive Who where
  | reader | writer | dialer
  deriving DecidableEq, Repr

/-- `readLoop` -/
inductive RPc where
  | notStarted                 -- connection still dialing (or dial failed): `readWrite` not running
  | reading                    -- in `c.conn.Read(ctx)`
  | sending (e : Env)          -- in `select { c.toServer <- command{rpc} ; <-ctx.Done() }`
  | reporting                  -- Read failed: in `c.report(err)`
  | exited
  deriving DecidableEq, Repr

/-- `writeLoop` -/
inductive WPc where
  | notStarted
  | idle                       -- in `select { rpc := <-c.fromServer ; <-ctx.Done() }`
  | writing (e : Env)          -- in `c.conn.Write(ctx, rpc)`
  | reporting                  -- Write failed: in `c.report(err)`
  | exited
  deriving DecidableEq, Repr

/-- `connect` (the dial-on-demand goroutine).  `attached`: the object was made by `AddClient`,
there is no dialer.  DESIGN's `dialing | up | failed` is `dialing`, `attached ∨ up`,
`reporting ∨ failed`. -/
inductive DPc where
  | attached
  | dialing                    -- in `newConnection(c.id)`
  | reporting                  -- dial failed: in `c.report(err)`
  | up                         -- dial succeeded, `go c.readWrite(ctx)` done, goroutine ended
  | failed                     -- dial failed, report delivered or abandoned, goroutine ended
  deriving DecidableEq, Repr

/-- one `proxyClient` object, plus history variables (`enq … lostR`) that no step reads -/
structure Conn where
  name : Bytes := []
  d : DPc := .attached
  r : RPc := .reading
  w : WPc := .idle
  /-- `fromServer`, a channel with buffer `clientBufferSize` -/
  queue : List Env := []
  /-- `readWrite` returned (`e.Wait()` done) -/
  joined : Bool := false
  /-- history: everything ever put into `queue`, in order -/
  enq : List Env := []
  /-- history: envelopes the proxy wanted to put into `queue` and dropped because it was full -/
  dropped : List Env := []
  /-- history: successful `conn.Write`s, in order (the peer's view of this connection) -/
  out : List Env := []
  /-- history: the envelope whose `conn.Write` failed (at most one: the writer then stops) -/
  lostW : List Env := []
  /-- history: everything `conn.Read` returned, in order -/
  wireIn : List Env := []
  /-- history: the envelope the reader held when it gave up on `ctx.Done()` (at most one) -/
  lostR : List Env := []
  deriving DecidableEq, Repr

abbrev Names := List (Bytes × Nat)

/-- `p.clients[n]` -/
def nget : Names → Bytes → Option Nat
  | [], _ => none
  | (k, v) :: t, n => if k = n then some v else nget t n

/-- `delete(p.clients, n)` -/
def ndel : Names → Bytes → Names
  | [], _ => []
  | (k, v) :: t, n => if k = n then ndel t n else (k, v) :: ndel t n

/-- `p.clients[n] = v` -/
def nput (t : Names) (n : Bytes) (v : Nat) : Names := (n, v) :: ndel t n

/-- the routing table: heap of connection objects + name map -/
structure Table where
  conns : List Conn := []
  names : Names := []
  deriving DecidableEq, Repr

inductive PanicWhy where
  /-- pre-repair `log.Panic().Msg("TODO: handle invalid RPC here")` -/
  | badSource
  /-- `rpc.Header.ProxyNext[len-1]` on an empty but non-nil slice: index out of range -/
  | emptyNext
  deriving DecidableEq, Repr

/-- what `forwardRpc` did (hook events `proxy.ignore`, `proxy.refused`, `proxy.enqueue`,
`proxy.drop`; a panic kills the process).  `dangling` is a model artefact: the name map
pointing outside the heap, which Go's memory safety rules out and `names_valid` proves
unreachable. -/
inductive Action where
  | ignore
  | refused
  | panic (why : PanicWhy)
  | enqueue (dest : Bytes) (e : Env)
  | drop (dest : Bytes) (e : Env)
  | dangling
  deriving DecidableEq, Repr

/-- the table-independent part of `forwardRpc` (l.143-175) -/
inductive Decision where
  | ignore
  | refused
  | panic (why : PanicWhy)
  | send (dest : Bytes) (e : Env)
  deriving DecidableEq, Repr

/-- the sanity-check branch (l.144-148): now `return`, before the repair `log.Panic` -/
def badSource (cfg : Cfg) : Decision :=
  if cfg.badSourceIsIgnored then .ignore else .panic .badSource

/-- Lines 143-175 of proxy.go.

* `intercept h = none`: the interceptor returned an error; `some h'`: it returned nil having
  left the header as `h'` (no interceptor configured: `intercept = some`).
* `nn`: Go distinguishes a nil `ProxyNext` from an empty non-nil one (the test is
  `ProxyNext != nil`), `Header.next : List Bytes` cannot.  A non-empty list is a non-nil
  slice; for the empty list `nn` says whether the slice is non-nil *after the interceptor ran*.
  A protobuf-decoded envelope has `nn = false`; an envelope passed by reference from another
  proxy that consumed the last hop (`next[0:0]`) has `nn = true`, and then Go indexes
  `next[-1]` and panics. -/
def route (cfg : Cfg) (intercept : Header → Option Header) (nn : Bool) (source : Bytes)
    (e : Env) : Decision :=
  match e.header with
  | none => badSource cfg
  | some h =>
    if h.src ≠ source then badSource cfg else
    match intercept h with
    | none => .refused
    | some h1 =>
      let record := h1.record ++ [cfg.name]
      if nn || !h1.next.isEmpty then
        match h1.next.getLast? with
        | none => .panic .emptyNext
        | some d =>
          .send d { e with header := some { h1 with record := record, next := h1.next.dropLast } }
      else
        .send h1.dst { e with header := some { h1 with record := record } }

/-- `&proxyClient{id: dest, …}` + `go client.connect(…)` (`addOutgoingConnectionLocked`) -/
def newDial (dest : Bytes) : Conn := { name := dest, d := .dialing, r := .notStarted, w := .notStarted }

/-- result of `forwardRpc`; `target` (model only) is the heap index of the chosen object -/
structure Result where
  table : Table
  action : Action
  dialed : Bool := false
  target : Option Nat := none
  deriving DecidableEq, Repr

/-- Lines 178-196: lookup, dial on demand, non-blocking enqueue. -/
def deliver (t : Table) (dest : Bytes) (e : Env) : Result :=
  let (t1, j, dialed) : Table × Nat × Bool :=
    match nget t.names dest with
    | some j => (t, j, false)
    | none => ({ conns := t.conns ++ [newDial dest], names := nput t.names dest t.conns.length },
               t.conns.length, true)
  match t1.conns[j]? with
  | none => { table := t1, action := .dangling, dialed := dialed, target := some j }
  | some c =>
    if c.queue.length < clientBufferSize then
      { table := { t1 with conns := t1.conns.set j { c with queue := c.queue ++ [e], enq := c.enq ++ [e] } },
        action := .enqueue dest e, dialed := dialed, target := some j }
    else
      { table := { t1 with conns := t1.conns.set j { c with dropped := c.dropped ++ [e] } },
        action := .drop dest e, dialed := dialed, target := some j }

/-- whether an empty `ProxyNext` still counts as "a route to follow": only before 6d5dbe5, and only
for a slice that is non-nil -/
def nnEff (cfg : Cfg) (nn : Bool) : Bool := nn && !cfg.emptyNextIsNoRoute

/-- `Proxy.forwardRpc(source, rpc)` -/
def forward (cfg : Cfg) (intercept : Header → Option Header) (nn : Bool) (t : Table)
    (source : Bytes) (e : Env) : Result :=
  match route cfg intercept (nnEff cfg nn) source e with
  | .ignore => { table := t, action := .ignore }
  | .refused => { table := t, action := .refused }
  | .panic w => { table := t, action := .panic w }
  | .send dest e' => deliver t dest e'

/-! ## Part 2: the LTS -/

inductive SPc where
  | serving | exited
  deriving DecidableEq, Repr

/-- one entry of the serve loop's history: the command `{id: srcName, rpc: recv}` sent by the
reader of heap object `src`, and what `forwardRpc` did with it -/
structure Ev where
  src : Nat
  srcName : Bytes
  recv : Env
  action : Action
  dialed : Bool
  target : Option Nat
  deriving DecidableEq, Repr

structure State where
  conns : List Conn := []
  names : Names := []
  serve : SPc := .serving
  /-- the proxy's context is done -/
  cancelled : Bool := false
  /-- the process died in a Go panic (explicit outcome; no step is enabled afterwards) -/
  panicked : Option PanicWhy := none
  /-- history of `forwardRpc` calls, in serve order -/
  log : List Ev := []
  /-- history of `clientDisconnect(id, err)` callbacks: name and heap index of the reporter -/
  disconnects : List (Bytes × Nat) := []
  deriving DecidableEq, Repr

inductive Label where
  /-- `AddClient(p, conn)` -/
  | attach (p : Bytes)
  /-- `c.conn.Read` returns `e` -/
  | readerGet (i : Nat) (e : Env)
  /-- `c.conn.Read` returns an error -/
  | readerErr (i : Nat)
  /-- rendezvous `c.toServer <- command{rpc}` / `cmd := <-p.commands` and the whole of
  `forwardRpc`.  `ic` is what the interceptor did to the header (`none` = refused; the header
  itself when there is no interceptor), `nn` as in `route`: both are the environment's choice. -/
  | cmdRpc (i : Nat) (ic : Option Header) (nn : Bool)
  /-- the reader's `<-ctx.Done()` (errgroup context) wins while it offers a command -/
  | readerCtx (i : Nat)
  /-- `rpc := <-c.fromServer` -/
  | writerTake (i : Nat)
  /-- `c.conn.Write` returns (nil / error) -/
  | writerWrite (i : Nat) (ok : Bool)
  /-- the writer's `<-ctx.Done()` wins -/
  | writerCtx (i : Nat)
  /-- `newConnection(c.id)` returns (conn / error) -/
  | dialDone (i : Nat) (ok : Bool)
  /-- rendezvous `report`'s send / serve loop, and the serve loop's error branch (l.118-133) -/
  | cmdErr (i : Nat) (who : Who)
  /-- `report`'s `<-c.proxyCtx.Done()` wins (only with `errReportSelectsOnCtx`) -/
  | reportAbandon (i : Nat) (who : Who)
  /-- `e.Wait()` returns in `readWrite` -/
  | connExit (i : Nat)
  /-- the proxy's context is cancelled -/
  | cancel
  /-- serve loop's `<-ctx.Done()` wins -/
  | serveExit
  deriving DecidableEq, Repr

/-- the errgroup context of `readWrite` is done: the parent is, or one of the two loops
returned (they only ever return errors) -/
def grpDone (s : State) (c : Conn) : Bool :=
  s.cancelled || c.r == .exited || c.w == .exited

/-- is process `who` of `c` inside `report`? -/
def reporting (c : Conn) : Who → Bool
  | .reader => c.r == .reporting
  | .writer => c.w == .reporting
  | .dialer => c.d == .reporting

/-- process `who` of `c` leaves `report` and returns -/
def reported (c : Conn) : Who → Conn
  | .reader => { c with r := .exited }
  | .writer => { c with w := .exited }
  | .dialer => { c with d := .failed }

def step (cfg : Cfg) (s : State) (l : Label) : Option State :=
  if s.panicked.isSome then none else
  match l with
  | .attach p =>
    some { s with conns := s.conns ++ [{ name := p }], names := nput s.names p s.conns.length }
  | .readerGet i e =>
    match s.conns[i]? with
    | some c =>
      if c.r = .reading then
        some { s with conns := s.conns.set i { c with r := .sending e, wireIn := c.wireIn ++ [e] } }
      else none
    | none => none
  | .readerErr i =>
    match s.conns[i]? with
    | some c => if c.r = .reading then some { s with conns := s.conns.set i { c with r := .reporting } } else none
    | none => none
  | .cmdRpc i ic nn =>
    if s.serve = .serving then
      match s.conns[i]? with
      | some c =>
        match c.r with
        | .sending e =>
          let res := forward cfg (fun _ => ic) nn
            { conns := s.conns.set i { c with r := .reading }, names := s.names } c.name e
          some { s with
            conns := res.table.conns, names := res.table.names,
            panicked := (match res.action with | .panic w => some w | _ => none),
            log := s.log ++ [{ src := i, srcName := c.name, recv := e, action := res.action,
                               dialed := res.dialed, target := res.target }] }
        | _ => none
      | none => none
    else none
  | .readerCtx i =>
    match s.conns[i]? with
    | some c =>
      match c.r with
      | .sending e =>
        if grpDone s c then some { s with conns := s.conns.set i { c with r := .exited, lostR := c.lostR ++ [e] } }
        else none
      | _ => none
    | none => none
  | .writerTake i =>
    match s.conns[i]? with
    | some c =>
      if c.w = .idle then
        match c.queue with
        | e :: q => some { s with conns := s.conns.set i { c with w := .writing e, queue := q } }
        | [] => none
      else none
    | none => none
  | .writerWrite i ok =>
    match s.conns[i]? with
    | some c =>
      match c.w with
      | .writing e =>
        if ok then some { s with conns := s.conns.set i { c with w := .idle, out := c.out ++ [e] } }
        else some { s with conns := s.conns.set i { c with w := .reporting, lostW := c.lostW ++ [e] } }
      | _ => none
    | none => none
  | .writerCtx i =>
    match s.conns[i]? with
    | some c =>
      if c.w = .idle ∧ grpDone s c then some { s with conns := s.conns.set i { c with w := .exited } }
      else none
    | none => none
  | .dialDone i ok =>
    match s.conns[i]? with
    | some c =>
      if c.d = .dialing then
        if ok then some { s with conns := s.conns.set i { c with d := .up, r := .reading, w := .idle } }
        else some { s with conns := s.conns.set i { c with d := .reporting } }
      else none
    | none => none
  | .cmdErr i who =>
    if s.serve = .serving then
      match s.conns[i]? with
      | some c =>
        if reporting c who then
          some { s with
            conns := s.conns.set i (reported c who),
            names :=
              if cfg.removeComparesIdentity then
                (if nget s.names c.name = some i then ndel s.names c.name else s.names)
              else ndel s.names c.name,
            disconnects := s.disconnects ++ [(c.name, i)] }
        else none
      | none => none
    else none
  | .reportAbandon i who =>
    if cfg.errReportSelectsOnCtx ∧ s.cancelled then
      match s.conns[i]? with
      | some c => if reporting c who then some { s with conns := s.conns.set i (reported c who) } else none
      | none => none
    else none
  | .connExit i =>
    match s.conns[i]? with
    | some c =>
      if c.r = .exited ∧ c.w = .exited ∧ c.joined = false then
        some { s with conns := s.conns.set i { c with joined := true } }
      else none
    | none => none
  | .cancel => if s.cancelled then none else some { s with cancelled := true }
  | .serveExit => if s.cancelled ∧ s.serve = .serving then some { s with serve := .exited } else none

def init : State := {}

def run (cfg : Cfg) (s : State) : List Label → Option State
  | [] => some s
  | l :: ls => (step cfg s l).bind (fun s' => run cfg s' ls)

def Reachable (cfg : Cfg) (s : State) : Prop := ∃ ls, run cfg init ls = some s

end Goat.Proxy
