/-
  chained.go: ChainUnaryInterceptor / ChainStreamInterceptor and their recursive helpers
  getChainUnaryHandler / getChainStreamHandler, transcribed with the same index recursion.
  A handler maps a request to a result; an interceptor gets the request and the next handler.
  `ρ` is whatever a call produces (reply, error, and — for the log theorems — a trace).
-/
import Goat.Basic
namespace Goat.Chain

abbrev Handler (α ρ : Type) := α → ρ
abbrev Interceptor (α ρ : Type) := α → Handler α ρ → ρ

/-- getChainUnaryHandler / getChainStreamHandler: `if curr == len-1 { return final }`, else a handler
    that calls `interceptors[curr+1]` with the handler for `curr+1`. (For `curr > len-1` the Go code
    would index out of range; that is unreachable from the top-level call with index 0.) -/
def getChainHandler {α ρ} (is : List (Interceptor α ρ)) (final : Handler α ρ) (curr : Nat) : Handler α ρ :=
  if h : curr + 1 < is.length then
    fun req => is[curr + 1] req (getChainHandler is final (curr + 1))
  else final
termination_by is.length - curr

/-- ChainUnaryInterceptor(interceptors...) applied to the final handler:
    `interceptors[0](ctx, req, info, getChainUnaryHandler(interceptors, 0, info, handler))` -/
def chained {α ρ} (i0 : Interceptor α ρ) (rest : List (Interceptor α ρ)) (final : Handler α ρ) : Handler α ρ :=
  fun req => i0 req (getChainHandler (i0 :: rest) final 0)

/-- the specification: interceptors nested in registration order around the final handler -/
def nest {α ρ} (is : List (Interceptor α ρ)) (final : Handler α ρ) : Handler α ρ :=
  is.foldr (fun i h => fun req => i req h) final

theorem getChain_eq_nest {α ρ} (is : List (Interceptor α ρ)) (final : Handler α ρ) (curr : Nat) (h : curr < is.length) :
    getChainHandler is final curr = nest (is.drop (curr + 1)) final := by
  induction hk : is.length - curr generalizing curr with
  | zero => omega
  | succ k ih =>
    unfold getChainHandler
    by_cases hlt : curr + 1 < is.length
    · simp only [hlt, dite_true]
      have := ih (curr + 1) hlt (by omega)
      rw [this]
      have hd : is.drop (curr + 1) = is[curr + 1] :: is.drop (curr + 2) := by
        rw [List.drop_eq_getElem_cons hlt]
      rw [hd]; rfl
    · simp only [hlt, dite_false]
      have : is.drop (curr + 1) = [] := List.drop_eq_nil_of_le (by omega)
      rw [this]; rfl

/-- The chain built by the index recursion IS the nesting in registration order — for every
    length ≥ 1 (the off-by-one a three-element test would not show has nowhere to hide). -/
theorem chained_eq_nest {α ρ} (i0 : Interceptor α ρ) (rest : List (Interceptor α ρ)) (final : Handler α ρ) :
    chained i0 rest final = nest (i0 :: rest) final := by
  funext req
  simp only [chained, nest, List.foldr]
  rw [getChain_eq_nest (i0 :: rest) final 0 (by simp)]
  rfl

/-! ### logging interceptors: the call log -/

inductive Ev where
  | enter (k : Nat) | exit (k : Nat) | final
  deriving DecidableEq, Repr

/-- a request/context on the way down and a reply/error on the way up, with the log so far -/
structure Res (β : Type) where
  log : List Ev
  val : β

/-- interceptor number `k`: rewrites the request with `f`, calls next once, rewrites the result with `g` -/
def logI {α β} (k : Nat) (f : α → α) (g : β → β) : Interceptor α (Res β) :=
  fun req next => let r := next (f req); { log := [.enter k] ++ r.log ++ [.exit k], val := g r.val }

def logFinal {α β} (h : α → β) : Handler α (Res β) := fun req => { log := [.final], val := h req }

/-- interceptors k, k+1, … built from the lists of request/reply rewriters -/
def logChain {α β} : Nat → List ((α → α) × (β → β)) → List (Interceptor α (Res β))
  | _, [] => []
  | k, (f, g) :: t => logI k f g :: logChain (k + 1) t

def enters : Nat → Nat → List Ev
  | _, 0 => []
  | k, n + 1 => .enter k :: enters (k + 1) n

def exits : Nat → Nat → List Ev
  | _, 0 => []
  | k, n + 1 => exits (k + 1) n ++ [.exit k]

def downAll {α} (fs : List (α → α)) (x : α) : α := fs.foldl (fun acc f => f acc) x
def upAll {β} (gs : List (β → β)) (y : β) : β := gs.foldr (fun g acc => g acc) y

theorem nest_log {α β} (fg : List ((α → α) × (β → β))) (h : α → β) : ∀ (k : Nat) (req : α),
    (nest (logChain k fg) (logFinal h) req).log = enters k fg.length ++ [.final] ++ exits k fg.length ∧
    (nest (logChain k fg) (logFinal h) req).val = upAll (fg.map (·.2)) (h (downAll (fg.map (·.1)) req)) := by
  induction fg with
  | nil => intro k req; simp [nest, logChain, logFinal, enters, exits, upAll, downAll]
  | cons p t ih =>
    intro k req
    obtain ⟨f, g⟩ := p
    have := ih (k + 1) (f req)
    simp only [nest, logChain, List.foldr, logI] at this ⊢
    constructor
    · rw [this.1]; simp [enters, exits]
    · rw [this.2]; simp [upAll, downAll]

end Goat.Chain
