/-
  Combined invariant, history invariants (per-call order; requests on the wire), termination
  measure, and the enabledness lemmas used by the property theorems in `Goat/MuxThms.lean`.
-/
import Goat.MuxInv2

set_option linter.unusedVariables false

namespace Goat.Mux

/-! ## The combined state invariant -/

def Inv (cfg : Cfg) (s : State) : Prop := InvA cfg s ∧ InvB cfg s ∧ InvD cfg s ∧ InvE cfg s

theorem inv_init (cfg : Cfg) : Inv cfg init :=
  ⟨invA_init cfg, invB_init cfg, invD_init cfg, invE_init cfg⟩

theorem inv_step (cfg : Cfg) (hc : cfg.idAllocAtomic = true) (s s' : State) (l : Label)
    (hi : Inv cfg s) (hs : step cfg s l = some s') : Inv cfg s' :=
  ⟨invA_step cfg hc s s' l hi.1 hs, invB_step cfg hc s s' l hi.1 hi.2.1 hs,
   invD_step cfg hc s s' l hi.1 hi.2.2.1 hs, invE_step cfg hc s s' l hi.1 hi.2.1 hi.2.2.2 hs⟩

theorem inv_reachable (cfg : Cfg) (hc : cfg.idAllocAtomic = true) (s : State)
    (hr : Reachable cfg s) : Inv cfg s :=
  reachable_induction cfg (Inv cfg) (inv_init cfg)
    (fun s s' l _ hi hs => inv_step cfg hc s s' l hi hs) s hr

/-! ## Per-call order

`trail s i c` is everything caller `i` has been handed or is about to be handed, in order: what it
took from its channel, what sits in the channel, and the envelope the read loop is carrying for it.
The invariant: the trail is a subsequence of the envelopes for this id that were read from the
wire. -/

def inflight (s : State) (i : Nat) (c : Caller) : List Env :=
  match s.rl with
  | .got e => if e.id = c.id then [e] else []
  | .lookedUp j e => if j = i then [e] else []
  | _ => []

def trail (s : State) (i : Nat) (c : Caller) : List Env :=
  c.delivered ++ c.buf.toList ++ inflight s i c

def InvO (s : State) : Prop :=
  ∀ (i : Nat) (c : Caller), s.callers[i]? = some c →
    (trail s i c).Sublist (s.wireIn.filter (fun e => e.id = c.id))

theorem invO_init : InvO init := by simp [InvO, init]

/-- frame rule: a step that leaves `wireIn` alone and every caller's trail the same or shorter at
the end -/
theorem invO_frame (s s' : State) (hw : s'.wireIn = s.wireIn)
    (h : ∀ (i : Nat) (c' : Caller), s'.callers[i]? = some c' →
      ∃ c, s.callers[i]? = some c ∧ c'.id = c.id ∧
        (trail s' i c' = trail s i c ∨ trail s' i c' = c.delivered ++ c.buf.toList))
    (hi : InvO s) : InvO s' := by
  intro i c' hc'
  obtain ⟨c, hc, hid, ht⟩ := h i c' hc'
  have := hi i c hc
  rw [hw, hid]
  rcases ht with ht | ht
  · rw [ht]; exact this
  · rw [ht]
    exact List.Sublist.trans (by simp [trail]) this

set_option hygiene false in
macro "frame_grind" : tactic => `(tactic| (
  simp only [step] at hs
  repeat' split at hs
  all_goals first | contradiction | (simp only [Option.some.injEq] at hs; subst hs; try simp only [])
  all_goals
    refine invO_frame s _ rfl ?_ hi
    intro j c' hc'
    simp only [trail, inflight] at *
    grind [closeAll_get]))

theorem invO_allocLoad (cfg : Cfg) (s s' : State) {k} (hc : cfg.idAllocAtomic = true)
    (hA : InvA cfg s) (hi : InvO s) (hs : step cfg s (.allocLoad k) = some s') : InvO s' := by
  unfold InvA at hA; frame_grind

theorem invO_allocStore (cfg : Cfg) (s s' : State) {i} (hc : cfg.idAllocAtomic = true)
    (hA : InvA cfg s) (hi : InvO s) (hs : step cfg s (.allocStore i) = some s') : InvO s' := by
  unfold InvA at hA; frame_grind

theorem invO_ctxCancel (cfg : Cfg) (s s' : State) {i} (hc : cfg.idAllocAtomic = true)
    (hA : InvA cfg s) (hi : InvO s) (hs : step cfg s (.ctxCancel i) = some s') : InvO s' := by
  unfold InvA at hA; frame_grind

theorem invO_checkErr (cfg : Cfg) (s s' : State) {i} (hc : cfg.idAllocAtomic = true)
    (hA : InvA cfg s) (hi : InvO s) (hs : step cfg s (.checkErr i) = some s') : InvO s' := by
  unfold InvA at hA; frame_grind

theorem invO_register (cfg : Cfg) (s s' : State) {i} (hc : cfg.idAllocAtomic = true)
    (hA : InvA cfg s) (hi : InvO s) (hs : step cfg s (.register i) = some s') : InvO s' := by
  unfold InvA at hA; frame_grind

theorem invO_write (cfg : Cfg) (s s' : State) {i} {e} {ok} (hc : cfg.idAllocAtomic = true)
    (hA : InvA cfg s) (hi : InvO s) (hs : step cfg s (.write i e ok) = some s') : InvO s' := by
  unfold InvA at hA; frame_grind

theorem invO_rlFail (cfg : Cfg) (s s' : State)  (hc : cfg.idAllocAtomic = true)
    (hA : InvA cfg s) (hi : InvO s) (hs : step cfg s .rlFail = some s') : InvO s' := by
  unfold InvA at hA; frame_grind

theorem invO_rlLookup (cfg : Cfg) (s s' : State)  (hc : cfg.idAllocAtomic = true)
    (hA : InvA cfg s) (hi : InvO s) (hs : step cfg s .rlLookup = some s') : InvO s' := by
  unfold InvA at hA; frame_grind

theorem invO_rlDeliver (cfg : Cfg) (s s' : State)  (hc : cfg.idAllocAtomic = true)
    (hA : InvA cfg s) (hi : InvO s) (hs : step cfg s .rlDeliver = some s') : InvO s' := by
  unfold InvA at hA; frame_grind

theorem invO_rlDrop (cfg : Cfg) (s s' : State)  (hc : cfg.idAllocAtomic = true)
    (hA : InvA cfg s) (hi : InvO s) (hs : step cfg s .rlDrop = some s') : InvO s' := by
  unfold InvA at hA; frame_grind

theorem invO_recvTake (cfg : Cfg) (s s' : State) {i} (hc : cfg.idAllocAtomic = true)
    (hA : InvA cfg s) (hi : InvO s) (hs : step cfg s (.recvTake i) = some s') : InvO s' := by
  unfold InvA at hA; frame_grind

theorem invO_recvClosed (cfg : Cfg) (s s' : State) {i} (hc : cfg.idAllocAtomic = true)
    (hA : InvA cfg s) (hi : InvO s) (hs : step cfg s (.recvClosed i) = some s') : InvO s' := by
  unfold InvA at hA; frame_grind

theorem invO_recvCtx (cfg : Cfg) (s s' : State) {i} (hc : cfg.idAllocAtomic = true)
    (hA : InvA cfg s) (hi : InvO s) (hs : step cfg s (.recvCtx i) = some s') : InvO s' := by
  unfold InvA at hA; frame_grind

theorem invO_unregister (cfg : Cfg) (s s' : State) {i} (hc : cfg.idAllocAtomic = true)
    (hA : InvA cfg s) (hi : InvO s) (hs : step cfg s (.unregister i) = some s') : InvO s' := by
  unfold InvA at hA; frame_grind

theorem invO_ret (cfg : Cfg) (s s' : State) {i} (hc : cfg.idAllocAtomic = true)
    (hA : InvA cfg s) (hi : InvO s) (hs : step cfg s (.ret i) = some s') : InvO s' := by
  unfold InvA at hA; frame_grind


theorem invO_rlRead (cfg : Cfg) (s s' : State) {e} (hi : InvO s)
    (hs : step cfg s (.rlRead e) = some s') : InvO s' := by
  simp only [step] at hs
  split at hs <;> try contradiction
  rename_i hidle
  simp only [Option.some.injEq] at hs; subst hs
  intro i c hc
  have h0 := hi i c hc
  simp only [trail, inflight, hidle, List.append_nil] at h0
  simp only [trail, inflight, List.filter_append]
  by_cases he : e.id = c.id
  · simp only [he, if_true, List.filter_cons, decide_true, List.filter_nil]
    exact List.Sublist.append h0 (List.Sublist.refl _)
  · simp only [he, if_false, List.filter_cons, decide_false, List.filter_nil, List.append_nil]
    simpa using h0

theorem invO_alloc (cfg : Cfg) (s s' : State) {k} (hA : InvA cfg s) (hD : InvD cfg s) (hi : InvO s)
    (hs : step cfg s (.alloc k) = some s') : InvO s' := by
  simp only [step] at hs
  split at hs <;> try contradiction
  simp only [Option.some.injEq] at hs; subst hs
  intro i c hc
  simp only [] at hc
  rw [List.getElem?_append] at hc
  split at hc
  · have h0 := hi i c hc
    simpa [trail, inflight] using h0
  · rename_i hlt
    have hcc : c = Caller.new k (s.counter + 1) .start := by
      cases hh : i - s.callers.length with
      | zero => simp [hh] at hc; exact hc.symm
      | succ n => simp [hh] at hc
    subst hcc
    unfold InvA at hA
    unfold InvD at hD
    simp only [trail, inflight, Caller.new]
    cases hrl : s.rl with
    | got e =>
      have : e ∈ s.wireIn := by have := hD.1; simp [hrl] at this; exact this
      by_cases he : e.id = s.counter + 1
      · simp [he]; exact this
      · simp [he]
    | lookedUp j e =>
      have : j < s.callers.length := by have := hA.2.2.2; simp [hrl] at this; exact this.2.1
      have : ¬ j = i := by omega
      simp [this]
    | _ => simp

theorem invO_step (cfg : Cfg) (hc : cfg.idAllocAtomic = true) (s s' : State) (l : Label)
    (hA : InvA cfg s) (hD : InvD cfg s) (hi : InvO s) (hs : step cfg s l = some s') : InvO s' := by
  cases l with
  | alloc k => exact invO_alloc cfg s s' hA hD hi hs
  | allocLoad k => exact invO_allocLoad cfg s s' hc hA hi hs
  | allocStore i => exact invO_allocStore cfg s s' hc hA hi hs
  | ctxCancel i => exact invO_ctxCancel cfg s s' hc hA hi hs
  | checkErr i => exact invO_checkErr cfg s s' hc hA hi hs
  | register i => exact invO_register cfg s s' hc hA hi hs
  | write i e ok => exact invO_write cfg s s' hc hA hi hs
  | rlRead e => exact invO_rlRead cfg s s' hi hs
  | rlFail => exact invO_rlFail cfg s s' hc hA hi hs
  | rlLookup => exact invO_rlLookup cfg s s' hc hA hi hs
  | rlDeliver => exact invO_rlDeliver cfg s s' hc hA hi hs
  | rlDrop => exact invO_rlDrop cfg s s' hc hA hi hs
  | recvTake i => exact invO_recvTake cfg s s' hc hA hi hs
  | recvClosed i => exact invO_recvClosed cfg s s' hc hA hi hs
  | recvCtx i => exact invO_recvCtx cfg s s' hc hA hi hs
  | unregister i => exact invO_unregister cfg s s' hc hA hi hs
  | ret i => exact invO_ret cfg s s' hc hA hi hs

theorem invO_reachable (cfg : Cfg) (hc : cfg.idAllocAtomic = true) (s : State)
    (hr : Reachable cfg s) : InvO s :=
  reachable_induction cfg InvO invO_init
    (fun s s' l hreach hi hs =>
      have hI := inv_reachable cfg hc s hreach
      invO_step cfg hc s s' l hI.1 hI.2.2.1 hi hs) s hr

/-! ## Termination measure -/

theorem sum_map_set_lt (f : Caller → Nat) (l : List Caller) (i : Nat) (c c' : Caller)
    (h : l[i]? = some c) (hlt : f c' < f c) : ((l.set i c').map f).sum < (l.map f).sum := by
  induction l generalizing i with
  | nil => simp at h
  | cons x xs ih =>
    cases i with
    | zero =>
      simp at h; subst h
      simp only [List.set_cons_zero, List.map_cons, List.sum_cons]; omega
    | succ n =>
      simp at h; have := ih n h
      simp only [List.set_cons_succ, List.map_cons, List.sum_cons]; omega

theorem measure_set_lt (s : State) (i : Nat) (c c' : Caller) (h : s.callers[i]? = some c)
    (hlt : c'.weight < c.weight) :
    ((s.callers.set i c').map Caller.weight).sum < (s.callers.map Caller.weight).sum :=
  sum_map_set_lt _ _ _ _ _ h hlt

/-- Every step a caller takes itself strictly decreases the remaining, except a stream's `write`,
which leaves all callers as they are. -/
theorem remaining_decreases (cfg : Cfg) (s s' : State) (l : Label) (i : Nat)
    (ho : l.owner = some i) (hs : step cfg s l = some s') :
    remaining s' < remaining s ∨
    (∃ e ok c, l = .write i e ok ∧ s.callers[i]? = some c ∧ c.kind = .stream ∧
      s'.callers = s.callers) := by
  cases l <;> simp only [Label.owner] at ho <;> try contradiction
  all_goals (simp only [Option.some.injEq] at ho; subst ho)
  all_goals
    simp only [step] at hs
    repeat' split at hs
    all_goals first | contradiction | (simp only [Option.some.injEq] at hs; subst hs; try simp only [])
  all_goals first
    | (left; simp only [remaining]; refine measure_set_lt s _ _ _ (by assumption) ?_;
       have := failPc_facts; have := regPc_facts
       simp only [Caller.weight]; grind [Pc.weight])
    | (right; exact ⟨_, _, _, rfl, by assumption, by assumption, trivial⟩)

/-! ## Enabledness: after a failure; while the read loop is at its send -/

/-- the request envelope used as a witness for "a write is enabled" -/
def reqOf (c : Caller) : Env := { id := c.id }

theorem okFor_unary (c : Caller) (h : c.pc.okFor c.kind = true)
    (hp : c.pc = .registered ∨ c.pc = .written ∨ c.pc = .unreg ∨ c.pc = .returning) :
    c.kind = .unary := by
  cases hk : c.kind <;> rcases hp with hp | hp | hp | hp <;> simp_all [Pc.okFor]

/-- After the connection has failed, every call that has not finished has an enabled step of its
own. -/
theorem fail_enabled_lemma (cfg : Cfg) (hr : cfg.registerChecksErr = true) (s : State)
    (hI : Inv cfg s) (he : s.rErr = true) (i : Nat) (c : Caller)
    (hc : s.callers[i]? = some c) (hp : c.pc ≠ .finished) :
    ∃ l, l.owner = some i ∧ (step cfg s l).isSome = true := by
  obtain ⟨hA, hB, hD, hE⟩ := hI
  unfold InvA at hA; unfold InvB at hB
  have hex : s.rl = .exited := hB.2.2.1.mp he
  have hmu : s.muHeld = false := by have := hA.2.2.2; simp [hex] at this; exact this
  obtain ⟨hid, hnl, hok, hnc⟩ := hA.2.1 i c hc
  have hdone := hB.2.2.2 hr he i c hc
  have hun := okFor_unary c hok
  cases hpc : c.pc with
  | loading => exact absurd hpc hnl
  | checked => exact absurd hpc (hnc hr)
  | finished => exact absurd hpc hp
  | start => exact ⟨.register i, rfl, by simp [step, hc, hmu, hr, hpc, he]⟩
  | registered =>
    refine ⟨.write i (reqOf c) true, rfl, ?_⟩
    simp [step, hc, reqOf, hun (Or.inl hpc), hpc]
  | written =>
    cases hb : c.buf with
    | some e => exact ⟨.recvTake i, rfl, by simp [step, hc, hb, hpc]⟩
    | none =>
      have : c.done = true := hdone (by simp [hpc, Pc.isReg])
      exact ⟨.recvClosed i, rfl, by simp [step, hc, hb, hpc, this]⟩
  | unreg => exact ⟨.unregister i, rfl, by simp [step, hc, hmu, hpc]⟩
  | returning => exact ⟨.ret i, rfl, by simp [step, hc, hpc]⟩
  | opened => exact ⟨.unregister i, rfl, by simp [step, hc, hmu, hpc]⟩
  | closing => exact ⟨.unregister i, rfl, by simp [step, hc, hmu, hpc]⟩

/-- While the read loop is at its send, the mutex is free, and the send can complete, or the
handler's done signal lets it give up, or the owner of the handler has an enabled step. -/
theorem no_wedge_lemma (cfg : Cfg) (hd : cfg.dispatchOutsideLock = true) (s : State)
    (hI : Inv cfg s) (i : Nat) (e : Env) (hrl : s.rl = .lookedUp i e) :
    s.muHeld = false ∧ ∃ c, s.callers[i]? = some c ∧
      ((step cfg s .rlDeliver).isSome = true ∨ (step cfg s .rlDrop).isSome = true ∨
       (step cfg s (.recvTake i)).isSome = true ∨ (step cfg s (.unregister i)).isSome = true ∨
       (step cfg s (.write i (reqOf c) true)).isSome = true) := by
  obtain ⟨hA, hB, hD, hE⟩ := hI
  unfold InvA at hA; unfold InvE at hE
  have h4 := hA.2.2.2; simp [hrl, hd] at h4
  obtain ⟨heid, hlt, hmu⟩ := h4
  refine ⟨hmu, s.callers[i], by simp [hlt], ?_⟩
  have hc : s.callers[i]? = some s.callers[i] := by simp [hlt]
  generalize s.callers[i] = c at hc
  obtain ⟨hid, hnl, hok, hnc⟩ := hA.2.1 i c hc
  have hun := okFor_unary c hok
  have hE1 := (hE.1 i e c hrl hc).1
  by_cases hdn : c.done = true
  · right; left; simp [step, hrl, hc, hd, hdn]
  · have hreg : c.pc.isReg = true := by rcases hE1 with h | h; exact absurd h hdn; exact h
    cases hb : c.buf with
    | none => left; simp [step, hrl, hc, hd, hb]
    | some e' =>
      right; right
      cases hpc : c.pc <;> simp [hpc, Pc.isReg] at hreg
      · right; right; simp [step, hc, reqOf, hun (Or.inl hpc), hpc]
      · left; simp [step, hc, hb, hpc]
      · right; left; simp [step, hc, hmu, hpc]
      · left; simp [step, hc, hb, hpc]
      · right; left; simp [step, hc, hmu, hpc]

theorem lt_of_getElem? {α} (l : List α) (i : Nat) (c : α) (hc : l[i]? = some c) : i < l.length := by
  rcases Nat.lt_or_ge i l.length with h | h
  · exact h
  · simp [List.getElem?_eq_none h] at hc

/-- once the owner has taken the queued envelope, the read loop's send can complete -/
theorem take_frees (cfg : Cfg) (hd : cfg.dispatchOutsideLock = true) (s s' : State) (i : Nat)
    (e : Env) (hrl : s.rl = .lookedUp i e) (hs : step cfg s (.recvTake i) = some s') :
    (step cfg s' .rlDeliver).isSome = true := by
  cases hc : s.callers[i]? with
  | none => simp [step, hc] at hs
  | some c =>
    have hlt := lt_of_getElem? _ _ _ hc
    simp only [step, hc] at hs
    cases hb : c.buf with
    | none => simp [hb] at hs
    | some e0 =>
      simp only [hb] at hs
      split at hs
      · simp at hs; subst hs; simp [step, hrl, hd, hlt]
      · split at hs
        · simp at hs; subst hs; simp [step, hrl, hd, hlt]
        · contradiction

/-- once the owner has unregistered, the read loop's send can give up -/
theorem unregister_drops (cfg : Cfg) (hd : cfg.dispatchOutsideLock = true) (s s' : State)
    (hI : Inv cfg s) (i : Nat) (e : Env) (hrl : s.rl = .lookedUp i e)
    (hs : step cfg s (.unregister i) = some s') :
    (step cfg s' .rlDrop).isSome = true := by
  obtain ⟨hA, hB, hD, hE⟩ := hI
  unfold InvB at hB
  cases hc : s.callers[i]? with
  | none => simp [step, hc] at hs
  | some c =>
    have hlt := lt_of_getElem? _ _ _ hc
    have hb := (hB.1 i c hc).1
    simp only [step, hc] at hs
    split at hs
    · rename_i hg
      have hreg : c.pc.isReg = true := by rcases hg.2 with h | h | h <;> simp [h, Pc.isReg]
      simp at hs; subst hs
      simp [step, hrl, hd, hlt]
      by_cases hdn : c.done = true
      · exact Or.inr hdn
      · exact Or.inl (hb.mpr ⟨hreg, by simpa using hdn⟩)
    · contradiction

/-- a unary call whose reply arrived before its request was written: after the write it can take
the reply -/
theorem write_then_take (cfg : Cfg) (s s' : State) (i : Nat) (c : Caller) (e' r : Env)
    (hc : s.callers[i]? = some c) (hk : c.kind = .unary) (hp : c.pc = .registered)
    (hb : c.buf = some e') (hs : step cfg s (.write i r true) = some s') :
    (step cfg s' (.recvTake i)).isSome = true := by
  have hlt := lt_of_getElem? _ _ _ hc
  simp only [step, hc, hk, hp] at hs
  split at hs
  · simp at hs; subst hs; simp [step, hlt, hb]
  · contradiction

/-! ## Disabledness lemmas used by the negative witnesses -/

/-- the labels of the read-loop goroutine -/
def Label.isRl : Label → Bool
  | .rlRead _ | .rlFail | .rlLookup | .rlDeliver | .rlDrop => true
  | _ => false

/-- `write` is disabled for a call that is not at a pc where it writes -/
theorem write_disabled (cfg : Cfg) (s : State) (i : Nat) (c : Caller) (e : Env) (ok : Bool)
    (hc : s.callers[i]? = some c)
    (hp : c.pc ≠ .registered ∧ c.pc ≠ .opened ∧ c.pc ≠ .closing) :
    step cfg s (.write i e ok) = none := by
  simp only [step, hc]
  split
  · split <;> simp [hp.1, hp.2.1, hp.2.2]
  · rfl

/-- `rlRead` is disabled unless the read loop is idle -/
theorem rlRead_disabled (cfg : Cfg) (s : State) (e : Env) (h : s.rl ≠ .idle) :
    step cfg s (.rlRead e) = none := by
  simp [step, h]

/-! ## Requests on the wire -/

/-- how many envelopes with the given id have been written -/
def sentBy (w : List Env) (id : Nat) : Nat := w.countP (fun e => e.id = id)

theorem sentBy_snoc (w : List Env) (e : Env) (id : Nat) :
    sentBy (w ++ [e]) id = sentBy w id + (if e.id = id then 1 else 0) := by
  simp [sentBy, List.countP_append, List.countP_cons]

theorem sentBy_zero (w : List Env) (id : Nat) (h : ∀ e, e ∈ w → e.id ≠ id) : sentBy w id = 0 := by
  simp [sentBy, List.countP_eq_zero]; exact h

def InvW (cfg : Cfg) (s : State) : Prop :=
  (∀ e, e ∈ s.wireOut → 1 ≤ e.id ∧ e.id ≤ s.counter) ∧
  (∀ (i : Nat) (c : Caller), s.callers[i]? = some c → c.kind = .unary →
      ((c.pc.isPre = true ∨ c.pc = .registered) → sentBy s.wireOut c.id = 0) ∧
      sentBy s.wireOut c.id ≤ 1)

set_option hygiene false in
macro "step_grindW" : tactic => `(tactic| (
  simp only [step] at hs
  repeat' split at hs
  all_goals first | contradiction | (simp only [Option.some.injEq] at hs; subst hs; try simp only [])
  all_goals grind [Caller.new, Pc.okFor, Pc.isReg, Pc.isPre, failPc_facts, regPc_facts,
    closeAll_length, closeAll_get, sentBy_snoc]))

theorem invW_alloc (cfg : Cfg) (s s' : State) {k} (_hc : cfg.idAllocAtomic = true)
    (hA : InvA cfg s) (hi : InvW cfg s) (hs : step cfg s (.alloc k) = some s') : InvW cfg s' := by
  have := sentBy_zero s.wireOut (s.counter + 1)
  unfold InvW at *; unfold InvA at hA; step_grindW

theorem invW_allocLoad (cfg : Cfg) (s s' : State) {k} (_hc : cfg.idAllocAtomic = true)
    (hA : InvA cfg s) (hi : InvW cfg s) (hs : step cfg s (.allocLoad k) = some s') : InvW cfg s' := by
  unfold InvW at *; unfold InvA at hA; step_grindW

theorem invW_allocStore (cfg : Cfg) (s s' : State) {i} (_hc : cfg.idAllocAtomic = true)
    (hA : InvA cfg s) (hi : InvW cfg s) (hs : step cfg s (.allocStore i) = some s') : InvW cfg s' := by
  unfold InvW at *; unfold InvA at hA; step_grindW

theorem invW_ctxCancel (cfg : Cfg) (s s' : State) {i} (_hc : cfg.idAllocAtomic = true)
    (hA : InvA cfg s) (hi : InvW cfg s) (hs : step cfg s (.ctxCancel i) = some s') : InvW cfg s' := by
  unfold InvW at *; unfold InvA at hA; step_grindW

theorem invW_checkErr (cfg : Cfg) (s s' : State) {i} (_hc : cfg.idAllocAtomic = true)
    (hA : InvA cfg s) (hi : InvW cfg s) (hs : step cfg s (.checkErr i) = some s') : InvW cfg s' := by
  unfold InvW at *; unfold InvA at hA; step_grindW

theorem invW_register (cfg : Cfg) (s s' : State) {i} (_hc : cfg.idAllocAtomic = true)
    (hA : InvA cfg s) (hi : InvW cfg s) (hs : step cfg s (.register i) = some s') : InvW cfg s' := by
  unfold InvW at *; unfold InvA at hA; step_grindW

theorem invW_write (cfg : Cfg) (s s' : State) {i} {e} {ok} (_hc : cfg.idAllocAtomic = true)
    (hA : InvA cfg s) (hi : InvW cfg s) (hs : step cfg s (.write i e ok) = some s') : InvW cfg s' := by
  unfold InvW at *; unfold InvA at hA; step_grindW

theorem invW_rlRead (cfg : Cfg) (s s' : State) {e} (_hc : cfg.idAllocAtomic = true)
    (hA : InvA cfg s) (hi : InvW cfg s) (hs : step cfg s (.rlRead e) = some s') : InvW cfg s' := by
  unfold InvW at *; unfold InvA at hA; step_grindW

theorem invW_rlFail (cfg : Cfg) (s s' : State) (_hc : cfg.idAllocAtomic = true)
    (hA : InvA cfg s) (hi : InvW cfg s) (hs : step cfg s .rlFail = some s') : InvW cfg s' := by
  unfold InvW at *; unfold InvA at hA; step_grindW

theorem invW_rlLookup (cfg : Cfg) (s s' : State) (_hc : cfg.idAllocAtomic = true)
    (hA : InvA cfg s) (hi : InvW cfg s) (hs : step cfg s .rlLookup = some s') : InvW cfg s' := by
  unfold InvW at *; unfold InvA at hA; step_grindW

theorem invW_rlDeliver (cfg : Cfg) (s s' : State) (_hc : cfg.idAllocAtomic = true)
    (hA : InvA cfg s) (hi : InvW cfg s) (hs : step cfg s .rlDeliver = some s') : InvW cfg s' := by
  unfold InvW at *; unfold InvA at hA; step_grindW

theorem invW_rlDrop (cfg : Cfg) (s s' : State) (_hc : cfg.idAllocAtomic = true)
    (hA : InvA cfg s) (hi : InvW cfg s) (hs : step cfg s .rlDrop = some s') : InvW cfg s' := by
  unfold InvW at *; unfold InvA at hA; step_grindW

theorem invW_recvTake (cfg : Cfg) (s s' : State) {i} (_hc : cfg.idAllocAtomic = true)
    (hA : InvA cfg s) (hi : InvW cfg s) (hs : step cfg s (.recvTake i) = some s') : InvW cfg s' := by
  unfold InvW at *; unfold InvA at hA; step_grindW

theorem invW_recvClosed (cfg : Cfg) (s s' : State) {i} (_hc : cfg.idAllocAtomic = true)
    (hA : InvA cfg s) (hi : InvW cfg s) (hs : step cfg s (.recvClosed i) = some s') : InvW cfg s' := by
  unfold InvW at *; unfold InvA at hA; step_grindW

theorem invW_recvCtx (cfg : Cfg) (s s' : State) {i} (_hc : cfg.idAllocAtomic = true)
    (hA : InvA cfg s) (hi : InvW cfg s) (hs : step cfg s (.recvCtx i) = some s') : InvW cfg s' := by
  unfold InvW at *; unfold InvA at hA; step_grindW

theorem invW_unregister (cfg : Cfg) (s s' : State) {i} (_hc : cfg.idAllocAtomic = true)
    (hA : InvA cfg s) (hi : InvW cfg s) (hs : step cfg s (.unregister i) = some s') : InvW cfg s' := by
  unfold InvW at *; unfold InvA at hA; step_grindW

theorem invW_ret (cfg : Cfg) (s s' : State) {i} (_hc : cfg.idAllocAtomic = true)
    (hA : InvA cfg s) (hi : InvW cfg s) (hs : step cfg s (.ret i) = some s') : InvW cfg s' := by
  unfold InvW at *; unfold InvA at hA; step_grindW

theorem invW_init (cfg : Cfg) : InvW cfg init := by
  simp [InvW, init]

theorem invW_step (cfg : Cfg) (hc : cfg.idAllocAtomic = true) (s s' : State) (l : Label)
    (hA : InvA cfg s) (hi : InvW cfg s) (hs : step cfg s l = some s') : InvW cfg s' := by
  cases l with
  | alloc k => exact invW_alloc cfg s s' hc hA hi hs
  | allocLoad k => exact invW_allocLoad cfg s s' hc hA hi hs
  | allocStore i => exact invW_allocStore cfg s s' hc hA hi hs
  | ctxCancel i => exact invW_ctxCancel cfg s s' hc hA hi hs
  | checkErr i => exact invW_checkErr cfg s s' hc hA hi hs
  | register i => exact invW_register cfg s s' hc hA hi hs
  | write i e ok => exact invW_write cfg s s' hc hA hi hs
  | rlRead e => exact invW_rlRead cfg s s' hc hA hi hs
  | rlFail => exact invW_rlFail cfg s s' hc hA hi hs
  | rlLookup => exact invW_rlLookup cfg s s' hc hA hi hs
  | rlDeliver => exact invW_rlDeliver cfg s s' hc hA hi hs
  | rlDrop => exact invW_rlDrop cfg s s' hc hA hi hs
  | recvTake i => exact invW_recvTake cfg s s' hc hA hi hs
  | recvClosed i => exact invW_recvClosed cfg s s' hc hA hi hs
  | recvCtx i => exact invW_recvCtx cfg s s' hc hA hi hs
  | unregister i => exact invW_unregister cfg s s' hc hA hi hs
  | ret i => exact invW_ret cfg s s' hc hA hi hs

theorem invW_reachable (cfg : Cfg) (hc : cfg.idAllocAtomic = true) (s : State)
    (hr : Reachable cfg s) : InvW cfg s :=
  reachable_induction cfg (InvW cfg) (invW_init cfg)
    (fun s s' l hreach hi hs =>
      invW_step cfg hc s s' l (inv_reachable cfg hc s hreach).1 hi hs) s hr

end Goat.Mux
