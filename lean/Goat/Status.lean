/-
  How a handler's result becomes the status on the wire, and what the caller makes of it.
  server.go processUnaryRpc (status.FromError, then FromContextError), internal/server/stream.go
  SendTrailer (status.FromError, OK-coded errors rewritten to Internal), internal/client/multiplexer.go
  CallUnaryMethod (reply classification), internal/client/stream.go errorIfDone.
  The grpc `status` helpers are modelled as the three-way split their source shows.
-/
import Goat.Basic
namespace Goat.StatusM
open Goat

/-- what a handler returns -/
inductive HErr where
  | nil
  | status (s : Status)                       -- a *status.Error (status.Error / status.Errorf / s.Err())
  | wrapped (s : Status) (outer : Bytes)      -- fmt.Errorf("…%w", statusErr): FromError keeps code+details, message = outer text
  | plain (text : Bytes)                      -- any other error
  | ctxCanceled
  | ctxDeadline
  deriving DecidableEq, Repr

def codeOK : Int := 0
def codeCanceled : Int := 1
def codeUnknown : Int := 2
def codeDeadline : Int := 4
def codeInternal : Int := 13
def codeUnavailable : Int := 14

/-- "context canceled" / "context deadline exceeded" -/
def txtCanceled : Bytes := [99,111,110,116,101,120,116,32,99,97,110,99,101,108,101,100]
def txtDeadline : Bytes := [99,111,110,116,101,120,116,32,100,101,97,100,108,105,110,101,32,101,120,99,101,101,100,101,100]

/-- status.FromError for a non-nil error: the status and the `ok` flag -/
def fromError : HErr → Status × Bool
  | .nil => ({ code := codeOK }, true)
  | .status s => (s, true)
  | .wrapped s outer => ({ s with message := outer }, true)
  | .plain t => ({ code := codeUnknown, message := t }, false)
  | .ctxCanceled => ({ code := codeUnknown, message := txtCanceled }, false)
  | .ctxDeadline => ({ code := codeUnknown, message := txtDeadline }, false)

/-- status.FromContextError -/
def fromContextError : HErr → Status
  | .ctxCanceled => { code := codeCanceled, message := txtCanceled }
  | .ctxDeadline => { code := codeDeadline, message := txtDeadline }
  | e => (fromError e).1

/-- processUnaryRpc: the `status` field of the reply (absent on success) -/
def serverUnaryStatus (e : HErr) : Option Status :=
  match e with
  | .nil => none
  | e => let (st, ok) := fromError e; some (if ok then st else fromContextError e)

/-- SendTrailer: the status of the trailer envelope (always present) -/
def serverTrailerStatus (e : HErr) : Status :=
  match e with
  | .nil => { code := codeOK, message := [79, 75] }     -- "OK"
  | e => let st := (fromError e).1
         if st.code = codeOK then { st with code := codeInternal } else st

/-- what a caller observes -/
inductive Outcome where
  | success (body : Bytes)        -- unary: nil error with this reply
  | eof                           -- stream: io.EOF
  | error (s : Status)
  | malformed                     -- "malformed response: no body or status"
  | nilDeref                      -- pre-repair: (nil, nil) from CallUnaryMethod, dereferenced in Invoke
  deriving DecidableEq, Repr

/-- CallUnaryMethod's classification of the reply -/
def clientUnary (okStatusIsSuccess : Bool) (st : Option Status) (body : Option Bytes) : Outcome :=
  match st with
  | some s =>
    if s.code ≠ codeOK then .error s
    else if okStatusIsSuccess then (match body with | some b => .success b | none => .malformed)
    else .nilDeref                -- status.FromProto(OK).Err() == nil
  | none => match body with | some b => .success b | none => .malformed

/-- errorIfDone on a terminal envelope (trailer present, or a reset) -/
def clientStreamTerminal (resetIsError : Bool) (isReset : Bool) (st : Option Status) : Outcome :=
  if isReset && resetIsError then .error { code := codeUnavailable, message := [] }
  else match st with
    | some s => if s.code = codeOK then .eof else .error s
    | none => .eof

/-- the status the caller must observe for a failed handler (C03's reading) -/
def normalise (unary : Bool) : HErr → Status
  | .nil => { code := codeOK }
  | .status s => if s.code = codeOK ∧ !unary then { s with code := codeInternal } else s
  | .wrapped s outer => if s.code = codeOK ∧ !unary then { s with code := codeInternal, message := outer } else { s with message := outer }
  | .plain t => { code := codeUnknown, message := t }
  | .ctxCanceled => if unary then { code := codeCanceled, message := txtCanceled } else { code := codeUnknown, message := txtCanceled }
  | .ctxDeadline => if unary then { code := codeDeadline, message := txtDeadline } else { code := codeUnknown, message := txtDeadline }

/-- a handler error whose status code is not OK (every error built with the status package) -/
def NonOK : HErr → Prop
  | .nil => False
  | .status s => s.code ≠ codeOK
  | .wrapped s _ => s.code ≠ codeOK
  | _ => True

instance : DecidablePred NonOK := fun e => by cases e <;> simp only [NonOK] <;> infer_instance

end Goat.StatusM
