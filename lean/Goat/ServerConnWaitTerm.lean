/-
  ServerConn — `cancelAndWaitForStreams` can always finish (cooperative handlers):
  a decreasing measure and the run it yields.
-/
import Goat.ServerConnProofs

set_option maxHeartbeats 400000

namespace Goat.ServerConn

def sumDist (l : List StreamRec) : Nat := (l.map (fun st => st.hpc.dist)).sum

theorem sumDist_set (l : List StreamRec) (x : Nat) (st st' : StreamRec) (h : l[x]? = some st) :
    sumDist (l.set x st') + st.hpc.dist = sumDist l + st'.hpc.dist := by
  induction l generalizing x with
  | nil => simp at h
  | cons a l ih =>
    cases x with
    | zero => simp at h; subst h; simp [sumDist]; omega
    | succ x =>
      simp at h
      have := ih x h
      simp [sumDist] at this ⊢
      omega

/-- 3·(remaining handler steps) + a phase of the wait loop. -/
def waitMeasure (s : State) : Nat :=
  3 * sumDist s.streams +
  (match s.wait with
    | .notStarted => 0
    | .finished => 0
    | .looping => 2
    | .waiting x =>
      match s.streams[x]? with
      | some st => if st.hpc = .gone then 3 else 1
      | none => 1)

/-- Steps of the wait loop and of a cancelled handler on its way out. -/
def Label.isShutdown : Label → Bool
  | .waitPick _ | .waitDone | .waitFinish
  | .hReturn _ | .hTrailerFail _ | .hCancel _ | .hUnregister _ => true
  | _ => false

/-- In every state of the wait loop there is an enabled shutdown step that decreases the measure. -/
theorem wait_measure_step (cfg : Cfg) (s : State) (hi : InvS s)
    (hw : s.wait ≠ .notStarted) (hf : s.wait ≠ .finished) :
    ∃ l s', l.isShutdown = true ∧ step cfg s l = some s' ∧ s'.wait ≠ .notStarted ∧
      waitMeasure s' < waitMeasure s := by
  have ha := hi.waitA
  have hmu := hi.mu
  unfold InvWaitA at ha
  unfold InvMu at hmu
  have hrl : s.rl = .exited := (ha hw).1
  have hm : s.muHeld = false := by rw [hmu, hrl]; rfl
  cases hwt : s.wait with
  | notStarted => exact absurd hwt hw
  | finished => exact absurd hwt hf
  | looping =>
    cases hall : s.streams.all (fun st => !st.registered) with
    | true =>
      exact ⟨.waitFinish, _, rfl, by simp [step, hwt, hm, hall]; rfl, by simp,
        by simp [waitMeasure, hwt]⟩
    | false =>
      have : ∃ st ∈ s.streams, st.registered = true := by
        have := List.all_eq_false.mp hall
        simpa using this
      obtain ⟨st, hmem, hreg⟩ := this
      obtain ⟨x, hx⟩ := List.getElem?_of_mem hmem
      have hlen : x < s.streams.length := by
        rcases Nat.lt_or_ge x s.streams.length with h | h
        · exact h
        · simp [List.getElem?_eq_none h] at hx
      have hng : st.hpc ≠ .gone := (hi.stream x st hx).1.mp hreg
      have hsum := sumDist_set s.streams x st { st with ctxDone := true } hx
      refine ⟨.waitPick x, _, rfl, by simp [step, hx, hwt, hm, hreg]; rfl, by simp, ?_⟩
      simp [waitMeasure, hwt, hlen, hng, hreg] at hsum ⊢
      omega
  | waiting x =>
    have hb := hi.waitB
    unfold InvWaitB at hb
    rw [hwt] at hb
    obtain ⟨hlen, hb⟩ := hb
    obtain ⟨st, hst⟩ : ∃ st, s.streams[x]? = some st := ⟨s.streams[x], by simp [hlen]⟩
    obtain ⟨hcd, hgone⟩ := hb st hst
    have hsd : sdone s st = true := by simp [sdone, hcd]
    have hget : s.streams[x] = st := by
      have := hst
      simp [List.getElem?_eq_getElem hlen] at this
      exact this
    cases hp : st.hpc with
    | gone =>
      have hsum := sumDist_set s.streams x st { st with doneSig := false } hst
      refine ⟨.waitDone, _, rfl, by simp [step, hwt, hst, hgone hp]; rfl, by simp, ?_⟩
      simp [waitMeasure, hwt, hst, hp] at hsum ⊢
      omega
    | running =>
      have hsum := sumDist_set s.streams x st { st with hpc := .returned } hst
      refine ⟨.hReturn x, _, rfl, by simp [step, hst, hp]; rfl, by simp [hwt], ?_⟩
      simp [waitMeasure, hwt, hget, hp, hlen, HPc.dist] at hsum ⊢
      omega
    | returned =>
      have hsum := sumDist_set s.streams x st { st with hpc := .trailed } hst
      refine ⟨.hTrailerFail x, _, rfl, by simp [step, hst, hp, hsd]; rfl, by simp [hwt], ?_⟩
      simp [waitMeasure, hwt, hget, hp, hlen, HPc.dist] at hsum ⊢
      omega
    | trailed =>
      have hsum := sumDist_set s.streams x st { st with hpc := .wantUnreg, ctxDone := true } hst
      refine ⟨.hCancel x, _, rfl, by simp [step, hst, hp]; rfl, by simp [hwt], ?_⟩
      simp [waitMeasure, hwt, hget, hp, hlen, HPc.dist] at hsum ⊢
      omega
    | wantUnreg =>
      have hsum := sumDist_set s.streams x st
        { st with hpc := .gone, registered := false, ctxDone := true, doneSig := true } hst
      refine ⟨.hUnregister x, _, rfl, by simp [step, hst, hp, hm]; rfl, by simp [hwt], ?_⟩
      simp [waitMeasure, hwt, hget, hp, hlen, HPc.dist] at hsum ⊢
      omega

theorem wait_can_finish_aux (cfg : Cfg) (n : Nat) : ∀ (s : State), Reachable cfg s →
    s.wait ≠ .notStarted → waitMeasure s ≤ n →
    ∃ ls s', run cfg s ls = some s' ∧ s'.wait = .finished ∧ ∀ l ∈ ls, l.isShutdown = true := by
  induction n with
  | zero =>
    intro s hr hw hn
    by_cases hf : s.wait = .finished
    · exact ⟨[], s, rfl, hf, by simp⟩
    · obtain ⟨l, s1, _, _, _, hlt⟩ := wait_measure_step cfg s (invS_reachable hr) hw hf
      omega
  | succ n ih =>
    intro s hr hw hn
    by_cases hf : s.wait = .finished
    · exact ⟨[], s, rfl, hf, by simp⟩
    · obtain ⟨l, s1, hl, hs1, hw1, hlt⟩ := wait_measure_step cfg s (invS_reachable hr) hw hf
      obtain ⟨ls, s', hrun, hfin, hall⟩ := ih s1 (reachable_step hr hs1) hw1 (by omega)
      refine ⟨l :: ls, s', by simp [run, hs1, hrun], hfin, ?_⟩
      intro l' hm
      rcases List.mem_cons.mp hm with h | h
      · subst h; exact hl
      · exact hall l' h

end Goat.ServerConn
