/-
  The transports shipped with the library (DESIGN.md section 4, C19): websocket.go, channel.go, http.go.

  Everything here is generic in the codec (`Codec α`: what `proto.Marshal` / `proto.Unmarshal` are to the Go
  code); `Goat/TransportThms.lean` instantiates it with the protobuf codec of `Goat/Proto.lean`, whose law is
  the theorem `proto_roundtrip`.

  * websocket: a message is (frame type, bytes); `Write` sends a binary frame holding the encoding; `Read`
    rejects a non-binary frame and undecodable bytes.
  * channel: `Write` hands the pointer over, `Read` takes it; FIFO.
  * HTTP: `ServeHTTP` validates a request in the order of the source (body, decode, header/source, source
    mapping) and then hands the envelope to the connection's reader.
  * `HttpConn`: the idle cleaner / sender / reader of one HTTP connection as an LTS under a clock, with the two
    flags `httpCleanUsesDone` and `httpReadHonoursCtx` selecting the repaired or the pre-repair behaviour.
-/
import Goat.Proto
import Goat.Cfg
namespace Goat.Transport
open Goat

/-! ## codec -/

structure Codec (α : Type) where
  enc : α → Bytes
  dec : Bytes → Option α

/-- the codec law on the values `ok` admits -/
def Codec.Law {α : Type} (c : Codec α) (ok : α → Prop) : Prop := ∀ e, ok e → c.dec (c.enc e) = some e

def protoCodec : Codec Proto.Rpc := { enc := Proto.encode, dec := Proto.decode }

inductive ReadErr where
  | nonBinary     -- errNonBinaryWebsocketMessage
  | undecodable   -- proto.Unmarshal's error
  | closed        -- the connection / channel is closed
  | ctxDone       -- ctx.Err()
  deriving DecidableEq, Repr

/-! ## websocket (websocket.go) -/

inductive FrameType where
  | text | binary
  deriving DecidableEq, Repr

structure Frame where
  typ : FrameType
  data : Bytes
  deriving DecidableEq, Repr

/-- `goatOverWebsocket.Write`: the frame put on the connection -/
def wsWrite {α : Type} (c : Codec α) (e : α) : Frame := { typ := .binary, data := c.enc e }

/-- `goatOverWebsocket.Read` on the next message of the connection -/
def wsRead {α : Type} (c : Codec α) (f : Frame) : Except ReadErr α :=
  match f.typ with
  | .text => .error .nonBinary
  | .binary =>
    match c.dec f.data with
    | some e => .ok e
    | none => .error .undecodable

/-- the connection is a FIFO of messages: what a sequence of reads returns for a sequence of frames -/
def wsReadAll {α : Type} (c : Codec α) (fs : List Frame) : List (Except ReadErr α) := fs.map (wsRead c)

/-! ## channels (channel.go) -/

inductive ChanOp (α : Type) where
  | write (e : α)
  | read

/-- state: (what reads have returned so far, what is in flight); a read with nothing in flight blocks (no effect) -/
def chanStep {α : Type} (s : List α × List α) : ChanOp α → List α × List α
  | .write e => (s.1, s.2 ++ [e])
  | .read =>
    match s.2 with
    | [] => s
    | e :: q => (s.1 ++ [e], q)

def chanRun {α : Type} (ops : List (ChanOp α)) : List α × List α := ops.foldl chanStep ([], [])

def chanWrites {α : Type} : List (ChanOp α) → List α
  | [] => []
  | .write e :: t => e :: chanWrites t
  | .read :: t => chanWrites t

/-- What a user of the channel transport can observe, one event per finished call, when calls whose
    context is done are mixed in (channel.go: `select` between `<-ctx.Done()` and the channel
    operation — Go picks any ready case, so a call with a finished context may still complete). -/
inductive ChanEv (α : Type) where
  /-- `Write` returned nil -/
  | wrote (e : α)
  /-- `Write` returned the context's error -/
  | writeFailed (e : α)
  /-- `Read` returned `e` -/
  | readGot (e : α)
  /-- `Read` returned the context's error -/
  | readFailed

/-- the channel under those events; `dropOnFailedRead` describes a transport whose failing `Read` has
    nevertheless taken the head of the queue (not channel.go: there a failed call has no effect).
    `none`: the events are not a behaviour of the transport. -/
def chanObs {α : Type} [DecidableEq α] (dropOnFailedRead : Bool) (q : List α) : List (ChanEv α) → Option (List α)
  | [] => some q
  | .wrote e :: t => chanObs dropOnFailedRead (q ++ [e]) t
  | .writeFailed _ :: t => chanObs dropOnFailedRead q t
  | .readGot e :: t =>
    match q with
    | h :: q' => if h = e then chanObs dropOnFailedRead q' t else none
    | [] => none
  | .readFailed :: t => chanObs dropOnFailedRead (if dropOnFailedRead then q.tail else q) t

def chanAccepted {α : Type} : List (ChanEv α) → List α
  | [] => []
  | .wrote e :: t => e :: chanAccepted t
  | _ :: t => chanAccepted t

def chanGot {α : Type} : List (ChanEv α) → List α
  | [] => []
  | .readGot e :: t => e :: chanGot t
  | _ :: t => chanGot t

/-- the outcomes a `Read(ctx)` may have (Go's `select` picks any ready case); `[]` = it stays blocked.
    `honoursCtx` is true for the channel transport and the websocket, `cfg.httpReadHonoursCtx` for HTTP. -/
def readOutcomes {α : Type} (honoursCtx : Bool) (ctxDone closed : Bool) (inFlight : List α) : List (Except ReadErr α) :=
  (match inFlight with | e :: _ => [.ok e] | [] => []) ++
  (if closed then [.error .closed] else []) ++
  (if honoursCtx && ctxDone then [.error .ctxDone] else [])

/-- the outcomes of a `Write(ctx)`: completion if the other side takes the envelope (a reader waiting on the
    channel; the websocket connection accepting the bytes; the peer's `ServeHTTP` answering), the context error if
    the context is done and the transport honours it; `[]` = blocked.
    `honoursCtx` is true for the channel transport and the websocket; for HTTP it is true since the repair
    "the HTTP transport's Write returns when its context is done" (before it the request was built without the context). -/
def writeOutcomes (honoursCtx : Bool) (ctxDone peerTakes : Bool) : List (Except ReadErr Unit) :=
  (if peerTakes then [.ok ()] else []) ++ (if honoursCtx && ctxDone then [.error .ctxDone] else [])

def chanWriteOutcomes (ctxDone readerWaiting : Bool) : List (Except ReadErr Unit) :=
  writeOutcomes true ctxDone readerWaiting

/-! ## HTTP (http.go: ServeHTTP) -/

inductive HttpBody where
  | absent             -- r.Body == nil
  | readError          -- io.ReadAll fails
  | data (b : Bytes)
  deriving DecidableEq, Repr

/-- how the hand-over to the connection's reader ends -/
inductive Handover where
  | taken       -- a reader took it
  | connClosed  -- the connection was unregistered first
  | cancelled   -- the request's context ended first
  deriving DecidableEq, Repr

structure HttpResult (α : Type) where
  status : Nat
  /-- connection key and envelope handed to that connection's reader -/
  delivered : Option (Bytes × α)

/-- `ServeHTTP`: `hdrSrc` reads `rpc.Header.Source` (`none` = no header), `mapper` is the user's
    `SourceToAddress` (`none` = it returned an error) -/
def httpServe {α : Type} (c : Codec α) (hdrSrc : α → Option Bytes) (mapper : Bytes → Option Bytes)
    (body : HttpBody) (h : Handover) : HttpResult α :=
  match body with
  | .absent => ⟨400, none⟩
  | .readError => ⟨400, none⟩
  | .data b =>
    match c.dec b with
    | none => ⟨400, none⟩
    | some e =>
      match hdrSrc e with
      | none => ⟨400, none⟩
      | some src =>
        if src = [] then ⟨400, none⟩ else
        match mapper src with
        | none => ⟨400, none⟩
        | some key =>
          match h with
          | .taken => ⟨200, some (key, e)⟩
          | .connClosed => ⟨503, none⟩
          | .cancelled => ⟨503, none⟩

def httpStatus {α : Type} (c : Codec α) (hdrSrc : α → Option Bytes) (mapper : Bytes → Option Bytes)
    (body : HttpBody) (h : Handover) : Nat := (httpServe c hdrSrc mapper body h).status

def rpcSrc (m : Proto.Rpc) : Option Bytes := m.header.map (·.src)

/-- `httpReadWriter.Write`: the request POSTed to "http://" ++ writeAddr -/
def httpWrite {α : Type} (c : Codec α) (e : α) : HttpBody := .data (c.enc e)

/-! ## one HTTP connection: idle cleaner, a ServeHTTP sender, a reader (http.go) -/

namespace HttpConn

inductive Sender where
  | idle
  | atSelect    -- past retrieve(), before the select (verifhook.Yield "http.beforeDeliver")
  | delivered   -- http.deliver
  | refused     -- http.deliver.closed: 503
  | panicked    -- send on closed channel
  deriving DecidableEq, Repr

inductive Reader where
  | idle
  | blocked     -- inside Read's select
  | gotMsg
  | gotErr      -- "readCh closed"
  | gotCtxErr
  deriving DecidableEq, Repr

structure State where
  registered : Bool := true
  doneClosed : Bool := false
  readChClosed : Bool := false
  now : Nat := 0
  lastActivity : Nat := 0
  sender : Sender := .idle
  reader : Reader := .idle
  readerCtxDone : Bool := false
  deriving DecidableEq, Repr

inductive Label where
  | advance (d : Nat)   -- the clock moves
  | tick (timeout : Nat) -- connectionCleaner's body, one critical section (http.clean.done)
  | retrieve            -- ServeHTTP validated the request and has the connection
  | handover            -- readCh rendezvous (http.deliver)
  | senderSeesDone      -- http.deliver.closed
  | senderPanics        -- the send case on a closed readCh is chosen
  | readStart
  | readerSeesDone
  | readerSeesClosedCh
  | readerCancel        -- the reader's context ends
  | readerSeesCtx
  deriving DecidableEq, Repr

def step (cfg : Cfg) (s : State) : Label → Option State
  | .advance d => some { s with now := s.now + d }
  | .tick timeout =>
    if s.registered ∧ timeout ≤ s.now - s.lastActivity then
      some { s with registered := false,
                    doneClosed := if cfg.httpCleanUsesDone then true else s.doneClosed,
                    readChClosed := if cfg.httpCleanUsesDone then s.readChClosed else true }
    else some s
  | .retrieve => if s.sender = .idle ∧ s.registered then some { s with sender := .atSelect } else none
  | .handover =>
    if s.sender = .atSelect ∧ s.reader = .blocked ∧ ¬ s.readChClosed then
      some { s with sender := .delivered, reader := .gotMsg, lastActivity := s.now } else none
  | .senderSeesDone => if s.sender = .atSelect ∧ s.doneClosed then some { s with sender := .refused } else none
  | .senderPanics => if s.sender = .atSelect ∧ s.readChClosed then some { s with sender := .panicked } else none
  | .readStart => if s.reader = .idle then some { s with reader := .blocked } else none
  | .readerSeesDone => if s.reader = .blocked ∧ s.doneClosed then some { s with reader := .gotErr } else none
  | .readerSeesClosedCh =>
    -- the pre-repair Read checked `ok` and reported an error
    if s.reader = .blocked ∧ s.readChClosed then some { s with reader := .gotErr } else none
  | .readerCancel => some { s with readerCtxDone := true }
  | .readerSeesCtx =>
    if s.reader = .blocked ∧ s.readerCtxDone ∧ cfg.httpReadHonoursCtx then some { s with reader := .gotCtxErr } else none

def init : State := {}

def run (cfg : Cfg) : State → List Label → Option State
  | s, [] => some s
  | s, l :: ls => match step cfg s l with
    | some s' => run cfg s' ls
    | none => none

def Reachable (cfg : Cfg) (s : State) : Prop := ∃ ls, run cfg init ls = some s

/-- labels other than the clock and the caller's cancellation that a state enables -/
def progressLabels : List Label :=
  [.handover, .senderSeesDone, .senderPanics, .readerSeesDone, .readerSeesClosedCh, .readerSeesCtx]

end HttpConn

end Goat.Transport
