/-
  ServerConn — definitions of the structural invariants, run lemmas, list helpers.
-/
import Goat.ServerConn

set_option maxHeartbeats 400000

namespace Goat.ServerConn

/-! ## Runs -/

theorem run_append (cfg : Cfg) (s : State) (l1 l2 : List Label) :
    run cfg s (l1 ++ l2) = (run cfg s l1).bind (fun s' => run cfg s' l2) := by
  induction l1 generalizing s with
  | nil => simp [run]
  | cons l ls ih =>
    simp only [List.cons_append, run]
    cases h : step cfg s l with
    | none => simp
    | some s' => simp [ih]

theorem reachable_init (cfg : Cfg) : Reachable cfg init := ⟨[], rfl⟩

theorem reachable_step {cfg : Cfg} {s s' : State} {l : Label}
    (hr : Reachable cfg s) (hs : step cfg s l = some s') : Reachable cfg s' := by
  obtain ⟨ls, hls⟩ := hr
  exact ⟨ls ++ [l], by simp [run_append, hls, run, hs]⟩

theorem reachable_run {cfg : Cfg} {s s' : State} {ls : List Label}
    (hr : Reachable cfg s) (hs : run cfg s ls = some s') : Reachable cfg s' := by
  obtain ⟨ls0, hls⟩ := hr
  exact ⟨ls0 ++ ls, by simp [run_append, hls, hs]⟩

/-- Induction principle: a predicate that holds initially and is preserved by every
    step (from reachable states) holds in every reachable state. -/
theorem reachable_induct {cfg : Cfg} (P : State → Prop) (h0 : P init)
    (hstep : ∀ s s' l, Reachable cfg s → P s → step cfg s l = some s' → P s')
    {s : State} (hr : Reachable cfg s) : P s := by
  obtain ⟨ls, hls⟩ := hr
  suffices h : ∀ (ls : List Label) (s0 s : State), Reachable cfg s0 → P s0 →
      run cfg s0 ls = some s → P s from h ls init s (reachable_init cfg) h0 hls
  intro ls
  induction ls with
  | nil => intro s0 s _ hp h; simp [run] at h; subst h; exact hp
  | cons l ls ih =>
    intro s0 s hr0 hp h
    simp only [run] at h
    cases hs : step cfg s0 l with
    | none => simp [hs] at h
    | some s1 =>
      simp [hs] at h
      exact ih s1 s (reachable_step hr0 hs) (hstep s0 s1 l hr0 hp hs) h

/-! ## Structural invariants: lock discipline, registry, routing, wait loop

Kept as several small invariants (each is proved label by label with `grind`;
small hypotheses keep that fast). -/

macro "prep" hs:ident : tactic => `(tactic|
  (simp only [step] at $hs:ident <;> (repeat' split at $hs:ident) <;> (try contradiction) <;>
   (try (injection $hs:ident with $hs:ident; subst $hs:ident))))

def muOwner : Rl → Bool
  | .forwarding _ _ => true
  | .resetOffer _ => true
  | _ => false

/-- `h.mu` is held exactly while the read loop is parked inside `processStreamingRpc`. -/
def InvMu (s : State) : Prop := s.muHeld = muOwner s.rl

/-- Per-stream facts: registry exactness, context, routing, done token. -/
def InvStream (s : State) : Prop :=
  ∀ (k : Nat) (st : StreamRec), s.streams[k]? = some st →
      (st.registered = true ↔ st.hpc ≠ .gone) ∧
      (st.hpc = .wantUnreg → st.ctxDone = true) ∧
      (st.hpc = .gone → st.ctxDone = true) ∧
      (st.doneSig = true → st.hpc = .gone)

/-- An envelope is only ever queued to the stream whose id it carries. -/
def InvRoute (s : State) : Prop :=
  ∀ (k : Nat) (st : StreamRec), s.streams[k]? = some st →
      match st.queue with | some e => e.id = st.id | none => True

/-- While forwarding, the target is the registered stream with the envelope's id. -/
def InvFwd (s : State) : Prop :=
  match s.rl with
    | .forwarding x e => x < s.streams.length ∧
        ∀ st, s.streams[x]? = some st → st.registered = true ∧ st.id = e.id
    | _ => True

/-- One registered stream per id. -/
def InvUniq (s : State) : Prop :=
  ∀ (j k : Nat) (sj sk : StreamRec), s.streams[j]? = some sj → s.streams[k]? = some sk →
      sj.registered = true → sk.registered = true → sj.id = sk.id → j = k

/-- The wait loop runs after `serve` returned; the stream it waits for has been cancelled
    and its done token is there as soon as it is gone; at the end the registry is empty. -/
def InvWaitA (s : State) : Prop :=
  s.wait ≠ .notStarted → s.rl = .exited ∧ s.connDone = true

def InvWaitB (s : State) : Prop :=
  match s.wait with
    | .waiting x => x < s.streams.length ∧
        ∀ st, s.streams[x]? = some st → st.ctxDone = true ∧ (st.hpc = .gone → st.doneSig = true)
    | _ => True

def InvWaitC (s : State) : Prop :=
  s.wait = .finished → ∀ (k : Nat) (st : StreamRec), s.streams[k]? = some st → st.registered = false

/-- Writer and workers only exit on a finished connection; there are always 8 workers. -/
def InvProc (s : State) : Prop :=
  (s.writer = .exited → s.connDone = true) ∧
  (∀ (w : Nat), s.workers[w]? = some .exited → s.connDone = true) ∧
  s.workers.length = numWorkers

theorem known_false_iff (s : State) (i : Nat) :
    known s i = false ↔ ∀ (k : Nat) (st : StreamRec), s.streams[k]? = some st →
      st.registered = true → st.id ≠ i := by
  unfold known
  constructor
  · intro h k st hk hr hid
    have hm : st ∈ s.streams := List.mem_of_getElem? hk
    have := List.any_eq_false.mp h st hm
    simp [hr, hid] at this
  · intro h
    apply List.any_eq_false.mpr
    intro st hm
    obtain ⟨k, hk⟩ := List.getElem?_of_mem hm
    have := h k st hk
    cases hr : st.registered <;> simp_all

theorem getElem?_append_single {α} (l : List α) (a b : α) (k : Nat)
    (h : (l ++ [a])[k]? = some b) : l[k]? = some b ∨ (k = l.length ∧ b = a) := by
  rw [List.getElem?_append] at h
  split at h
  · exact Or.inl h
  · right
    cases hh : k - l.length with
    | zero => simp [hh] at h; exact ⟨by omega, h.symm⟩
    | succ n => simp [hh] at h


theorem all_not_registered (s : State) (h : s.streams.all (fun st => !st.registered) = true)
    (k : Nat) (st : StreamRec) (hk : s.streams[k]? = some st) : st.registered = false := by
  have hm : st ∈ s.streams := List.mem_of_getElem? hk
  have := List.all_eq_true.mp h st hm
  simpa using this

end Goat.ServerConn
