/-
  Model of `/repo/demux.go` (core Lean only).

  `gsd.conns.value` is a Go map from keys to pointers to `demuxConn` objects.  `Cancel(key)`
  deletes the map entry but the object lives on (its user still holds the read/write closures,
  `Run` may still hold the pointer it looked up).  So, as for the proxy, the model has a heap
  `conns : List DConn` that only grows — the index of an object is its identity, and is what the
  task calls the *epoch* of its key — and a map `table` from keys to heap indices.

  The user of a logical connection is the environment.  It is modelled with at most one pending
  `Read` and one pending `Write` per logical connection (the normal use of an `RpcReadWriter`).
-/
import Goat.Basic

namespace Goat.Demux

/-- `demuxOn` is the (pure) key function given to `NewDemux`, a static parameter.  Flags:
`true` = /repo now, `false` = before commit 9668ab7. -/
structure Cfg where
  demuxOn : Env → Bytes := fun _ => []
  /-- `Cancel` closes a separate `done` channel which every select (logical read, logical
  write, writer goroutine, `Run`'s hand-off) listens to, and never closes `r`/`w`.
  `false`: `Cancel` does `close(conn.r); close(conn.w)` and there is no `done` channel. -/
  cancelUsesDone : Bool := true
  /-- `Run`'s hand-off is a `select` with a `<-gsd.ctx.Done()` case.
  `false`: a bare `conn.r <- rpc`. -/
  handoffSelects : Bool := true

/-- the per-connection writer goroutine (`newConnLocked`, l.108-122) -/
inductive WrPc where
  | idle                     -- in `select { ctx.Done ; c.done ; rpc := <-c.w }`
  | writing (e : Env)        -- in `gsd.rw.Write(gsd.ctx, rpc)`
  | exited
  deriving DecidableEq, Repr

/-- one `demuxConn` object, its writer goroutine, its user, and history variables -/
structure DConn where
  key : Bytes := []
  /-- `close(c.done)` happened (repaired `Cancel`) -/
  done : Bool := false
  /-- `close(c.r); close(c.w)` happened (pre-repair `Cancel`) -/
  closed : Bool := false
  wr : WrPc := .idle
  /-- the user is inside the logical `Read` -/
  ur : Bool := false
  /-- the user is inside the logical `Write(e)` -/
  uw : Option Env := none
  /-- history: envelopes the logical `Read` returned, in order -/
  delivered : List Env := []
  /-- history: envelopes looked up for this object and then thrown away by `Run`
  (`<-conn.done` or `<-ctx.Done()` won the hand-off) -/
  discarded : List Env := []
  /-- history: envelopes the logical `Write` returned nil for (`c.w <- rpc` completed) -/
  accepted : List Env := []
  /-- history: the envelope whose `rw.Write` failed in the writer goroutine (at most one) -/
  lostW : List Env := []
  deriving DecidableEq, Repr

inductive RunPc where
  | reading                          -- in `gsd.rw.Read(gsd.ctx)`
  | locked (e : Env)                 -- has `rpc`, about to run the critical section l.68-74
  | handoff (c : Nat) (e : Env)      -- in the hand-off (l.77-86) to heap object `c`
  | exited
  deriving DecidableEq, Repr

inductive Fate where
  | delivered | cancelled | stopped
  deriving DecidableEq, Repr

/-- one completed hand-off: which object `Run` had looked up, the envelope, what became of it -/
structure Rec where
  c : Nat
  e : Env
  fate : Fate
  deriving DecidableEq, Repr

abbrev Map := List (Bytes × Nat)

def mget : Map → Bytes → Option Nat
  | [], _ => none
  | (k, v) :: t, n => if k = n then some v else mget t n

def mdel : Map → Bytes → Map
  | [], _ => []
  | (k, v) :: t, n => if k = n then mdel t n else (k, v) :: mdel t n

def mput (t : Map) (n : Bytes) (v : Nat) : Map := (n, v) :: mdel t n

inductive PanicWhy where
  /-- `Run`'s `conn.r <- rpc` on a closed channel -/
  | runSendOnClosed
  /-- the user's `c.w <- rpc` (logical `Write`) on a closed channel -/
  | writeSendOnClosed
  deriving DecidableEq, Repr

structure State where
  conns : List DConn := []
  table : Map := []
  run : RunPc := .reading
  /-- `Stop()` was called / the parent context is done -/
  stopped : Bool := false
  /-- the process died in a Go panic; no step is enabled afterwards -/
  panicked : Option PanicWhy := none
  /-- history: everything `rw.Read` returned to `Run` -/
  wireIn : List Env := []
  /-- history: completed hand-offs in `Run`'s order -/
  log : List Rec := []
  /-- history: `onNewConnection` calls: key and heap index (epoch) -/
  announced : List (Bytes × Nat) := []
  /-- history: successful `rw.Write`s in the order they happened, tagged with the writing object -/
  wireOut : List (Nat × Env) := []
  deriving DecidableEq, Repr

inductive Label where
  /-- `gsd.rw.Read` returns `e` / an error (then `Run` returns) -/
  | runRead (e : Env)
  | runReadErr
  /-- the critical section l.68-74: key, lookup, `newConnLocked` (+ announce, + start the writer
  goroutine) when absent -/
  | runLookup
  /-- rendezvous `conn.r <- rpc` (Run) / `rpc := <-c.r` (the pending logical `Read` of `c`):
  hook `demux.handoff`; it is also the label the task calls `connRead k` -/
  | runHandoff
  /-- `<-conn.done` wins the hand-off: hook `demux.handoff.cancelled` -/
  | runHandoffCancelled
  /-- `<-gsd.ctx.Done()` wins the hand-off: hook `demux.handoff.stopped` -/
  | runHandoffStopped
  /-- pre-repair only: `conn.r <- rpc` on a channel `Cancel` closed -/
  | runHandoffPanic
  /-- the user calls the logical `Read` / `Write e` of object `c` -/
  | connReadStart (c : Nat)
  | connWriteStart (c : Nat) (e : Env)
  /-- the pending logical `Read` returns "cancelled" (`<-c.done`; pre-repair: `r` closed) -/
  | connReadFail (c : Nat)
  /-- rendezvous `c.w <- rpc` (pending logical `Write`) / `rpc := <-c.w` (writer goroutine) -/
  | writerTake (c : Nat)
  /-- the pending logical `Write` returns "cancelled" (`<-c.done`) -/
  | connWriteFail (c : Nat)
  /-- pre-repair only: the pending logical `Write` sends on the closed `w` -/
  | connWritePanic (c : Nat)
  /-- `gsd.rw.Write` returns nil / an error in the writer goroutine (error: it returns) -/
  | writerWrite (c : Nat) (ok : Bool)
  /-- the writer goroutine's `<-ctx.Done()` / `<-c.done` (pre-repair: `w` closed) wins -/
  | writerExit (c : Nat)
  /-- `Cancel(k)` -/
  | cancelKey (k : Bytes)
  /-- `Stop()` -/
  | stop
  deriving DecidableEq, Repr

def newConn (k : Bytes) : DConn := { key := k }

def step (cfg : Cfg) (s : State) (l : Label) : Option State :=
  if s.panicked.isSome then none else
  match l with
  | .runRead e =>
    if s.run = .reading then some { s with run := .locked e, wireIn := s.wireIn ++ [e] } else none
  | .runReadErr =>
    if s.run = .reading then some { s with run := .exited } else none
  | .runLookup =>
    match s.run with
    | .locked e =>
      match mget s.table (cfg.demuxOn e) with
      | some c => some { s with run := .handoff c e }
      | none =>
        some { s with
          run := .handoff s.conns.length e,
          conns := s.conns ++ [newConn (cfg.demuxOn e)],
          table := mput s.table (cfg.demuxOn e) s.conns.length,
          announced := s.announced ++ [(cfg.demuxOn e, s.conns.length)] }
    | _ => none
  | .runHandoff =>
    match s.run with
    | .handoff c e =>
      match s.conns[c]? with
      | some conn =>
        -- a receive from a closed channel never takes a sent value: the send panics instead
        if conn.ur ∧ conn.closed = false then
          some { s with
            run := .reading,
            conns := s.conns.set c { conn with ur := false, delivered := conn.delivered ++ [e] },
            log := s.log ++ [{ c := c, e := e, fate := .delivered }] }
        else none
      | none => none
    | _ => none
  | .runHandoffCancelled =>
    match s.run with
    | .handoff c e =>
      match s.conns[c]? with
      | some conn =>
        if cfg.cancelUsesDone ∧ conn.done then
          some { s with
            run := .reading,
            conns := s.conns.set c { conn with discarded := conn.discarded ++ [e] },
            log := s.log ++ [{ c := c, e := e, fate := .cancelled }] }
        else none
      | none => none
    | _ => none
  | .runHandoffStopped =>
    match s.run with
    | .handoff c e =>
      match s.conns[c]? with
      | some conn =>
        if cfg.handoffSelects ∧ s.stopped then
          some { s with
            run := .exited,
            conns := s.conns.set c { conn with discarded := conn.discarded ++ [e] },
            log := s.log ++ [{ c := c, e := e, fate := .stopped }] }
        else none
      | none => none
    | _ => none
  | .runHandoffPanic =>
    match s.run with
    | .handoff c _ =>
      match s.conns[c]? with
      | some conn => if conn.closed then some { s with panicked := some .runSendOnClosed } else none
      | none => none
    | _ => none
  | .connReadStart c =>
    match s.conns[c]? with
    | some conn => if conn.ur then none else some { s with conns := s.conns.set c { conn with ur := true } }
    | none => none
  | .connWriteStart c e =>
    match s.conns[c]? with
    | some conn =>
      if conn.uw.isSome then none else some { s with conns := s.conns.set c { conn with uw := some e } }
    | none => none
  | .connReadFail c =>
    match s.conns[c]? with
    | some conn =>
      if conn.ur ∧ (conn.done ∨ conn.closed) then some { s with conns := s.conns.set c { conn with ur := false } }
      else none
    | none => none
  | .writerTake c =>
    match s.conns[c]? with
    | some conn =>
      match conn.uw with
      | some e =>
        if conn.wr = .idle ∧ conn.closed = false then
          some { s with conns := s.conns.set c { conn with uw := none, wr := .writing e, accepted := conn.accepted ++ [e] } }
        else none
      | none => none
    | none => none
  | .connWriteFail c =>
    match s.conns[c]? with
    | some conn =>
      if conn.uw.isSome ∧ conn.done then some { s with conns := s.conns.set c { conn with uw := none } }
      else none
    | none => none
  | .connWritePanic c =>
    match s.conns[c]? with
    | some conn =>
      if conn.uw.isSome ∧ conn.closed then some { s with panicked := some .writeSendOnClosed } else none
    | none => none
  | .writerWrite c ok =>
    match s.conns[c]? with
    | some conn =>
      match conn.wr with
      | .writing e =>
        if ok then some { s with conns := s.conns.set c { conn with wr := .idle }, wireOut := s.wireOut ++ [(c, e)] }
        else some { s with conns := s.conns.set c { conn with wr := .exited, lostW := conn.lostW ++ [e] } }
      | _ => none
    | none => none
  | .writerExit c =>
    match s.conns[c]? with
    | some conn =>
      if conn.wr = .idle ∧ (s.stopped ∨ conn.done ∨ conn.closed) then
        some { s with conns := s.conns.set c { conn with wr := .exited } }
      else none
    | none => none
  | .cancelKey k =>
    match mget s.table k with
    | some c =>
      match s.conns[c]? with
      | some conn =>
        some { s with
          conns := s.conns.set c (if cfg.cancelUsesDone then { conn with done := true } else { conn with closed := true }),
          table := mdel s.table k }
      | none => some { s with table := mdel s.table k }   -- dangling entry: unreachable (`Inv`)
    | none => some s
  | .stop => if s.stopped then none else some { s with stopped := true }

def init : State := {}

def run (cfg : Cfg) (s : State) : List Label → Option State
  | [] => some s
  | l :: ls => (step cfg s l).bind (fun s' => run cfg s' ls)

def Reachable (cfg : Cfg) (s : State) : Prop := ∃ ls, run cfg init ls = some s

end Goat.Demux
