/-
  Model of one `clientStream` (`/repo/internal/client/stream.go`), DESIGN.md section 3.1
  "ClientStream".  Core Lean only: this file is also compiled into the driver.

  The component is a labelled transition system.  Goroutines:
    * the read loop (`readLoop` and its deferred finishing block),
    * the receiver (the goroutine that calls `RecvMsg`),
    * the sender (the goroutine that calls `SendMsg` / `CloseSend`),
    * anybody calling `Header()` / `Trailer()` (single critical sections),
    * the environment: the multiplexer handing over envelopes for this id or failing,
      the caller's context ending, the transport accepting or refusing a write.

  `Cfg` flags: `true` = the code as it is in /repo now, `false` = the behaviour before the
  corresponding `fix:` commit.
-/
import Goat.Basic

namespace Goat.ClientStream

/-- One flag per `fix:` commit that touched stream.go. -/
structure Cfg where
  /-- d426e00: the `ctx.Done` branch of `RecvMsg` re-reads the terminal state. -/
  recvRechecksDoneOnCtx : Bool := true
  /-- 5e207e6: `errorIfDone` tests `GetReset_()` first and answers Unavailable. -/
  resetIsError : Bool := true
  /-- e40a424: the error branch of `ToMetadata` sets `rErr` and calls `onReady`. -/
  badMetaSetsErr : Bool := true
  /-- bb577ad: `CloseSend` returns nil when `readErrorIfDone` reports done. -/
  closeSendNoopWhenDone : Bool := true
  /-- 77a5f4f: `Trailer()` has no `log.Panic`. -/
  trailerNoPanic : Bool := true
  deriving DecidableEq, Repr

/-- The repaired tree. -/
def Cfg.good : Cfg := {}

/-- Terminal status of the stream (the read loop's `rErr`, a non-nil error). -/
inductive Term where
  | eof                      -- io.EOF
  | status (code : Int)      -- status.FromProto of a trailer whose code is not OK
  | unavailable              -- "stream reset by peer"
  | ctxErr                   -- toStatusError(cs.ctx.Err()): Canceled / DeadlineExceeded
  | muxErr                   -- toStatusError of a non-context error of rw.Read (mux closed / unregistered)
  | internalMeta             -- "malformed response metadata"
  deriving DecidableEq, Repr

/-- The shape of an incoming envelope, as far as `readLoop` looks at it. -/
structure InEnv where
  /-- `ToMetadata(rpc.Header.Headers)` fails (only looked at while `cs.header == nil`) -/
  metaBad : Bool := false
  /-- `rpc.GetReset_() != nil` -/
  reset : Bool := false
  /-- `rpc.Trailer != nil` -/
  trailer : Bool := false
  /-- the trailer's metadata is undecodable (only `Trailer()` looks at it) -/
  trMetaBad : Bool := false
  /-- `rpc.GetStatus().GetCode()` (0 when there is no status) -/
  code : Int := 0
  /-- `rpc.Body` -/
  body : Option Bytes := none
  deriving DecidableEq, Repr

/-- `errorIfDone` (stream.go l.425-442); `none` = "not the last envelope". -/
def errorIfDone (cfg : Cfg) (e : InEnv) : Option Term :=
  if cfg.resetIsError = true ∧ e.reset = true then some .unavailable
  else if e.trailer = false then none
  else if e.code = 0 then some .eof
  else some (.status e.code)

/-- Does the read loop stop at this envelope?  `first` = `cs.header == nil`. -/
def isTerminal (cfg : Cfg) (first : Bool) (e : InEnv) : Bool :=
  (first && e.metaBad) || (errorIfDone cfg e).isSome

/-- Specification of what `RecvMsg` may deliver: the bodies of the envelopes handed to the
read loop, in order, up to (excluding) the first terminal envelope. -/
def specBodies (cfg : Cfg) : Bool → List InEnv → List Bytes
  | _, [] => []
  | first, e :: es =>
    if isTerminal cfg first e then [] else e.body.toList ++ specBodies cfg false es

/-- No envelope of the list is terminal. -/
def live (cfg : Cfg) : Bool → List InEnv → Bool
  | _, [] => true
  | first, e :: es => !isTerminal cfg first e && live cfg false es

/-- What the read loop decides on one envelope: `none` = go on, `some p` = return with `rErr = p`
(`p = none` only in the pre-repair bad-metadata path, which returned without setting `rErr`). -/
def decide1 (cfg : Cfg) (first : Bool) (e : InEnv) : Option (Option Term) :=
  if first = true ∧ e.metaBad = true then
    some (if cfg.badMetaSetsErr = true then some .internalMeta else none)
  else
    match errorIfDone cfg e with
    | some t => some (some t)
    | none => none

/-- Specification of the terminal status the envelopes determine: the decision on the first
terminal envelope; `none` while no envelope was terminal. -/
def specTerminal (cfg : Cfg) : Bool → List InEnv → Option (Option Term)
  | _, [] => none
  | first, e :: es =>
    match decide1 cfg first e with
    | some p => some p
    | none => specTerminal cfg false es

/-- Read-loop program counter. -/
inductive Rl where
  | reading                  -- in `cs.rw.Read(cs.ctx)` (l.365)
  | offering (b : Bytes)     -- parked in the select of l.392 with this body
  | toFinish                 -- returned from the loop; deferred block not yet inside the mutex
  | fin0                     -- holds the stream mutex (l.310)
  | fin1                     -- rCh closed (l.313)
  | fin2                     -- reset written (l.104)
  | fin3                     -- unregistered from the multiplexer (l.111)
  | fin4                     -- cs.ctx cancelled (l.112)
  | exited                   -- done/rErr/trailer stored, mutex released (l.323-325)
  deriving DecidableEq, Repr

/-- What one `RecvMsg` call returned. -/
inductive Res where
  | msg (b : Bytes)          -- nil error, a message was unmarshalled
  | nilNoMsg                 -- returned `rErr` which was nil: "success" with no message
  | err (t : Term)
  | panic                    -- "cs.rCh was closed but cs.done == false!"
  deriving DecidableEq, Repr

def resOfRErr : Option Term → Res
  | some t => .err t
  | none => .nilNoMsg

def Res.msg? : Res → Option Bytes
  | .msg b => some b
  | _ => none

inductive RecvPc where
  | idle
  | checked                  -- passed the done-check (l.256), at the select (l.261)
  deriving DecidableEq, Repr

/-- Sender goroutine (`SendMsg` and `CloseSend` must not run concurrently). -/
inductive SendPc where
  | idle
  | sendChecked              -- SendMsg passed its done-check (l.208)
  | sendTearing              -- Marshal/Write failed, about to run `cs.teardown(false)` (l.215/231)
  | closeChecked (wasDone : Bool)  -- CloseSend past its done-check; ghost: was the stream done at the call
  deriving DecidableEq, Repr

/-- What one `SendMsg` call returned. -/
inductive SRes where
  | ok
  | rErr (t : Option Term)   -- the done-check answered (nil is possible: pre-repair bad metadata)
  | writeErr
  deriving DecidableEq, Repr

/-- What one `Trailer()` call returned. -/
inductive TRes where
  | nil_ | md | panic
  deriving DecidableEq, Repr

/-- Envelopes handed to `rw.Write` for this id. -/
inductive Out where
  | body (b : Bytes)         -- SendMsg
  | halfClose                -- CloseSend's OK trailer
  | reset                    -- RST_STREAM written by the finishing block
  deriving DecidableEq, Repr

/-- Steps of the finishing block, in the order they were taken. -/
inductive FinEv where
  | closeRCh | rst | unreg | cancel | done
  deriving DecidableEq, Repr

structure State where
  -- cs.protected
  mu : Bool := false                     -- held by the finishing block (all other users are one-label critical sections)
  done : Bool := false
  rErr : Option Term := none
  trailerStored : Option Bool := none    -- protected.trailer: `some metaBad`
  headerErr : Option Term := none
  -- header latch
  headerSet : Bool := false              -- cs.header != nil
  ready : Bool := false                  -- cs.ready.Done() has been called
  readyTwice : Bool := false             -- ... twice: WaitGroup panic
  -- channel and context
  rChClosed : Bool := false
  ctxDone : Bool := false
  -- read loop
  rl : Rl := .reading
  pending : Option Term := none          -- the local `rErr`
  trailerLocal : Option Bool := none     -- the local `trailer`: `some metaBad`
  rstSent : Bool := false
  -- users
  recv : RecvPc := .idle
  snd : SendPc := .idle
  -- ghosts: why the context is done, where the caller's cancellation landed
  ctxByCaller : Bool := false
  ctxBySend : Bool := false
  ctxByFin : Bool := false
  cancelEarly : Bool := false            -- the caller's context ended before the finishing block evaluated `sendRst`
  -- histories
  inbox : List InEnv := []               -- envelopes `rw.Read` returned, in order
  offered : List Bytes := []             -- bodies the read loop took to the rendezvous
  dropped : Option Bytes := none         -- the body it was offering when its context ended
  received : List Bytes := []            -- messages RecvMsg returned, in order
  recvResults : List Res := []
  sendResults : List SRes := []
  closeResults : List (Bool × Bool) := [] -- (stream was done at the call, returned nil)
  headerResults : List (Bool × Option Term) := []  -- (header != nil, headerErr)
  trailerResults : List TRes := []
  wireOut : List Out := []
  finLog : List FinEv := []
  unregs : Nat := 0                      -- calls of the multiplexer's teardown (unregisterHandler)
  deriving DecidableEq, Repr

inductive Label where
  -- environment
  | callerCancel                          -- ctxByCaller done (cancel or deadline)
  -- read loop
  | rlGet (e : InEnv)                     -- Read returned an envelope; header handling; errorIfDone; body → select
  | rlGetErr                              -- Read failed: multiplexer closed / handler unregistered
  | rlGetCtx                              -- Read failed: cs.ctx done
  | rlCtx                                 -- ctx.Done wins the select of l.392
  | finLock | finCloseRCh | finRst | finUnregister | finCancel | finSetDone
  -- RecvMsg
  | recvCheck | recvTake | recvCtx | recvClosed
  -- SendMsg
  | sendCheck | sendWrite (b : Bytes) (ok : Bool) | sendTeardown
  -- CloseSend
  | closeCheck | closeWrite (ok : Bool)
  -- Header(), Trailer()
  | headerWait | trailerGet
  deriving DecidableEq, Repr

/-- The local `trailer = rpc.GetTrailer()` of the read loop: `some metaBad`, or nil. -/
def trailerOf (e : InEnv) : Option Bool := if e.trailer = true then some e.trMetaBad else none

/-- `errorIfDone` says done, or the body goes to the select, or the loop continues (l.382-398). -/
def classify (cfg : Cfg) (s : State) (e : InEnv) : State :=
  match errorIfDone cfg e with
  | some t => { s with pending := some t, trailerLocal := trailerOf e, rl := .toFinish }
  | none =>
    match e.body with
    | none => s
    | some b => { s with offered := s.offered ++ [b], rl := .offering b }

/-- `sendRst := trailer == nil && cs.ctx.Err() != nil` -/
abbrev sendRst (s : State) : Prop := s.trailerLocal = none ∧ s.ctxDone = true

/-- Does the caller's cancellation land before `sendRst` is evaluated? -/
def beforeRstDecision : Rl → Bool
  | .reading | .offering _ | .toFinish | .fin0 | .fin1 => true
  | _ => false

def trailerResult (cfg : Cfg) : Option Bool → TRes
  | none => .nil_
  | some false => .md
  | some true => if cfg.trailerNoPanic then .nil_ else .panic

def step (cfg : Cfg) (s : State) : Label → Option State
  | .callerCancel =>
    some { s with ctxDone := true, ctxByCaller := true,
                  cancelEarly := s.cancelEarly || beforeRstDecision s.rl }
  | .rlGet e =>
    if s.rl = .reading then
      if s.headerSet = true then
        -- `cs.header != nil`: the envelope's header is not looked at
        some (classify cfg { s with inbox := s.inbox ++ [e] } e)
      else if e.metaBad = true then
        if cfg.badMetaSetsErr = true then
          -- rErr = Internal; onReady(rErr, nil); return
          some { s with inbox := s.inbox ++ [e], headerErr := some .internalMeta,
                        readyTwice := s.ready, ready := true,
                        pending := some .internalMeta, rl := .toFinish }
        else
          -- pre-repair: plain `return err`
          some { s with inbox := s.inbox ++ [e], rl := .toFinish }
      else
        -- onReady(nil, md), md a non-nil map
        some (classify cfg { s with inbox := s.inbox ++ [e], headerSet := true, headerErr := none,
                                    readyTwice := s.ready, ready := true } e)
    else none
  | .rlGetErr =>
    if s.rl = .reading then
      if s.headerSet = true then some { s with pending := some .muxErr, rl := .toFinish }
      else some { s with headerErr := some .muxErr, readyTwice := s.ready, ready := true,
                         pending := some .muxErr, rl := .toFinish }
    else none
  | .rlGetCtx =>
    if s.rl = .reading ∧ s.ctxDone = true then
      if s.headerSet = true then some { s with pending := some .ctxErr, rl := .toFinish }
      else some { s with headerErr := some .ctxErr, readyTwice := s.ready, ready := true,
                         pending := some .ctxErr, rl := .toFinish }
    else none
  | .rlCtx =>
    match s.rl with
    | .offering b =>
      if s.ctxDone = true then
        some { s with pending := some .ctxErr, dropped := some b, rl := .toFinish }
      else none
    | _ => none
  | .finLock =>
    if s.rl = .toFinish ∧ s.mu = false then some { s with mu := true, rl := .fin0 } else none
  | .finCloseRCh =>
    if s.rl = .fin0 then
      some { s with rChClosed := true, finLog := s.finLog ++ [.closeRCh], rl := .fin1 }
    else none
  | .finRst =>
    if s.rl = .fin1 ∧ s.trailerLocal = none ∧ s.ctxDone = true then
      some { s with wireOut := s.wireOut ++ [.reset], rstSent := true,
                    finLog := s.finLog ++ [.rst], rl := .fin2 }
    else none
  | .finUnregister =>
    if s.rl = .fin2 ∨ (s.rl = .fin1 ∧ ¬ (s.trailerLocal = none ∧ s.ctxDone = true)) then
      some { s with unregs := s.unregs + 1, finLog := s.finLog ++ [.unreg], rl := .fin3 }
    else none
  | .finCancel =>
    if s.rl = .fin3 then
      some { s with ctxDone := true, ctxByFin := true, finLog := s.finLog ++ [.cancel], rl := .fin4 }
    else none
  | .finSetDone =>
    if s.rl = .fin4 then
      some { s with done := true, rErr := s.pending, trailerStored := s.trailerLocal,
                    mu := false, finLog := s.finLog ++ [.done], rl := .exited }
    else none
  | .recvCheck =>
    if s.recv = .idle ∧ s.mu = false then
      if s.done = true then some { s with recvResults := s.recvResults ++ [resOfRErr s.rErr] }
      else some { s with recv := .checked }
    else none
  | .recvTake =>
    match s.rl with
    | .offering b =>
      if s.recv = .checked then
        some { s with received := s.received ++ [b], recvResults := s.recvResults ++ [.msg b],
                      rl := .reading, recv := .idle }
      else none
    | _ => none
  | .recvCtx =>
    if s.recv = .checked ∧ s.ctxDone = true then
      if cfg.recvRechecksDoneOnCtx = true then
        if s.mu = false then
          if s.done = true then
            some { s with recvResults := s.recvResults ++ [resOfRErr s.rErr], recv := .idle }
          else some { s with recvResults := s.recvResults ++ [.err .ctxErr], recv := .idle }
        else none
      else some { s with recvResults := s.recvResults ++ [.err .ctxErr], recv := .idle }
    else none
  | .recvClosed =>
    if s.recv = .checked ∧ s.rChClosed = true ∧ s.mu = false then
      if s.done = true then
        some { s with recvResults := s.recvResults ++ [resOfRErr s.rErr], recv := .idle }
      else some { s with recvResults := s.recvResults ++ [.panic], recv := .idle }
    else none
  | .sendCheck =>
    if s.snd = .idle ∧ s.mu = false then
      if s.done = true then some { s with sendResults := s.sendResults ++ [.rErr s.rErr] }
      else some { s with snd := .sendChecked }
    else none
  | .sendWrite b ok =>
    if s.snd = .sendChecked then
      if ok = true then
        some { s with wireOut := s.wireOut ++ [.body b], sendResults := s.sendResults ++ [.ok],
                      snd := .idle }
      else some { s with snd := .sendTearing }
    else none
  | .sendTeardown =>
    if s.snd = .sendTearing then
      some { s with unregs := s.unregs + 1, ctxDone := true, ctxBySend := true,
                    sendResults := s.sendResults ++ [.writeErr], snd := .idle }
    else none
  | .closeCheck =>
    if s.snd = .idle then
      if cfg.closeSendNoopWhenDone = true then
        if s.mu = false then
          if s.done = true then some { s with closeResults := s.closeResults ++ [(true, true)] }
          else some { s with snd := .closeChecked false }
        else none
      else some { s with snd := .closeChecked s.done }
    else none
  | .closeWrite ok =>
    match s.snd with
    | .closeChecked d =>
      if ok = true then
        some { s with wireOut := s.wireOut ++ [.halfClose],
                      closeResults := s.closeResults ++ [(d, true)], snd := .idle }
      else some { s with closeResults := s.closeResults ++ [(d, false)], snd := .idle }
    | _ => none
  | .headerWait =>
    if s.ready = true ∧ s.mu = false then
      some { s with headerResults := s.headerResults ++ [(s.headerSet, s.headerErr)] }
    else none
  | .trailerGet =>
    if s.mu = false then
      some { s with trailerResults := s.trailerResults ++ [trailerResult cfg s.trailerStored] }
    else none

def init : State := {}

def run (cfg : Cfg) (s : State) : List Label → Option State
  | [] => some s
  | l :: ls => (step cfg s l).bind (fun s' => run cfg s' ls)

def Reachable (cfg : Cfg) (s : State) : Prop := ∃ ls, run cfg init ls = some s

/-- What the read loop is offering right now, then what it gave up offering. -/
def inflight (s : State) : List Bytes :=
  match s.rl with
  | .offering b => [b]
  | _ => s.dropped.toList

/-- Rank of the read-loop pc: strictly increases along the finishing block. -/
def Rl.rank : Rl → Nat
  | .reading => 0 | .offering _ => 0 | .toFinish => 1 | .fin0 => 2 | .fin1 => 3
  | .fin2 => 4 | .fin3 => 5 | .fin4 => 6 | .exited => 7

/-- The next step of the finishing block, when the read loop holds the mutex. -/
def nextFin (s : State) : Label :=
  match s.rl with
  | .fin0 => .finCloseRCh
  | .fin1 => if s.trailerLocal = none ∧ s.ctxDone = true then .finRst else .finUnregister
  | .fin2 => .finUnregister
  | .fin3 => .finCancel
  | _ => .finSetDone

end Goat.ClientStream
