/-
  internal/server/stream.go as a sequential object: what each handler-side operation puts on the wire.
  `wOk` is the outcome of the transport write the operation makes (the environment's choice).
-/
import Goat.Metadata
import Goat.Protocol
import Goat.Status
namespace Goat.ServerStream
open Goat Goat.Metadata Goat.Protocol

structure SS where
  id : Nat := 0
  method : Bytes := []
  src : Bytes := []
  dst : Bytes := []
  headers : List MD := []
  headersSent : Bool := false
  trailers : List MD := []
  trailersSent : Bool := false
  deriving DecidableEq, Repr

inductive Op where
  | setHeader (md : MD)
  | sendHeader (md : MD) (wOk : Bool)
  | sendMsg (b : Bytes) (wOk : Bool)
  | setTrailer (md : MD)
  deriving DecidableEq, Repr

inductive Ret where | ok | err
  deriving DecidableEq, Repr

/-- internal.ToKeyValue(mds...) -/
def kvOf (mds : List MD) : List KV := toKeyValue (join mds)

def hdr (s : SS) (kvs : List KV) : Header := { method := s.method, src := s.src, dst := s.dst, headers := kvs }

def step (s : SS) : Op → SS × Option Env × Ret
  | .setHeader md =>
    if s.headersSent then (s, none, .err) else ({ s with headers := s.headers ++ [md] }, none, .ok)
  | .sendHeader md w =>
    if s.headersSent then (s, none, .err) else
    let s1 := { s with headers := s.headers ++ [md] }
    if w then ({ s1 with headersSent := true }, some { id := s.id, header := some (hdr s (kvOf s1.headers)) }, .ok)
    else (s1, none, .err)
  | .sendMsg b w =>
    let kvs := if s.headersSent then [] else kvOf s.headers
    ({ s with headersSent := true },
     if w then some { id := s.id, header := some (hdr s kvs), body := some b } else none,
     if w then .ok else .err)
  | .setTrailer md =>
    if s.trailersSent then (s, none, .ok) else ({ s with trailers := s.trailers ++ [md] }, none, .ok)

/-- SendTrailer, called once by runStream after the handler has returned -/
def sendTrailer (s : SS) (st : Status) (w : Bool) : SS × Option Env :=
  if s.trailersSent then (s, none) else
  let kvs := if s.headersSent then [] else kvOf s.headers
  ({ s with trailersSent := true, headersSent := true },
   if w then some { id := s.id, header := some (hdr s kvs), status := some st, trailer := some (kvOf s.trailers) } else none)

/-- everything a handler program followed by the final trailer puts on the wire -/
def emitted (s : SS) : List Op → Status → Bool → List Env
  | [], st, w => (sendTrailer s st w).2.toList
  | op :: ops, st, w =>
    let (s1, e, _) := step s op
    e.toList ++ emitted s1 ops st w

def route (s : SS) : Bytes × Bytes × Bytes := (s.method, s.src, s.dst)

theorem step_keeps (s : SS) (op : Op) :
    (step s op).1.id = s.id ∧ route (step s op).1 = route s ∧ (step s op).1.trailersSent = s.trailersSent ∧
    (s.headersSent = true → (step s op).1.headersSent = true) := by
  cases op <;> simp only [step, route] <;> (repeat' split) <;> simp_all

end Goat.ServerStream
