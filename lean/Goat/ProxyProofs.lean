/-
  Invariants and helper lemmas for the proxy model.
-/
import Goat.Proxy

namespace Goat.Proxy

/-! ## the name map -/

@[simp] theorem nget_ndel (t : Names) (n m : Bytes) :
    nget (ndel t n) m = if m = n then none else nget t m := by
  induction t with
  | nil => simp [ndel, nget]
  | cons a t ih =>
    obtain ⟨k, v⟩ := a
    simp only [ndel]
    split <;> simp only [nget] <;> grind

@[simp] theorem nget_nput (t : Names) (n m : Bytes) (v : Nat) :
    nget (nput t n v) m = if m = n then some v else nget t m := by
  simp only [nput, nget, nget_ndel]; grind

/-! ## `route`: the complete case analysis -/

/-- what the header looks like after `forwardRpc` touched it -/
def fwdHeader (cfg : Cfg) (h1 : Header) : Header :=
  { h1 with record := h1.record ++ [cfg.name], next := h1.next.dropLast }

/-- the destination `forwardRpc` picks for an (intercepted) header -/
def pickDest (h1 : Header) : Bytes := (h1.next.getLast?).getD h1.dst

/-- `route` on an envelope that passes the sanity check and the interceptor -/
theorem route_ok {cfg : Cfg} {ic : Header → Option Header} {nn : Bool} {e : Env} {h h1 : Header}
    (hh : e.header = some h) (hic : ic h = some h1) :
    route cfg ic nn h.src e =
      if nn = true ∧ h1.next = [] then .panic .emptyNext
      else .send (pickDest h1) { e with header := some (fwdHeader cfg h1) } := by
  simp only [route, hh, hic, pickDest, fwdHeader]
  cases hn : h1.next with
  | nil => cases nn <;> simp
  | cons a l =>
    have : (a :: l).getLast? = some ((a :: l).getLast (by simp)) := List.getLast?_eq_some_getLast (by simp)
    simp [this]

theorem badSource_ne_send (cfg : Cfg) (d e') : badSource cfg ≠ .send d e' := by
  unfold badSource; split <;> simp

theorem badSource_ne_emptyNext (cfg : Cfg) : badSource cfg ≠ .panic .emptyNext := by
  unfold badSource; split <;> simp

/-- every way `route` can come out, in one statement -/
theorem route_cases (cfg : Cfg) (ic : Header → Option Header) (nn : Bool) (source : Bytes) (e : Env) :
    (route cfg ic nn source e = badSource cfg ∧ ∀ h, e.header = some h → h.src ≠ source) ∨
    (∃ h, e.header = some h ∧ h.src = source ∧ ic h = none ∧ route cfg ic nn source e = .refused) ∨
    (∃ h h1, e.header = some h ∧ h.src = source ∧ ic h = some h1 ∧
      route cfg ic nn source e =
        if nn = true ∧ h1.next = [] then .panic .emptyNext
        else .send (pickDest h1) { e with header := some (fwdHeader cfg h1) }) := by
  cases hh : e.header with
  | none => left; simp [route, hh]
  | some h =>
    by_cases hs : h.src = source
    · subst hs
      cases hic : ic h with
      | none => right; left; exact ⟨h, rfl, rfl, hic, by simp [route, hh, hic]⟩
      | some h1 => right; right; exact ⟨h, h1, rfl, rfl, hic, route_ok hh hic⟩
    · left; simp [route, hh, hs]

theorem route_send {cfg : Cfg} {ic : Header → Option Header} {nn : Bool} {source : Bytes}
    {e : Env} {d : Bytes} {e' : Env} (hr : route cfg ic nn source e = .send d e') :
    ∃ h h1, e.header = some h ∧ h.src = source ∧ ic h = some h1 ∧
      d = pickDest h1 ∧ e' = { e with header := some (fwdHeader cfg h1) } := by
  rcases route_cases cfg ic nn source e with ⟨h1, _⟩ | ⟨h, _, _, _, h1⟩ | ⟨h, h1, hh, hs, hic, hr'⟩
  · rw [h1] at hr; exact absurd hr (badSource_ne_send _ _ _)
  · rw [h1] at hr; simp at hr
  · rw [hr'] at hr
    split at hr
    · simp at hr
    · simp only [Decision.send.injEq] at hr
      exact ⟨h, h1, hh, hs, hic, hr.1.symm, hr.2.symm⟩

theorem route_panic_badSource {cfg : Cfg} {ic nn source e}
    (hr : route cfg ic nn source e = .panic .badSource) : cfg.badSourceIsIgnored = false := by
  rcases route_cases cfg ic nn source e with ⟨h1, _⟩ | ⟨h, _, _, _, h1⟩ | ⟨h, h1, hh, hs, hic, hr'⟩
  · rw [h1] at hr; unfold badSource at hr; split at hr <;> simp_all
  · rw [h1] at hr; simp at hr
  · rw [hr'] at hr; split at hr <;> simp at hr

theorem route_panic_emptyNext {cfg : Cfg} {ic nn source e}
    (hr : route cfg ic nn source e = .panic .emptyNext) :
    ∃ h h1, e.header = some h ∧ h.src = source ∧ ic h = some h1 ∧ nn = true ∧ h1.next = [] := by
  rcases route_cases cfg ic nn source e with ⟨h1, _⟩ | ⟨h, _, _, _, h1⟩ | ⟨h, h1, hh, hs, hic, hr'⟩
  · rw [h1] at hr; exact absurd hr (badSource_ne_emptyNext _)
  · rw [h1] at hr; simp at hr
  · rw [hr'] at hr
    split at hr
    · rename_i hc; exact ⟨h, h1, hh, hs, hic, hc.1, hc.2⟩
    · simp at hr

/-- an envelope with no header or the wrong source is never sent anywhere -/
theorem route_bad {cfg : Cfg} {ic nn source e}
    (hbad : ∀ h, e.header = some h → h.src ≠ source) :
    route cfg ic nn source e = badSource cfg := by
  rcases route_cases cfg ic nn source e with ⟨h1, _⟩ | ⟨h, hh, hs, _, _⟩ | ⟨h, h1, hh, hs, _, _⟩
  · exact h1
  · exact absurd hs (hbad h hh)
  · exact absurd hs (hbad h hh)

/-! ## `deliver` -/

theorem deliver_action (t : Table) (dest : Bytes) (e : Env) :
    (deliver t dest e).action = .enqueue dest e ∨ (deliver t dest e).action = .drop dest e ∨
    (deliver t dest e).action = .dangling := by
  unfold deliver
  repeat' split
  all_goals simp

theorem forward_sent {cfg ic nn t source e d e'}
    (h : (forward cfg ic nn t source e).action = .enqueue d e' ∨
         (forward cfg ic nn t source e).action = .drop d e') :
    route cfg ic (nnEff cfg nn) source e = .send d e' := by
  unfold forward at h
  split at h
  · simp at h
  · simp at h
  · simp at h
  · rename_i d0 e0 hr
    rw [hr]
    rcases deliver_action t d0 e0 with h1 | h1 | h1 <;> rw [h1] at h <;> simp at h <;> simp [h]

theorem forward_panic {cfg ic nn t source e w}
    (h : (forward cfg ic nn t source e).action = .panic w) :
    route cfg ic (nnEff cfg nn) source e = .panic w := by
  unfold forward at h
  split at h
  · simp at h
  · simp at h
  · rename_i w' hr; simp at h; rw [hr, h]
  · rename_i d0 e0 hr
    rcases deliver_action t d0 e0 with h1 | h1 | h1 <;> rw [h1] at h <;> simp at h

/-! ## the LTS: history projections -/

/-- the envelope the writer holds -/
def inflightW : WPc → List Env
  | .writing e => [e]
  | _ => []

/-- the envelope the reader holds -/
def pendR : RPc → List Env
  | .sending e => [e]
  | _ => []

/-- contribution of one serve-loop event to object `j`'s queue history -/
def evEnq (ev : Ev) (j : Nat) : List Env :=
  if ev.target = some j then (match ev.action with | .enqueue _ e' => [e'] | _ => []) else []

/-- contribution of one serve-loop event to object `j`'s drop history -/
def evDrop (ev : Ev) (j : Nat) : List Env :=
  if ev.target = some j then (match ev.action with | .drop _ e' => [e'] | _ => []) else []

/-- everything the serve loop put into object `j`'s queue, in serve order -/
def enqOf (log : List Ev) (j : Nat) : List Env := log.flatMap (evEnq · j)

/-- everything the serve loop wanted to put into object `j`'s queue and dropped -/
def dropOf (log : List Ev) (j : Nat) : List Env := log.flatMap (evDrop · j)

/-- the envelopes the serve loop received from object `i`'s reader, in serve order -/
def servedOf (log : List Ev) (i : Nat) : List Env := (log.filter (·.src = i)).map (·.recv)

@[simp] theorem enqOf_nil (j) : enqOf [] j = [] := rfl
@[simp] theorem dropOf_nil (j) : dropOf [] j = [] := rfl
@[simp] theorem servedOf_nil (j) : servedOf [] j = [] := rfl

@[simp, grind =] theorem enqOf_snoc (log : List Ev) (ev : Ev) (j : Nat) :
    enqOf (log ++ [ev]) j = enqOf log j ++ evEnq ev j := by simp [enqOf]

@[simp, grind =] theorem dropOf_snoc (log : List Ev) (ev : Ev) (j : Nat) :
    dropOf (log ++ [ev]) j = dropOf log j ++ evDrop ev j := by simp [dropOf]

@[simp, grind =] theorem servedOf_snoc (log : List Ev) (ev : Ev) (i : Nat) :
    servedOf (log ++ [ev]) i = if ev.src = i then servedOf log i ++ [ev.recv] else servedOf log i := by
  simp only [servedOf, List.filter_append, List.map_append]
  by_cases h : ev.src = i <;> simp [h]

theorem enqOf_eq_nil (log : List Ev) (j : Nat) (h : ∀ ev ∈ log, ev.target ≠ some j) : enqOf log j = [] := by
  simp only [enqOf, List.flatMap_eq_nil_iff]
  intro ev hev; simp [evEnq, h ev hev]

theorem dropOf_eq_nil (log : List Ev) (j : Nat) (h : ∀ ev ∈ log, ev.target ≠ some j) : dropOf log j = [] := by
  simp only [dropOf, List.flatMap_eq_nil_iff]
  intro ev hev; simp [evDrop, h ev hev]

theorem servedOf_eq_nil (log : List Ev) (i : Nat) (h : ∀ ev ∈ log, ev.src ≠ i) : servedOf log i = [] := by
  simp only [servedOf, List.map_eq_nil_iff, List.filter_eq_nil_iff]
  intro ev hev; simpa using h ev hev

@[grind =] theorem getElem?_snoc_eq_some {α} (l : List α) (x a : α) (c : Nat) :
    ((l ++ [x])[c]? = some a) = (l[c]? = some a ∨ (c = l.length ∧ a = x)) := by
  apply propext
  rw [List.getElem?_append]
  split
  · constructor
    · exact Or.inl
    · rintro (h | ⟨h, _⟩)
      · exact h
      · omega
  · rename_i hlt
    have : l[c]? = none := by simp; omega
    rw [this]
    cases hh : c - l.length with
    | zero => simp; constructor
              · intro h; exact ⟨by omega, h.symm⟩
              · intro h; exact h.2.symm
    | succ n => simp; omega

/-! ## the inductive invariant -/

/-- per-object clauses -/
def ConnOk (log : List Ev) (j : Nat) (c : Conn) : Prop :=
  -- FIFO, exactly once: written ++ (failed write) ++ (in the writer's hand) ++ queued = enqueued
  c.out ++ c.lostW ++ inflightW c.w ++ c.queue = c.enq ∧
  (c.lostW ≠ [] → c.w = .reporting ∨ c.w = .exited) ∧
  c.queue.length ≤ clientBufferSize ∧
  -- the queue / drop histories are the serve loop's decisions for this object
  c.enq = enqOf log j ∧ c.dropped = dropOf log j ∧
  -- what the serve loop received from this object's reader is what the reader read
  servedOf log j ++ pendR c.r ++ c.lostR = c.wireIn ∧
  (c.lostR ≠ [] → c.r = .exited) ∧
  -- the reader and writer run iff the object has a connection
  (c.d = .attached ∨ c.d = .up → c.r ≠ .notStarted ∧ c.w ≠ .notStarted) ∧
  (c.d = .dialing ∨ c.d = .reporting ∨ c.d = .failed → c.r = .notStarted ∧ c.w = .notStarted)

/-- per-event clauses -/
def EvOk (conns : List Conn) (ev : Ev) : Prop :=
  (∃ c, conns[ev.src]? = some c ∧ c.name = ev.srcName) ∧
  (∀ j, ev.target = some j → j < conns.length) ∧
  ev.action ≠ .dangling ∧
  (∀ d e', (ev.action = .enqueue d e' ∨ ev.action = .drop d e') →
    (∃ h, ev.recv.header = some h ∧ h.src = ev.srcName) ∧
    (∃ j c, ev.target = some j ∧ conns[j]? = some c ∧ c.name = d))

def Inv (cfg : Cfg) (s : State) : Prop :=
  (∀ n j, nget s.names n = some j → ∃ c, s.conns[j]? = some c ∧ c.name = n) ∧
  (∀ j c, s.conns[j]? = some c → ConnOk s.log j c) ∧
  (∀ ev ∈ s.log, EvOk s.conns ev) ∧
  (cfg.badSourceIsIgnored = true → s.panicked ≠ some .badSource)

theorem inv_init (cfg : Cfg) : Inv cfg init := by
  simp [Inv, init, nget]

/-- the shape shared by every step that only updates one object in place -/
theorem inv_of_set {cfg : Cfg} {s s' : State} {i : Nat} {c c' : Conn} (hi : Inv cfg s)
    (hc : s.conns[i]? = some c) (hconns : s'.conns = s.conns.set i c') (hlog : s'.log = s.log)
    (hnames : ∀ n j, nget s'.names n = some j → nget s.names n = some j)
    (hpan : s'.panicked = s.panicked) (hn : c'.name = c.name)
    (hok : ConnOk s.log i c → ConnOk s.log i c') : Inv cfg s' := by
  obtain ⟨h1, h2, h3, h4⟩ := hi
  have hget : ∀ (j : Nat) (x : Conn), (s.conns.set i c')[j]? = some x →
      (j = i ∧ x = c') ∨ (j ≠ i ∧ s.conns[j]? = some x) := by
    intro j x hx
    rw [List.getElem?_set] at hx
    split at hx
    · rename_i hij
      split at hx
      · left; exact ⟨hij.symm, by simpa using hx.symm⟩
      · simp at hx
    · rename_i hij; right; exact ⟨fun h => hij h.symm, hx⟩
  have hname : ∀ (j : Nat) (x : Conn), s.conns[j]? = some x → ∃ y : Conn, (s.conns.set i c')[j]? = some y ∧ y.name = x.name := by
    intro j x hx
    by_cases hij : j = i
    · subst hij
      have hlt := (List.getElem?_eq_some_iff.mp hx).1
      rw [hc] at hx; cases hx
      exact ⟨c', by simp [hlt], hn⟩
    · exact ⟨x, by rw [List.getElem?_set_ne (fun h => hij h.symm)]; exact hx, rfl⟩
  refine ⟨?_, ?_, ?_, ?_⟩
  · intro n j hj
    obtain ⟨x, hx, hxn⟩ := h1 n j (hnames n j hj)
    obtain ⟨y, hy, hyn⟩ := hname j x hx
    exact ⟨y, by rw [hconns]; exact hy, hyn.trans hxn⟩
  · intro j x hx
    rw [hconns] at hx; rw [hlog]
    rcases hget j x hx with ⟨rfl, rfl⟩ | ⟨_, hx'⟩
    · exact hok (h2 _ c hc)
    · exact h2 j x hx'
  · intro ev hev
    rw [hlog] at hev
    obtain ⟨⟨x, hx, hxn⟩, e2, e3, e4⟩ := h3 ev hev
    rw [hconns]
    refine ⟨?_, by simpa using e2, e3, ?_⟩
    · obtain ⟨y, hy, hyn⟩ := hname _ x hx
      exact ⟨y, hy, hyn.trans hxn⟩
    · intro d e' hde
      obtain ⟨a, j, x, hj, hx, hxn⟩ := e4 d e' hde
      obtain ⟨y, hy, hyn⟩ := hname _ x hx
      exact ⟨a, j, y, hj, hy, hyn.trans hxn⟩
  · rw [hpan]; exact h4

set_option hygiene false in
/-- per-label proof for the steps that update one object in place -/
local macro "inv_case" : tactic => `(tactic| (
  unfold step at hs; split at hs; (· contradiction);
  simp only at hs <;> (repeat' split at hs) <;> (try contradiction) <;>
  (simp only [Option.some.injEq] at hs; subst hs) <;>
  (have hc := ‹s.conns[_]? = some _›;
   refine inv_of_set hi hc rfl rfl (fun _ _ h => h) rfl rfl ?_;
   unfold ConnOk; grind [pendR, inflightW])))

theorem inv_readerGet {cfg : Cfg} {s s' : State} {i e} (hi : Inv cfg s)
    (hs : step cfg s (.readerGet i e) = some s') : Inv cfg s' := by
  inv_case

theorem inv_readerErr {cfg : Cfg} {s s' : State} {i} (hi : Inv cfg s)
    (hs : step cfg s (.readerErr i) = some s') : Inv cfg s' := by
  inv_case

theorem inv_readerCtx {cfg : Cfg} {s s' : State} {i} (hi : Inv cfg s)
    (hs : step cfg s (.readerCtx i) = some s') : Inv cfg s' := by
  inv_case

theorem inv_writerTake {cfg : Cfg} {s s' : State} {i} (hi : Inv cfg s)
    (hs : step cfg s (.writerTake i) = some s') : Inv cfg s' := by
  inv_case

theorem inv_writerWrite {cfg : Cfg} {s s' : State} {i ok} (hi : Inv cfg s)
    (hs : step cfg s (.writerWrite i ok) = some s') : Inv cfg s' := by
  inv_case

theorem inv_writerCtx {cfg : Cfg} {s s' : State} {i} (hi : Inv cfg s)
    (hs : step cfg s (.writerCtx i) = some s') : Inv cfg s' := by
  inv_case

theorem inv_dialDone {cfg : Cfg} {s s' : State} {i ok} (hi : Inv cfg s)
    (hs : step cfg s (.dialDone i ok) = some s') : Inv cfg s' := by
  inv_case

theorem inv_connExit {cfg : Cfg} {s s' : State} {i} (hi : Inv cfg s)
    (hs : step cfg s (.connExit i) = some s') : Inv cfg s' := by
  inv_case

theorem reported_name (c : Conn) (who : Who) : (reported c who).name = c.name := by
  cases who <;> rfl

theorem connOk_reported {log : List Ev} {i : Nat} {c : Conn} {who : Who}
    (hr : reporting c who = true) (h : ConnOk log i c) : ConnOk log i (reported c who) := by
  unfold ConnOk at *
  cases who <;> simp only [reporting, reported, beq_iff_eq] at * <;> grind [pendR, inflightW]

theorem inv_cmdErr {cfg : Cfg} {s s' : State} {i who} (hi : Inv cfg s)
    (hs : step cfg s (.cmdErr i who) = some s') : Inv cfg s' := by
  unfold step at hs; split at hs; (· contradiction)
  simp only at hs
  (repeat' split at hs) <;> (try contradiction) <;>
  (simp only [Option.some.injEq] at hs; subst hs) <;>
  (have hc := ‹s.conns[_]? = some _›;
   refine inv_of_set hi hc rfl rfl ?_ rfl (reported_name _ _) (connOk_reported (by assumption));
   intro n j hj; simp only [nget_ndel] at hj; grind)

theorem inv_reportAbandon {cfg : Cfg} {s s' : State} {i who} (hi : Inv cfg s)
    (hs : step cfg s (.reportAbandon i who) = some s') : Inv cfg s' := by
  unfold step at hs; split at hs; (· contradiction)
  simp only at hs
  (repeat' split at hs) <;> (try contradiction) <;>
  (simp only [Option.some.injEq] at hs; subst hs) <;>
  (have hc := ‹s.conns[_]? = some _›;
   exact inv_of_set hi hc rfl rfl (fun _ _ h => h) rfl (reported_name _ _) (connOk_reported (by assumption)))

theorem inv_cancel {cfg : Cfg} {s s' : State} (hi : Inv cfg s)
    (hs : step cfg s .cancel = some s') : Inv cfg s' := by
  unfold step at hs; split at hs; (· contradiction)
  simp only at hs
  split at hs <;> (try contradiction)
  simp only [Option.some.injEq] at hs; subst hs; exact hi

theorem inv_serveExit {cfg : Cfg} {s s' : State} (hi : Inv cfg s)
    (hs : step cfg s .serveExit = some s') : Inv cfg s' := by
  unfold step at hs; split at hs; (· contradiction)
  simp only at hs
  split at hs <;> (try contradiction)
  simp only [Option.some.injEq] at hs; subst hs; exact hi

/-! ### steps that add an object (`attach`, dial on demand) -/

theorem fresh_logs {cfg : Cfg} {s : State} (hi : Inv cfg s) :
    enqOf s.log s.conns.length = [] ∧ dropOf s.log s.conns.length = [] ∧
    servedOf s.log s.conns.length = [] := by
  obtain ⟨_, _, h3, _⟩ := hi
  refine ⟨enqOf_eq_nil _ _ ?_, dropOf_eq_nil _ _ ?_, servedOf_eq_nil _ _ ?_⟩
  · intro ev hev h; have := (h3 ev hev).2.1 _ h; omega
  · intro ev hev h; have := (h3 ev hev).2.1 _ h; omega
  · intro ev hev h
    obtain ⟨c, hc, _⟩ := (h3 ev hev).1
    rw [h] at hc; simp at hc

theorem inv_append {cfg : Cfg} {s s' : State} (hi : Inv cfg s) (cnew : Conn)
    (hok : ConnOk s.log s.conns.length cnew)
    (hconns : s'.conns = s.conns ++ [cnew])
    (hnames : s'.names = nput s.names cnew.name s.conns.length)
    (hlog : s'.log = s.log) (hpan : s'.panicked = s.panicked) : Inv cfg s' := by
  obtain ⟨h1, h2, h3, h4⟩ := hi
  refine ⟨?_, ?_, ?_, ?_⟩
  · intro n j hj
    rw [hnames, nget_nput] at hj
    rw [hconns]
    split at hj
    · rename_i hn
      refine ⟨cnew, ?_, hn.symm⟩
      simp only [Option.some.injEq] at hj; subst hj; simp
    · obtain ⟨c, hc, hcn⟩ := h1 n j hj
      have hlt := (List.getElem?_eq_some_iff.mp hc).1
      exact ⟨c, by rw [List.getElem?_append_left hlt]; exact hc, hcn⟩
  · intro j c hc
    rw [hconns, getElem?_snoc_eq_some] at hc
    rw [hlog]
    rcases hc with hc | ⟨rfl, rfl⟩
    · exact h2 j c hc
    · exact hok
  · intro ev hev
    rw [hlog] at hev
    obtain ⟨⟨x, hx, hxn⟩, e2, e3, e4⟩ := h3 ev hev
    rw [hconns]
    have up : ∀ (k : Nat) (y : Conn), s.conns[k]? = some y → (s.conns ++ [cnew])[k]? = some y := by
      intro k y hy
      have hlt := (List.getElem?_eq_some_iff.mp hy).1
      rw [List.getElem?_append_left hlt]; exact hy
    refine ⟨⟨x, up _ _ hx, hxn⟩, ?_, e3, ?_⟩
    · intro j hj; have := e2 j hj; simp; omega
    · intro d e' hde
      obtain ⟨a, j, y, hj, hy, hyn⟩ := e4 d e' hde
      exact ⟨a, j, y, hj, up _ _ hy, hyn⟩
  · rw [hpan]; exact h4

theorem inv_attach {cfg : Cfg} {s s' : State} {p} (hi : Inv cfg s)
    (hs : step cfg s (.attach p) = some s') : Inv cfg s' := by
  unfold step at hs; split at hs; (· contradiction)
  simp only [Option.some.injEq] at hs; subst hs
  obtain ⟨f1, f2, f3⟩ := fresh_logs hi
  refine inv_append hi { name := p } ?_ rfl rfl rfl rfl
  unfold ConnOk
  simp [f1, f2, f3, inflightW, pendR]

/-! ### the serve loop's `forwardRpc` step -/

/-- appending one event to the log while objects change in place -/
theorem inv_of_log_append {cfg : Cfg} {s s' : State} {ev : Ev} (hi : Inv cfg s)
    (hlen : s'.conns.length = s.conns.length)
    (hconn : ∀ (k : Nat) (ck' : Conn), s'.conns[k]? = some ck' →
      ∃ ck, s.conns[k]? = some ck ∧ ck'.name = ck.name ∧
        (ConnOk s.log k ck → ConnOk (s.log ++ [ev]) k ck'))
    (hlog : s'.log = s.log ++ [ev]) (hnames : s'.names = s.names) (hev : EvOk s'.conns ev)
    (hpan : cfg.badSourceIsIgnored = true → s'.panicked ≠ some .badSource) : Inv cfg s' := by
  obtain ⟨h1, h2, h3, h4⟩ := hi
  have hname : ∀ (k : Nat) (x : Conn), s.conns[k]? = some x →
      ∃ y : Conn, s'.conns[k]? = some y ∧ y.name = x.name := by
    intro k x hx
    have hlt := (List.getElem?_eq_some_iff.mp hx).1
    have hlt' : k < s'.conns.length := by omega
    obtain ⟨ck, hck, hn, _⟩ := hconn k s'.conns[k] (by simp [hlt'])
    rw [hx] at hck; cases hck
    exact ⟨s'.conns[k], by simp [hlt'], hn⟩
  refine ⟨?_, ?_, ?_, hpan⟩
  · intro n j hj
    rw [hnames] at hj
    obtain ⟨x, hx, hxn⟩ := h1 n j hj
    obtain ⟨y, hy, hyn⟩ := hname j x hx
    exact ⟨y, hy, hyn.trans hxn⟩
  · intro k ck' hk
    obtain ⟨ck, hck, _, hok⟩ := hconn k ck' hk
    rw [hlog]; exact hok (h2 k ck hck)
  · intro ev' hev'
    rw [hlog, List.mem_append] at hev'
    rcases hev' with hev' | hev'
    · obtain ⟨⟨x, hx, hxn⟩, e2, e3, e4⟩ := h3 ev' hev'
      refine ⟨?_, by rw [hlen]; exact e2, e3, ?_⟩
      · obtain ⟨y, hy, hyn⟩ := hname _ x hx
        exact ⟨y, hy, hyn.trans hxn⟩
      · intro d e' hde
        obtain ⟨a, j, x, hj, hx, hxn⟩ := e4 d e' hde
        obtain ⟨y, hy, hyn⟩ := hname _ x hx
        exact ⟨a, j, y, hj, hy, hyn.trans hxn⟩
    · simp only [List.mem_singleton] at hev'; subst hev'; exact hev

theorem set_get {α} {l : List α} {i k : Nat} {a x : α} (h : (l.set i a)[k]? = some x) :
    (k = i ∧ x = a ∧ k < l.length) ∨ (k ≠ i ∧ l[k]? = some x) := by
  rw [List.getElem?_set] at h
  split at h
  · rename_i hik
    split at h
    · left; exact ⟨hik.symm, by simpa using h.symm, by omega⟩
    · simp at h
  · rename_i hik; right; exact ⟨fun hh => hik hh.symm, h⟩

theorem inv_cmd_nosend {cfg : Cfg} {s s' : State} {i : Nat} {c : Conn} {e : Env} {a : Action}
    (hi : Inv cfg s) (hc : s.conns[i]? = some c) (hr : c.r = .sending e)
    (ha : a = .ignore ∨ a = .refused ∨ ∃ w, a = .panic w)
    (hconns : s'.conns = s.conns.set i { c with r := .reading })
    (hnames : s'.names = s.names)
    (hlog : s'.log = s.log ++ [{ src := i, srcName := c.name, recv := e, action := a,
                                  dialed := false, target := none }])
    (hpan : cfg.badSourceIsIgnored = true → s'.panicked ≠ some .badSource) : Inv cfg s' := by
  have hlt := (List.getElem?_eq_some_iff.mp hc).1
  refine inv_of_log_append hi (by simp [hconns]) ?_ hlog hnames ?_ hpan
  · intro k ck' hk
    rw [hconns] at hk
    rcases set_get hk with ⟨rfl, rfl, _⟩ | ⟨hne, hk'⟩
    · refine ⟨c, hc, rfl, ?_⟩
      unfold ConnOk
      simp only [enqOf_snoc, dropOf_snoc, servedOf_snoc, evEnq, evDrop, pendR, hr]
      grind [inflightW]
    · refine ⟨ck', hk', rfl, ?_⟩
      unfold ConnOk
      simp only [enqOf_snoc, dropOf_snoc, servedOf_snoc, evEnq, evDrop]
      grind
  · unfold EvOk
    rw [hconns]
    refine ⟨⟨{ c with r := .reading }, by simp [hlt], rfl⟩, by simp, ?_, ?_⟩
    · rcases ha with h | h | ⟨w, h⟩ <;> simp [h]
    · intro d e' hde
      rcases ha with h | h | ⟨w, h⟩ <;> simp [h] at hde

theorem inv_cmd_send {cfg : Cfg} {s s' : State} {i j : Nat} {c cj cj' : Conn} {e e' : Env}
    {d : Bytes} {dl : Bool} {a : Action}
    (hi : Inv cfg s) (hc : s.conns[i]? = some c) (hr : c.r = .sending e)
    (hj : (s.conns.set i { c with r := .reading })[j]? = some cj) (hd : cj.name = d)
    (hh : ∃ h, e.header = some h ∧ h.src = c.name)
    (hact : (cj.queue.length < clientBufferSize ∧ a = .enqueue d e' ∧
              cj' = { cj with queue := cj.queue ++ [e'], enq := cj.enq ++ [e'] }) ∨
            (¬ cj.queue.length < clientBufferSize ∧ a = .drop d e' ∧
              cj' = { cj with dropped := cj.dropped ++ [e'] }))
    (hconns : s'.conns = (s.conns.set i { c with r := .reading }).set j cj')
    (hnames : s'.names = s.names)
    (hlog : s'.log = s.log ++ [{ src := i, srcName := c.name, recv := e, action := a,
                                  dialed := dl, target := some j }])
    (hpan : s'.panicked = s.panicked) : Inv cfg s' := by
  have hlt := (List.getElem?_eq_some_iff.mp hc).1
  have hjlt : j < s.conns.length := by
    have := (List.getElem?_eq_some_iff.mp hj).1; simpa using this
  have hcj'n : cj'.name = cj.name := by
    rcases hact with ⟨_, _, h⟩ | ⟨_, _, h⟩ <;> rw [h]
  refine inv_of_log_append hi (by simp [hconns]) ?_ hlog hnames ?_ (by rw [hpan]; exact hi.2.2.2)
  · intro k ck' hk
    rw [hconns] at hk
    rcases set_get hk with ⟨rfl, rfl, _⟩ | ⟨hne, hk'⟩
    · -- the target object
      rcases set_get hj with ⟨rfl, rfl, _⟩ | ⟨hne, hj'⟩
      · -- … which is also the sender
        refine ⟨c, hc, hcj'n, ?_⟩
        unfold ConnOk
        simp only [enqOf_snoc, dropOf_snoc, servedOf_snoc, evEnq, evDrop, pendR, hr]
        rcases hact with ⟨h1, rfl, rfl⟩ | ⟨h1, rfl, rfl⟩
        · simp only [clientBufferSize] at *; grind [inflightW]
        · simp only [clientBufferSize] at *; grind [inflightW]
      · refine ⟨cj, hj', hcj'n, ?_⟩
        unfold ConnOk
        simp only [enqOf_snoc, dropOf_snoc, servedOf_snoc, evEnq, evDrop]
        rcases hact with ⟨h1, rfl, rfl⟩ | ⟨h1, rfl, rfl⟩
        · simp only [clientBufferSize] at *; grind [inflightW]
        · simp only [clientBufferSize] at *; grind [inflightW]
    · rcases set_get hk' with ⟨rfl, rfl, _⟩ | ⟨hne', hk''⟩
      · refine ⟨c, hc, rfl, ?_⟩
        unfold ConnOk
        simp only [enqOf_snoc, dropOf_snoc, servedOf_snoc, evEnq, evDrop, pendR, hr]
        grind [inflightW]
      · refine ⟨ck', hk'', rfl, ?_⟩
        unfold ConnOk
        simp only [enqOf_snoc, dropOf_snoc, servedOf_snoc, evEnq, evDrop]
        grind
  · unfold EvOk
    rw [hconns]
    have hsrc : ∃ x : Conn, ((s.conns.set i { c with r := .reading }).set j cj')[i]? = some x ∧
        x.name = c.name := by
      by_cases hij : i = j
      · subst hij
        refine ⟨cj', by simp [hlt], ?_⟩
        rcases set_get hj with ⟨_, rfl, _⟩ | ⟨hne, _⟩
        · exact hcj'n
        · exact absurd rfl hne
      · refine ⟨{ c with r := .reading }, ?_, rfl⟩
        rw [List.getElem?_set_ne (fun h => hij h.symm)]; simp [hlt]
    refine ⟨hsrc, ?_, ?_, ?_⟩
    · intro j' hj'; simp only [Option.some.injEq] at hj'; subst hj'; simpa using hjlt
    · rcases hact with ⟨_, h, _⟩ | ⟨_, h, _⟩ <;> simp [h]
    · intro d' e'' hde
      refine ⟨hh, j, cj', rfl, by simp [hjlt], ?_⟩
      rcases hact with ⟨_, h, _⟩ | ⟨_, h, _⟩ <;> simp [h] at hde <;> rw [hcj'n, hd] <;> exact hde.1

theorem inv_cmdRpc {cfg : Cfg} {s s' : State} {i ic nn} (hi : Inv cfg s)
    (hs : step cfg s (.cmdRpc i ic nn) = some s') : Inv cfg s' := by
  unfold step at hs; split at hs; (· contradiction)
  simp only at hs
  split at hs <;> try contradiction
  split at hs <;> try contradiction
  rename_i c hc
  split at hs <;> try contradiction
  rename_i e hr
  simp only [Option.some.injEq] at hs
  have hlt := (List.getElem?_eq_some_iff.mp hc).1
  have hnone : s.panicked = none := by
    cases hp : s.panicked with
    | none => rfl
    | some w => simp_all
  cases hroute : route cfg (fun _ => ic) (nnEff cfg nn) c.name e with
  | ignore =>
    simp only [forward, hroute] at hs; subst hs
    exact inv_cmd_nosend hi hc hr (Or.inl rfl) rfl rfl rfl (by simp)
  | refused =>
    simp only [forward, hroute] at hs; subst hs
    exact inv_cmd_nosend hi hc hr (Or.inr (Or.inl rfl)) rfl rfl rfl (by simp)
  | panic w =>
    simp only [forward, hroute] at hs; subst hs
    refine inv_cmd_nosend hi hc hr (Or.inr (Or.inr ⟨w, rfl⟩)) rfl rfl rfl ?_
    intro hb hw
    simp only [Option.some.injEq] at hw; subst hw
    have := route_panic_badSource hroute
    simp [hb] at this
  | send d e' =>
    obtain ⟨hdr, _, hh, hsrc, _⟩ := route_send hroute
    have hhdr : ∃ h, e.header = some h ∧ h.src = c.name := ⟨hdr, hh, hsrc⟩
    simp only [forward, hroute, deliver] at hs
    cases hget : nget s.names d with
    | some j =>
      simp only [hget] at hs
      obtain ⟨x, hx, hxn⟩ := hi.1 d j hget
      have hj : ∃ cj : Conn, (s.conns.set i { c with r := .reading })[j]? = some cj ∧ cj.name = d := by
        by_cases hij : i = j
        · subst hij
          rw [hc] at hx; cases hx
          exact ⟨{ c with r := .reading }, by simp [hlt], hxn⟩
        · exact ⟨x, by rw [List.getElem?_set_ne hij]; exact hx, hxn⟩
      obtain ⟨cj, hcj, hcjn⟩ := hj
      simp only [hcj] at hs
      split at hs
      · rename_i hroom
        subst hs
        exact inv_cmd_send (a := .enqueue d e') (dl := false)
          (cj' := { cj with queue := cj.queue ++ [e'], enq := cj.enq ++ [e'] })
          hi hc hr hcj hcjn hhdr (Or.inl ⟨hroom, rfl, rfl⟩) rfl rfl rfl hnone.symm
      · rename_i hroom
        subst hs
        exact inv_cmd_send (a := .drop d e') (dl := false)
          (cj' := { cj with dropped := cj.dropped ++ [e'] })
          hi hc hr hcj hcjn hhdr (Or.inr ⟨hroom, rfl, rfl⟩) rfl rfl rfl hnone.symm
    | none =>
      simp only [hget] at hs
      obtain ⟨f1, f2, f3⟩ := fresh_logs hi
      have hi1 : Inv cfg { s with conns := s.conns ++ [newDial d],
                                  names := nput s.names d s.conns.length } := by
        refine inv_append hi (newDial d) ?_ rfl rfl rfl rfl
        unfold ConnOk
        simp [f1, f2, f3, inflightW, pendR, newDial]
      have hnew : ((s.conns.set i { c with r := .reading }) ++ [newDial d])[
          (s.conns.set i { c with r := .reading }).length]? = some (newDial d) := by simp
      have hlen : (s.conns.set i { c with r := .reading }).length = s.conns.length := by simp
      rw [hlen] at hnew
      simp only [List.length_set] at hs
      simp only [hnew] at hs
      have hroom : (newDial d).queue.length < clientBufferSize := by simp [newDial, clientBufferSize]
      simp only [hroom, if_true] at hs
      subst hs
      have hc1 : (s.conns ++ [newDial d])[i]? = some c := by
        rw [List.getElem?_append_left hlt]; exact hc
      have hswap : s.conns.set i { c with r := .reading } ++ [newDial d] =
          (s.conns ++ [newDial d]).set i { c with r := .reading } :=
        (List.set_append_left _ _ hlt).symm
      refine inv_cmd_send (s := { s with conns := s.conns ++ [newDial d],
                                         names := nput s.names d s.conns.length })
        (cj := newDial d) (a := .enqueue d e') (dl := true)
        (cj' := { newDial d with queue := (newDial d).queue ++ [e'], enq := (newDial d).enq ++ [e'] })
        hi1 hc1 hr ?_ rfl hhdr (Or.inl ⟨hroom, rfl, rfl⟩) ?_ rfl rfl hnone.symm
      · rw [← hswap]; exact hnew
      · simp only [hswap]

theorem inv_step (cfg : Cfg) (s s' : State) (l : Label) (hi : Inv cfg s)
    (hs : step cfg s l = some s') : Inv cfg s' := by
  cases l with
  | attach p => exact inv_attach hi hs
  | readerGet i e => exact inv_readerGet hi hs
  | readerErr i => exact inv_readerErr hi hs
  | cmdRpc i ic nn => exact inv_cmdRpc hi hs
  | readerCtx i => exact inv_readerCtx hi hs
  | writerTake i => exact inv_writerTake hi hs
  | writerWrite i ok => exact inv_writerWrite hi hs
  | writerCtx i => exact inv_writerCtx hi hs
  | dialDone i ok => exact inv_dialDone hi hs
  | cmdErr i who => exact inv_cmdErr hi hs
  | reportAbandon i who => exact inv_reportAbandon hi hs
  | connExit i => exact inv_connExit hi hs
  | cancel => exact inv_cancel hi hs
  | serveExit => exact inv_serveExit hi hs

theorem inv_run {cfg : Cfg} {s s' : State} (ls : List Label) (hi : Inv cfg s)
    (hr : run cfg s ls = some s') : Inv cfg s' := by
  induction ls generalizing s with
  | nil => simp [run] at hr; subst hr; exact hi
  | cons l ls ih =>
    simp only [run] at hr
    cases hst : step cfg s l with
    | none => simp [hst] at hr
    | some s1 => rw [hst] at hr; exact ih (inv_step cfg s s1 l hi hst) hr

theorem inv_reachable {cfg : Cfg} {s : State} (h : Reachable cfg s) : Inv cfg s := by
  obtain ⟨ls, hr⟩ := h
  exact inv_run ls (inv_init cfg) hr

theorem run_append {cfg : Cfg} {a b c : State} {l1 l2 : List Label} (h1 : run cfg a l1 = some b)
    (h2 : run cfg b l2 = some c) : run cfg a (l1 ++ l2) = some c := by
  induction l1 generalizing a with
  | nil => simp [run] at h1; subst h1; simpa using h2
  | cons x xs ih =>
    simp only [run, List.cons_append] at *
    cases hx : step cfg a x with
    | none => simp [hx] at h1
    | some y => rw [hx] at h1; simp only [Option.bind_some] at *; exact ih h1

theorem reachable_step {cfg : Cfg} {s s' : State} {l : Label} (h : Reachable cfg s)
    (hs : step cfg s l = some s') : Reachable cfg s' := by
  obtain ⟨ls, hr⟩ := h
  exact ⟨ls ++ [l], run_append hr (by simp [run, hs])⟩

/-! ## everything routed to an object -/

/-- everything the serve loop decided to send to object `j`, enqueued or dropped, in order -/
def routedOf (log : List Ev) (j : Nat) : List Env := log.flatMap (fun ev => evEnq ev j ++ evDrop ev j)

theorem routedOf_eq_enqOf (log : List Ev) (j : Nat) (h : dropOf log j = []) :
    routedOf log j = enqOf log j := by
  induction log with
  | nil => rfl
  | cons ev log ih =>
    simp only [dropOf, List.flatMap_cons, List.append_eq_nil_iff] at h
    simp only [routedOf, enqOf, List.flatMap_cons] at *
    rw [ih h.2, h.1]; simp

/-! ## progress measures after cancellation -/

def rrank : RPc → Nat
  | .reading => 2
  | .sending _ => 1
  | .reporting => 1
  | .exited => 0
  | .notStarted => 0

def wrank : WPc → Nat
  | .writing _ => 2
  | .idle => 1
  | .reporting => 1
  | .exited => 0
  | .notStarted => 0

def drank : DPc → Nat
  | .dialing => 2
  | .reporting => 1
  | _ => 0

/-- steps still owed by the goroutines of one object before all of them have returned -/
def connRank (c : Conn) : Nat :=
  match c.d with
  | .dialing => 6
  | .reporting => 1
  | .failed => 0
  | _ => rrank c.r + wrank c.w

def srank : SPc → Nat
  | .serving => 1
  | .exited => 0

def totalRank (s : State) : Nat := (s.conns.map connRank).sum + srank s.serve

theorem sum_map_set {α} (l : List α) (f : α → Nat) (i : Nat) (a b : α) (h : l[i]? = some a) :
    ((l.set i b).map f).sum + f a = (l.map f).sum + f b := by
  induction l generalizing i with
  | nil => simp at h
  | cons x xs ih =>
    cases i with
    | zero => simp at h; subst h; simp; omega
    | succ n =>
      simp at h
      have := ih n h
      simp only [List.set_cons_succ, List.map_cons, List.sum_cons]
      omega

theorem exists_pos_of_sum_pos {α} (l : List α) (f : α → Nat) (h : 0 < (l.map f).sum) :
    ∃ (i : Nat) (a : α), l[i]? = some a ∧ 0 < f a := by
  induction l with
  | nil => simp at h
  | cons x xs ih =>
    simp only [List.map_cons, List.sum_cons] at h
    by_cases hx : 0 < f x
    · exact ⟨0, x, by simp, hx⟩
    · obtain ⟨i, a, hi, ha⟩ := ih (by omega)
      exact ⟨i + 1, a, by simpa using hi, ha⟩

theorem sum_zero_get {α} (l : List α) (f : α → Nat) (h : (l.map f).sum = 0) {i : Nat} {a : α}
    (ha : l[i]? = some a) : f a = 0 := by
  induction l generalizing i with
  | nil => simp at ha
  | cons x xs ih =>
    simp only [List.map_cons, List.sum_cons] at h
    cases i with
    | zero => simp at ha; subst ha; omega
    | succ n => simp at ha; exact ih (by omega) ha

theorem rrank_zero {r : RPc} (h : rrank r = 0) : r = .exited ∨ r = .notStarted := by
  cases r <;> simp_all [rrank]

theorem wrank_zero {w : WPc} (h : wrank w = 0) : w = .exited ∨ w = .notStarted := by
  cases w <;> simp_all [wrank]

theorem connRank_started {c : Conn} (h : c.d = .attached ∨ c.d = .up) :
    connRank c = rrank c.r + wrank c.w := by
  rcases h with h | h <;> simp [connRank, h]

theorem totalRank_set_lt {s : State} {i : Nat} {c c' : Conn} (hc : s.conns[i]? = some c)
    (h : connRank c' < connRank c) :
    totalRank { s with conns := s.conns.set i c' } < totalRank s := by
  have := sum_map_set s.conns connRank i c c' hc
  simp only [totalRank]
  omega

/-! ## every logged action is `forwardRpc`'s -/

/-- every event of the serve loop's history records the action `forward` computed for the
envelope received, for some table and some behaviour of the interceptor -/
def LogOk (cfg : Cfg) (s : State) : Prop :=
  ∀ ev ∈ s.log, ∃ ic nn t, ev.action = (forward cfg ic nn t ev.srcName ev.recv).action

theorem logOk_step {cfg : Cfg} {s s' : State} {l : Label} (h : LogOk cfg s)
    (hs : step cfg s l = some s') : LogOk cfg s' := by
  unfold step at hs; split at hs; (· contradiction)
  cases l with
  | cmdRpc i ic nn =>
    simp only at hs
    split at hs <;> (try contradiction)
    split at hs <;> (try contradiction)
    split at hs <;> (try contradiction)
    simp only [Option.some.injEq] at hs; subst hs
    intro ev hev
    rcases List.mem_append.mp hev with h1 | h1
    · exact h ev h1
    · simp only [List.mem_singleton] at h1; subst h1
      exact ⟨_, _, _, rfl⟩
  | _ =>
    simp only at hs <;> (repeat' split at hs) <;> (try contradiction) <;>
      (simp only [Option.some.injEq] at hs; subst hs) <;> exact h

theorem logOk_reachable {cfg : Cfg} {s : State} (hr : Reachable cfg s) : LogOk cfg s := by
  obtain ⟨ls, hrun⟩ := hr
  have : ∀ (ls : List Label) (a : State), LogOk cfg a → run cfg a ls = some s → LogOk cfg s := by
    intro ls
    induction ls with
    | nil => intro a ha hr; simp [run] at hr; subst hr; exact ha
    | cons x xs ih =>
      intro a ha hr
      simp only [run] at hr
      cases hx : step cfg a x with
      | none => simp [hx] at hr
      | some b => rw [hx] at hr; exact ih b (logOk_step ha hx) hr
  exact this ls init (by intro ev hev; simp [init] at hev) hrun

/-! ## `forwardRpc` touches only its target -/

theorem deliver_other (t : Table) (d : Bytes) (e : Env) (k : Nat) (hk : k < t.conns.length)
    (h : (deliver t d e).target ≠ some k) : (deliver t d e).table.conns[k]? = t.conns[k]? := by
  unfold deliver at *
  cases hget : nget t.names d with
  | some j =>
    simp only [hget] at h ⊢
    cases hj : t.conns[j]? with
    | none => rfl
    | some c =>
      simp only [hj] at h ⊢
      have hne : j ≠ k := by
        intro hjk; apply h; split <;> simp [hjk]
      split <;> exact List.getElem?_set_ne hne
  | none =>
    simp only [hget] at h ⊢
    have hne : t.conns.length ≠ k := by omega
    have hnew : (t.conns ++ [newDial d])[t.conns.length]? = some (newDial d) := by simp
    simp only [hnew]
    split <;> (simp only []; rw [List.getElem?_set_ne hne, List.getElem?_append_left hk])

theorem forward_other (cfg : Cfg) (ic nn) (t : Table) (src : Bytes) (e : Env) (k : Nat)
    (hk : k < t.conns.length) (h : (forward cfg ic nn t src e).target ≠ some k) :
    (forward cfg ic nn t src e).table.conns[k]? = t.conns[k]? := by
  unfold forward at *
  split
  · rfl
  · rfl
  · rfl
  · rename_i d e' hroute
    simp only [hroute] at h
    exact deliver_other _ _ _ _ hk h

end Goat.Proxy
