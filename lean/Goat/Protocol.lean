/-
  The wire protocol of README.md ("Protocol"), per stream id and direction, as two automata over
  envelope *shapes*. These are the executable monitors `accC` / `accS` that the driver runs on
  every wire tap, and the acceptance predicates of the conformance theorems.
-/
import Goat.Basic
namespace Goat.Protocol
open Goat

/-- what the automata look at in an envelope -/
structure Shape where
  hasHeader : Bool := true
  hasBody : Bool := false
  hasTrailer : Bool := false
  hasStatus : Bool := false
  statusOk : Bool := true       -- status code = OK (meaningful when hasStatus)
  isReset : Bool := false
  hasMeta : Bool := false       -- header carries metadata key/values
  route : Bytes × Bytes × Bytes := ([], [], [])   -- (method, source, destination)
  deriving DecidableEq, Repr, Inhabited

def shapeOf (e : Env) : Shape :=
  { hasHeader := e.header.isSome
    hasBody := e.body.isSome
    hasTrailer := e.trailer.isSome
    hasStatus := e.status.isSome
    statusOk := match e.status with | some s => s.code = 0 | none => true
    isReset := e.reset.isSome
    hasMeta := match e.header with | some h => !h.headers.isEmpty | none => false
    route := match e.header with | some h => (h.method, h.src, h.dst) | none => ([], [], []) }

/-! ### client → server -/

inductive StC where
  | start
  | unaryDone (r : Bytes × Bytes × Bytes)
  | open_ (r : Bytes × Bytes × Bytes)
  | halfClosed (r : Bytes × Bytes × Bytes)
  | resetDone
  deriving DecidableEq, Repr

def stepC (st : StC) (s : Shape) : Option StC :=
  if !s.hasHeader then none else
  match st with
  | .start =>
    if s.isReset || s.hasTrailer then none
    else if s.hasBody then some (.unaryDone s.route)       -- unary request: header and body, once
    else some (.open_ s.route)                              -- stream open: header only
  | .unaryDone _ => none                                    -- exactly one request
  | .open_ r =>
    if s.route ≠ r then none
    else if s.isReset then (if s.hasBody || s.hasTrailer then none else some .resetDone)
    else if s.hasTrailer then (if s.hasBody then none else if s.hasStatus then some (.halfClosed r) else none)
    else if s.hasBody then some (.open_ r)
    else none                                               -- a second header-only envelope
  | .halfClosed r =>
    if s.route ≠ r then none
    else if s.isReset && !s.hasBody && !s.hasTrailer then some .resetDone
    else none                                               -- nothing but the final reset after the trailer
  | .resetDone => none                                      -- the reset is final

def runC : StC → List Shape → Option StC
  | st, [] => some st
  | st, s :: t => (stepC st s).bind (fun st' => runC st' t)

def accC (l : List Shape) : Bool := (runC .start l).isSome

/-! ### server → client -/

inductive StS where
  | start
  | open_ (r : Bytes × Bytes × Bytes)       -- at least one envelope sent, no trailer yet
  | closed (r : Bytes × Bytes × Bytes)      -- trailer sent
  | resetOnly (r : Bytes × Bytes × Bytes)   -- the id was never (or is no longer) known: only resets
  deriving DecidableEq, Repr

/-- `unary` says whether the request on this id was a unary request (decided by the client direction). -/
def stepS (unary : Bool) (st : StS) (s : Shape) : Option StS :=
  if !s.hasHeader then none else
  match st with
  | .start =>
    if s.isReset then (if s.hasBody || s.hasStatus then none else some (.resetOnly s.route))
    else if unary then
      -- exactly one response: header, trailer, and a body or a non-OK status
      (if s.hasTrailer && (s.hasBody || (s.hasStatus && !s.statusOk)) then some (.closed s.route) else none)
    else if s.hasTrailer then (if s.hasBody then none else if s.hasStatus then some (.closed s.route) else none)
    else some (.open_ s.route)                              -- header-only (SendHeader) or header+body
  | .open_ r =>
    if s.route ≠ r then none
    else if s.hasMeta then none                             -- response metadata only on the first envelope
    else if s.isReset then none                             -- a reset must not overtake the trailer
    else if s.hasTrailer then (if s.hasBody then none else if s.hasStatus then some (.closed r) else none)
    else if s.hasBody then some (.open_ r)
    else none                                               -- a second header-only envelope
  | .closed r =>
    if unary then none                                      -- exactly one response
    else if s.isReset && !s.hasBody && !s.hasStatus && !s.hasMeta && s.route.2 = r.2 then some (.closed r)
    else none                                               -- after the trailer only resets
  | .resetOnly r =>
    if s.isReset && !s.hasBody && !s.hasStatus && s.route.2 = r.2 then some (.resetOnly r) else none

def runS (unary : Bool) : StS → List Shape → Option StS
  | st, [] => some st
  | st, s :: t => (stepS unary st s).bind (fun st' => runS unary st' t)

def accS (unary : Bool) (l : List Shape) : Bool := (runS unary .start l).isSome

theorem runS_append (u : Bool) (st : StS) (a b : List Shape) :
    runS u st (a ++ b) = (runS u st a).bind (fun st' => runS u st' b) := by
  induction a generalizing st with
  | nil => simp [runS]
  | cons s t ih =>
    simp only [List.cons_append, runS]
    cases stepS u st s with
    | none => simp
    | some st' => simp [ih]

theorem runC_append (st : StC) (a b : List Shape) :
    runC st (a ++ b) = (runC st a).bind (fun st' => runC st' b) := by
  induction a generalizing st with
  | nil => simp [runC]
  | cons s t ih =>
    simp only [List.cons_append, runC]
    cases stepC st s with
    | none => simp
    | some st' => simp [ih]

end Goat.Protocol
