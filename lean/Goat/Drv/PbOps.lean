/-
  Driver ops for C19 (protobuf codec and HTTP request validation).

  Envelope text (fields separated by "|"; byte strings are lower-case hex, "-" = empty; "_" = empty list; "~" = absent sub-message):
      <id>|<header>|<status>|<body>|<trailer>|<reset>
      id      := decimal
      header  := "~" | method ":" source ":" destination ":" kvs ":" proxy_record ":" proxy_next
      status  := "~" | code ":" message ":" details          code := decimal, possibly negative
      body    := "~" | hex(data)
      trailer := "~" | kvs
      reset   := "~" | hex(type)
      kvs     := "_" | kv (";" kv)*        kv := hex(key) "=" hex(value)
      proxy_record, proxy_next := "_" | hex ("," hex)*
      details := "_" | any ("," any)*      any := hex(type_url) "=" hex(value)

  ops:
      pbenc   <envelope text>              → hex(encode) | "ERR" (a string field is not valid UTF-8: Marshal fails)
      pbdec   hex(bytes)                   → <envelope text> | "ERR"
      httpcode <body> "|" <handover>       → "400" | "200:" hex(key) | "503"
                body := "nil" | "rderr" | hex(bytes);  handover := "d" (a reader takes it) | "c" (connection closed) | "x" (request cancelled)
                the source mapper of the harness: a source starting with "!" is rejected, any other maps to itself
-/
import Goat.Drv.Codec
import Goat.Proto
import Goat.Transport
namespace Goat.Drv
open Goat Goat.Proto

/-- tail-recursive hex reader (bodies up to 1 MiB) -/
def hexGo : List Char → List Nat → Option (List Nat)
  | [], acc => some acc.reverse
  | [_], _ => none
  | a :: b :: t, acc =>
    match hexVal a, hexVal b with
    | some x, some y => hexGo t ((x * 16 + y) :: acc)
    | _, _ => none

def parseHexFast (s : String) : Option Bytes := if s = "-" then some [] else hexGo s.toList []

def hexOutGo : List Nat → List Char → List Char
  | [], acc => acc.reverse
  | b :: t, acc => hexOutGo t (hexDigit (b % 16) :: hexDigit (b / 16) :: acc)

def hexFast (bs : Bytes) : String := if bs.isEmpty then "-" else String.ofList (hexOutGo bs [])

def parseKVpair (e : String) : Option KV :=
  match e.splitOn "=" with
  | [k, v] => do let k' ← parseHexFast k; let v' ← parseHexFast v; some { key := k', value := v' }
  | _ => none

def parseAnyPair (e : String) : Option AnyMsg :=
  match e.splitOn "=" with
  | [k, v] => do let k' ← parseHexFast k; let v' ← parseHexFast v; some { typeUrl := k', value := v' }
  | _ => none

def parsePbHeader (s : String) : Option (Option Header) :=
  if s = "~" then some none else
  match s.splitOn ":" with
  | [m, a, b, kvs, rec, nxt] => do
    let m ← parseHexFast m; let a ← parseHexFast a; let b ← parseHexFast b
    let kvs ← parseList parseKVpair ";" kvs
    let rec ← parseList parseHexFast "," rec
    let nxt ← parseList parseHexFast "," nxt
    some (some { method := m, src := a, dst := b, headers := kvs, record := rec, next := nxt })
  | _ => none

def parsePbStatus (s : String) : Option (Option PStatus) :=
  if s = "~" then some none else
  match s.splitOn ":" with
  | [c, m, d] => do
    let c ← c.toInt?; let m ← parseHexFast m; let d ← parseList parseAnyPair "," d
    some (some { code := c, message := m, details := d })
  | _ => none

def parseOptHex (s : String) : Option (Option Bytes) :=
  if s = "~" then some none else (parseHexFast s).map some

def parseOptKVs (s : String) : Option (Option (List KV)) :=
  if s = "~" then some none else (parseList parseKVpair ";" s).map some

def parseRpc (s : String) : Option Rpc :=
  match s.splitOn "|" with
  | [id, h, st, b, t, r] => do
    let id ← id.toNat?
    let h ← parsePbHeader h; let st ← parsePbStatus st; let b ← parseOptHex b
    let t ← parseOptKVs t; let r ← parseOptHex r
    some { id := id, header := h, status := st, body := b, trailer := t, reset := r }
  | _ => none

def showKVpair (kv : KV) : String := hexFast kv.key ++ "=" ++ hexFast kv.value
def showAnyPair (a : AnyMsg) : String := hexFast a.typeUrl ++ "=" ++ hexFast a.value

def showPbHeader : Option Header → String
  | none => "~"
  | some h => ":".intercalate [hexFast h.method, hexFast h.src, hexFast h.dst, showList showKVpair ";" h.headers,
                               showList hexFast "," h.record, showList hexFast "," h.next]

def showPbStatus : Option PStatus → String
  | none => "~"
  | some s => ":".intercalate [toString s.code, hexFast s.message, showList showAnyPair "," s.details]

def showOptHex : Option Bytes → String
  | none => "~"
  | some b => hexFast b

def showOptKVs : Option (List KV) → String
  | none => "~"
  | some t => showList showKVpair ";" t

def showRpc (m : Rpc) : String :=
  "|".intercalate [toString m.id, showPbHeader m.header, showPbStatus m.status, showOptHex m.body,
                   showOptKVs m.trailer, showOptHex m.reset]

/-- `proto.Marshal` fails exactly when a `string` field holds invalid UTF-8 -/
def marshalOK (m : Rpc) : Bool :=
  (match m.header with
   | none => true
   | some h => validUTF8 h.method && validUTF8 h.src && validUTF8 h.dst &&
       h.headers.all (fun kv => validUTF8 kv.key && validUTF8 kv.value) &&
       h.record.all validUTF8 && h.next.all validUTF8) &&
  (match m.status with
   | none => true
   | some s => validUTF8 s.message && s.details.all (fun a => validUTF8 a.typeUrl)) &&
  (match m.trailer with
   | none => true
   | some t => t.all (fun kv => validUTF8 kv.key && validUTF8 kv.value)) &&
  (match m.reset with
   | none => true
   | some t => validUTF8 t)

/-- the harness's SourceToAddress -/
def drvMapper (src : Bytes) : Option Bytes := if src.head? = some 33 then none else some src

def parseHttpBody (s : String) : Option Transport.HttpBody :=
  if s = "nil" then some .absent else if s = "rderr" then some .readError else (parseHexFast s).map .data

def parseHandover (s : String) : Option Transport.Handover :=
  match s with
  | "d" => some .taken | "c" => some .connClosed | "x" => some .cancelled | _ => none

def evalPb (op input : String) : Option String :=
  match op with
  | "pbenc" => (parseRpc input).map (fun m => if marshalOK m then hexFast (encode m) else "ERR")
  | "pbdec" => (parseHexFast input).map (fun b => match decode b with | some m => showRpc m | none => "ERR")
  | "httpcode" => match input.splitOn "|" with
    | [b, h] => do
      let b ← parseHttpBody b; let h ← parseHandover h
      let r := Transport.httpServe Transport.protoCodec Transport.rpcSrc drvMapper b h
      some (match r.delivered with
        | some (key, _) => toString r.status ++ ":" ++ hexFast key
        | none => toString r.status)
    | _ => none
  | _ => none

end Goat.Drv
