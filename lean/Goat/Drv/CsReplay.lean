/-
  Strand C of the tie for ONE client stream: replay of a logged run of the real `clientStream`
  (internal/client/stream.go) against `Goat.ClientStream.step` under `csCfg Cfg.good`.

  The log holds, in the order of their emission,
    * the hook events of the read loop (cs.rl.read / get / readerr / ctx / put, cs.fin.*, mux.unregister),
    * the hook events of the user calls (cs.recv.checked / ret, cs.send.checked / fail / ret,
      cs.close.checked / ret),
    * pseudo-events the harness injects in the same log: the call and the return of every user call
      (with the value the USER saw), `cancel` / `cancelled` around the caller's cancel(), and the
      transport tap's `w:` events (an envelope of this id was accepted by the transport).

  What the order of the log means (DESIGN.md 2.3 C): events of one goroutine are in program order;
  an event is emitted AFTER the operation it reports (and a call pseudo-event BEFORE the call
  starts). So every label of the model lies in a window of the log: after the previous event of its
  goroutine, before the next one. The replay searches for an interleaving of the labels that
  respects these windows and is a run of the model with exactly the logged results:

    * labels whose guard and effect concern only their own goroutine, or whose effect only enables
      others and really takes place after the emission, are taken when their event is consumed
      (rlGet, rlGetErr, rlGetCtx, rlCtx, finLock, finCloseRCh, finCancel, finSetDone, recvTake,
      recvClosed, sendWrite, closeWrite, finUnregister after a reset);
    * rlGetErr floats between `cs.rl.read` and `cs.rl.readerr err` and is only
      taken while the model's context is not done (environment assumption E1, see `fires`);
    * labels that READ state other goroutines write float inside their window: the done-checks
      (recvCheck, sendCheck, closeCheck), recvCtx, headerWait, trailerGet, the finishing block's
      decision about the reset (finRst / finUnregister from fin1), and the two labels whose carrier
      event brackets the effect: callerCancel (between `cancel` and `cancelled`) and sendTeardown
      (between `cs.send.fail` and `cs.send.ret fail`: its cancel() comes before — since repair 24 — or
      after the `mux.unregister` event of the failing SendMsg; the model's label is both at once).

  The search is a depth-first search over (position in the log, model state, per-goroutine progress)
  with memoisation (the guards of `step` read only control fields, and every result a label produces
  is compared with the log at once, so the key below determines the future) and a node budget.
  Verdicts: accept:<summary> | reject:<position>:<event>:<state> | inconclusive:<why>.
-/
import Goat.ClientStream
import Goat.CfgMap
import Goat.Drv.Codec
namespace Goat.Drv.CsReplay
open Goat Goat.ClientStream

/-- the configuration of the repaired tree (the one the property theorems are instantiated at) -/
def cfg : ClientStream.Cfg := csCfg Goat.Cfg.good

/-- an error as the hooks and the harness render it: nil | eof | c<grpc code> -/
inductive E where
  | nil | eof | code (c : Nat)
  deriving DecidableEq, Repr

/-- The harness's peers only use status codes that no client-made error uses, so the code tells
    the model's terminal status. -/
def E.toTerm : E → Option Term
  | .nil => none
  | .eof => some .eof
  | .code c =>
    if c = 14 then some .unavailable
    else if c = 1 ∨ c = 4 then some .ctxErr
    else if c = 2 then some .muxErr
    else if c = 13 then some .internalMeta
    else some (.status c)

def E.toRes (e : E) : Res := resOfRErr e.toTerm

/-- which return statement of RecvMsg -/
inductive RPath where
  | done | ctx | ctxdone | closed | msg
  deriving DecidableEq, Repr

inductive Ev where
  -- read loop and finishing block
  | rd | get (e : InEnv) (trEmpty : Bool) | rerr (ctx : Bool) | rlctx | put
  | closerch | unreg (present : Bool) | teardown (rst : Bool) | findone | wr
  -- RecvMsg
  | rc | rchk | rret (p : RPath) (e : E) | rrMsg (b : Bytes) | rrErr (e : E)
  -- SendMsg
  | sc (b : Option Bytes) | schk | sfail (marshal : Bool) | wb (b : Bytes)
  | sretDone (e : E) | sretOk | sretFail | sr (e : E)
  -- CloseSend
  | cc | cchk | wh | cretDone | cr (isNil : Bool)
  -- the caller's context
  | cancel | cancelled
  -- Header(), Trailer(): k numbers the call
  | hc (k : Nat) | hr (k : Nat) (hasHdr : Bool) (e : E) | tc (k : Nat) | tr (k : Nat) (md : Bool)
  deriving DecidableEq, Repr

/-- goroutine (role) of an event: 0 read loop, 1 receiver, 2 sender, 3 environment, 4 Header/Trailer callers.
    `unreg` belongs to the read loop or to the sender. -/
def Ev.thread : Ev → Nat
  | .rd | .get _ _ | .rerr _ | .rlctx | .put | .closerch | .unreg _ | .teardown _ | .findone | .wr => 0
  | .rc | .rchk | .rret _ _ | .rrMsg _ | .rrErr _ => 1
  | .sc _ | .schk | .sfail _ | .wb _ | .sretDone _ | .sretOk | .sretFail | .sr _
  | .cc | .cchk | .wh | .cretDone | .cr _ => 2
  | .cancel | .cancelled => 3
  | .hc _ | .hr _ _ _ | .tc _ | .tr _ _ => 4

/-- progress of the goroutine in RecvMsg -/
inductive RPc where
  | idle
  | called                         -- `rc` logged, recvCheck not taken yet
  | doneRes (r : Res)              -- recvCheck found the stream done
  | notDone                        -- recvCheck passed (model: RecvPc.checked), `cs.recv.checked` not yet logged
  | checked                        -- at the select
  | fired (r : Res) (p : RPath)    -- recvCtx / recvClosed / recvTake taken, `cs.recv.ret` not yet logged
  | libRet (r : Res)               -- `cs.recv.ret` logged, the harness's own observation outstanding
  deriving DecidableEq, Repr

/-- progress of the goroutine in SendMsg / CloseSend -/
inductive SPc where
  | idle
  | sCalled (b : Option Bytes) | sDoneRes (t : Option Term) | sNotDone (b : Option Bytes) | sChecked (b : Option Bytes)
  | sWrote | sFailed | sUnreg | sTorn | sTornEarly
  | sLibOk | sLibFail | sLibDone (e : E)
  | cCalled | cDoneRes | cNotDone | cChecked | cWrote | cLibDone
  deriving DecidableEq, Repr

structure Aux where
  k : Nat
  isHdr : Bool
  fired : Bool
  deriving DecidableEq, Repr

structure Pc where
  putDue : Bool := false        -- recvTake taken at `cs.recv.ret msg`, the read loop's `cs.rl.put` outstanding
  wrSeen : Bool := false        -- the tap saw the reset
  unregDue : Bool := false      -- finUnregister taken (decision: no reset), its `mux.unregister` outstanding
  rerrDue : Bool := false       -- rlGetErr taken, its `cs.rl.readerr err` outstanding
  inRead : Bool := false        -- `cs.rl.read` logged: the read loop is inside `rw.Read`
  trEmpty : Bool := false       -- the terminal envelope's trailer carries no metadata: Trailer() answers nil for it
  cancelOpen : Bool := false    -- between `cancel` and `cancelled`
  cancelFired : Bool := false
  r : RPc := .idle
  sn : SPc := .idle
  aux : List Aux := []
  deriving DecidableEq, Repr

structure Node where
  s : State
  pc : Pc

/-! ## memo key -/

def b2n (b : Bool) : Nat := if b then 1 else 0

def termCode : Option Term → Nat
  | none => 0 | some .eof => 1 | some (.status _) => 2 | some .unavailable => 3
  | some .ctxErr => 4 | some .muxErr => 5 | some .internalMeta => 6

def obCode : Option Bool → Nat
  | none => 0 | some false => 1 | some true => 2

def rlCode : Rl → Nat
  | .reading => 0 | .offering _ => 1 | .toFinish => 2 | .fin0 => 3 | .fin1 => 4 | .fin2 => 5
  | .fin3 => 6 | .fin4 => 7 | .exited => 8

def sndCode : SendPc → Nat
  | .idle => 0 | .sendChecked => 1 | .sendTearing => 2 | .closeChecked d => 3 + b2n d

def resCode : Res → Nat
  | .msg _ => 0 | .nilNoMsg => 1 | .panic => 2 | .err t => 3 + termCode (some t)

def pathCode : RPath → Nat
  | .done => 0 | .ctx => 1 | .ctxdone => 2 | .closed => 3 | .msg => 4

def rpcCode : RPc → Nat × Nat × Nat
  | .idle => (0, 0, 0) | .called => (1, 0, 0) | .doneRes r => (2, resCode r, 0) | .notDone => (3, 0, 0)
  | .checked => (4, 0, 0) | .fired r p => (5, resCode r, pathCode p) | .libRet r => (6, resCode r, 0)

def spcCode : SPc → Nat
  | .idle => 0 | .sCalled _ => 1 | .sDoneRes _ => 2 | .sNotDone _ => 3 | .sChecked _ => 4 | .sWrote => 5
  | .sFailed => 6 | .sUnreg => 7 | .sTorn => 8 | .sLibOk => 9 | .sLibFail => 10 | .sLibDone _ => 11
  | .cCalled => 12 | .cDoneRes => 13 | .cNotDone => 14 | .cChecked => 15 | .cWrote => 16 | .cLibDone => 17
  | .sTornEarly => 18

/-- Everything the future of the search depends on, given the position in the log: the control
    fields of the model state (the histories are write-only for `step`, and every entry appended to
    them is compared with the log when it is made) and the progress of every goroutine. -/
def Node.key (n : Node) : Nat :=
  let s := n.s
  let p := n.pc
  let (rc, rr, rp) := rpcCode p.r
  let auxBits := p.aux.foldl (fun k a => k * 2 + b2n a.fired) 1
  [ rlCode s.rl, b2n s.mu + 2 * b2n s.done + 4 * b2n s.ctxDone + 8 * b2n s.rChClosed,
    b2n s.ready + 2 * b2n s.headerSet + 4 * b2n s.readyTwice + 8 * b2n s.rstSent,
    termCode s.pending, termCode s.rErr, termCode s.headerErr, obCode s.trailerLocal, obCode s.trailerStored,
    (match s.recv with | .idle => 0 | .checked => 1), sndCode s.snd,
    b2n s.cancelEarly + 2 * b2n s.ctxByCaller + 4 * b2n s.ctxBySend + 8 * b2n s.ctxByFin,
    b2n p.putDue + 2 * b2n p.wrSeen + 4 * b2n p.unregDue + 8 * b2n p.trEmpty + 16 * b2n p.rerrDue,
    b2n p.inRead,
    b2n p.cancelOpen + 2 * b2n p.cancelFired, rc, rr, rp, spcCode p.sn ].foldl (fun k v => k * 32 + v) auxBits

/-! ## look-ahead in a goroutine's own future -/

def nextOf (t : Nat) (q : List Ev) : Option Ev := q.find? (fun e => e.thread = t)

/-- the read loop's next event while it is in its loop (a `mux.unregister` met on the way is the sender's) -/
def nextRl (q : List Ev) : Option Ev :=
  q.find? (fun e => e.thread == 0 && (match e with | .unreg _ => false | _ => true))

def auxExpect (q : List Ev) (k : Nat) : Option Ev :=
  q.find? (fun e => match e with | .hr k' _ _ => k' = k | .tr k' _ => k' = k | _ => false)

def lastRes (s : State) : Res := s.recvResults.getLast?.getD .panic

/-! ## floating labels: the choices that may be taken in the gap before the next event -/

def fires (q : List Ev) (n : Node) : List (Nat × Node) :=
  let s := n.s
  let p := n.pc
  -- the caller's cancel()
  let env : List (Nat × Node) :=
    if p.cancelOpen ∧ ¬ p.cancelFired then
      (step cfg s .callerCancel).toList.map (fun s' => (3, { s := s', pc := { p with cancelFired := true } }))
    else []
  -- the finishing block evaluates `sendRst`
  let rl : List (Nat × Node) :=
    if s.rl = .fin1 then
      (step cfg s .finRst).toList.map (fun s' => (0, { s := s', pc := p })) ++
      (step cfg s .finUnregister).toList.map (fun s' => (0, { s := s', pc := { p with unregDue := true } }))
    else if s.rl = .reading ∧ p.inRead ∧ ¬ p.rerrDue ∧ s.ctxDone = false ∧ nextRl q = some (.rerr false) then
      -- Environment assumption E1 (Goat.Cfg.closedPrefersCtx, multiplexer.go l.193-198): `rw.Read` fails with
      -- a non-context error only if the stream's context was not done when it looked. The instant it
      -- looked lies between `cs.rl.read` and `cs.rl.readerr`: the label floats.
      (step cfg s .rlGetErr).toList.map (fun s' => (0, { s := s', pc := { p with rerrDue := true } }))
    else []
  -- RecvMsg
  let recv : List (Nat × Node) :=
    match p.r with
    | .called =>
      match step cfg s .recvCheck, nextOf 1 q with
      | some s', some .rchk =>
        if s'.recv = .checked then [(1, { s := s', pc := { p with r := .notDone } })] else []
      | some s', some (.rret .done e) =>
        if s'.recv = .idle ∧ lastRes s' = e.toRes then [(1, { s := s', pc := { p with r := .doneRes e.toRes } })] else []
      | _, _ => []
    | .checked =>
      match nextOf 1 q with
      | some (.rret .ctx e) =>
        match step cfg s .recvCtx with
        | some s' =>
          if s.done = false ∧ lastRes s' = .err .ctxErr ∧ e.toRes = .err .ctxErr then
            [(1, { s := s', pc := { p with r := .fired (.err .ctxErr) .ctx } })] else []
        | none => []
      | some (.rret .ctxdone e) =>
        match step cfg s .recvCtx with
        | some s' =>
          if s.done = true ∧ lastRes s' = e.toRes then
            [(1, { s := s', pc := { p with r := .fired e.toRes .ctxdone } })] else []
        | none => []
      | _ => []
    | _ => []
  -- SendMsg / CloseSend
  let send : List (Nat × Node) :=
    match p.sn with
    | .sCalled b =>
      match step cfg s .sendCheck, nextOf 2 q with
      | some s', some .schk =>
        if s'.snd = .sendChecked then [(2, { s := s', pc := { p with sn := .sNotDone b } })] else []
      | some s', some (.sretDone e) =>
        if s'.snd = .idle ∧ s.rErr = e.toTerm then [(2, { s := s', pc := { p with sn := .sDoneRes s.rErr } })] else []
      | _, _ => []
    | .sUnreg =>
      (step cfg s .sendTeardown).toList.map (fun s' => (2, { s := s', pc := { p with sn := .sTorn } }))
    | .sFailed =>
      -- cs.teardown(false) cancels the stream context BEFORE it unregisters the call (repair 24): the
      -- label's effect may precede the sender's `mux.unregister` event
      (step cfg s .sendTeardown).toList.map (fun s' => (2, { s := s', pc := { p with sn := .sTornEarly } }))
    | .cCalled =>
      match step cfg s .closeCheck, nextOf 2 q with
      | some s', some .cchk =>
        if s'.snd = .closeChecked false then [(2, { s := s', pc := { p with sn := .cNotDone } })] else []
      | some s', some .cretDone =>
        if s'.snd = .idle then [(2, { s := s', pc := { p with sn := .cDoneRes } })] else []
      | _, _ => []
    | _ => []
  -- Header() / Trailer()
  let aux : List (Nat × Node) :=
    p.aux.filterMap (fun a =>
      if a.fired then none else
      let mark := p.aux.map (fun a' => if a'.k = a.k then { a' with fired := true } else a')
      match auxExpect q a.k with
      | some (.hr _ h e) =>
        if a.isHdr then
          match step cfg s .headerWait with
          | some s' => if s.headerSet = h ∧ s.headerErr = e.toTerm then some (4, { s := s', pc := { p with aux := mark } }) else none
          | none => none
        else none
      | some (.tr _ md) =>
        if a.isHdr then none else
          match step cfg s .trailerGet with
          | some s' =>
            let model := trailerResult cfg s.trailerStored
            let want : Bool := model = .md ∧ ¬ p.trEmpty
            if model ≠ .panic ∧ want = md then some (4, { s := s', pc := { p with aux := mark } }) else none
          | none => none
      | _ => none)
  env ++ rl ++ recv ++ send ++ aux

/-! ## consuming the next event of the log -/

def one (o : Option State) (pc : Pc) : List Node := o.toList.map (fun s' => { s := s', pc := pc })

def consume (wfail : Bool) (q' : List Ev) (n : Node) : Ev → List Node
  | .rd =>
    -- the read loop is at the top of its `for`: a body it offered has been taken and logged
    if n.s.rl = .reading ∧ ¬ n.pc.putDue ∧ ¬ n.pc.inRead then [{ n with pc := { n.pc with inRead := true } }] else []
  | .get e te =>
    if ¬ n.pc.inRead ∨ n.pc.rerrDue then [] else
    match step cfg n.s (.rlGet e) with
    | some s' =>
      let te' := if s'.rl = .toFinish ∧ s'.trailerLocal.isSome then te else n.pc.trEmpty
      [{ s := s', pc := { n.pc with trEmpty := te', inRead := false } }]
    | none => []
  | .rerr true =>
    if ¬ n.pc.inRead ∨ n.pc.rerrDue then [] else one (step cfg n.s .rlGetCtx) { n.pc with inRead := false }
  | .rerr false =>
    if n.pc.rerrDue then [{ n with pc := { n.pc with rerrDue := false, inRead := false } }] else []
  | .rlctx => one (step cfg n.s .rlCtx) n.pc
  | .put =>
    if n.pc.putDue then [{ n with pc := { n.pc with putDue := false } }]
    else match n.s.rl, n.pc.r, nextOf 1 q' with
      | .offering b, .checked, some (.rret .msg _) =>
        one (step cfg n.s .recvTake) { n.pc with r := .fired (.msg b) .msg }
      | _, _, _ => []
  | .closerch =>
    if n.pc.putDue ∨ n.pc.rerrDue then [] else
    one ((step cfg n.s .finLock).bind (fun s1 => step cfg s1 .finCloseRCh)) n.pc
  | .wr =>
    if n.pc.wrSeen then [] else
    match n.s.rl with
    | .fin1 => one (step cfg n.s .finRst) { n.pc with wrSeen := true }
    | .fin2 => [{ n with pc := { n.pc with wrSeen := true } }]
    | _ => []
  | .unreg _ =>
    let byRl : List Node :=
      if n.pc.unregDue then [{ n with pc := { n.pc with unregDue := false } }]
      else if n.s.rl = .fin2 ∧ (wfail ∨ n.pc.wrSeen) then one (step cfg n.s .finUnregister) n.pc
      else []
    let bySender : List Node :=
      if n.pc.sn = .sFailed then [{ n with pc := { n.pc with sn := .sUnreg } }]
      else if n.pc.sn = .sTornEarly then [{ n with pc := { n.pc with sn := .sTorn } }] else []
    byRl ++ bySender
  | .teardown rst =>
    if n.pc.unregDue ∨ n.s.rstSent ≠ rst then [] else one (step cfg n.s .finCancel) n.pc
  | .findone => one (step cfg n.s .finSetDone) n.pc
  | .rc => if n.pc.r = .idle then [{ n with pc := { n.pc with r := .called } }] else []
  | .rchk => if n.pc.r = .notDone then [{ n with pc := { n.pc with r := .checked } }] else []
  | .rret .done e =>
    match n.pc.r with
    | .doneRes r => if r = e.toRes then [{ n with pc := { n.pc with r := .libRet r } }] else []
    | _ => []
  | .rret .ctx _ =>
    match n.pc.r with
    | .fired r .ctx => [{ n with pc := { n.pc with r := .libRet r } }]
    | _ => []
  | .rret .ctxdone _ =>
    match n.pc.r with
    | .fired r .ctxdone => [{ n with pc := { n.pc with r := .libRet r } }]
    | _ => []
  | .rret .closed e =>
    if n.pc.r = .checked then
      match step cfg n.s .recvClosed with
      | some s' =>
        if lastRes s' = e.toRes ∧ lastRes s' ≠ .panic then [{ s := s', pc := { n.pc with r := .libRet e.toRes } }] else []
      | none => []
    else []
  | .rret .msg _ =>
    match n.pc.r, n.s.rl with
    | .fired (.msg b) .msg, _ => [{ n with pc := { n.pc with r := .libRet (.msg b) } }]
    | .checked, .offering b =>
      one (step cfg n.s .recvTake) { n.pc with r := .libRet (.msg b), putDue := true }
    | _, _ => []
  | .rrMsg b =>
    match n.pc.r with
    | .libRet (.msg b') => if b = b' then [{ n with pc := { n.pc with r := .idle } }] else []
    | _ => []
  | .rrErr e =>
    match n.pc.r with
    | .libRet (.msg _) => []
    | .libRet r => if r = e.toRes then [{ n with pc := { n.pc with r := .idle } }] else []
    | _ => []
  | .sc b => if n.pc.sn = .idle then [{ n with pc := { n.pc with sn := .sCalled b } }] else []
  | .schk =>
    match n.pc.sn with
    | .sNotDone b => [{ n with pc := { n.pc with sn := .sChecked b } }]
    | _ => []
  | .sfail marshal =>
    match n.pc.sn with
    | .sChecked b =>
      if marshal = b.isNone then one (step cfg n.s (.sendWrite (b.getD []) false)) { n.pc with sn := .sFailed } else []
    | _ => []
  | .wb b' =>
    match n.pc.sn with
    | .sChecked (some b) => if b = b' then one (step cfg n.s (.sendWrite b true)) { n.pc with sn := .sWrote } else []
    | _ => []
  | .sretDone e =>
    match n.pc.sn with
    | .sDoneRes t => if t = e.toTerm then [{ n with pc := { n.pc with sn := .sLibDone e } }] else []
    | _ => []
  | .sretOk => if n.pc.sn = .sWrote then [{ n with pc := { n.pc with sn := .sLibOk } }] else []
  | .sretFail => if n.pc.sn = .sTorn then [{ n with pc := { n.pc with sn := .sLibFail } }] else []
  | .sr e =>
    match n.pc.sn with
    | .sLibOk => if e = .nil then [{ n with pc := { n.pc with sn := .idle } }] else []
    | .sLibFail => if e ≠ .nil then [{ n with pc := { n.pc with sn := .idle } }] else []
    | .sLibDone e0 => if e = e0 then [{ n with pc := { n.pc with sn := .idle } }] else []
    | _ => []
  | .cc => if n.pc.sn = .idle then [{ n with pc := { n.pc with sn := .cCalled } }] else []
  | .cchk => if n.pc.sn = .cNotDone then [{ n with pc := { n.pc with sn := .cChecked } }] else []
  | .wh => if n.pc.sn = .cChecked then one (step cfg n.s (.closeWrite true)) { n.pc with sn := .cWrote } else []
  | .cretDone => if n.pc.sn = .cDoneRes then [{ n with pc := { n.pc with sn := .cLibDone } }] else []
  | .cr isNil =>
    if isNil then
      (if n.pc.sn = .cWrote ∨ n.pc.sn = .cLibDone then [{ n with pc := { n.pc with sn := .idle } }] else [])
    else
      (if n.pc.sn = .cChecked then one (step cfg n.s (.closeWrite false)) { n.pc with sn := .idle } else [])
  | .cancel =>
    if n.pc.cancelOpen ∨ n.pc.cancelFired then [] else [{ n with pc := { n.pc with cancelOpen := true } }]
  | .cancelled =>
    if n.pc.cancelOpen ∧ n.pc.cancelFired then [{ n with pc := { n.pc with cancelOpen := false } }] else []
  | .hc k =>
    if n.pc.aux.any (fun a => a.k = k) then [] else
    [{ n with pc := { n.pc with aux := n.pc.aux ++ [{ k := k, isHdr := true, fired := false }] } }]
  | .tc k =>
    if n.pc.aux.any (fun a => a.k = k) then [] else
    [{ n with pc := { n.pc with aux := n.pc.aux ++ [{ k := k, isHdr := false, fired := false }] } }]
  | .hr k _ _ =>
    if n.pc.aux.any (fun a => a.k = k ∧ a.isHdr ∧ a.fired) then
      [{ n with pc := { n.pc with aux := n.pc.aux.filter (fun a => a.k ≠ k) } }] else []
  | .tr k _ =>
    if n.pc.aux.any (fun a => a.k = k ∧ ¬ a.isHdr ∧ a.fired) then
      [{ n with pc := { n.pc with aux := n.pc.aux.filter (fun a => a.k ≠ k) } }] else []

/-! ## the end of the run -/

def expectedFinLog (rst : Bool) : List FinEv :=
  if rst then [.closeRCh, .rst, .unreg, .cancel, .done] else [.closeRCh, .unreg, .cancel, .done]

/-- After the last event: every call has returned, the stream is finished, and the state has the
    shape the theorems of `ClientStreamThms` promise (`finishing_block_once`, `at_most_one_reset`,
    `cancel_sends_one_reset`, `no_reset_after_trailer`, `header_always_released`,
    `cs_recv_sequence`). `none` = fine. -/
def endProblem (n : Node) : Option String :=
  let s := n.s
  let p := n.pc
  if p.r ≠ .idle then some "end:RecvMsg has not returned"
  else if p.sn ≠ .idle then some "end:SendMsg/CloseSend has not returned"
  else if ¬ p.aux.isEmpty then some "end:Header/Trailer has not returned"
  else if p.putDue ∨ p.unregDue ∨ p.rerrDue ∨ p.inRead ∨ p.cancelOpen then some "end:an announced event is missing"
  else if s.rl ≠ .exited then some "end:the stream is not finished"
  else if ¬ (s.done = true ∧ s.mu = false ∧ s.rChClosed = true ∧ s.ctxDone = true) then some "end:done/mutex/rCh/ctx"
  else if s.rErr ≠ s.pending ∨ s.rErr.isNone then some "end:no terminal status"
  else if s.finLog ≠ expectedFinLog s.rstSent then some "end:finishing block shape"
  else if s.wireOut.count .reset ≠ b2n s.rstSent then some "end:reset count"
  else if s.unregs ≠ 1 + s.sendResults.count .writeErr then some "end:unregister count"
  else if s.cancelEarly = true ∧ s.trailerLocal = none ∧ s.rstSent = false then some "end:cancelled early without reset"
  else if s.trailerLocal.isSome ∧ s.rstSent = true then some "end:reset after a trailer"
  else if ¬ (s.ready = true ∧ s.readyTwice = false) then some "end:header latch"
  else if ¬ (s.received ++ inflight s = specBodies cfg true s.inbox) then some "end:received sequence"
  else if s.received ≠ s.recvResults.filterMap Res.msg? then some "end:received vs results"
  else none

def showTerm : Option Term → String
  | none => "nil" | some .eof => "eof" | some (.status c) => s!"status{c}" | some .unavailable => "unavailable"
  | some .ctxErr => "ctxErr" | some .muxErr => "muxErr" | some .internalMeta => "internalMeta"

def summary (wfail : Bool) (n : Node) : String :=
  let rst := if wfail then "?" else toString (n.s.wireOut.count .reset)
  s!"msgs={n.s.received.length},rst={rst},end={showTerm n.s.rErr}"

def showNode (n : Node) : String :=
  let s := n.s
  s!"rl={rlCode s.rl},mu={s.mu},done={s.done},ctx={s.ctxDone},pending={showTerm s.pending},recv={repr s.recv},snd={sndCode s.snd},r={(rpcCode n.pc.r).1},sn={spcCode n.pc.sn},cancel={n.pc.cancelOpen}/{n.pc.cancelFired}"

/-! ## the search -/

structure Memo where
  seen : Array (List Nat)
  nodes : Nat
  best : Nat := 0
  why : String := ""

def Memo.note (m : Memo) (i : Nat) (why : Unit → String) : Memo :=
  if i > m.best ∨ m.why.isEmpty then { m with best := i, why := why () } else m

/-- threads of the head event first -/
def orderFires (t : Nat) (l : List (Nat × Node)) : List Node :=
  ((l.filter (fun x => x.1 = t)) ++ (l.filter (fun x => x.1 ≠ t))).map (·.2)

def dfs (wfail : Bool) : Nat → Nat → List Ev → Node → Memo → Option Node × Memo
  | 0, _, _, _, m => (none, { m with nodes := 0 })
  | fuel + 1, i, q, n, m =>
    if m.nodes = 0 then (none, m) else
    let k := n.key
    if (m.seen.getD i []).contains k then (none, m) else
    let m := { m with seen := m.seen.modify i (k :: ·), nodes := m.nodes - 1 }
    match q with
    | [] =>
      match endProblem n with
      | none => (some n, m)
      | some w => (none, m.note i (fun _ => w ++ ":" ++ showNode n))
    | ev :: q' =>
      let m := m.note i (fun _ => showNode n)
      let viaConsume := (consume wfail q' n ev).foldl (fun (acc : Option Node × Memo) n' =>
        match acc.1 with
        | some _ => acc
        | none => dfs wfail fuel (i + 1) q' n' acc.2) (none, m)
      match viaConsume.1 with
      | some _ => viaConsume
      | none =>
        (orderFires ev.thread (fires q n)).foldl (fun (acc : Option Node × Memo) n' =>
          match acc.1 with
          | some _ => acc
          | none => dfs wfail fuel i q n' acc.2) (none, viaConsume.2)

def budget : Nat := 60000

def verdict (wfail : Bool) (raw : Array String) (evs : List Ev) : String :=
  let m0 : Memo := { seen := Array.replicate (evs.length + 1) [], nodes := budget }
  match dfs wfail (6 * evs.length + 32) 0 evs { s := init, pc := {} } m0 with
  | (some n, _) => "accept:" ++ summary wfail n
  | (none, m) =>
    if m.nodes = 0 then "inconclusive:search budget exhausted"
    else s!"reject:{m.best}:{raw.getD m.best "<end>"}:{m.why}"

/-! ## parsing -/

def parseE (s : String) : Option E :=
  if s = "nil" then some .nil
  else if s = "eof" then some .eof
  else match s.toList with
    | 'c' :: r => (String.ofList r).toNat?.map .code
    | _ => none

def parsePath (s : String) : Option RPath :=
  match s with
  | "done" => some .done | "ctx" => some .ctx | "ctxdone" => some .ctxdone | "closed" => some .closed
  | "msg" => some .msg | _ => none

def parseBody (s : String) : Option (Option Bytes) :=
  if s = "_" then some none else (parseHex s).map some

def parseEv (s : String) : Option Ev :=
  match s.splitOn ":" with
  | ["get", fl, code, body] => do
    let c ← code.toInt?
    let b ← parseBody body
    let has := fun (ch : Char) => fl.toList.contains ch
    some (.get { metaBad := has 'm', reset := has 'r', trailer := has 't', trMetaBad := has 'x', code := c, body := b } (has 'e'))
  | ["rd"] => some .rd
  | ["rerr", "ctx"] => some (.rerr true)
  | ["rerr", "err"] => some (.rerr false)
  | ["rlctx"] => some .rlctx
  | ["put"] => some .put
  | ["closerch"] => some .closerch
  | ["unreg", "present"] => some (.unreg true)
  | ["unreg", "absent"] => some (.unreg false)
  | ["teardown", "rst"] => some (.teardown true)
  | ["teardown", "norst"] => some (.teardown false)
  | ["findone"] => some .findone
  | ["w", "r"] => some .wr
  | ["rc"] => some .rc
  | ["rchk"] => some .rchk
  | ["rret", p, e] => do
    let p ← parsePath p
    if p = .msg then some (.rret .msg .nil) else (parseE e).map (.rret p)
  | ["rr", "msg", b] => (parseHex b).map .rrMsg
  | ["rr", "err", e] => (parseE e).map .rrErr
  | ["sc", "bad"] => some (.sc none)
  | ["sc", b] => (parseHex b).map (fun b => .sc (some b))
  | ["schk"] => some .schk
  | ["sfail", "marshal"] => some (.sfail true)
  | ["sfail", "write"] => some (.sfail false)
  | ["w", "b", b] => (parseHex b).map .wb
  | ["sret", "done", e] => (parseE e).map .sretDone
  | ["sret", "ok"] => some .sretOk
  | ["sret", "fail"] => some .sretFail
  | ["sr", e] => (parseE e).map .sr
  | ["cc"] => some .cc
  | ["cchk"] => some .cchk
  | ["w", "h"] => some .wh
  | ["cret", "done"] => some .cretDone
  | ["cr", "nil"] => some (.cr true)
  | ["cr", "err"] => some (.cr false)
  | ["cancel"] => some .cancel
  | ["cancelled"] => some .cancelled
  | ["hc", k] => k.toNat?.map .hc
  | ["hr", k, h, e] => do let k ← k.toNat?; let e ← parseE e; some (.hr k (h == "1") e)
  | ["tc", k] => k.toNat?.map .tc
  | ["tr", k, r] => k.toNat?.map (fun k => .tr k (r == "md"))
  | _ => none

/-- input: `<options>|<event>;<event>;…` — option letter `w`: a transport write failure was injected
    in this run (a reset the finishing block decided on need not have reached the tap). -/
def csTrace (input : String) : String :=
  match input.splitOn "|" with
  | [opts, evs] =>
    let raw := if evs.isEmpty then [] else evs.splitOn ";"
    match raw.mapM parseEv with
    | some l => verdict (opts.toList.contains 'w') raw.toArray l
    | none =>
      match raw.find? (fun x => (parseEv x).isNone) with
      | some bad => "reject:0:unparsable event " ++ bad
      | none => "reject:0:unparsable"
  | _ => "reject:0:unparsable input"

end Goat.Drv.CsReplay
