/-
  Strand C of the tie for the server connection: replay of a logged run of the real `handler`
  (server.go) against `Goat.ServerConn.step`. Every label of the model has a carrier event emitted
  by the goroutine that performs it (hook events, plus `in`/`stop`/`cancel` pseudo-events the harness
  logs when its transport hands an envelope to the read loop / when it stops the server); labels
  without an event (ignoring an envelope, the deferred handler.cancel(), leaving the read loop) are
  inserted where the next event of that goroutine needs them. Events of different goroutines may be
  logged out of order: the search (depth-first, with a node budget) may take any of the next
  `window` events first provided no earlier event of the same goroutine is skipped.
  Verdicts: accept | reject@k (no explanation within the bounds) | inconclusive (budget exhausted).
-/
import Goat.ServerConn
namespace Goat.Drv.SrvReplay
open Goat Goat.ServerConn

inductive Obs where
  | in_ (e : InEnv) | stop | clientCancel
  | dispatch (id : Nat) | workerRan (id : Nat) | workerHandoff (id : Nat) | workerAbandon (id : Nat) | workerExit
  | writerWrite (id : Nat) (ok : Bool) | writerExit
  | streamCancel (id : Nat) | fwdEnter (id : Nat) | fwdSent (id : Nat) | fwdDropped (id : Nat) | fwdAbort (id : Nat) (client : Bool)
  | reset (id : Nat) | resetHandoff (id : Nat) | register (id : Nat)
  | hRecv (id : Nat) | hSent (id : Nat) | hReturned (id : Nat) | trailer (id : Nat) (ok : Bool) | unregister (id : Nat)
  | serveExit | waitPick | waitTaken | waitDone
  deriving DecidableEq, Repr

/-- goroutine of an event: 0 read loop / Serve, 1 writer, 2 environment, 1000+id handler of stream id,
    100000+id the worker that runs unary request id, 3 a worker leaving -/
def Obs.thread : Obs → Nat
  | .in_ _ | .dispatch _ | .streamCancel _ | .fwdEnter _ | .fwdSent _ | .fwdDropped _ | .fwdAbort _ _
  | .reset _ | .resetHandoff _ | .register _ | .serveExit | .waitPick | .waitTaken | .waitDone => 0
  | .writerWrite _ _ | .writerExit => 1
  | .stop | .clientCancel => 2
  | .workerExit => 3
  | .hRecv id | .hSent id | .hReturned id | .trailer id _ | .unregister id => 1000 + id
  | .workerRan id | .workerHandoff id | .workerAbandon id => 100000 + id

def cfg : Cfg := {}

/-- index of the registered stream record with this id -/
def streamIdx (s : State) (id : Nat) : Option Nat :=
  (List.range s.streams.length).find? (fun x => match s.streams[x]? with
    | some st => st.registered && st.id == id | none => false)

/-- index of the newest stream record with this id (registered or not): the handler goroutine's identity -/
def handlerIdx (s : State) (id : Nat) : Option Nat :=
  ((List.range s.streams.length).reverse).find? (fun x => match s.streams[x]? with
    | some st => st.id == id && st.hpc != .gone | none => false)

def workerWith (s : State) (p : WorkerPc → Bool) : Option Nat :=
  (List.range s.workers.length).find? (fun w => match s.workers[w]? with | some pc => p pc | none => false)

def stepL (s : State) (ls : List Label) : Option State := ls.foldlM (fun s l => step cfg s l) s

def opt (o : Option State) : List State := o.toList

/-- the read loop gets back to `reading` from `wantLock` by ignoring the envelope (no event) -/
def settleRl (s : State) : State :=
  match s.rl with
  | .wantLock _ => (step cfg s .rlIgnoreUnknown).getD s
  | _ => s

/-- candidate successor states for one observed event -/
def explain (s : State) : Obs → List State
  | .in_ e => opt (step cfg (settleRl s) (.rlRead e))
  | .stop => opt (step cfg s .stop)
  | .clientCancel => opt (step cfg s .clientCancel)
  | .dispatch id =>
    match s.rl with
    | .unaryOffer e => if e.id = id then opt ((workerWith s (· == .idle)).bind (fun w => step cfg s (.workerTake w))) else []
    | _ => []
  | .workerRan id => opt ((workerWith s (· == .running id)).bind (fun w => step cfg s (.workerRan w)))
  | .workerHandoff id => opt ((workerWith s (· == .handoff id)).bind (fun w => step cfg s (.workerHandoff w)))
  | .workerAbandon id => opt ((workerWith s (· == .handoff id)).bind (fun w => step cfg s (.workerAbandon w)))
  | .workerExit => opt ((workerWith s (· == .idle)).bind (fun w => step cfg s (.workerExit w)))
  | .writerWrite id ok =>
    -- the envelope the writer is writing carries this id
    match s.writer with
    | .writing ev =>
      let evId := match ev with | .body i | .trailer i | .reset i | .unaryReply i => i
      if evId = id then opt (step cfg s (.writerWrite ok)) else []
    | _ => []
  | .writerExit => opt (step cfg s .writerExit)
  | .streamCancel id => opt ((streamIdx s id).bind (fun x => step cfg s (.rlCancelStream x)))
  | .fwdEnter id => opt ((streamIdx s id).bind (fun x => step cfg s (.rlForwardEnter x)))
  | .fwdSent _ => opt (step cfg s .rlForwardSent)
  | .fwdDropped _ =>
    -- the target's context is done: by a reset, the wait loop, … or by the handler's own deferred cancel(),
    -- which has no event of its own
    match step cfg s .rlForwardDropped with
    | some s' => [s']
    | none => match s.rl with
      | .forwarding x _ => opt (stepL s [.hCancel x, .rlForwardDropped])
      | _ => []
  | .fwdAbort _ c => opt (step cfg s (.rlForwardAbort c))
  | .reset _ => opt (step cfg s .rlResetEnter)
  | .resetHandoff _ => opt (step cfg s .rlResetHandoff)
  | .register _ => opt (step cfg s .rlOpen)
  | .hRecv id => opt ((handlerIdx s id).bind (fun x => step cfg s (.hRecv x)))
  | .hSent id =>
    -- the hand-over to the writer made by SendMsg/SendHeader while the handler runs, or by SendTrailer after it returned
    match handlerIdx s id with
    | some x =>
      match s.streams[x]? with
      | some st => if st.hpc = .returned then opt (step cfg s (.hTrailer x)) else opt (step cfg s (.hSend x))
      | none => []
    | none => []
  | .hReturned id => opt ((handlerIdx s id).bind (fun x => step cfg s (.hReturn x)))
  | .trailer id ok =>
    match handlerIdx s id with
    | some x =>
      match s.streams[x]? with
      | some st =>
        if ok then (if st.hpc = .trailed then [s] else opt (step cfg s (.hTrailer x)))
        else opt (step cfg s (.hTrailerFail x))
      | none => []
    | none => []
  | .unregister id =>
    match handlerIdx s id with
    | some x => opt (match step cfg s (.hUnregister x) with
        | some s' => some s'
        | none => stepL s [.hCancel x, .hUnregister x])
    | none => []
  | .serveExit =>
    -- leaving the `for` loop has no event of its own
    let viaExit := [[], [Label.rlReadErr], [.rlCtxExit], [.rlResetAbort], [.rlIgnoreUnknown, .rlReadErr]]
    (viaExit.filterMap (fun pre => stepL s (pre ++ [.serveExit]))).take 1
  | .waitPick => (List.range s.streams.length).filterMap (fun x => step cfg s (.waitPick x))
  | .waitTaken => opt (step cfg s .waitDone)
  | .waitDone => opt (step cfg s .waitFinish)

/-- the id of the envelope a hand-over to the writer carries (the producer's side of the rendezvous) -/
def Obs.carries : Obs → Option Nat
  | .workerHandoff id | .hSent id | .resetHandoff id => some id
  | _ => none

/-- the writer goroutine logs its writes in the order it performs them, so the next hand-over the
    model takes must be the one whose write the writer logs next -/
def nextWrite : List Obs → Option Nat
  | [] => none
  | .writerWrite id _ :: _ => some id
  | _ :: t => nextWrite t

def admissible (q : List Obs) (o : Obs) : Bool :=
  match o.carries, nextWrite q with
  | some id, some id' => id == id'
  | _, _ => true

def window : Nat := 100000

/-- (event, rest of the queue without it) for the events that may be taken next -/
def choices : List Obs → List Nat → Nat → List Obs → List (Obs × List Obs)
  | [], _, _, _ => []
  | o :: rest, blocked, budget, skipped =>
    if budget = 0 then []
    else if blocked.contains o.thread then choices rest blocked (budget - 1) (skipped ++ [o])
    else (o, skipped ++ rest) :: choices rest (o.thread :: blocked) (budget - 1) (skipped ++ [o])

inductive Verdict where | accept (s : State) | reject (k : Nat) | inconclusive
  deriving Repr

/-- depth-first search; `nodes` is the remaining node budget, `best` the longest explained prefix -/
def search : Nat → Nat → State → List Obs → Nat → (Option State × Nat × Nat)
  | 0, nodes, _, _, k => (none, nodes, k)
  | _, nodes, s, [], k => (some s, nodes, k)
  | depth + 1, nodes, s, q, k =>
    if nodes = 0 then (none, 0, k) else
    let rec tryAll (cs : List (Obs × List Obs)) (nodes best : Nat) : (Option State × Nat × Nat) :=
      match cs with
      | [] => (none, nodes, best)
      | (o, q') :: more =>
        let rec trySucc (ss : List State) (nodes best : Nat) : (Option State × Nat × Nat) :=
          match ss with
          | [] => (none, nodes, best)
          | s' :: rest =>
            if nodes = 0 then (none, 0, best) else
            match search depth (nodes - 1) s' q' (k + 1) with
            | (some r, n, b) => (some r, n, b)
            | (none, n, b) => trySucc rest n (max best b)
        match trySucc (if admissible q o then explain s o else []) nodes best with
        | (some r, n, b) => (some r, n, b)
        | (none, n, b) => tryAll more n b
    tryAll (choices q [] window []) nodes k

def verdict (obs : List Obs) : String :=
  match search (obs.length + 1) 200000 init obs 0 with
  | (some s, _, _) =>
    -- at the end every goroutine of the connection must be accounted for by the model
    let live := (s.streams.filter (fun st => st.hpc != .gone)).length
    s!"accept:streams={live}"
  | (none, 0, _) => "inconclusive"
  | (none, _, best) => s!"reject@{best}"

/-- greedy replay for diagnosis: where does the first-choice explanation get stuck, and in which state -/
def debugGreedy : Nat → State → List Obs → Nat → String
  | 0, _, _, k => s!"fuel@{k}"
  | _, _, [], k => s!"done@{k}"
  | fuel + 1, s, q, k =>
    let cs := choices q [] window []
    match cs.findSome? (fun (o, q') => if admissible q o then (explain s o).head?.map (fun s' => (s', q')) else none) with
    | some (s', q') => debugGreedy fuel s' q' (k + 1)
    | none => String.ofList ((s!"stuck@{k} next={repr (q.take 4)} rl={repr s.rl} writer={repr s.writer} mu={s.muHeld} conn={s.connDone} workers={repr s.workers} streams={repr (s.streams.map (fun st => (st.id, st.registered, st.hpc, st.queue.isSome, st.ctxDone)))} wait={repr s.wait}").toList.filter (· != '\n'))

end Goat.Drv.SrvReplay
