/-
  Strand C of the tie for the client multiplexer: replay of a logged run of the real
  RpcMultiplexer against `Goat.Mux.step`. The log holds the hook events (mux.alloc, mux.register,
  mux.lookup, mux.deliver, mux.drop, mux.unregister, mux.fail); the labels without an event (the
  transport's read, the caller-side receive outcomes, context cancellation, writes) are inserted
  by a bounded search restricted to the goroutine the next event belongs to. Events of different
  goroutines may be logged out of order (an emission follows the operation it reports): when the
  next event cannot be explained, a later event of another goroutine within a window is tried first.
  The verdict "reject" means: no explanation within these bounds.
-/
import Goat.Mux
namespace Goat.Drv.MuxReplay
open Goat Goat.Mux

inductive Obs where
  | alloc (id : Nat) (k : Kind)
  | register (id : Nat) (ok : Bool)
  | lookup (id : Nat) (found : Bool)
  | deliver (id : Nat)
  | drop (id : Nat)
  | unregister (id : Nat) (present : Bool)
  | fail
  deriving DecidableEq, Repr

/-- the goroutine an event belongs to: 0 = the read loop, id = the call with that id -/
def Obs.thread : Obs → Nat
  | .alloc id _ | .register id _ | .unregister id _ => id
  | _ => 0

def cfg : Cfg := {}

/-- the states reachable from `s` by at most `depth` of the given hidden labels (including `s`) -/
def closure (hidden : List Label) : Nat → List State → List State
  | 0, acc => acc
  | d + 1, acc =>
    let next := acc.flatMap (fun s => hidden.filterMap (fun l => step cfg s l))
    let fresh := next.foldl (fun a s => if a.contains s then a else a ++ [s]) acc
    if fresh.length = acc.length then acc else closure hidden d fresh

def callerHidden (i id : Nat) : List Label :=
  [.recvTake i, .write i { id := id } true, .recvClosed i, .write i { id := id } false, .ctxCancel i, .recvCtx i]

/-- The owner takes a delivered envelope as soon as it can. Taking early never disables a later
    label (it only frees the buffer and, for a unary call, moves it to the point where it
    unregisters), so this choice of the unobserved step loses no explanation. -/
def eagerTake (s : State) (i id : Nat) : State :=
  match step cfg s (.recvTake i) with
  | some s' => s'
  | none =>
    match (step cfg s (.write i { id := id } true)).bind (fun s1 => step cfg s1 (.recvTake i)) with
    | some s' => s'
    | none => s

/-- `mux.alloc` is emitted after the atomic add, not atomically with it, so the events can be logged
    in an order different from the ids (arbitrarily late). `alloc` commutes with every other label
    (it only bumps the counter and appends a call nobody refers to yet), so the replay allocates in id
    order, on demand: ids below the one logged are allocated first with the kind their own event has. -/
def allocUpTo (kinds : List (Nat × Kind)) : Nat → State → Nat → Option State
  | 0, s, _ => some s
  | fuel + 1, s, id =>
    if s.counter ≥ id then some s
    else match kinds.find? (·.1 = s.counter + 1) with
      | some (_, k) => (step cfg s (.alloc k)).bind (fun s' => allocUpTo kinds fuel s' id)
      | none => none

/-- explain one observed event from state `s` -/
def explain (kinds : List (Nat × Kind)) (s : State) : Obs → Option State
  | .alloc id _ => allocUpTo kinds (id + 1) s id
  | .register id ok =>
    match (allocUpTo kinds (id + 1) s id).bind (fun s => step cfg s (.register (id - 1))) with
    | some s' => if ok = (s'.handlers.contains id) then some s' else none
    | none => none
  | .lookup id found =>
    let s1 := match s.rl with
      | .idle => step cfg s (.rlRead { id := id })
      | .got e => if e.id = id then some s else none
      | _ => none
    match s1 with
    | some s1 =>
      match step cfg s1 .rlLookup with
      | some s2 =>
        let isFound := match s2.rl with | .lookedUp _ _ => true | _ => false
        if isFound = found then some s2 else none
      | none => none
    | none => none
  | .deliver id =>
    match s.rl with
    | .lookedUp i e =>
      if e.id = id then
        match step cfg s .rlDeliver with
        | some s' => some (eagerTake s' i id)
        | none => ((step cfg s (.recvTake i)).bind (fun s1 => step cfg s1 .rlDeliver)).map (fun s' => eagerTake s' i id)
      else none
    | _ => none
  | .drop id =>
    match s.rl with
    | .lookedUp _ e => if e.id = id then step cfg s .rlDrop else none
    | _ => none
  | .unregister id present =>
    let i := id - 1
    -- a second teardown of a call that has already finished is a no-op on the multiplexer
    if present = false ∧ (s.callers[i]?.map (·.pc)) = some .finished then some s else
    let cands := closure (callerHidden i id) 4 [s]
    cands.findSome? (fun s1 =>
      if s1.handlers.contains id = present then step cfg s1 (.unregister i) else none)
  | .fail => step cfg s .rlFail

def window : Nat := 8

/-- try the events of the queue in order, skipping over events of goroutines already skipped -/
def pick (kinds : List (Nat × Kind)) (s : State) : List Obs → List Nat → Nat → List Obs → Option (State × List Obs)
  | [], _, _, _ => none
  | o :: rest, blocked, budget, skipped =>
    if budget = 0 then none
    else if blocked.contains o.thread then pick kinds s rest blocked (budget - 1) (skipped ++ [o])
    else match explain kinds s o with
      | some s' => some (s', skipped ++ rest)
      | none => pick kinds s rest (o.thread :: blocked) (budget - 1) (skipped ++ [o])

def replay (kinds : List (Nat × Kind)) : Nat → State → List Obs → Nat → Except String State
  | 0, s, _, _ => .ok s
  | _, s, [], _ => .ok s
  | fuel + 1, s, q, k =>
    match pick kinds s q [] window [] with
    | some (s', q') => replay kinds fuel s' q' (k + 1)
    | none => .error s!"reject@{k}"

/-- at the end of a quiescent run the registry is what the model predicts -/
def verdict (obs : List Obs) (finalHandlers : Option Nat) : String :=
  let kinds := obs.filterMap (fun | .alloc id k => some (id, k) | _ => none)
  match replay kinds (obs.length + 1) init obs 0 with
  | .error e => e
  | .ok s =>
    match finalHandlers with
    | some n => if s.handlers.length = n then "accept" else s!"registry:{s.handlers.length}≠{n}"
    | none => "accept"

end Goat.Drv.MuxReplay
