/-
  Text encoding of model values on the driver's line protocol (DESIGN.md 2.3 B).
  byte string = lower-case hex, the empty string is "-"; lists are comma-separated, "_" = empty list.
-/
import Goat.Basic
namespace Goat.Drv
open Goat

def hexDigit (n : Nat) : Char := if n < 10 then Char.ofNat (48 + n) else Char.ofNat (87 + n)

def hexOf (bs : Bytes) : String :=
  if bs.isEmpty then "-" else String.ofList (bs.flatMap (fun b => [hexDigit (b / 16), hexDigit (b % 16)]))

def hexVal (c : Char) : Option Nat :=
  if '0' ≤ c ∧ c ≤ '9' then some (c.toNat - 48)
  else if 'a' ≤ c ∧ c ≤ 'f' then some (c.toNat - 87)
  else none

def parseHexList : List Char → Option Bytes
  | [] => some []
  | [_] => none
  | a :: b :: t => do
    let x ← hexVal a; let y ← hexVal b; let r ← parseHexList t
    some ((x * 16 + y) :: r)

def parseHex (s : String) : Option Bytes := if s = "-" then some [] else parseHexList s.toList

def parseList {α} (f : String → Option α) (sep : String) (s : String) : Option (List α) :=
  if s = "_" then some [] else (s.splitOn sep).mapM f

def showList {α} (f : α → String) (sep : String) (l : List α) : String :=
  if l.isEmpty then "_" else sep.intercalate (l.map f)

/-- lexicographic order on byte strings -/
def bytesLt : Bytes → Bytes → Bool
  | [], [] => false
  | [], _ :: _ => true
  | _ :: _, [] => false
  | a :: as, b :: bs => if a < b then true else if b < a then false else bytesLt as bs

def insertSorted (k : Bytes) : List Bytes → List Bytes
  | [] => [k]
  | h :: t => if bytesLt k h then k :: h :: t else if k = h then h :: t else h :: insertSorted k t

def sortDedup (ks : List Bytes) : List Bytes := ks.foldl (fun acc k => insertSorted k acc) []

end Goat.Drv
