/-
  Driver ops for the proxy and the demultiplexer (C16, C17, C18): `pxseq` and `dmseq`.
  Core Lean only.  Both ops fold the LTS `step` of `Goat.Proxy` / `Goat.Demux` over a scenario
  written by the Go harness (c16.go, c17.go, c18.go) and print what the model says the harness
  must have observed, item by item.

  ## envelope text (input and output, the same canonical form)

      <id>~<hdr>~<body>~<status>~<trailer>~<reset>
      hdr     = nohdr | h:<method>:<src>:<dst>:<kvs>:<record>:<next>
      body    = nobody | body=<hex>
      status  = nostatus | status=<code>:<msghex>
      trailer = notrailer | trailer=<kvs>
      reset   = noreset | reset=<hex>
      kvs     = _ | <keyhex>=<valhex>;…          (in order, not grouped)
      record, next = _ | <hex>,<hex>,…
      <hex>   = lower-case hex, "-" for the empty string

  ## pxseq

      input  = <proxy-name-hex>|<icept>|<peers>|<items>
      icept  = none | rw:<a>:<b> (destination a is rewritten to b) | rf:<x> (destination x is refused)
      peers  = _ | <hex>,…            names attached with AddClient before the first item, in order
      items  = _ | item item …         (separated by one space)
        A<name>          AddClient(name)                          -> a
        N<name>@<env>    as E, but the envelope's ProxyNext, when empty, is a NON-NIL slice (handed over
                         by reference)
        E<name>@<env>    the connection attached/dialled under <name> reads <env> and the serve
                         loop runs forwardRpc on it               -> ignore | refused | panic |
                                                                     [dial:<dst>+]enq:<dst>:<id> |
                                                                     [dial:<dst>+]drop:<dst>:<id>
        K<name>:ok|err   newConnection(name) returns              -> up | down:removed | down:stale
        T<name>          the writer of <name> takes one queued envelope and writes it
                                                                  -> <name>><env> | empty
        H<name>          the writer takes one envelope and is stuck in Write   -> held | empty
        W<name>          that Write completes                     -> <name>><env> | idle
        X<idx>           Read fails on heap object <idx> (decimal; objects are numbered in the
                         order of AddClient / dial), the serve loop handles the report
                                                                  -> removed:<name> | stale:<name>
        V<idx>           the writer of heap object <idx> takes a queued envelope (unless it holds
                         one already), its Write fails, the serve loop handles the writer's report
                         and then the reader's (its Read ends with the connection's context)
                                                                  -> removed:<name> | stale:<name>
      output = the item outputs separated by one space ("_" for no items)

  ## dmseq   (key function: header source, "" without a header)

      input  = _ | item item …
        E<env>        Run reads <env>, looks its key up (creating + announcing the logical
                      connection when absent) and is held before the hand-off
                                                          -> new:<key>#<c> | old:<key>#<c>
        g             Run is released into the hand-off   -> got:<c>:<env> | cancelled:<c> |
                                                             stopped | parked:<c> | amb
        r<c>          the user starts Read on logical connection <c> (decimal heap index = order
                      of announcement)                    -> got:<c>:<env> | fail:<c> | pending:<c>
        w<c>@<env>    the user calls Write(<env>) on <c>  -> wrote:<c>:<env> | wfail:<c> | wblocked:<c>
        C<keyhex>     Cancel(key)                         -> cancel:none | cancel:<c>[+rfail][+hcancelled]
        S             Stop()                              -> stop | stop+hstopped | stop+ended
      output = the item outputs separated by one space
-/
import Goat.Drv.Codec
import Goat.Proxy
import Goat.Demux
namespace Goat.Drv
open Goat

/-! ## envelope codec -/

def pxTail (s : String) : String := String.ofList (s.toList.drop 1)

def pxKVs (kvs : List KV) : String :=
  showList (fun (h : KV) => hexOf h.key ++ "=" ++ hexOf h.value) ";" kvs

def pxParseKVs (s : String) : Option (List KV) :=
  parseList (fun e => match e.splitOn "=" with
    | [k, v] => do let k' ← parseHex k; let v' ← parseHex v; some ({ key := k', value := v' } : KV)
    | _ => none) ";" s

def pxHdr : Option Header → String
  | none => "nohdr"
  | some h => ":".intercalate ["h", hexOf h.method, hexOf h.src, hexOf h.dst, pxKVs h.headers,
      showList hexOf "," h.record, showList hexOf "," h.next]

def pxEnv (e : Env) : String :=
  "~".intercalate [toString e.id, pxHdr e.header,
    (match e.body with | some b => "body=" ++ hexOf b | none => "nobody"),
    (match e.status with | some s => s!"status={s.code}:{hexOf s.message}" | none => "nostatus"),
    (match e.trailer with | some t => "trailer=" ++ pxKVs t | none => "notrailer"),
    (match e.reset with | some r => "reset=" ++ hexOf r | none => "noreset")]

def pxAfter (pre s : String) : Option String :=
  if s.startsWith pre then some (String.ofList (s.toList.drop pre.length)) else none

def pxParseHdr (s : String) : Option (Option Header) :=
  if s = "nohdr" then some none else
  match s.splitOn ":" with
  | ["h", m, a, b, kvs, rc, nx] => do
    let m ← parseHex m; let a ← parseHex a; let b ← parseHex b
    let kvs ← pxParseKVs kvs; let rc ← parseList parseHex "," rc; let nx ← parseList parseHex "," nx
    some (some { method := m, src := a, dst := b, headers := kvs, record := rc, next := nx })
  | _ => none

def pxParseEnv (s : String) : Option Env :=
  match s.splitOn "~" with
  | [id, h, b, st, tr, rs] => do
    let id ← id.toNat?
    let h ← pxParseHdr h
    let b ← if b = "nobody" then some none else (pxAfter "body=" b).bind (fun x => (parseHex x).map some)
    let st ← if st = "nostatus" then some none else
      (pxAfter "status=" st).bind (fun x => match x.splitOn ":" with
        | [c, m] => do let c ← c.toInt?; let m ← parseHex m; some (some ({ code := c, message := m } : Status))
        | _ => none)
    let tr ← if tr = "notrailer" then some none else (pxAfter "trailer=" tr).bind (fun x => (pxParseKVs x).map some)
    let rs ← if rs = "noreset" then some none else (pxAfter "reset=" rs).bind (fun x => (parseHex x).map some)
    some { id := id, header := h, body := b, status := st, trailer := tr, reset := rs }
  | _ => none

/-! ## pxseq -/

def pxParseIcept (s : String) : Option (Header → Option Header) :=
  match s.splitOn ":" with
  | ["none"] => some some
  | ["rw", a, b] => do
    let a ← parseHex a; let b ← parseHex b
    some (fun h => some (if h.dst = a then { h with dst := b } else h))
  | ["rf", x] => do
    let x ← parseHex x
    some (fun h => if h.dst = x then none else some h)
  | _ => none

def pxShowEv (ev : Proxy.Ev) : String :=
  let d (dst : Bytes) := if ev.dialed then "dial:" ++ hexOf dst ++ "+" else ""
  match ev.action with
  | .ignore => "ignore"
  | .refused => "refused"
  | .panic _ => "panic"
  | .enqueue dst e => d dst ++ "enq:" ++ hexOf dst ++ ":" ++ toString e.id
  | .drop dst e => d dst ++ "drop:" ++ hexOf dst ++ ":" ++ toString e.id
  | .dangling => "dangling"

def pxItem (cfg : Proxy.Cfg) (ic : Header → Option Header) (s : Proxy.State) (item : String) :
    Option (Proxy.State × String) :=
  let arg := pxTail item
  match item.toList.head? with
  | some 'A' => do
    let n ← parseHex arg
    match Proxy.step cfg s (.attach n) with
    | some s1 => some (s1, "a")
    | none => some (s, "dead")
  | some 'E' =>
    match arg.splitOn "@" with
    | [n, e] => do
      let n ← parseHex n; let e ← pxParseEnv e
      match Proxy.nget s.names n with
      | none => some (s, "nosender")
      | some i =>
        match Proxy.step cfg s (.readerGet i e) with
        | none => some (s, "notreading")
        | some s1 =>
          let icv := match e.header with | some h => ic h | none => none
          match Proxy.step cfg s1 (.cmdRpc i icv false) with
          | none => some (s, "noserve")
          | some s2 =>
            match s2.log.getLast? with
            | some ev => some (s2, pxShowEv ev)
            | none => some (s2, "nolog")
    | _ => none
  | some 'N' =>
    match arg.splitOn "@" with
    | [n, e] => do
      let n ← parseHex n; let e ← pxParseEnv e
      match Proxy.nget s.names n with
      | none => some (s, "nosender")
      | some i =>
        match Proxy.step cfg s (.readerGet i e) with
        | none => some (s, "notreading")
        | some s1 =>
          let icv := match e.header with | some h => ic h | none => none
          match Proxy.step cfg s1 (.cmdRpc i icv true) with
          | none => some (s, "noserve")
          | some s2 =>
            match s2.log.getLast? with
            | some ev => some (s2, pxShowEv ev)
            | none => some (s2, "nolog")
    | _ => none
  | some 'K' =>
    match arg.splitOn ":" with
    | [n, r] => do
      let n ← parseHex n
      match Proxy.nget s.names n with
      | none => some (s, "noconn")
      | some i =>
        match Proxy.step cfg s (.dialDone i (r == "ok")) with
        | none => some (s, "notdialing")
        | some s1 =>
          if r == "ok" then some (s1, "up") else
          match Proxy.step cfg s1 (.cmdErr i .dialer) with
          | none => some (s1, "noreport")
          | some s2 => some (s2, if Proxy.nget s2.names n = none then "down:removed" else "down:stale")
    | _ => none
  | some 'D' =>
    -- the dial of heap object i finishes (addressed by index: the name may meanwhile belong to a newer object)
    match arg.splitOn ":" with
    | [i, r] => do
      let i ← i.toNat?
      match s.conns[i]? with
      | none => some (s, "noobject")
      | some c =>
        match Proxy.step cfg s (.dialDone i (r == "ok")) with
        | none => some (s, "notdialing")
        | some s1 =>
          if r == "ok" then some (s1, "up") else
          match Proxy.step cfg s1 (.cmdErr i .dialer) with
          | none => some (s1, "noreport")
          | some s2 => some (s2, (if s2.names = s1.names then "stale:" else "removed:") ++ hexOf c.name)
    | _ => none
  | some 'T' => do
    let n ← parseHex arg
    match Proxy.nget s.names n with
    | none => some (s, "noconn")
    | some i =>
      match Proxy.step cfg s (.writerTake i) with
      | none => some (s, "empty")
      | some s1 =>
        match Proxy.step cfg s1 (.writerWrite i true) with
        | none => some (s1, "nowrite")
        | some s2 =>
          match (s2.conns[i]?).bind (fun c => c.out.getLast?) with
          | some e => some (s2, hexOf n ++ ">" ++ pxEnv e)
          | none => some (s2, "noout")
  | some 'H' => do
    let n ← parseHex arg
    match Proxy.nget s.names n with
    | none => some (s, "noconn")
    | some i =>
      match Proxy.step cfg s (.writerTake i) with
      | none => some (s, "empty")
      | some s1 => some (s1, "held")
  | some 'W' => do
    let n ← parseHex arg
    match Proxy.nget s.names n with
    | none => some (s, "noconn")
    | some i =>
      match Proxy.step cfg s (.writerWrite i true) with
      | none => some (s, "idle")
      | some s2 =>
        match (s2.conns[i]?).bind (fun c => c.out.getLast?) with
        | some e => some (s2, hexOf n ++ ">" ++ pxEnv e)
        | none => some (s2, "noout")
  | some 'X' => do
    let i ← arg.toNat?
    match s.conns[i]? with
    | none => some (s, "noobject")
    | some c =>
      match Proxy.step cfg s (.readerErr i) with
      | none => some (s, "notreading")
      | some s1 =>
        match Proxy.step cfg s1 (.cmdErr i .reader) with
        | none => some (s1, "noreport")
        | some s2 =>
          some (s2, (if s2.names = s1.names then "stale:" else "removed:") ++ hexOf c.name)
  | some 'V' => do
    let i ← arg.toNat?
    match s.conns[i]? with
    | none => some (s, "noobject")
    | some c =>
      let s0 := match Proxy.step cfg s (.writerTake i) with | some x => x | none => s
      match Proxy.step cfg s0 (.writerWrite i false) with
      | none => some (s, "nowrite")
      | some s1 =>
        match Proxy.step cfg s1 (.cmdErr i .writer) with
        | none => some (s1, "noreport")
        | some s2 =>
          -- the reader's Read then fails with the connection's group context and reports as well
          let s3 := match (Proxy.step cfg s2 (.readerErr i)).bind (fun x => Proxy.step cfg x (.cmdErr i .reader)) with
            | some x => x
            | none => s2
          some (s3, (if s3.names = s.names then "stale:" else "removed:") ++ hexOf c.name)
  | _ => none

def pxFold (cfg : Proxy.Cfg) (ic : Header → Option Header) :
    Proxy.State → List String → List String → Option (List String)
  | _, [], acc => some acc.reverse
  | s, it :: rest, acc =>
    match pxItem cfg ic s it with
    | none => none
    | some (s1, out) => pxFold cfg ic s1 rest (out :: acc)

def pxItems (s : String) : List String := if s = "_" then [] else s.splitOn " "

def pxSeq (input : String) : Option String :=
  match input.splitOn "|" with
  | [name, icept, peers, items] => do
    let name ← parseHex name
    let ic ← pxParseIcept icept
    let peers ← parseList parseHex "," peers
    let cfg : Proxy.Cfg := { name := name }
    let s0 ← peers.foldlM (fun s p => Proxy.step cfg s (.attach p)) Proxy.init
    let outs ← pxFold cfg ic s0 (pxItems items) []
    some (showList id " " outs)
  | _ => none

/-! ## dmseq -/

def dmKey (e : Env) : Bytes := match e.header with | some h => h.src | none => []

def dmCfg : Demux.Cfg := { demuxOn := dmKey }

structure DmSt where
  s : Demux.State := {}
  /-- `Run` has been released into the hand-off select and nothing was ready -/
  parked : Bool := false

def dmGot (c : Nat) (e : Env) : String := s!"got:{c}:" ++ pxEnv e

def dmItem (st : DmSt) (item : String) : Option (DmSt × String) :=
  let s := st.s
  let arg := pxTail item
  match item.toList.head? with
  | some 'E' => do
    let e ← pxParseEnv arg
    match Demux.step dmCfg s (.runRead e) with
    | none => some (st, "busy")
    | some s1 =>
      match Demux.step dmCfg s1 .runLookup with
      | none => some (st, "nolookup")
      | some s2 =>
        match s2.run with
        | .handoff c _ =>
          some ({ s := s2, parked := false },
            (if s2.announced.length > s.announced.length then "new:" else "old:") ++ hexOf (dmKey e) ++ s!"#{c}")
        | _ => some (st, "nohandoff")
  | some 'g' =>
    match s.run with
    | .handoff c e =>
      match s.conns[c]? with
      | none => some (st, "dangling")
      | some conn =>
        let canH := conn.ur && !conn.closed
        let canC := conn.done
        let canS := s.stopped
        if (canH && canC) || (canH && canS) || (canC && canS) then some (st, "amb") else
        if canH then
          match Demux.step dmCfg s .runHandoff with
          | some s1 => some ({ s := s1, parked := false }, dmGot c e)
          | none => some (st, "nostep")
        else if canC then
          match Demux.step dmCfg s .runHandoffCancelled with
          | some s1 => some ({ s := s1, parked := false }, s!"cancelled:{c}")
          | none => some (st, "nostep")
        else if canS then
          match Demux.step dmCfg s .runHandoffStopped with
          | some s1 => some ({ s := s1, parked := false }, "stopped")
          | none => some (st, "nostep")
        else some ({ st with parked := true }, s!"parked:{c}")
    | _ => some (st, "norun")
  | some 'r' => do
    let c ← arg.toNat?
    match Demux.step dmCfg s (.connReadStart c) with
    | none => some (st, "bad")
    | some s1 =>
      match s1.conns[c]? with
      | none => some (st, "bad")
      | some conn =>
        if conn.done then
          match Demux.step dmCfg s1 (.connReadFail c) with
          | some s2 => some ({ st with s := s2 }, s!"fail:{c}")
          | none => some (st, "nostep")
        else
          match s1.run with
          | .handoff c' e =>
            if st.parked && c' = c then
              match Demux.step dmCfg s1 .runHandoff with
              | some s2 => some ({ s := s2, parked := false }, dmGot c e)
              | none => some (st, "nostep")
            else some ({ st with s := s1 }, s!"pending:{c}")
          | _ => some ({ st with s := s1 }, s!"pending:{c}")
  | some 'w' =>
    match arg.splitOn "@" with
    | [c, e] => do
      let c ← c.toNat?; let e ← pxParseEnv e
      match Demux.step dmCfg s (.connWriteStart c e) with
      | none => some (st, "bad")
      | some s1 =>
        match s1.conns[c]? with
        | none => some (st, "bad")
        | some conn =>
          if conn.done then
            match Demux.step dmCfg s1 (.connWriteFail c) with
            | some s2 => some ({ st with s := s2 }, s!"wfail:{c}")
            | none => some (st, "nostep")
          else
            match Demux.step dmCfg s1 (.writerTake c) with
            | none => some ({ st with s := s1 }, s!"wblocked:{c}")
            | some s2 =>
              match Demux.step dmCfg s2 (.writerWrite c true) with
              | none => some ({ st with s := s2 }, "nostep")
              | some s3 =>
                match s3.wireOut.getLast? with
                | some (c', e') => some ({ st with s := s3 }, s!"wrote:{c'}:" ++ pxEnv e')
                | none => some ({ st with s := s3 }, "noout")
    | _ => none
  | some 'C' => do
    let k ← parseHex arg
    match Demux.mget s.table k with
    | none => some (st, "cancel:none")
    | some c =>
      match Demux.step dmCfg s (.cancelKey k) with
      | none => some (st, "nostep")
      | some s1 =>
        let (s2, o2) : Demux.State × String :=
          match Demux.step dmCfg s1 (.connReadFail c) with
          | some s' => (s', "+rfail")
          | none => (s1, "")
        let (s3, o3, p3) : Demux.State × String × Bool :=
          match s2.run with
          | .handoff c' _ =>
            if st.parked && c' = c then
              match Demux.step dmCfg s2 .runHandoffCancelled with
              | some s' => (s', "+hcancelled", false)
              | none => (s2, "", st.parked)
            else (s2, "", st.parked)
          | _ => (s2, "", st.parked)
        some ({ s := s3, parked := p3 }, s!"cancel:{c}" ++ o2 ++ o3)
  | some 'S' =>
    match Demux.step dmCfg s .stop with
    | none => some (st, "stop")
    | some s1 =>
      match s1.run with
      | .handoff _ _ =>
        if st.parked then
          match Demux.step dmCfg s1 .runHandoffStopped with
          | some s2 => some ({ s := s2, parked := false }, "stop+hstopped")
          | none => some ({ st with s := s1 }, "stop")
        else some ({ st with s := s1 }, "stop")
      | .reading =>
        match Demux.step dmCfg s1 .runReadErr with
        | some s2 => some ({ st with s := s2 }, "stop+ended")
        | none => some ({ st with s := s1 }, "stop")
      | _ => some ({ st with s := s1 }, "stop")
  | _ => none

def dmFold : DmSt → List String → List String → Option (List String)
  | _, [], acc => some acc.reverse
  | st, it :: rest, acc =>
    match dmItem st it with
    | none => none
    | some (st1, out) => dmFold st1 rest (out :: acc)

def dmSeq (input : String) : Option String :=
  (dmFold {} (pxItems input) []).map (showList id " ")

def evalPx (op input : String) : Option String :=
  match op with
  | "pxseq" => pxSeq input
  | "dmseq" => dmSeq input
  | _ => none

end Goat.Drv
