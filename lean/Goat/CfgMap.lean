/-
  The component models have their own `Cfg` structures (one Boolean per repair that touched the
  component). These maps build them from the global `Goat.Cfg`, so that a theorem instantiated at
  `Generated.cfg` talks about the configuration extracted from the current source.
-/
import Goat.Cfg
import Goat.Mux
import Goat.ClientStream
import Goat.ServerConn
import Goat.Proxy
import Goat.Demux
import Goat.OpenStream
namespace Goat

def muxCfg (c : Cfg) (statsHandlers : Bool) : Mux.Cfg :=
  { registerChecksErr := c.registerChecksErr, dispatchOutsideLock := c.dispatchOutsideLock,
    okStatusIsSuccess := c.okStatusIsSuccess, idAllocAtomic := c.idAllocAtomic, statsHandlers := statsHandlers,
    statsHeaderNilSafe := c.statsHeaderNilSafe }

def csCfg (c : Cfg) : ClientStream.Cfg :=
  { recvRechecksDoneOnCtx := c.recvRechecksDoneOnCtx, resetIsError := c.resetIsError, badMetaSetsErr := c.badMetaSetsErr,
    closeSendNoopWhenDone := c.closeSendNoopWhenDone, trailerNoPanic := c.trailerNoPanic }

def srvCfg (c : Cfg) : ServerConn.Cfg :=
  { forwardSelectsOnStreamDone := c.forwardSelectsOnStreamDone, resetViaWriter := c.resetViaWriter,
    unaryCtxFollowsConn := c.unaryCtxFollowsConn, workerHandoffSelectsOnConn := c.workerHandoffSelectsOnConn }

def proxyCfg (c : Cfg) (name : Bytes) : Proxy.Cfg :=
  { name := name, badSourceIsIgnored := c.badSourceIsIgnored, removeComparesIdentity := c.removeComparesIdentity,
    errReportSelectsOnCtx := c.errReportSelectsOnCtx, emptyNextIsNoRoute := c.emptyNextIsNoRoute }

def demuxCfg (c : Cfg) (key : Env → Bytes) : Demux.Cfg :=
  { demuxOn := key, cancelUsesDone := c.demuxCancelUsesDone, handoffSelects := c.demuxHandoffSelects }

def openCfg (c : Cfg) : OpenStream.Cfg := { openFailureTearsDown := c.openFailureTearsDown }

end Goat
