/-
  server.go processUnaryRpc: the reply envelope, field by field (what goes back to the caller for a
  unary request that reached its handler). `hdrs` / `trls` are what the handler set through
  grpc.SetHeader / SetTrailer, `res` its result. Also resetStream's envelope.
-/
import Goat.Metadata
import Goat.Status
namespace Goat.UnaryReply
open Goat Goat.StatusM

/-- the return route: everything but the last hop of the request's proxy record, when there is more than one -/
def returnRoute (record : List Bytes) : List Bytes :=
  if record.length > 1 then record.dropLast else []

def reply (req : Env) (fullMethod : Bytes) (body : Option Bytes) (e : HErr)
    (hdrs trls : Metadata.MD) : Env :=
  let h := req.header.getD {}
  { id := req.id
    header := some { method := fullMethod, src := h.dst, dst := h.src,
                     headers := Metadata.toKeyValue hdrs, next := returnRoute h.record }
    status := serverUnaryStatus e
    body := body
    trailer := some (Metadata.toKeyValue trls) }

/-- resetStream: the envelope answering a body for an unknown stream (or an undecodable open) -/
def reset (req : Env) : Env :=
  let h := req.header.getD {}
  { id := req.id
    header := some { method := h.method, src := h.dst, dst := h.src, next := returnRoute h.record }
    reset := some rstStream
    trailer := some [] }

/-- processUnaryRpc's early reply to a request whose metadata does not decode: Internal status (the
    message text is the decoder's, not modelled), no body, an empty trailer, addressed like every reply. -/
def badMeta (req : Env) (fullMethod : Bytes) (msg : Bytes) : Env :=
  let h := req.header.getD {}
  { id := req.id
    header := some { method := fullMethod, src := h.dst, dst := h.src, next := returnRoute h.record }
    status := some { code := 13, message := msg }
    trailer := some [] }

theorem badMeta_id (req m msg) : (badMeta req m msg).id = req.id := rfl
theorem badMeta_swaps (req : Env) (hq : Header) (hh : req.header = some hq) (m msg) :
    ((badMeta req m msg).header.map (fun x => (x.src, x.dst))) = some (hq.dst, hq.src) := by
  simp [badMeta, hh]
/-- every reply the server originates for a request — normal, malformed-metadata, reset — goes back
    along the same route: same id, source and destination swapped, the proxy record minus its last hop. -/
theorem replies_share_route (req : Env) (m b e h t msg) :
    let r1 := reply req m b e h t; let r2 := badMeta req m msg; let r3 := reset req
    r1.id = r2.id ∧ r2.id = r3.id ∧
    r1.header.map (fun x => (x.src, x.dst, x.next)) = r2.header.map (fun x => (x.src, x.dst, x.next)) ∧
    r2.header.map (fun x => (x.src, x.dst, x.next)) = r3.header.map (fun x => (x.src, x.dst, x.next)) := by
  simp [reply, badMeta, reset]
theorem reply_id (req m b e h t) : (reply req m b e h t).id = req.id := rfl
theorem reply_swaps (req : Env) (hq : Header) (hh : req.header = some hq) (m b e h t) :
    ((reply req m b e h t).header.map (fun x => (x.src, x.dst))) = some (hq.dst, hq.src) := by
  simp [reply, hh]
theorem reset_id (req : Env) : (reset req).id = req.id := rfl
theorem reset_swaps (req : Env) (hq : Header) (hh : req.header = some hq) :
    ((reset req).header.map (fun x => (x.src, x.dst))) = some (hq.dst, hq.src) := by
  simp [reset, hh]
/-- a success carries a body and no status; a failure carries the handler's status -/
theorem reply_status_iff (req m b h t) (e : HErr) : (reply req m b e h t).status = none ↔ e = .nil := by
  cases e <;> simp [reply, serverUnaryStatus, fromError]

end Goat.UnaryReply
