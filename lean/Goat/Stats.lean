/-
  Stats events per RPC: what each code path hands to an installed stats.Handler, in order.
  client.go (invoke, newStream), internal/util.go (StatsStartServerRPC, StatsEndRPC),
  internal/client/stream.go, server.go (processUnaryRpc, runStream), internal/server/stream.go.
-/
import Goat.Basic
namespace Goat.Stats

inductive Kind where
  | begin_ | end_ (err : Bool) | inHeader | outHeader | inPayload | outPayload | inTrailer | outTrailer
  deriving DecidableEq, Repr

def isBegin : Kind → Bool | .begin_ => true | _ => false
def isEnd : Kind → Bool | .end_ _ => true | _ => false

/-- the property's shape for the events one handler saw for one RPC (I4: an RPC refused before any
    event may emit nothing): Begin first, exactly one Begin, at most one End, exactly one once finished. -/
def shapeOK (finished : Bool) (evs : List Kind) : Bool :=
  match evs with
  | [] => true
  | e :: _ =>
    isBegin e && (evs.filter isBegin).length == 1 &&
    (if finished then (evs.filter isEnd).length == 1 else (evs.filter isEnd).length ≤ 1)

/-- the End event's error flag, if an End was seen -/
def endOf : Kind → Option Bool
  | .end_ e => some e
  | _ => none

def endErr (evs : List Kind) : Option Bool := evs.findSome? endOf

/-! ### generators: the event list of each path, parameterised by what happened -/

/-- ClientConn.invoke: marshal failure | reply never arrived (error) | reply arrived (status error or success) -/
def clientUnary (marshalFails replyArrived callErr : Bool) : List Kind :=
  if marshalFails then [.begin_, .end_ true]
  else [.begin_, .outHeader, .outPayload] ++ (if replyArrived then [.inHeader] else []) ++
       (if callErr then [.end_ true] else [.inPayload, .end_ false])

/-- processUnaryRpc (after the metadata has decoded): dec may or may not see a body -/
def serverUnary (hasBody appErr : Bool) : List Kind :=
  [.begin_, .inHeader] ++ (if hasBody then [.inPayload] else []) ++ [.outHeader, .outPayload, .outTrailer, .end_ appErr]

/-- one handler-side stream operation -/
inductive SOp where
  | recvOk | recvEnd | sendHeader (ok : Bool) | sendMsg | setHeader | setTrailer
  deriving DecidableEq, Repr

def serverStreamOps : Bool → List SOp → List Kind
  | _, [] => []
  | sent, .recvOk :: t => .inPayload :: serverStreamOps sent t
  | sent, .recvEnd :: t => serverStreamOps sent t
  | sent, .sendHeader ok :: t => if sent then serverStreamOps sent t else .outHeader :: serverStreamOps ok t
  | sent, .sendMsg :: t => (if sent then [] else [.outHeader]) ++ .outPayload :: serverStreamOps true t
  | sent, .setHeader :: t => serverStreamOps sent t
  | sent, .setTrailer :: t => serverStreamOps sent t

/-- runStream: Begin and InHeader, the handler's operations, OutTrailer from SendTrailer, End from the defer -/
def serverStream (ops : List SOp) (appErr : Bool) : List Kind :=
  [.begin_, .inHeader] ++ serverStreamOps false ops ++ [.outTrailer, .end_ appErr]

/-- one caller-side stream event source, in the order the events were handed to the handler -/
inductive COp where
  | sendMsg | closeSend | recvMsg | header
  deriving DecidableEq, Repr

def clientStreamOp : COp → Kind
  | .sendMsg => .outPayload | .closeSend => .outTrailer | .recvMsg => .inPayload | .header => .inHeader

/-- newStream + clientStream: open failure ends at once; otherwise OutHeader, the operations (from both
    the caller's goroutine and the read loop, in the order they were emitted), and ONE End from the read
    loop's finishing block, placed anywhere after the OutHeader (`pre` before it, `post` after it) -/
def clientStream (openFails : Bool) (pre post : List COp) (err : Bool) : List Kind :=
  if openFails then [.begin_, .end_ true]
  else [.begin_, .outHeader] ++ pre.map clientStreamOp ++ [.end_ err] ++ post.map clientStreamOp

theorem ops_kinds (ops : List SOp) : ∀ (sent : Bool), ∀ k ∈ serverStreamOps sent ops, isBegin k = false ∧ isEnd k = false := by
  induction ops with
  | nil => intro sent k hk; simp [serverStreamOps] at hk
  | cons o t ih =>
    intro sent k hk
    cases o with
    | recvOk =>
      simp only [serverStreamOps, List.mem_cons] at hk
      rcases hk with hk | hk
      · subst hk; exact ⟨rfl, rfl⟩
      · exact ih sent k hk
    | recvEnd => exact ih sent k (by simpa [serverStreamOps] using hk)
    | setHeader => exact ih sent k (by simpa [serverStreamOps] using hk)
    | setTrailer => exact ih sent k (by simpa [serverStreamOps] using hk)
    | sendHeader ok =>
      simp only [serverStreamOps] at hk
      split at hk
      · exact ih sent k hk
      · simp only [List.mem_cons] at hk
        rcases hk with hk | hk
        · subst hk; exact ⟨rfl, rfl⟩
        · exact ih ok k hk
    | sendMsg =>
      simp only [serverStreamOps, List.mem_append, List.mem_cons] at hk
      rcases hk with hk | hk | hk
      · split at hk
        · simp at hk
        · simp at hk; subst hk; exact ⟨rfl, rfl⟩
      · subst hk; exact ⟨rfl, rfl⟩
      · exact ih true k hk

theorem filter_isBegin_ops (sent : Bool) (ops : List SOp) : (serverStreamOps sent ops).filter isBegin = [] := by
  rw [List.filter_eq_nil_iff]; intro k hk; simp [(ops_kinds ops sent k hk).1]

theorem filter_isEnd_ops (sent : Bool) (ops : List SOp) : (serverStreamOps sent ops).filter isEnd = [] := by
  rw [List.filter_eq_nil_iff]; intro k hk; simp [(ops_kinds ops sent k hk).2]

theorem filter_isBegin_cops (l : List COp) : (l.map clientStreamOp).filter isBegin = [] := by
  rw [List.filter_eq_nil_iff]; intro k hk
  simp only [List.mem_map] at hk
  obtain ⟨o, _, rfl⟩ := hk
  cases o <;> simp [clientStreamOp, isBegin]

theorem filter_isEnd_cops (l : List COp) : (l.map clientStreamOp).filter isEnd = [] := by
  rw [List.filter_eq_nil_iff]; intro k hk
  simp only [List.mem_map] at hk
  obtain ⟨o, _, rfl⟩ := hk
  cases o <;> simp [clientStreamOp, isEnd]

end Goat.Stats
