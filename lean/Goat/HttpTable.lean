/-
  The connection table of `GoatOverHttp` (/repo/http.go): `retrieve`, `unregister`,
  `unregisterLocked`, the idle cleaner's sweep and the `cancel` hook of a failed `Write`, over ANY
  number of connection objects and addresses. Core Lean only (the driver replays it: op `httptable`).

      retrieve(id):          lock; conn, ok := value[id]; if !ok { conn = new(done open); value[id] = conn }; unlock
      unregisterLocked(id):  if conn, ok := value[id]; ok { close(conn.done) }; delete(value, id)
      cleaner tick:          lock; for every conn idle past the timeout: unregisterLocked(conn.writeAddr); unlock
      conn.cancel():         unregister(conn.writeAddr)         -- BY ADDRESS, whoever holds it now
      Write fails:           hrw.cancel(); return err
      Read:                  select { <-readCh | <-done: "readCh closed" | <-ctx.Done() }

  Closing a closed channel is a Go panic: it is an explicit outcome here (`panicked`).
-/
import Goat.Basic
namespace Goat.HttpTable

structure Obj where
  addr : Nat
  doneClosed : Bool := false
  deriving DecidableEq, Repr

structure State where
  objs : List Obj := []
  /-- `conns.value`: address ↦ index of the registered object -/
  table : List (Nat × Nat) := []
  panicked : Bool := false
  deriving DecidableEq, Repr

def lookup (t : List (Nat × Nat)) (a : Nat) : Option Nat := (t.find? (·.1 = a)).map (·.2)

inductive Label where
  | retrieve (a : Nat)        -- NewConnection(a) or ServeHTTP for a source mapped to a
  | sweep (as : List Nat)     -- one cleaner tick: the addresses whose connections are idle past the timeout
  | writeFail (i : Nat)       -- a Write on object i fails and calls its cancel hook
  | writeGaveUp (i : Nat)     -- a Write on object i ends with its caller's context: an error, no cancel hook (aeb94ff)
  deriving DecidableEq, Repr

/-- `unregisterLocked(a)` -/
def unregisterLocked (s : State) (a : Nat) : State :=
  match lookup s.table a with
  | none => s
  | some j =>
    match s.objs[j]? with
    | none => { s with table := s.table.filter (·.1 ≠ a) }
    | some o =>
      { s with objs := s.objs.set j { o with doneClosed := true },
               table := s.table.filter (·.1 ≠ a),
               panicked := s.panicked || o.doneClosed }

def step (s : State) : Label → Option State
  | .retrieve a =>
    match lookup s.table a with
    | some _ => some s
    | none => some { s with objs := s.objs ++ [{ addr := a }], table := (a, s.objs.length) :: s.table }
  | .sweep as => some (as.foldl unregisterLocked s)
  | .writeFail i =>
    match s.objs[i]? with
    | none => none
    | some o => some (unregisterLocked s o.addr)
  | .writeGaveUp i =>
    match s.objs[i]? with
    | none => none
    | some _ => some s

def run : State → List Label → Option State
  | s, [] => some s
  | s, l :: ls => match step s l with
    | some s' => run s' ls
    | none => none

def Reachable (s : State) : Prop := ∃ ls, run {} ls = some s

/-- what a Read on object i does when nothing is sent and the caller's context is still live -/
def readOutcome (s : State) (i : Nat) : String :=
  match s.objs[i]? with
  | some o => if o.doneClosed then "closed" else "pending"
  | none => "noobject"

end Goat.HttpTable
