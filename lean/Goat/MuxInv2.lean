/-
  Basic invariants of the multiplexer LTS, part 2: InvD (where envelopes and results come from) and
  InvE (the handler the read loop is sending to).
-/
import Goat.MuxInv

set_option linter.unusedVariables false

namespace Goat.Mux

/-! ## Invariant D: where envelopes and results come from -/

def InvD (cfg : Cfg) (s : State) : Prop :=
  (match s.rl with
   | .got e => e ∈ s.wireIn
   | .lookedUp _ e => e ∈ s.wireIn
   | _ => True) ∧
  (∀ (i : Nat) (c : Caller), s.callers[i]? = some c →
      (∀ e, e ∈ c.delivered → e.id = c.id ∧ e ∈ s.wireIn) ∧
      (match c.buf with
       | some e => e.id = c.id ∧ e ∈ s.wireIn
       | none => True)) ∧
  (∀ (i : Nat) (c : Caller) (b : Bytes), s.callers[i]? = some c → c.result = some (.ok b) →
      c.kind = .unary ∧ ∃ e, e ∈ c.delivered ∧ e.body = some b ∧ okLike e = true) ∧
  (∀ (i : Nat) (c : Caller), s.callers[i]? = some c → c.result = some .nilDeref →
      cfg.okStatusIsSuccess = false)

theorem invD_init (cfg : Cfg) : InvD cfg init := by
  simp [InvD, init]

theorem invD_alloc (cfg : Cfg) (s s' : State) {k} (_hc : cfg.idAllocAtomic = true)
    (hA : InvA cfg s) (hi : InvD cfg s) (hs : step cfg s (.alloc k) = some s') : InvD cfg s' := by
  unfold InvD at *; unfold InvA at hA; step_grind

theorem invD_allocLoad (cfg : Cfg) (s s' : State) {k} (_hc : cfg.idAllocAtomic = true)
    (hA : InvA cfg s) (hi : InvD cfg s) (hs : step cfg s (.allocLoad k) = some s') : InvD cfg s' := by
  unfold InvD at *; unfold InvA at hA; step_grind

theorem invD_allocStore (cfg : Cfg) (s s' : State) {i} (_hc : cfg.idAllocAtomic = true)
    (hA : InvA cfg s) (hi : InvD cfg s) (hs : step cfg s (.allocStore i) = some s') : InvD cfg s' := by
  unfold InvD at *; unfold InvA at hA; step_grind

theorem invD_ctxCancel (cfg : Cfg) (s s' : State) {i} (_hc : cfg.idAllocAtomic = true)
    (hA : InvA cfg s) (hi : InvD cfg s) (hs : step cfg s (.ctxCancel i) = some s') : InvD cfg s' := by
  unfold InvD at *; unfold InvA at hA; step_grind

theorem invD_checkErr (cfg : Cfg) (s s' : State) {i} (_hc : cfg.idAllocAtomic = true)
    (hA : InvA cfg s) (hi : InvD cfg s) (hs : step cfg s (.checkErr i) = some s') : InvD cfg s' := by
  unfold InvD at *; unfold InvA at hA; step_grind

theorem invD_register (cfg : Cfg) (s s' : State) {i} (_hc : cfg.idAllocAtomic = true)
    (hA : InvA cfg s) (hi : InvD cfg s) (hs : step cfg s (.register i) = some s') : InvD cfg s' := by
  unfold InvD at *; unfold InvA at hA; step_grind

theorem invD_write (cfg : Cfg) (s s' : State) {i} {e} {ok} (_hc : cfg.idAllocAtomic = true)
    (hA : InvA cfg s) (hi : InvD cfg s) (hs : step cfg s (.write i e ok) = some s') : InvD cfg s' := by
  unfold InvD at *; unfold InvA at hA; step_grind

theorem invD_rlRead (cfg : Cfg) (s s' : State) {e} (_hc : cfg.idAllocAtomic = true)
    (hA : InvA cfg s) (hi : InvD cfg s) (hs : step cfg s (.rlRead e) = some s') : InvD cfg s' := by
  unfold InvD at *; unfold InvA at hA; step_grind

theorem invD_rlFail (cfg : Cfg) (s s' : State) (_hc : cfg.idAllocAtomic = true)
    (hA : InvA cfg s) (hi : InvD cfg s) (hs : step cfg s .rlFail = some s') : InvD cfg s' := by
  unfold InvD at *; unfold InvA at hA; step_grind

theorem invD_rlLookup (cfg : Cfg) (s s' : State) (_hc : cfg.idAllocAtomic = true)
    (hA : InvA cfg s) (hi : InvD cfg s) (hs : step cfg s .rlLookup = some s') : InvD cfg s' := by
  unfold InvD at *; unfold InvA at hA; step_grind

theorem invD_rlDeliver (cfg : Cfg) (s s' : State) (_hc : cfg.idAllocAtomic = true)
    (hA : InvA cfg s) (hi : InvD cfg s) (hs : step cfg s .rlDeliver = some s') : InvD cfg s' := by
  unfold InvD at *; unfold InvA at hA; step_grind

theorem invD_rlDrop (cfg : Cfg) (s s' : State) (_hc : cfg.idAllocAtomic = true)
    (hA : InvA cfg s) (hi : InvD cfg s) (hs : step cfg s .rlDrop = some s') : InvD cfg s' := by
  unfold InvD at *; unfold InvA at hA; step_grind

theorem invD_recvTake (cfg : Cfg) (s s' : State) {i} (_hc : cfg.idAllocAtomic = true)
    (hA : InvA cfg s) (hi : InvD cfg s) (hs : step cfg s (.recvTake i) = some s') : InvD cfg s' := by
  unfold InvD at *; unfold InvA at hA
  simp only [step] at hs
  repeat' split at hs
  all_goals first | contradiction | (simp only [Option.some.injEq] at hs; subst hs; try simp only [])
  · rename_i _ c hck _ e hb hp
    have h1 := clientUnaryOutcome_ok cfg e
    have h2 := clientUnaryOutcome_nilDeref cfg e
    have h3 := written_unary c
    refine ⟨by grind, by grind, ?_, by grind⟩
    intro j c' b hc' hr
    rw [List.getElem?_set] at hc'
    split at hc'
    · split at hc'
      · simp at hc'; subst hc'; simp at hr
        refine ⟨by grind, e, by simp, (h1 b hr).1, (h1 b hr).2⟩
      · simp at hc'
    · grind
  · grind

theorem invD_recvClosed (cfg : Cfg) (s s' : State) {i} (_hc : cfg.idAllocAtomic = true)
    (hA : InvA cfg s) (hi : InvD cfg s) (hs : step cfg s (.recvClosed i) = some s') : InvD cfg s' := by
  unfold InvD at *; unfold InvA at hA; step_grind

theorem invD_recvCtx (cfg : Cfg) (s s' : State) {i} (_hc : cfg.idAllocAtomic = true)
    (hA : InvA cfg s) (hi : InvD cfg s) (hs : step cfg s (.recvCtx i) = some s') : InvD cfg s' := by
  unfold InvD at *; unfold InvA at hA; step_grind

theorem invD_unregister (cfg : Cfg) (s s' : State) {i} (_hc : cfg.idAllocAtomic = true)
    (hA : InvA cfg s) (hi : InvD cfg s) (hs : step cfg s (.unregister i) = some s') : InvD cfg s' := by
  unfold InvD at *; unfold InvA at hA; step_grind

theorem invD_ret (cfg : Cfg) (s s' : State) {i} (_hc : cfg.idAllocAtomic = true)
    (hA : InvA cfg s) (hi : InvD cfg s) (hs : step cfg s (.ret i) = some s') : InvD cfg s' := by
  unfold InvD at *; unfold InvA at hA; step_grind

theorem invD_step (cfg : Cfg) (hc : cfg.idAllocAtomic = true) (s s' : State) (l : Label)
    (hA : InvA cfg s) (hi : InvD cfg s) (hs : step cfg s l = some s') : InvD cfg s' := by
  cases l with
  | alloc k => exact invD_alloc cfg s s' hc hA hi hs
  | allocLoad k => exact invD_allocLoad cfg s s' hc hA hi hs
  | allocStore i => exact invD_allocStore cfg s s' hc hA hi hs
  | ctxCancel i => exact invD_ctxCancel cfg s s' hc hA hi hs
  | checkErr i => exact invD_checkErr cfg s s' hc hA hi hs
  | register i => exact invD_register cfg s s' hc hA hi hs
  | write i e ok => exact invD_write cfg s s' hc hA hi hs
  | rlRead e => exact invD_rlRead cfg s s' hc hA hi hs
  | rlFail => exact invD_rlFail cfg s s' hc hA hi hs
  | rlLookup => exact invD_rlLookup cfg s s' hc hA hi hs
  | rlDeliver => exact invD_rlDeliver cfg s s' hc hA hi hs
  | rlDrop => exact invD_rlDrop cfg s s' hc hA hi hs
  | recvTake i => exact invD_recvTake cfg s s' hc hA hi hs
  | recvClosed i => exact invD_recvClosed cfg s s' hc hA hi hs
  | recvCtx i => exact invD_recvCtx cfg s s' hc hA hi hs
  | unregister i => exact invD_unregister cfg s s' hc hA hi hs
  | ret i => exact invD_ret cfg s s' hc hA hi hs


/-! ## Invariant E: the handler the read loop is sending to -/

def InvE (cfg : Cfg) (s : State) : Prop :=
  (∀ (i : Nat) (e : Env) (c : Caller), s.rl = .lookedUp i e → s.callers[i]? = some c →
      (c.done = true ∨ c.pc.isReg = true) ∧ (cfg.dispatchOutsideLock = false → c.done = false)) ∧
  s.rl ≠ .panicked

theorem invE_init (cfg : Cfg) : InvE cfg init := by
  simp [InvE, init]

theorem invE_alloc (cfg : Cfg) (s s' : State) {k} (_hc : cfg.idAllocAtomic = true)
    (hA : InvA cfg s) (hB : InvB cfg s) (hi : InvE cfg s) (hs : step cfg s (.alloc k) = some s') : InvE cfg s' := by
  unfold InvE at *; unfold InvA at hA; unfold InvB at hB; step_grind

theorem invE_allocLoad (cfg : Cfg) (s s' : State) {k} (_hc : cfg.idAllocAtomic = true)
    (hA : InvA cfg s) (hB : InvB cfg s) (hi : InvE cfg s) (hs : step cfg s (.allocLoad k) = some s') : InvE cfg s' := by
  unfold InvE at *; unfold InvA at hA; unfold InvB at hB; step_grind

theorem invE_allocStore (cfg : Cfg) (s s' : State) {i} (_hc : cfg.idAllocAtomic = true)
    (hA : InvA cfg s) (hB : InvB cfg s) (hi : InvE cfg s) (hs : step cfg s (.allocStore i) = some s') : InvE cfg s' := by
  unfold InvE at *; unfold InvA at hA; unfold InvB at hB; step_grind

theorem invE_ctxCancel (cfg : Cfg) (s s' : State) {i} (_hc : cfg.idAllocAtomic = true)
    (hA : InvA cfg s) (hB : InvB cfg s) (hi : InvE cfg s) (hs : step cfg s (.ctxCancel i) = some s') : InvE cfg s' := by
  unfold InvE at *; unfold InvA at hA; unfold InvB at hB; step_grind

theorem invE_checkErr (cfg : Cfg) (s s' : State) {i} (_hc : cfg.idAllocAtomic = true)
    (hA : InvA cfg s) (hB : InvB cfg s) (hi : InvE cfg s) (hs : step cfg s (.checkErr i) = some s') : InvE cfg s' := by
  unfold InvE at *; unfold InvA at hA; unfold InvB at hB; step_grind

theorem invE_register (cfg : Cfg) (s s' : State) {i} (_hc : cfg.idAllocAtomic = true)
    (hA : InvA cfg s) (hB : InvB cfg s) (hi : InvE cfg s) (hs : step cfg s (.register i) = some s') : InvE cfg s' := by
  unfold InvE at *; unfold InvA at hA; unfold InvB at hB; step_grind

theorem invE_write (cfg : Cfg) (s s' : State) {i} {e} {ok} (_hc : cfg.idAllocAtomic = true)
    (hA : InvA cfg s) (hB : InvB cfg s) (hi : InvE cfg s) (hs : step cfg s (.write i e ok) = some s') : InvE cfg s' := by
  unfold InvE at *; unfold InvA at hA; unfold InvB at hB; step_grind

theorem invE_rlRead (cfg : Cfg) (s s' : State) {e} (_hc : cfg.idAllocAtomic = true)
    (hA : InvA cfg s) (hB : InvB cfg s) (hi : InvE cfg s) (hs : step cfg s (.rlRead e) = some s') : InvE cfg s' := by
  unfold InvE at *; unfold InvA at hA; unfold InvB at hB; step_grind

theorem invE_rlFail (cfg : Cfg) (s s' : State) (_hc : cfg.idAllocAtomic = true)
    (hA : InvA cfg s) (hB : InvB cfg s) (hi : InvE cfg s) (hs : step cfg s .rlFail = some s') : InvE cfg s' := by
  unfold InvE at *; unfold InvA at hA; unfold InvB at hB; step_grind

theorem invE_rlLookup (cfg : Cfg) (s s' : State) (_hc : cfg.idAllocAtomic = true)
    (hA : InvA cfg s) (hB : InvB cfg s) (hi : InvE cfg s) (hs : step cfg s .rlLookup = some s') : InvE cfg s' := by
  unfold InvE at *; unfold InvA at hA; unfold InvB at hB; step_grind

theorem invE_rlDeliver (cfg : Cfg) (s s' : State) (_hc : cfg.idAllocAtomic = true)
    (hA : InvA cfg s) (hB : InvB cfg s) (hi : InvE cfg s) (hs : step cfg s .rlDeliver = some s') : InvE cfg s' := by
  unfold InvE at *; unfold InvA at hA; unfold InvB at hB; step_grind

theorem invE_rlDrop (cfg : Cfg) (s s' : State) (_hc : cfg.idAllocAtomic = true)
    (hA : InvA cfg s) (hB : InvB cfg s) (hi : InvE cfg s) (hs : step cfg s .rlDrop = some s') : InvE cfg s' := by
  unfold InvE at *; unfold InvA at hA; unfold InvB at hB; step_grind

theorem invE_recvTake (cfg : Cfg) (s s' : State) {i} (_hc : cfg.idAllocAtomic = true)
    (hA : InvA cfg s) (hB : InvB cfg s) (hi : InvE cfg s) (hs : step cfg s (.recvTake i) = some s') : InvE cfg s' := by
  unfold InvE at *; unfold InvA at hA; unfold InvB at hB; step_grind

theorem invE_recvClosed (cfg : Cfg) (s s' : State) {i} (_hc : cfg.idAllocAtomic = true)
    (hA : InvA cfg s) (hB : InvB cfg s) (hi : InvE cfg s) (hs : step cfg s (.recvClosed i) = some s') : InvE cfg s' := by
  unfold InvE at *; unfold InvA at hA; unfold InvB at hB; step_grind

theorem invE_recvCtx (cfg : Cfg) (s s' : State) {i} (_hc : cfg.idAllocAtomic = true)
    (hA : InvA cfg s) (hB : InvB cfg s) (hi : InvE cfg s) (hs : step cfg s (.recvCtx i) = some s') : InvE cfg s' := by
  unfold InvE at *; unfold InvA at hA; unfold InvB at hB; step_grind

theorem invE_unregister (cfg : Cfg) (s s' : State) {i} (_hc : cfg.idAllocAtomic = true)
    (hA : InvA cfg s) (hB : InvB cfg s) (hi : InvE cfg s) (hs : step cfg s (.unregister i) = some s') : InvE cfg s' := by
  unfold InvE at *; unfold InvA at hA; unfold InvB at hB; step_grind

theorem invE_ret (cfg : Cfg) (s s' : State) {i} (_hc : cfg.idAllocAtomic = true)
    (hA : InvA cfg s) (hB : InvB cfg s) (hi : InvE cfg s) (hs : step cfg s (.ret i) = some s') : InvE cfg s' := by
  unfold InvE at *; unfold InvA at hA; unfold InvB at hB; step_grind

theorem invE_step (cfg : Cfg) (hc : cfg.idAllocAtomic = true) (s s' : State) (l : Label)
    (hA : InvA cfg s) (hB : InvB cfg s) (hi : InvE cfg s) (hs : step cfg s l = some s') : InvE cfg s' := by
  cases l with
  | alloc k => exact invE_alloc cfg s s' hc hA hB hi hs
  | allocLoad k => exact invE_allocLoad cfg s s' hc hA hB hi hs
  | allocStore i => exact invE_allocStore cfg s s' hc hA hB hi hs
  | ctxCancel i => exact invE_ctxCancel cfg s s' hc hA hB hi hs
  | checkErr i => exact invE_checkErr cfg s s' hc hA hB hi hs
  | register i => exact invE_register cfg s s' hc hA hB hi hs
  | write i e ok => exact invE_write cfg s s' hc hA hB hi hs
  | rlRead e => exact invE_rlRead cfg s s' hc hA hB hi hs
  | rlFail => exact invE_rlFail cfg s s' hc hA hB hi hs
  | rlLookup => exact invE_rlLookup cfg s s' hc hA hB hi hs
  | rlDeliver => exact invE_rlDeliver cfg s s' hc hA hB hi hs
  | rlDrop => exact invE_rlDrop cfg s s' hc hA hB hi hs
  | recvTake i => exact invE_recvTake cfg s s' hc hA hB hi hs
  | recvClosed i => exact invE_recvClosed cfg s s' hc hA hB hi hs
  | recvCtx i => exact invE_recvCtx cfg s s' hc hA hB hi hs
  | unregister i => exact invE_unregister cfg s s' hc hA hB hi hs
  | ret i => exact invE_ret cfg s s' hc hA hB hi hs


/-! ## Invariant H: the header dereference in the stats-handler block -/

def InvH (cfg : Cfg) (s : State) : Prop :=
  ∀ (i : Nat) (c : Caller), s.callers[i]? = some c → c.result = some .nilHeaderDeref →
    cfg.statsHeaderNilSafe = false ∧ cfg.statsHandlers = true

theorem invH_init (cfg : Cfg) : InvH cfg init := by
  simp [InvH, init]

theorem invH_alloc (cfg : Cfg) (s s' : State) {k}
    (hi : InvH cfg s) (hs : step cfg s (.alloc k) = some s') : InvH cfg s' := by
  unfold InvH at *; step_grind

theorem invH_allocLoad (cfg : Cfg) (s s' : State) {k}
    (hi : InvH cfg s) (hs : step cfg s (.allocLoad k) = some s') : InvH cfg s' := by
  unfold InvH at *; step_grind

theorem invH_allocStore (cfg : Cfg) (s s' : State) {i}
    (hi : InvH cfg s) (hs : step cfg s (.allocStore i) = some s') : InvH cfg s' := by
  unfold InvH at *; step_grind

theorem invH_ctxCancel (cfg : Cfg) (s s' : State) {i}
    (hi : InvH cfg s) (hs : step cfg s (.ctxCancel i) = some s') : InvH cfg s' := by
  unfold InvH at *; step_grind

theorem invH_checkErr (cfg : Cfg) (s s' : State) {i}
    (hi : InvH cfg s) (hs : step cfg s (.checkErr i) = some s') : InvH cfg s' := by
  unfold InvH at *; step_grind

theorem invH_register (cfg : Cfg) (s s' : State) {i}
    (hi : InvH cfg s) (hs : step cfg s (.register i) = some s') : InvH cfg s' := by
  unfold InvH at *; step_grind

theorem invH_write (cfg : Cfg) (s s' : State) {i} {e} {ok}
    (hi : InvH cfg s) (hs : step cfg s (.write i e ok) = some s') : InvH cfg s' := by
  unfold InvH at *; step_grind

theorem invH_rlRead (cfg : Cfg) (s s' : State) {e}
    (hi : InvH cfg s) (hs : step cfg s (.rlRead e) = some s') : InvH cfg s' := by
  unfold InvH at *; step_grind

theorem invH_rlFail (cfg : Cfg) (s s' : State)
    (hi : InvH cfg s) (hs : step cfg s .rlFail = some s') : InvH cfg s' := by
  unfold InvH at *; step_grind

theorem invH_rlLookup (cfg : Cfg) (s s' : State)
    (hi : InvH cfg s) (hs : step cfg s .rlLookup = some s') : InvH cfg s' := by
  unfold InvH at *; step_grind

theorem invH_rlDeliver (cfg : Cfg) (s s' : State)
    (hi : InvH cfg s) (hs : step cfg s .rlDeliver = some s') : InvH cfg s' := by
  unfold InvH at *; step_grind

theorem invH_rlDrop (cfg : Cfg) (s s' : State)
    (hi : InvH cfg s) (hs : step cfg s .rlDrop = some s') : InvH cfg s' := by
  unfold InvH at *; step_grind

theorem invH_recvTake (cfg : Cfg) (s s' : State) {i}
    (hi : InvH cfg s) (hs : step cfg s (.recvTake i) = some s') : InvH cfg s' := by
  unfold InvH at *; step_grind

theorem invH_recvClosed (cfg : Cfg) (s s' : State) {i}
    (hi : InvH cfg s) (hs : step cfg s (.recvClosed i) = some s') : InvH cfg s' := by
  unfold InvH at *; step_grind

theorem invH_recvCtx (cfg : Cfg) (s s' : State) {i}
    (hi : InvH cfg s) (hs : step cfg s (.recvCtx i) = some s') : InvH cfg s' := by
  unfold InvH at *; step_grind

theorem invH_unregister (cfg : Cfg) (s s' : State) {i}
    (hi : InvH cfg s) (hs : step cfg s (.unregister i) = some s') : InvH cfg s' := by
  unfold InvH at *; step_grind

theorem invH_ret (cfg : Cfg) (s s' : State) {i}
    (hi : InvH cfg s) (hs : step cfg s (.ret i) = some s') : InvH cfg s' := by
  unfold InvH at *; step_grind

theorem invH_step (cfg : Cfg) (s s' : State) (l : Label)
    (hi : InvH cfg s) (hs : step cfg s l = some s') : InvH cfg s' := by
  cases l with
  | alloc k => exact invH_alloc cfg s s' hi hs
  | allocLoad k => exact invH_allocLoad cfg s s' hi hs
  | allocStore i => exact invH_allocStore cfg s s' hi hs
  | ctxCancel i => exact invH_ctxCancel cfg s s' hi hs
  | checkErr i => exact invH_checkErr cfg s s' hi hs
  | register i => exact invH_register cfg s s' hi hs
  | write i e ok => exact invH_write cfg s s' hi hs
  | rlRead e => exact invH_rlRead cfg s s' hi hs
  | rlFail => exact invH_rlFail cfg s s' hi hs
  | rlLookup => exact invH_rlLookup cfg s s' hi hs
  | rlDeliver => exact invH_rlDeliver cfg s s' hi hs
  | rlDrop => exact invH_rlDrop cfg s s' hi hs
  | recvTake i => exact invH_recvTake cfg s s' hi hs
  | recvClosed i => exact invH_recvClosed cfg s s' hi hs
  | recvCtx i => exact invH_recvCtx cfg s s' hi hs
  | unregister i => exact invH_unregister cfg s s' hi hs
  | ret i => exact invH_ret cfg s s' hi hs

theorem invH_reachable (cfg : Cfg) (s : State) (hr : Reachable cfg s) : InvH cfg s :=
  reachable_induction cfg (InvH cfg) (invH_init cfg)
    (fun s s' l _ hi hs => invH_step cfg s s' l hi hs) s hr

end Goat.Mux
