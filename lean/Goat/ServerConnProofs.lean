/-
  ServerConn — the combined structural invariant for reachable states, and the
  lemmas the property theorems are made of.
-/
import Goat.ServerConnInvA
import Goat.ServerConnInvB
import Goat.ServerConnInvW

set_option maxHeartbeats 400000

namespace Goat.ServerConn

/-- All structural invariants together. -/
structure InvS (s : State) : Prop where
  mu : InvMu s
  stream : InvStream s
  route : InvRoute s
  fwd : InvFwd s
  uniq : InvUniq s
  waitA : InvWaitA s
  waitB : InvWaitB s
  waitC : InvWaitC s
  proc : InvProc s

theorem invS_init : InvS init := by
  refine ⟨?_, ?_, ?_, ?_, ?_, ?_, ?_, ?_, ?_⟩ <;>
    simp [InvMu, InvStream, InvRoute, InvFwd, InvUniq, InvWaitA, InvWaitB, InvWaitC, InvProc,
      init, muOwner]
  intro w h
  have := List.mem_of_getElem? h
  simp at this

theorem invS_step (cfg : Cfg) (s s' : State) (l : Label) (hi : InvS s)
    (hs : step cfg s l = some s') : InvS s' :=
  { mu := invMu_step cfg s s' l hi.mu hs
    stream := invStream_step cfg s s' l hi.stream hs
    route := invRoute_step cfg s s' l hi.route hi.fwd hs
    fwd := invFwd_step cfg s s' l hi.fwd hi.mu hs
    uniq := invUniq_step cfg s s' l hi.uniq hs
    waitA := invWaitA_step cfg s s' l hi.waitA hs
    waitB := invWaitB_step cfg s s' l hi.waitB hi.stream hs
    waitC := invWaitC_step cfg s s' l hi.waitC hi.waitA hs
    proc := invProc_step cfg s s' l hi.proc hs }

theorem invS_reachable {cfg : Cfg} {s : State} (hr : Reachable cfg s) : InvS s :=
  reachable_induct InvS invS_init (fun s s' l _ hi hs => invS_step cfg s s' l hi hs) hr

/-! ## C11: no wedge -/

/-- With the stream's done signal in the forwarding select: a read loop parked in the
forwarding select (holding `h.mu`) can complete, or the handler it waits for can take a step,
or that handler is waiting for the writer and the writer can take a step. -/
theorem no_wedge_of_inv (cfg : Cfg) (hc : cfg.forwardSelectsOnStreamDone = true) (s : State)
    (hi : InvS s) (x : Nat) (e : InEnv) (hx : s.rl = .forwarding x e) :
    (step cfg s .rlForwardSent).isSome ∨ (step cfg s .rlForwardDropped).isSome ∨
    (step cfg s (.rlForwardAbort false)).isSome ∨
    (step cfg s (.hRecv x)).isSome ∨ (step cfg s (.hReturn x)).isSome ∨
    (step cfg s (.hTrailer x)).isSome ∨ (step cfg s (.hCancel x)).isSome ∨
    (step cfg s (.writerWrite true)).isSome := by
  have hf := hi.fwd
  have hp := hi.proc
  unfold InvFwd at hf
  unfold InvProc at hp
  rw [hx] at hf
  obtain ⟨hlen, hreg⟩ := hf
  obtain ⟨st, hst⟩ : ∃ st, s.streams[x]? = some st := ⟨s.streams[x], by simp [hlen]⟩
  have h3 := hi.stream x st hst
  have h4 := hreg st hst
  simp only [step, hx, hst, hc, sdone]
  cases hp' : st.hpc <;> cases hw : s.writer <;> cases hq : st.queue <;> simp_all


/-! ## C03/C06: wire order -/

structure InvWire (s : State) : Prop where
  used : InvUsed s
  ids : InvIds s
  w : InvW s

theorem invWire_init : InvWire init := by
  refine ⟨?_, ?_, ?_⟩ <;> simp [InvUsed, InvIds, InvW, init, writerEv, resetTarget, wireOk_nil]

theorem invWire_reachable {cfg : Cfg} (hc : cfg.resetViaWriter = true) {s : State}
    (hr : Reachable cfg s) : InvWire s :=
  reachable_induct InvWire invWire_init
    (fun s s' l hr0 hi hs =>
      { used := invUsed_step cfg s s' l hi.used hs
        ids := invIds_step cfg s s' l hi.ids hi.used hs
        w := invW_step cfg hc s s' l hi.w hi.used hi.ids (invS_reachable hr0).stream hs }) hr

theorem wireOkRev_split (a b : List OutEv) (e : OutEv) (h : wireOkRev (a ++ e :: b) = true) :
    admissible b e = true := by
  induction a with
  | nil => simp [wireOkRev] at h; exact h.1
  | cons x a ih => simp [wireOkRev] at h; exact ih h.2

/-- What `wireOk` means: every event was admissible after everything before it. -/
theorem wireOk_split (w pre post : List OutEv) (e : OutEv) (h : wireOk w = true)
    (hw : w = pre ++ e :: post) : admissible pre e = true := by
  subst hw
  unfold wireOk at h
  simp at h
  have := wireOkRev_split post.reverse pre.reverse e (by simpa using h)
  rwa [admissible_reverse] at this

/-! ## C10: the read loop ends without input -/

/-- Every read-loop label other than `rlRead` moves the loop strictly closer to `exited`:
    between two inputs the loop takes at most three steps. -/
theorem rl_internal_decreases (cfg : Cfg) (s s' : State) (l : Label)
    (hl : l.isRlInternal = true) (hs : step cfg s l = some s') : s'.rl.dist < s.rl.dist := by
  cases l <;> simp [Label.isRlInternal] at hl <;> prep hs <;> simp_all [Rl.dist]

theorem known_true_witness (s : State) (i : Nat) (h : known s i = true) :
    ∃ (x : Nat) (st : StreamRec), s.streams[x]? = some st ∧ st.registered = true ∧ st.id = i := by
  unfold known at h
  obtain ⟨st, hm, hp⟩ := List.any_eq_true.mp h
  obtain ⟨x, hx⟩ := List.getElem?_of_mem hm
  simp at hp
  exact ⟨x, st, hx, hp.1, hp.2⟩

/-- Once the connection context is done, a read loop that has not left always has an
    enabled step that needs no input from the peer. -/
theorem rl_progress (cfg : Cfg) (s : State) (hi : InvS s) (hd : s.connDone = true)
    (hne : s.rl ≠ .exited) : ∃ l, l.isRlInternal = true ∧ (step cfg s l).isSome = true := by
  have hmu := hi.mu
  unfold InvMu at hmu
  cases hrl : s.rl with
  | exited => exact absurd hrl hne
  | reading => exact ⟨.rlReadErr, rfl, by simp [step, hrl]⟩
  | unaryOffer e => exact ⟨.rlCtxExit, rfl, by simp [step, hrl, hd]⟩
  | forwarding x e => exact ⟨.rlForwardAbort false, rfl, by simp [step, hrl, hd]⟩
  | resetOffer e =>
    cases hc : cfg.resetViaWriter with
    | true => exact ⟨.rlResetAbort, rfl, by simp [step, hrl, hd, hc]⟩
    | false => exact ⟨.rlResetWrite true, rfl, by simp [step, hrl, hc]⟩
  | wantLock e =>
    have hm : s.muHeld = false := by rw [hmu, hrl]; rfl
    cases hk : known s e.id with
    | true =>
      obtain ⟨x, st, hx, hreg, hid⟩ := known_true_witness s e.id hk
      cases hr : e.reset with
      | true => exact ⟨.rlCancelStream x, rfl, by simp [step, hrl, hx, hm, hreg, hid, hr]⟩
      | false => exact ⟨.rlForwardEnter x, rfl, by simp [step, hrl, hx, hm, hreg, hid, hr]⟩
    | false =>
      cases hr : e.reset with
      | true => exact ⟨.rlIgnoreUnknown, rfl, by simp [step, hrl, hm, hk, hr]⟩
      | false =>
        cases hb : e.body with
        | true => exact ⟨.rlResetEnter, rfl, by simp [step, hrl, hm, hk, hr, hb]⟩
        | false =>
          cases ht : e.trailer with
          | true => exact ⟨.rlIgnoreUnknown, rfl, by simp [step, hrl, hm, hk, hr, hb, ht]⟩
          | false =>
            cases hbm : e.badMeta with
            | true => exact ⟨.rlResetEnter, rfl, by simp [step, hrl, hm, hk, hr, hb, ht, hbm]⟩
            | false => exact ⟨.rlOpen, rfl, by simp [step, hrl, hm, hk, hr, hb, ht, hbm]⟩

theorem connDone_step (cfg : Cfg) (s s' : State) (l : Label) (hd : s.connDone = true)
    (hs : step cfg s l = some s') : s'.connDone = true := by
  cases l <;> prep hs <;> simp_all

theorem connDone_run (cfg : Cfg) (ls : List Label) (s s' : State) (hd : s.connDone = true)
    (hs : run cfg s ls = some s') : s'.connDone = true := by
  induction ls generalizing s with
  | nil => simp [run] at hs; subst hs; exact hd
  | cons l ls ih =>
    simp only [run] at hs
    cases h : step cfg s l with
    | none => simp [h] at hs
    | some s1 => simp [h] at hs; exact ih s1 (connDone_step cfg s s1 l hd h) hs


/-- The read loop is out, or it has an enabled step that needs no input and every such step
    brings it strictly closer to `exited` (distance ≤ 3). -/
def ReadLoopEnds (cfg : Cfg) (s : State) : Prop :=
  s.rl = .exited ∨
  ((∃ l, l.isRlInternal = true ∧ (step cfg s l).isSome = true) ∧
   (∀ l s', l.isRlInternal = true → step cfg s l = some s' → s'.rl.dist < s.rl.dist))

theorem readLoopEnds_of_connDone (cfg : Cfg) (s : State) (hr : Reachable cfg s)
    (hd : s.connDone = true) : ReadLoopEnds cfg s := by
  by_cases h : s.rl = .exited
  · exact Or.inl h
  · exact Or.inr ⟨rl_progress cfg s (invS_reachable hr) hd h,
      fun l s' hl hs => rl_internal_decreases cfg s s' l hl hs⟩

/-- Possibility form: once the connection context is done there is a run of at most
    `dist` (≤ 3) read-loop steps, none of them an input, that takes the loop out. -/
theorem rl_can_exit (cfg : Cfg) (n : Nat) : ∀ (s : State), Reachable cfg s → s.connDone = true →
    s.rl.dist ≤ n →
    ∃ ls s', run cfg s ls = some s' ∧ s'.rl = .exited ∧ ls.length ≤ n ∧
      ∀ l ∈ ls, l.isRlInternal = true := by
  induction n with
  | zero =>
    intro s _ _ hn
    refine ⟨[], s, rfl, ?_, by simp, by simp⟩
    cases h : s.rl <;> simp [h, Rl.dist] at hn ⊢
  | succ n ih =>
    intro s hr hd hn
    by_cases hex : s.rl = .exited
    · exact ⟨[], s, rfl, hex, by simp, by simp⟩
    · obtain ⟨l, hl, hen⟩ := rl_progress cfg s (invS_reachable hr) hd hex
      obtain ⟨s1, hs1⟩ := Option.isSome_iff_exists.mp hen
      have hdec := rl_internal_decreases cfg s s1 l hl hs1
      obtain ⟨ls, s', hrun, hex', hlen, hall⟩ :=
        ih s1 (reachable_step hr hs1) (connDone_step cfg s s1 l hd hs1) (by omega)
      refine ⟨l :: ls, s', by simp [run, hs1, hrun], hex', by simp; omega, ?_⟩
      intro l' hm
      rcases List.mem_cons.mp hm with h | h
      · subst h; exact hl
      · exact hall l' h

/-! ## C10: writer, workers, wait loop can always finish once the connection is done -/

theorem writer_can_exit (cfg : Cfg) (s : State) (hd : s.connDone = true) :
    s.writer = .exited ∨
    ∃ l, (l = .writerExit ∨ l = .writerWrite true) ∧ (step cfg s l).isSome = true ∧
      ∀ s', step cfg s l = some s' → s'.writer.dist < s.writer.dist := by
  cases hw : s.writer with
  | exited => exact Or.inl rfl
  | idle =>
    refine Or.inr ⟨.writerExit, Or.inl rfl, by simp [step, hw, hd], ?_⟩
    intro s' hs
    simp [step, hw, hd] at hs
    subst hs
    simp [WriterPc.dist]
  | writing ev =>
    refine Or.inr ⟨.writerWrite true, Or.inr rfl, by simp [step, hw], ?_⟩
    intro s' hs
    simp [step, hw] at hs
    subst hs
    simp [WriterPc.dist]

theorem worker_can_exit (cfg : Cfg) (hc : cfg.workerHandoffSelectsOnConn = true) (s : State)
    (hd : s.connDone = true) (w : Nat) (pc : WorkerPc) (hw : s.workers[w]? = some pc) :
    pc = .exited ∨
    ∃ l, (l = .workerExit w ∨ l = .workerAbandon w ∨ l = .workerRan w) ∧
      (step cfg s l).isSome = true ∧
      ∀ s', step cfg s l = some s' → ∃ pc', s'.workers[w]? = some pc' ∧ pc'.dist < pc.dist := by
  have hlt : w < s.workers.length := by
    rcases Nat.lt_or_ge w s.workers.length with h | h
    · exact h
    · simp [List.getElem?_eq_none h] at hw
  cases pc with
  | exited => exact Or.inl rfl
  | idle =>
    refine Or.inr ⟨.workerExit w, Or.inl rfl, by simp [step, hw, hd], ?_⟩
    intro s' hs
    simp [step, hw, hd] at hs
    subst hs
    exact ⟨.exited, by simp [hlt], by simp [WorkerPc.dist]⟩
  | handoff id =>
    refine Or.inr ⟨.workerAbandon w, Or.inr (Or.inl rfl), by simp [step, hw, hd, hc], ?_⟩
    intro s' hs
    simp [step, hw, hd, hc] at hs
    subst hs
    exact ⟨.exited, by simp [hlt], by simp [WorkerPc.dist]⟩
  | running id =>
    refine Or.inr ⟨.workerRan w, Or.inr (Or.inr rfl), by simp [step, hw], ?_⟩
    intro s' hs
    simp [step, hw] at hs
    subst hs
    exact ⟨.handoff id, by simp [hlt], by simp [WorkerPc.dist]⟩

/-- While the wait loop is parked on stream x's done channel, the token is there, or handler x
    (whose context is done) has an enabled step towards `gone` that needs nobody else. -/
theorem wait_progress_waiting (cfg : Cfg) (s : State) (hi : InvS s) (x : Nat)
    (hw : s.wait = .waiting x) :
    (step cfg s .waitDone).isSome = true ∨
    ∃ st l, s.streams[x]? = some st ∧ sdone s st = true ∧
      (l = .hReturn x ∨ l = .hTrailerFail x ∨ l = .hCancel x ∨ l = .hUnregister x) ∧
      (step cfg s l).isSome = true ∧
      ∀ s', step cfg s l = some s' →
        ∃ st', s'.streams[x]? = some st' ∧ st'.hpc.dist < st.hpc.dist := by
  have hb := hi.waitB
  have ha := hi.waitA
  have hmu := hi.mu
  unfold InvWaitB at hb
  unfold InvWaitA at ha
  unfold InvMu at hmu
  rw [hw] at hb
  obtain ⟨hlen, hb⟩ := hb
  obtain ⟨st, hst⟩ : ∃ st, s.streams[x]? = some st := ⟨s.streams[x], by simp [hlen]⟩
  obtain ⟨hcd, hgone⟩ := hb st hst
  have hrl : s.rl = .exited := (ha (by simp [hw])).1
  have hm : s.muHeld = false := by rw [hmu, hrl]; rfl
  have hsd : sdone s st = true := by simp [sdone, hcd]
  cases hp : st.hpc with
  | gone => left; simp [step, hw, hst, hgone hp]
  | running =>
    refine Or.inr ⟨st, .hReturn x, hst, hsd, Or.inl rfl, by simp [step, hst, hp], ?_⟩
    intro s' hs
    simp [step, hst, hp] at hs
    subst hs
    exact ⟨_, by simp [hlen]; rfl, by simp [HPc.dist, hp]⟩
  | returned =>
    refine Or.inr ⟨st, .hTrailerFail x, hst, hsd, Or.inr (Or.inl rfl),
      by simp [step, hst, hp, hsd], ?_⟩
    intro s' hs
    simp [step, hst, hp, hsd] at hs
    subst hs
    exact ⟨_, by simp [hlen]; rfl, by simp [HPc.dist, hp]⟩
  | trailed =>
    refine Or.inr ⟨st, .hCancel x, hst, hsd, Or.inr (Or.inr (Or.inl rfl)),
      by simp [step, hst, hp], ?_⟩
    intro s' hs
    simp [step, hst, hp] at hs
    subst hs
    exact ⟨_, by simp [hlen]; rfl, by simp [HPc.dist, hp]⟩
  | wantUnreg =>
    refine Or.inr ⟨st, .hUnregister x, hst, hsd, Or.inr (Or.inr (Or.inr rfl)),
      by simp [step, hst, hp, hm], ?_⟩
    intro s' hs
    simp [step, hst, hp, hm] at hs
    subst hs
    exact ⟨_, by simp [hlen]; rfl, by simp [HPc.dist, hp]⟩

/-- At the top of the wait loop the lock is free: the loop finishes or picks a stream. -/
theorem wait_progress_looping (cfg : Cfg) (s : State) (hi : InvS s) (hw : s.wait = .looping) :
    (step cfg s .waitFinish).isSome = true ∨ ∃ x, (step cfg s (.waitPick x)).isSome = true := by
  have ha := hi.waitA
  have hmu := hi.mu
  unfold InvWaitA at ha
  unfold InvMu at hmu
  have hrl : s.rl = .exited := (ha (by simp [hw])).1
  have hm : s.muHeld = false := by rw [hmu, hrl]; rfl
  cases hall : s.streams.all (fun st => !st.registered) with
  | true => left; simp [step, hw, hm, hall]
  | false =>
    right
    have : ∃ st ∈ s.streams, st.registered = true := by
      have := List.all_eq_false.mp hall
      simpa using this
    obtain ⟨st, hmem, hreg⟩ := this
    obtain ⟨x, hx⟩ := List.getElem?_of_mem hmem
    exact ⟨x, by simp [step, hx, hw, hm, hreg]⟩

/-! ## Negative witness helper: a worker parked in the hand-over after the writer has gone
    stays there for ever when the hand-over does not watch the connection context. -/

theorem handoff_stuck_step (cfg : Cfg) (hc : cfg.workerHandoffSelectsOnConn = false)
    (w id : Nat) (s s' : State) (l : Label)
    (hp : s.writer = .exited ∧ s.workers[w]? = some (.handoff id))
    (hs : step cfg s l = some s') :
    s'.writer = .exited ∧ s'.workers[w]? = some (.handoff id) := by
  cases l <;> prep hs <;> first | exact hp | grind

theorem handoff_stuck_run (cfg : Cfg) (hc : cfg.workerHandoffSelectsOnConn = false)
    (w id : Nat) (ls : List Label) (s s' : State)
    (hp : s.writer = .exited ∧ s.workers[w]? = some (.handoff id))
    (hs : run cfg s ls = some s') :
    s'.writer = .exited ∧ s'.workers[w]? = some (.handoff id) := by
  induction ls generalizing s with
  | nil => simp [run] at hs; subst hs; exact hp
  | cons l ls ih =>
    simp only [run] at hs
    cases h : step cfg s l with
    | none => simp [h] at hs
    | some s1 => simp [h] at hs; exact ih s1 (handoff_stuck_step cfg hc w id s s1 l hp h) hs

end Goat.ServerConn
