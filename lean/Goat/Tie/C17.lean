/- Tie obligations for C17: facts regenerated from /repo equal what the proofs assume; key theorems instantiated at the source's configuration. -/
import Goat.Generated.Facts
import Goat.Expected
import Goat.CfgMap
import Goat.ProxyThms
namespace Goat.Tie.C17
open Goat

theorem flag_badSourceIsIgnored : Generated.cfg.badSourceIsIgnored = true := by decide
theorem flag_emptyNextIsNoRoute : Generated.cfg.emptyNextIsNoRoute = true := by decide
theorem flag_enqueueNonBlocking : Generated.cfg.enqueueNonBlocking = true := by decide
theorem flag_removeComparesIdentity : Generated.cfg.removeComparesIdentity = true := by decide
theorem flag_errReportSelectsOnCtx : Generated.cfg.errReportSelectsOnCtx = true := by decide
theorem sk_proxy_Proxy_AddClient : Generated.sk_proxy_Proxy_AddClient = Expected.sk_proxy_Proxy_AddClient := by decide
theorem sk_proxy_Proxy_addOutgoingConnectionLocked : Generated.sk_proxy_Proxy_addOutgoingConnectionLocked = Expected.sk_proxy_Proxy_addOutgoingConnectionLocked := by decide
theorem sk_proxy_Proxy_serveClients : Generated.sk_proxy_Proxy_serveClients = Expected.sk_proxy_Proxy_serveClients := by decide
theorem sk_proxy_Proxy_forwardRpc : Generated.sk_proxy_Proxy_forwardRpc = Expected.sk_proxy_Proxy_forwardRpc := by decide
theorem sk_proxy_proxyClient_report : Generated.sk_proxy_proxyClient_report = Expected.sk_proxy_proxyClient_report := by decide
theorem sk_proxy_proxyClient_readLoop : Generated.sk_proxy_proxyClient_readLoop = Expected.sk_proxy_proxyClient_readLoop := by decide
theorem sk_proxy_proxyClient_writeLoop : Generated.sk_proxy_proxyClient_writeLoop = Expected.sk_proxy_proxyClient_writeLoop := by decide
theorem sk_proxy_proxyClient_readWrite : Generated.sk_proxy_proxyClient_readWrite = Expected.sk_proxy_proxyClient_readWrite := by decide
theorem sk_proxy_proxyClient_connect : Generated.sk_proxy_proxyClient_connect = Expected.sk_proxy_proxyClient_connect := by decide

theorem commands_unbuffered : "proxy.go:commands=0" ∈ Generated.chanCaps := by decide

end Goat.Tie.C17
