/- Tie obligations for C02: facts regenerated from /repo equal what the proofs assume; key theorems instantiated at the source's configuration. -/
import Goat.Generated.Facts
import Goat.Expected
import Goat.CfgMap
import Goat.ClientStreamThms
namespace Goat.Tie.C02
open Goat

theorem flag_recvRechecksDoneOnCtx : Generated.cfg.recvRechecksDoneOnCtx = true := by decide
theorem flag_finishOrder : Generated.cfg.finishOrder = true := by decide
theorem flag_resetIsError : Generated.cfg.resetIsError = true := by decide
theorem flag_badMetaSetsErr : Generated.cfg.badMetaSetsErr = true := by decide
theorem flag_closeSendNoopWhenDone : Generated.cfg.closeSendNoopWhenDone = true := by decide
theorem sk_client_stream_NewStream : Generated.sk_client_stream_NewStream = Expected.sk_client_stream_NewStream := by decide
theorem sk_client_stream_clientStream_RecvMsg : Generated.sk_client_stream_clientStream_RecvMsg = Expected.sk_client_stream_clientStream_RecvMsg := by decide
theorem sk_client_stream_clientStream_SendMsg : Generated.sk_client_stream_clientStream_SendMsg = Expected.sk_client_stream_clientStream_SendMsg := by decide
theorem sk_client_stream_clientStream_CloseSend : Generated.sk_client_stream_clientStream_CloseSend = Expected.sk_client_stream_clientStream_CloseSend := by decide
theorem sk_client_stream_clientStream_readLoop : Generated.sk_client_stream_clientStream_readLoop = Expected.sk_client_stream_clientStream_readLoop := by decide
theorem sk_client_stream_clientStream_Header : Generated.sk_client_stream_clientStream_Header = Expected.sk_client_stream_clientStream_Header := by decide
theorem sk_client_stream_clientStream_Trailer : Generated.sk_client_stream_clientStream_Trailer = Expected.sk_client_stream_clientStream_Trailer := by decide
theorem sk_client_stream_clientStream_readErrorIfDone : Generated.sk_client_stream_clientStream_readErrorIfDone = Expected.sk_client_stream_clientStream_readErrorIfDone := by decide
theorem sk_server_stream_serverStream_RecvMsg : Generated.sk_server_stream_serverStream_RecvMsg = Expected.sk_server_stream_serverStream_RecvMsg := by decide
theorem sk_server_stream_serverStream_SendMsg : Generated.sk_server_stream_serverStream_SendMsg = Expected.sk_server_stream_serverStream_SendMsg := by decide

theorem rch_unbuffered : "stream.go:rCh=0" ∈ Generated.chanCaps := by decide
def never_canceled_after_trailer_at_source := ClientStream.cs_never_canceled_after_trailer (csCfg Generated.cfg) (by decide)
def recv_sequence_at_source := ClientStream.cs_recv_sequence (csCfg Generated.cfg)
def eof_iff_ok_trailer_at_source := ClientStream.cs_eof_iff_ok_trailer (csCfg Generated.cfg)
def no_closed_rch_panic_at_source := ClientStream.cs_no_closed_rch_panic (csCfg Generated.cfg)

end Goat.Tie.C02
