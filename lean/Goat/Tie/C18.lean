/- Tie obligations for C18: facts regenerated from /repo equal what the proofs assume; key theorems instantiated at the source's configuration. -/
import Goat.Generated.Facts
import Goat.Expected
import Goat.CfgMap
import Goat.DemuxThms
namespace Goat.Tie.C18
open Goat

theorem flag_demuxCancelUsesDone : Generated.cfg.demuxCancelUsesDone = true := by decide
theorem flag_demuxHandoffSelects : Generated.cfg.demuxHandoffSelects = true := by decide
theorem sk_demux_Demux_Run : Generated.sk_demux_Demux_Run = Expected.sk_demux_Demux_Run := by decide
theorem sk_demux_Demux_Cancel : Generated.sk_demux_Demux_Cancel = Expected.sk_demux_Demux_Cancel := by decide
theorem sk_demux_Demux_Stop : Generated.sk_demux_Demux_Stop = Expected.sk_demux_Demux_Stop := by decide
theorem sk_demux_Demux_newConnLocked : Generated.sk_demux_Demux_newConnLocked = Expected.sk_demux_Demux_newConnLocked := by decide
theorem sk_channel_NewGoatOverChannel : Generated.sk_channel_NewGoatOverChannel = Expected.sk_channel_NewGoatOverChannel := by decide

theorem chans_unbuffered : "demux.go:r=0" ∈ Generated.chanCaps ∧ "demux.go:w=0" ∈ Generated.chanCaps := by decide

end Goat.Tie.C18
