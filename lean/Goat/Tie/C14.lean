/- Tie obligations for C14: facts regenerated from /repo equal what the proofs assume; key theorems instantiated at the source's configuration. -/
import Goat.Generated.Facts
import Goat.Expected
import Goat.CfgMap
import Goat.MuxThms
import Goat.ServerConnThms
import Goat.ClientStreamThms
import Goat.Props.C14
namespace Goat.Tie.C14
open Goat

theorem flag_teardownCancelsFirst : Generated.cfg.teardownCancelsFirst = true := by decide
theorem flag_unaryDeferUnregister : Generated.cfg.unaryDeferUnregister = true := by decide
theorem flag_openFailureTearsDown : Generated.cfg.openFailureTearsDown = true := by decide
theorem flag_idAllocAtomic : Generated.cfg.idAllocAtomic = true := by decide
theorem flag_finishOrder : Generated.cfg.finishOrder = true := by decide
theorem sk_client_multiplexer_RpcMultiplexer_closeError : Generated.sk_client_multiplexer_RpcMultiplexer_closeError = Expected.sk_client_multiplexer_RpcMultiplexer_closeError := by decide
theorem sk_client_multiplexer_RpcMultiplexer_CallUnaryMethod : Generated.sk_client_multiplexer_RpcMultiplexer_CallUnaryMethod = Expected.sk_client_multiplexer_RpcMultiplexer_CallUnaryMethod := by decide
theorem sk_client_multiplexer_RpcMultiplexer_NewStreamReadWriter : Generated.sk_client_multiplexer_RpcMultiplexer_NewStreamReadWriter = Expected.sk_client_multiplexer_RpcMultiplexer_NewStreamReadWriter := by decide
theorem sk_client_multiplexer_RpcMultiplexer_readLoop : Generated.sk_client_multiplexer_RpcMultiplexer_readLoop = Expected.sk_client_multiplexer_RpcMultiplexer_readLoop := by decide
theorem sk_client_multiplexer_RpcMultiplexer_handleResponse : Generated.sk_client_multiplexer_RpcMultiplexer_handleResponse = Expected.sk_client_multiplexer_RpcMultiplexer_handleResponse := by decide
theorem sk_client_multiplexer_RpcMultiplexer_registerHandler : Generated.sk_client_multiplexer_RpcMultiplexer_registerHandler = Expected.sk_client_multiplexer_RpcMultiplexer_registerHandler := by decide
theorem sk_client_multiplexer_RpcMultiplexer_unregisterHandler : Generated.sk_client_multiplexer_RpcMultiplexer_unregisterHandler = Expected.sk_client_multiplexer_RpcMultiplexer_unregisterHandler := by decide
theorem sk_client_multiplexer_muxHandler_recv : Generated.sk_client_multiplexer_muxHandler_recv = Expected.sk_client_multiplexer_muxHandler_recv := by decide
theorem sk_client_ClientConn_newStream : Generated.sk_client_ClientConn_newStream = Expected.sk_client_ClientConn_newStream := by decide
theorem sk_server_handler_runStream : Generated.sk_server_handler_runStream = Expected.sk_server_handler_runStream := by decide
theorem sk_server_handler_unregisterStream : Generated.sk_server_handler_unregisterStream = Expected.sk_server_handler_unregisterStream := by decide
theorem sk_client_stream_clientStream_readLoop : Generated.sk_client_stream_clientStream_readLoop = Expected.sk_client_stream_clientStream_readLoop := by decide

def registry_exact_at_source := Mux.registry_exact (muxCfg Generated.cfg false) (by decide)
def registry_empty_when_idle_at_source := Mux.registry_empty_when_idle (muxCfg Generated.cfg false) (by decide)
def srv_registry_exact_at_source := ServerConn.srv_registry_exact (srvCfg Generated.cfg)
def finishing_block_once_at_source := ClientStream.finishing_block_once (csCfg Generated.cfg)

def failed_open_leaves_nothing_at_source := Props.C14.failed_open_leaves_nothing (openCfg Generated.cfg) (by decide)
def registration_accounted_at_source := Props.C14.registration_accounted (openCfg Generated.cfg) (by decide)
end Goat.Tie.C14
