/- Tie obligations for C05: facts regenerated from /repo equal what the proofs assume; key theorems instantiated at the source's configuration. -/
import Goat.Generated.Facts
import Goat.Expected
import Goat.CfgMap
import Goat.MuxThms
import Goat.ServerConnThms
namespace Goat.Tie.C05
open Goat

theorem flag_idAllocAtomic : Generated.cfg.idAllocAtomic = true := by decide
theorem flag_dispatchOutsideLock : Generated.cfg.dispatchOutsideLock = true := by decide
theorem sk_client_multiplexer_RpcMultiplexer_closeError : Generated.sk_client_multiplexer_RpcMultiplexer_closeError = Expected.sk_client_multiplexer_RpcMultiplexer_closeError := by decide
theorem sk_client_multiplexer_RpcMultiplexer_CallUnaryMethod : Generated.sk_client_multiplexer_RpcMultiplexer_CallUnaryMethod = Expected.sk_client_multiplexer_RpcMultiplexer_CallUnaryMethod := by decide
theorem sk_client_multiplexer_RpcMultiplexer_NewStreamReadWriter : Generated.sk_client_multiplexer_RpcMultiplexer_NewStreamReadWriter = Expected.sk_client_multiplexer_RpcMultiplexer_NewStreamReadWriter := by decide
theorem sk_client_multiplexer_RpcMultiplexer_readLoop : Generated.sk_client_multiplexer_RpcMultiplexer_readLoop = Expected.sk_client_multiplexer_RpcMultiplexer_readLoop := by decide
theorem sk_client_multiplexer_RpcMultiplexer_handleResponse : Generated.sk_client_multiplexer_RpcMultiplexer_handleResponse = Expected.sk_client_multiplexer_RpcMultiplexer_handleResponse := by decide
theorem sk_client_multiplexer_RpcMultiplexer_registerHandler : Generated.sk_client_multiplexer_RpcMultiplexer_registerHandler = Expected.sk_client_multiplexer_RpcMultiplexer_registerHandler := by decide
theorem sk_client_multiplexer_RpcMultiplexer_unregisterHandler : Generated.sk_client_multiplexer_RpcMultiplexer_unregisterHandler = Expected.sk_client_multiplexer_RpcMultiplexer_unregisterHandler := by decide
theorem sk_client_multiplexer_muxHandler_recv : Generated.sk_client_multiplexer_muxHandler_recv = Expected.sk_client_multiplexer_muxHandler_recv := by decide
theorem sk_server_handler_processStreamingRpc : Generated.sk_server_handler_processStreamingRpc = Expected.sk_server_handler_processStreamingRpc := by decide
theorem sk_server_handler_processUnaryRpc : Generated.sk_server_handler_processUnaryRpc = Expected.sk_server_handler_processUnaryRpc := by decide

theorem mux_chan_cap : "multiplexer.go:ch=1" ∈ Generated.chanCaps := by decide
def ids_injective_at_source := Mux.ids_injective (muxCfg Generated.cfg false) (by decide)
def owner_only_at_source := Mux.owner_only (muxCfg Generated.cfg false) (by decide)
def per_call_order_at_source := Mux.per_call_order (muxCfg Generated.cfg false) (by decide)
def srv_route_by_id_at_source := ServerConn.srv_route_by_id (srvCfg Generated.cfg)

end Goat.Tie.C05
