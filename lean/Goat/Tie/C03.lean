/- Tie obligations for C03. -/
import Goat.Generated.Facts
import Goat.Expected
import Goat.Props.C03
namespace Goat.Tie.C03
open Goat
/-- CallUnaryMethod treats a status as failure only when its code is not OK -/
theorem flag_okStatusIsSuccess : Generated.cfg.okStatusIsSuccess = true := by decide
/-- errorIfDone turns a reset envelope into a non-EOF error before looking at the trailer -/
theorem flag_resetIsError : Generated.cfg.resetIsError = true := by decide
/-- CloseSend is a no-op on a finished stream, so CloseAndRecv reports the handler's status -/
theorem flag_closeSendNoopWhenDone : Generated.cfg.closeSendNoopWhenDone = true := by decide
/-- server resets go through the single writer (they cannot overtake the trailer) -/
theorem flag_resetViaWriter : Generated.cfg.resetViaWriter = true := by decide
/-- SendTrailer's shape (status from FromError, OK-coded errors rewritten to Internal) is unchanged -/
theorem sk_SendTrailer : Generated.sk_server_stream_serverStream_SendTrailer = Expected.sk_server_stream_serverStream_SendTrailer := by decide
end Goat.Tie.C03
