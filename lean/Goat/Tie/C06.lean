/- Tie obligations for C06. -/
import Goat.Generated.Facts
import Goat.Expected
import Goat.Props.C06
namespace Goat.Tie.C06
open Goat
theorem flag_resetViaWriter : Generated.cfg.resetViaWriter = true := by decide
theorem flag_streamOnceGuards : Generated.cfg.streamOnceGuards = true := by decide
theorem flag_finishOrder : Generated.cfg.finishOrder = true := by decide
theorem flag_sendTeardownNoRst : Generated.cfg.sendTeardownNoRst = true := by decide
theorem reset_type : "RST_STREAM" ∈ Generated.resetTypes := by decide
theorem sk_setHeader : Generated.sk_server_stream_serverStream_setHeader = Expected.sk_server_stream_serverStream_setHeader := by decide
theorem sk_SendMsg : Generated.sk_server_stream_serverStream_SendMsg = Expected.sk_server_stream_serverStream_SendMsg := by decide
theorem sk_SendTrailer : Generated.sk_server_stream_serverStream_SendTrailer = Expected.sk_server_stream_serverStream_SendTrailer := by decide
theorem sk_SetTrailer : Generated.sk_server_stream_serverStream_SetTrailer = Expected.sk_server_stream_serverStream_SetTrailer := by decide
theorem sk_resetStream : Generated.sk_server_handler_resetStream = Expected.sk_server_handler_resetStream := by decide
theorem sk_runStream : Generated.sk_server_handler_runStream = Expected.sk_server_handler_runStream := by decide
theorem sk_server_handler_processUnaryRpc : Generated.sk_server_handler_processUnaryRpc = Expected.sk_server_handler_processUnaryRpc := by decide
end Goat.Tie.C06
