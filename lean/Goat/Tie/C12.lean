/- Tie obligations for C12. -/
import Goat.Generated.Facts
import Goat.Expected
import Goat.Props.C12
namespace Goat.Tie.C12
open Goat
theorem flag_unaryBadMetaIsErrorReply : Generated.cfg.unaryBadMetaIsErrorReply = true := by decide
theorem flag_forwardSelectsOnStreamDone : Generated.cfg.forwardSelectsOnStreamDone = true := by decide
theorem flag_resetViaWriter : Generated.cfg.resetViaWriter = true := by decide
/-- the order of the checks in `serve` and the branches of `processStreamingRpc` are those `classify` transcribes -/
theorem sk_serve : Generated.sk_server_handler_serve = Expected.sk_server_handler_serve := by decide
theorem sk_processStreamingRpc : Generated.sk_server_handler_processStreamingRpc = Expected.sk_server_handler_processStreamingRpc := by decide
theorem sk_resetStream : Generated.sk_server_handler_resetStream = Expected.sk_server_handler_resetStream := by decide
/-- runStream cancels the stream's context (deferred handler.cancel()) BEFORE unregisterStream asks for the registry lock -/
theorem sk_runStream : Generated.sk_server_handler_runStream = Expected.sk_server_handler_runStream := by decide
theorem sk_unregisterStream : Generated.sk_server_handler_unregisterStream = Expected.sk_server_handler_unregisterStream := by decide
theorem sk_server_handler_processUnaryRpc : Generated.sk_server_handler_processUnaryRpc = Expected.sk_server_handler_processUnaryRpc := by decide
end Goat.Tie.C12
