/- Tie obligations for C19. -/
import Goat.Generated.Facts
import Goat.Expected
import Goat.ProtoThms
import Goat.TransportThms
namespace Goat.Tie.C19
open Goat
theorem flag_httpCleanUsesDone : Generated.cfg.httpCleanUsesDone = true := by decide
theorem flag_httpReadHonoursCtx : Generated.cfg.httpReadHonoursCtx = true := by decide
theorem flag_httpWriteHonoursCtx : Generated.cfg.httpWriteHonoursCtx = true := by decide
theorem sk_ServeHTTP : Generated.sk_http_GoatOverHttp_ServeHTTP = Expected.sk_http_GoatOverHttp_ServeHTTP := by decide
theorem sk_connectionCleaner : Generated.sk_http_GoatOverHttp_connectionCleaner = Expected.sk_http_GoatOverHttp_connectionCleaner := by decide
theorem sk_retrieve : Generated.sk_http_GoatOverHttp_retrieve = Expected.sk_http_GoatOverHttp_retrieve := by decide
theorem sk_unregisterLocked : Generated.sk_http_GoatOverHttp_unregisterLocked = Expected.sk_http_GoatOverHttp_unregisterLocked := by decide
theorem sk_Read : Generated.sk_http_httpReadWriter_Read = Expected.sk_http_httpReadWriter_Read := by decide
theorem sk_Write : Generated.sk_http_httpReadWriter_Write = Expected.sk_http_httpReadWriter_Write := by decide
theorem sk_channel : Generated.sk_channel_NewGoatOverChannel = Expected.sk_channel_NewGoatOverChannel := by decide
/-- the websocket transport reads whole messages with conn.Read and keeps no state between reads -/
theorem sk_wsRead : Generated.sk_websocket_goatOverWebsocket_Read = Expected.sk_websocket_goatOverWebsocket_Read := by decide
theorem sk_wsWrite : Generated.sk_websocket_goatOverWebsocket_Write = Expected.sk_websocket_goatOverWebsocket_Write := by decide
theorem http_chans : "http.go:readCh=0" ∈ Generated.chanCaps ∧ "http.go:done=0" ∈ Generated.chanCaps := by decide
def idle_timeout_at_source := Transport.HttpConn.idle_timeout_fails_readers_not_senders Generated.cfg (by decide)
def blocked_ops_at_source := Transport.HttpConn.blocked_ops_return_on_ctx_done Generated.cfg (by decide)
end Goat.Tie.C19
