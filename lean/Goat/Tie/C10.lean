/- Tie obligations for C10: facts regenerated from /repo equal what the proofs assume; key theorems instantiated at the source's configuration. -/
import Goat.Generated.Facts
import Goat.Expected
import Goat.CfgMap
import Goat.ServerConnThms
namespace Goat.Tie.C10
open Goat

theorem flag_unaryCtxFollowsConn : Generated.cfg.unaryCtxFollowsConn = true := by decide
theorem flag_workerHandoffSelectsOnConn : Generated.cfg.workerHandoffSelectsOnConn = true := by decide
theorem flag_forwardSelectsOnStreamDone : Generated.cfg.forwardSelectsOnStreamDone = true := by decide
theorem flag_resetViaWriter : Generated.cfg.resetViaWriter = true := by decide
theorem flag_httpReadHonoursCtx : Generated.cfg.httpReadHonoursCtx = true := by decide
theorem sk_server_Server_Serve : Generated.sk_server_Server_Serve = Expected.sk_server_Server_Serve := by decide
theorem sk_server_newHandler : Generated.sk_server_newHandler = Expected.sk_server_newHandler := by decide
theorem sk_server_handler_serve : Generated.sk_server_handler_serve = Expected.sk_server_handler_serve := by decide
theorem sk_server_handler_cancelAndWaitForStreams : Generated.sk_server_handler_cancelAndWaitForStreams = Expected.sk_server_handler_cancelAndWaitForStreams := by decide
theorem sk_server_handler_processStreamingRpc : Generated.sk_server_handler_processStreamingRpc = Expected.sk_server_handler_processStreamingRpc := by decide
theorem sk_server_handler_runStream : Generated.sk_server_handler_runStream = Expected.sk_server_handler_runStream := by decide
theorem sk_server_handler_unregisterStream : Generated.sk_server_handler_unregisterStream = Expected.sk_server_handler_unregisterStream := by decide
theorem sk_server_handler_resetStream : Generated.sk_server_handler_resetStream = Expected.sk_server_handler_resetStream := by decide
theorem sk_server_handler_processUnaryRpc : Generated.sk_server_handler_processUnaryRpc = Expected.sk_server_handler_processUnaryRpc := by decide

theorem workers : Generated.numRpcWorkers = 8 := by decide
def handlers_cancelled_at_return_at_source := ServerConn.handlers_cancelled_at_return (srvCfg Generated.cfg) (by decide)
def no_goroutine_left_at_source := ServerConn.no_goroutine_left (srvCfg Generated.cfg) (by decide)
def streams_finished_at_return_at_source := ServerConn.streams_finished_at_return (srvCfg Generated.cfg)

end Goat.Tie.C10
