/- Tie obligations for C20. -/
import Goat.Generated.Facts
import Goat.Expected
import Goat.Props.C20
namespace Goat.Tie.C20
open Goat
/-- getChainUnaryHandler/getChainStreamHandler: base case `curr == len-1`, recursive call at `curr+1`,
    interceptor `curr+1`; the Chain…Interceptor options call interceptor 0 with the handler for index 0 -/
theorem flag_chainShape : Generated.cfg.chainShape = true := by decide
theorem flag_badMetaSetsErr : Generated.cfg.badMetaSetsErr = true := by decide
theorem flag_closeSendNoopWhenDone : Generated.cfg.closeSendNoopWhenDone = true := by decide
theorem sk_runStream : Generated.sk_server_handler_runStream = Expected.sk_server_handler_runStream := by decide
theorem sk_newStream : Generated.sk_client_ClientConn_newStream = Expected.sk_client_ClientConn_newStream := by decide
theorem sk_client_ClientConn_invoke : Generated.sk_client_ClientConn_invoke = Expected.sk_client_ClientConn_invoke := by decide
end Goat.Tie.C20
