/-
  Tie obligations for C04: the codec facts regenerated from /repo equal what Goat/Metadata.lean assumes.
-/
import Goat.Generated.Facts
import Goat.Expected
import Goat.Props.C04
namespace Goat.Tie.C04
open Goat

/-- both directions test the LOWER-CASED key for the "-bin" suffix -/
theorem bin_suffix_uses : Generated.binSuffixUses = ["-bin|k", "-bin|lowerK"] := by decide
/-- both directions use base64.URLEncoding (padded, URL alphabet) -/
theorem base64_calls : Generated.base64Calls =
    ["base64.URLEncoding.DecodeString", "base64.URLEncoding.EncodeToString"] := by decide
/-- ToMetadata lower-cases the key and appends per key -/
theorem to_metadata_lowers : Generated.toMetadataLowersKey = true := by decide
/-- serverStream emits accumulated headers once, with the first envelope that leaves -/
theorem flag_streamOnceGuards : Generated.cfg.streamOnceGuards = true := by decide
theorem flag_badMetaSetsErr : Generated.cfg.badMetaSetsErr = true := by decide
theorem sk_client_ClientConn_invoke : Generated.sk_client_ClientConn_invoke = Expected.sk_client_ClientConn_invoke := by decide

end Goat.Tie.C04
