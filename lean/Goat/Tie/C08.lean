/-
  Tie obligations for C08: the facts regenerated from /repo (Goat/Generated/Facts.lean) equal
  what Goat/Timeout.lean and the theorems of Goat/Props/C08.lean assume.
-/
import Goat.Generated.Facts
import Goat.Props.C08
namespace Goat.Tie.C08
open Goat

/-- the `switch` of parseGrpcTimeout, translated, is the model's unit table -/
theorem unit_table : Generated.unitTable = Timeout.unitTable := by decide
/-- contextFromHeaders compares the lower-cased key with "grpc-timeout" -/
theorem key_server : Generated.timeoutKeyServer = Timeout.timeoutKey := by decide
/-- the key the client writes ("GRPC-Timeout") is matched by that comparison -/
theorem key_client_matches : lower Generated.timeoutKeyClient = Timeout.timeoutKey := by decide
/-- the client renders "%dm": decimal milliseconds followed by the unit m -/
theorem format_is_millis : Generated.timeoutFormat = [37, 100, 109] := by decide
/-- `ms := int64(timeout / time.Millisecond); if ms <= 0 { ms = 1 }` -/
theorem millis_floor_min1 : Generated.millisFloorMin1 = true := by decide
theorem flag_timeoutSaturates : Generated.cfg.timeoutSaturates = true := by decide
theorem flag_timeoutDigitsOnly : Generated.cfg.timeoutDigitsOnly = true := by decide

end Goat.Tie.C08
