/- Tie obligations for C11: facts regenerated from /repo equal what the proofs assume; key theorems instantiated at the source's configuration. -/
import Goat.Generated.Facts
import Goat.Expected
import Goat.CfgMap
import Goat.ServerConnThms
import Goat.MuxThms
namespace Goat.Tie.C11
open Goat

theorem flag_forwardSelectsOnStreamDone : Generated.cfg.forwardSelectsOnStreamDone = true := by decide
theorem flag_dispatchOutsideLock : Generated.cfg.dispatchOutsideLock = true := by decide
theorem flag_resetViaWriter : Generated.cfg.resetViaWriter = true := by decide
theorem flag_idAllocAtomic : Generated.cfg.idAllocAtomic = true := by decide
theorem sk_server_Server_Serve : Generated.sk_server_Server_Serve = Expected.sk_server_Server_Serve := by decide
theorem sk_server_newHandler : Generated.sk_server_newHandler = Expected.sk_server_newHandler := by decide
theorem sk_server_handler_serve : Generated.sk_server_handler_serve = Expected.sk_server_handler_serve := by decide
theorem sk_server_handler_cancelAndWaitForStreams : Generated.sk_server_handler_cancelAndWaitForStreams = Expected.sk_server_handler_cancelAndWaitForStreams := by decide
theorem sk_server_handler_processStreamingRpc : Generated.sk_server_handler_processStreamingRpc = Expected.sk_server_handler_processStreamingRpc := by decide
theorem sk_server_handler_runStream : Generated.sk_server_handler_runStream = Expected.sk_server_handler_runStream := by decide
theorem sk_server_handler_unregisterStream : Generated.sk_server_handler_unregisterStream = Expected.sk_server_handler_unregisterStream := by decide
theorem sk_server_handler_resetStream : Generated.sk_server_handler_resetStream = Expected.sk_server_handler_resetStream := by decide
theorem sk_client_multiplexer_RpcMultiplexer_closeError : Generated.sk_client_multiplexer_RpcMultiplexer_closeError = Expected.sk_client_multiplexer_RpcMultiplexer_closeError := by decide
theorem sk_client_multiplexer_RpcMultiplexer_CallUnaryMethod : Generated.sk_client_multiplexer_RpcMultiplexer_CallUnaryMethod = Expected.sk_client_multiplexer_RpcMultiplexer_CallUnaryMethod := by decide
theorem sk_client_multiplexer_RpcMultiplexer_NewStreamReadWriter : Generated.sk_client_multiplexer_RpcMultiplexer_NewStreamReadWriter = Expected.sk_client_multiplexer_RpcMultiplexer_NewStreamReadWriter := by decide
theorem sk_client_multiplexer_RpcMultiplexer_readLoop : Generated.sk_client_multiplexer_RpcMultiplexer_readLoop = Expected.sk_client_multiplexer_RpcMultiplexer_readLoop := by decide
theorem sk_client_multiplexer_RpcMultiplexer_handleResponse : Generated.sk_client_multiplexer_RpcMultiplexer_handleResponse = Expected.sk_client_multiplexer_RpcMultiplexer_handleResponse := by decide
theorem sk_client_multiplexer_RpcMultiplexer_registerHandler : Generated.sk_client_multiplexer_RpcMultiplexer_registerHandler = Expected.sk_client_multiplexer_RpcMultiplexer_registerHandler := by decide
theorem sk_client_multiplexer_RpcMultiplexer_unregisterHandler : Generated.sk_client_multiplexer_RpcMultiplexer_unregisterHandler = Expected.sk_client_multiplexer_RpcMultiplexer_unregisterHandler := by decide
theorem sk_client_multiplexer_muxHandler_recv : Generated.sk_client_multiplexer_muxHandler_recv = Expected.sk_client_multiplexer_muxHandler_recv := by decide

theorem stream_queue_cap : "server.go:ch=1" ∈ Generated.chanCaps := by decide
def srv_no_wedge_at_source := ServerConn.srv_no_wedge (srvCfg Generated.cfg) (by decide)
def reset_no_wedge_at_source := ServerConn.reset_no_wedge (srvCfg Generated.cfg) (by decide)
def mux_no_wedge_at_source := Mux.mux_no_wedge (muxCfg Generated.cfg false) (by decide) (by decide)

end Goat.Tie.C11
