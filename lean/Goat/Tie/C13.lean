/- Tie obligations for C13: facts regenerated from /repo equal what the proofs assume; key theorems instantiated at the source's configuration. -/
import Goat.Generated.Facts
import Goat.Expected
import Goat.CfgMap
import Goat.MuxThms
import Goat.ClientStreamThms
import Goat.Props.C03
namespace Goat.Tie.C13
open Goat

theorem flag_okStatusIsSuccess : Generated.cfg.okStatusIsSuccess = true := by decide
theorem flag_statsHeaderNilSafe : Generated.cfg.statsHeaderNilSafe = true := by decide
theorem flag_badMetaSetsErr : Generated.cfg.badMetaSetsErr = true := by decide
theorem flag_trailerNoPanic : Generated.cfg.trailerNoPanic = true := by decide
theorem flag_resetIsError : Generated.cfg.resetIsError = true := by decide
theorem flag_idAllocAtomic : Generated.cfg.idAllocAtomic = true := by decide
theorem flag_dispatchOutsideLock : Generated.cfg.dispatchOutsideLock = true := by decide
theorem flag_registerChecksErr : Generated.cfg.registerChecksErr = true := by decide
theorem sk_client_multiplexer_RpcMultiplexer_closeError : Generated.sk_client_multiplexer_RpcMultiplexer_closeError = Expected.sk_client_multiplexer_RpcMultiplexer_closeError := by decide
theorem sk_client_multiplexer_RpcMultiplexer_CallUnaryMethod : Generated.sk_client_multiplexer_RpcMultiplexer_CallUnaryMethod = Expected.sk_client_multiplexer_RpcMultiplexer_CallUnaryMethod := by decide
theorem sk_client_multiplexer_RpcMultiplexer_NewStreamReadWriter : Generated.sk_client_multiplexer_RpcMultiplexer_NewStreamReadWriter = Expected.sk_client_multiplexer_RpcMultiplexer_NewStreamReadWriter := by decide
theorem sk_client_multiplexer_RpcMultiplexer_readLoop : Generated.sk_client_multiplexer_RpcMultiplexer_readLoop = Expected.sk_client_multiplexer_RpcMultiplexer_readLoop := by decide
theorem sk_client_multiplexer_RpcMultiplexer_handleResponse : Generated.sk_client_multiplexer_RpcMultiplexer_handleResponse = Expected.sk_client_multiplexer_RpcMultiplexer_handleResponse := by decide
theorem sk_client_multiplexer_RpcMultiplexer_registerHandler : Generated.sk_client_multiplexer_RpcMultiplexer_registerHandler = Expected.sk_client_multiplexer_RpcMultiplexer_registerHandler := by decide
theorem sk_client_multiplexer_RpcMultiplexer_unregisterHandler : Generated.sk_client_multiplexer_RpcMultiplexer_unregisterHandler = Expected.sk_client_multiplexer_RpcMultiplexer_unregisterHandler := by decide
theorem sk_client_multiplexer_muxHandler_recv : Generated.sk_client_multiplexer_muxHandler_recv = Expected.sk_client_multiplexer_muxHandler_recv := by decide
theorem sk_client_stream_NewStream : Generated.sk_client_stream_NewStream = Expected.sk_client_stream_NewStream := by decide
theorem sk_client_stream_clientStream_RecvMsg : Generated.sk_client_stream_clientStream_RecvMsg = Expected.sk_client_stream_clientStream_RecvMsg := by decide
theorem sk_client_stream_clientStream_SendMsg : Generated.sk_client_stream_clientStream_SendMsg = Expected.sk_client_stream_clientStream_SendMsg := by decide
theorem sk_client_stream_clientStream_CloseSend : Generated.sk_client_stream_clientStream_CloseSend = Expected.sk_client_stream_clientStream_CloseSend := by decide
theorem sk_client_stream_clientStream_readLoop : Generated.sk_client_stream_clientStream_readLoop = Expected.sk_client_stream_clientStream_readLoop := by decide
theorem sk_client_stream_clientStream_Header : Generated.sk_client_stream_clientStream_Header = Expected.sk_client_stream_clientStream_Header := by decide
theorem sk_client_stream_clientStream_Trailer : Generated.sk_client_stream_clientStream_Trailer = Expected.sk_client_stream_clientStream_Trailer := by decide
theorem sk_client_stream_clientStream_readErrorIfDone : Generated.sk_client_stream_clientStream_readErrorIfDone = Expected.sk_client_stream_clientStream_readErrorIfDone := by decide

def header_always_released_at_source := ClientStream.header_always_released (csCfg Generated.cfg) (by decide)
def recv_never_nil_without_message_at_source := ClientStream.recv_never_nil_without_message (csCfg Generated.cfg) (by decide)
def trailer_never_panics_at_source := ClientStream.trailer_never_panics (csCfg Generated.cfg) (by decide)
def client_total_no_panic_at_source := Mux.client_total_no_panic (muxCfg Generated.cfg true) (by decide) (by decide) (by decide)
def no_send_on_closed_at_source := Mux.no_send_on_closed (muxCfg Generated.cfg true) (by decide)
def no_fabricated_success_at_source := Mux.no_fabricated_success (muxCfg Generated.cfg true) (by decide)

end Goat.Tie.C13
