/- Tie obligations for C07: facts regenerated from /repo equal what the proofs assume; key theorems instantiated at the source's configuration. -/
import Goat.Generated.Facts
import Goat.Expected
import Goat.CfgMap
import Goat.ClientStreamThms
import Goat.ServerConnThms
namespace Goat.Tie.C07
open Goat

theorem flag_teardownCancelsFirst : Generated.cfg.teardownCancelsFirst = true := by decide
theorem flag_recvRechecksDoneOnCtx : Generated.cfg.recvRechecksDoneOnCtx = true := by decide
theorem flag_closedPrefersCtx : Generated.cfg.closedPrefersCtx = true := by decide
theorem flag_finishOrder : Generated.cfg.finishOrder = true := by decide
theorem flag_sendTeardownNoRst : Generated.cfg.sendTeardownNoRst = true := by decide
theorem flag_forwardSelectsOnStreamDone : Generated.cfg.forwardSelectsOnStreamDone = true := by decide
theorem sk_client_stream_NewStream : Generated.sk_client_stream_NewStream = Expected.sk_client_stream_NewStream := by decide
theorem sk_client_stream_clientStream_RecvMsg : Generated.sk_client_stream_clientStream_RecvMsg = Expected.sk_client_stream_clientStream_RecvMsg := by decide
theorem sk_client_stream_clientStream_SendMsg : Generated.sk_client_stream_clientStream_SendMsg = Expected.sk_client_stream_clientStream_SendMsg := by decide
theorem sk_client_stream_clientStream_CloseSend : Generated.sk_client_stream_clientStream_CloseSend = Expected.sk_client_stream_clientStream_CloseSend := by decide
theorem sk_client_stream_clientStream_readLoop : Generated.sk_client_stream_clientStream_readLoop = Expected.sk_client_stream_clientStream_readLoop := by decide
theorem sk_client_stream_clientStream_Header : Generated.sk_client_stream_clientStream_Header = Expected.sk_client_stream_clientStream_Header := by decide
theorem sk_client_stream_clientStream_Trailer : Generated.sk_client_stream_clientStream_Trailer = Expected.sk_client_stream_clientStream_Trailer := by decide
theorem sk_client_stream_clientStream_readErrorIfDone : Generated.sk_client_stream_clientStream_readErrorIfDone = Expected.sk_client_stream_clientStream_readErrorIfDone := by decide
theorem sk_server_handler_processStreamingRpc : Generated.sk_server_handler_processStreamingRpc = Expected.sk_server_handler_processStreamingRpc := by decide
theorem sk_server_handler_runStream : Generated.sk_server_handler_runStream = Expected.sk_server_handler_runStream := by decide

def at_most_one_reset_at_source := ClientStream.at_most_one_reset (csCfg Generated.cfg)
def cancel_sends_one_reset_at_source := ClientStream.cancel_sends_one_reset (csCfg Generated.cfg)
def no_reset_after_trailer_at_source := ClientStream.no_reset_after_trailer (csCfg Generated.cfg)
def cancel_fails_recv_at_source := ClientStream.cancel_fails_recv (csCfg Generated.cfg)

end Goat.Tie.C07
