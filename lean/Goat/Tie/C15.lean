/-
  Tie obligations for C15: every syntactic access to a tracked field (regenerated from the source)
  follows the discipline recorded for that field, and every call of a …Locked function holds the
  owner's mutex.
-/
import Goat.Generated.Facts
import Goat.Expected
import Goat.Props.C15
namespace Goat.Tie.C15
open Goat

inductive Discipline where
  /-- every access holds the mutex; `ctors` are constructor functions that run before the object is published -/
  | guarded (m : String) (ctors : List String)
  /-- every write holds the mutex and is made in one of `ownerFns` (functions of the owning goroutine);
      a read holds the mutex or is made in one of `ownerFns` -/
  | ownerOrGuarded (m : String) (ownerFns : List String)
  /-- written only in `writers`, which run before the `go` statement that starts the `readers` (the only
      functions that read it) -/
  | prePublication (writers readers : List String)
  /-- accessed through sync/atomic only (the table then shows the address-of / method receiver as a read) -/
  | atomic

def disciplineOf : String → Option Discipline
  | "mux.handlers" => some (.guarded "rm.mutex" ["NewRpcMultiplexer"])
  | "mux.rErr" => some (.guarded "rm.mutex" [])
  | "mux.streamCounter" => some .atomic
  | "cs.done" => some (.guarded "cs.protected" [])
  | "cs.rErr" => some (.guarded "cs.protected" [])
  | "cs.headerErr" => some (.guarded "cs.protected" [])
  | "cs.trailer" => some (.guarded "cs.protected" [])
  | "cs.header" => some (.ownerOrGuarded "cs.protected" ["clientStream.readLoop", "clientStream.readLoop.func"])
  | "ss.headers" => some (.guarded "ss.protected" [])
  | "ss.headersSent" => some (.guarded "ss.protected" [])
  | "ss.trailers" => some (.guarded "ss.protected" [])
  | "ss.trailersSent" => some (.guarded "ss.protected" [])
  | "uts.headers" => some (.guarded "sts.mu" [])
  | "uts.headersSent" => some (.guarded "sts.mu" [])
  | "uts.trailers" => some (.guarded "sts.mu" [])
  | "srv.streams" => some (.guarded "h.mu" ["newHandler"])
  | "proxy.clients" => some (.guarded "p.mutex" ["NewProxy"])
  | "proxy.conn" => some (.prePublication ["proxyClient.connect", "Proxy.AddClient"] ["proxyClient.readLoop", "proxyClient.writeLoop"])
  | "demux.conns" => some (.guarded "gsd.conns" ["NewDemux"])
  | "http.conns" => some (.guarded "goh.conns" ["NewGoatOverHttp"])
  | "http.lastActivity" => some .atomic
  | _ => none

/-- a function named …Locked is entered with its owner's mutex held -/
def holds (m : String) (held : List String) : Bool := held.contains m || held.contains "<owner>"

def accessOk (a : String × String × String × List String) : Bool :=
  let (field, fn, rw, held) := a
  match disciplineOf field with
  | none => false                                   -- an untracked field name: fail closed
  | some (.guarded m ctors) => holds m held || ctors.contains fn
  | some (.ownerOrGuarded m owners) =>
      if rw == "w" then holds m held && owners.contains fn else holds m held || owners.contains fn
  | some (.prePublication writers readers) => if rw == "r" then readers.contains fn else writers.contains fn
  | some .atomic => rw == "r"                       -- never assigned directly

def ownerMutex : String → Option String
  | "gsd.newConnLocked" => some "gsd.conns"
  | "goh.unregisterLocked" => some "goh.conns"
  | "sts.setHeaderLocked" => some "sts.mu"
  | "p.addOutgoingConnectionLocked" => some "p.mutex"
  | _ => none

def lockedCallOk (c : String × String × List String) : Bool :=
  match ownerMutex c.1 with
  | some m => c.2.2.contains m
  | none => false

/-- every access in the current source follows its field's discipline -/
theorem access_table_ok : Generated.accesses.all accessOk = true := by decide
/-- every call of a …Locked function is made with the owner's mutex held -/
theorem locked_calls_ok : Generated.lockedCalls.all lockedCallOk = true := by decide
/-- the table is not empty and covers every tracked field (an extractor that found nothing must not pass) -/
theorem access_table_covers :
    ["mux.handlers", "mux.rErr", "cs.done", "cs.header", "ss.headersSent", "srv.streams", "proxy.clients", "proxy.conn",
     "demux.conns", "http.conns"].all (fun f => Generated.accesses.any (fun a => a.1 == f)) = true := by decide
/-- proxyClient.conn is written in connect() before the `go` that starts its readers -/
theorem sk_connect : Generated.sk_proxy_proxyClient_connect = Expected.sk_proxy_proxyClient_connect := by decide
/-- the stream id counter is only ever touched through atomic.AddUint64 -/
theorem flag_idAllocAtomic : Generated.cfg.idAllocAtomic = true := by decide
/-- the fields of the structs the table talks about are the ones the disciplines were written for: a field
    that is added, moved out of its mutex-guarded group or retyped is not covered by `disciplineOf` -/
theorem struct_census : Generated.structFields = Expected.structFields := by decide
/-- the lock / unlock / channel / go / defer structure of every tracked function is the one the access
    walk and the disciplines were checked against -/
theorem all_skeletons : Generated.skeletons = Expected.skeletons := by decide

end Goat.Tie.C15
