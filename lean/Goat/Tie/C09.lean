/- Tie obligations for C09: facts regenerated from /repo equal what the proofs assume; key theorems instantiated at the source's configuration. -/
import Goat.Generated.Facts
import Goat.Expected
import Goat.CfgMap
import Goat.MuxThms
import Goat.ClientStreamThms
namespace Goat.Tie.C09
open Goat

theorem flag_registerChecksErr : Generated.cfg.registerChecksErr = true := by decide
theorem flag_idAllocAtomic : Generated.cfg.idAllocAtomic = true := by decide
theorem flag_dispatchOutsideLock : Generated.cfg.dispatchOutsideLock = true := by decide
theorem flag_unaryDeferUnregister : Generated.cfg.unaryDeferUnregister = true := by decide
theorem flag_badMetaSetsErr : Generated.cfg.badMetaSetsErr = true := by decide
theorem sk_client_multiplexer_RpcMultiplexer_closeError : Generated.sk_client_multiplexer_RpcMultiplexer_closeError = Expected.sk_client_multiplexer_RpcMultiplexer_closeError := by decide
theorem sk_client_multiplexer_RpcMultiplexer_CallUnaryMethod : Generated.sk_client_multiplexer_RpcMultiplexer_CallUnaryMethod = Expected.sk_client_multiplexer_RpcMultiplexer_CallUnaryMethod := by decide
theorem sk_client_multiplexer_RpcMultiplexer_NewStreamReadWriter : Generated.sk_client_multiplexer_RpcMultiplexer_NewStreamReadWriter = Expected.sk_client_multiplexer_RpcMultiplexer_NewStreamReadWriter := by decide
theorem sk_client_multiplexer_RpcMultiplexer_readLoop : Generated.sk_client_multiplexer_RpcMultiplexer_readLoop = Expected.sk_client_multiplexer_RpcMultiplexer_readLoop := by decide
theorem sk_client_multiplexer_RpcMultiplexer_handleResponse : Generated.sk_client_multiplexer_RpcMultiplexer_handleResponse = Expected.sk_client_multiplexer_RpcMultiplexer_handleResponse := by decide
theorem sk_client_multiplexer_RpcMultiplexer_registerHandler : Generated.sk_client_multiplexer_RpcMultiplexer_registerHandler = Expected.sk_client_multiplexer_RpcMultiplexer_registerHandler := by decide
theorem sk_client_multiplexer_RpcMultiplexer_unregisterHandler : Generated.sk_client_multiplexer_RpcMultiplexer_unregisterHandler = Expected.sk_client_multiplexer_RpcMultiplexer_unregisterHandler := by decide
theorem sk_client_multiplexer_muxHandler_recv : Generated.sk_client_multiplexer_muxHandler_recv = Expected.sk_client_multiplexer_muxHandler_recv := by decide
theorem sk_client_stream_clientStream_readLoop : Generated.sk_client_stream_clientStream_readLoop = Expected.sk_client_stream_clientStream_readLoop := by decide

def fail_closes_all_at_source := Mux.fail_closes_all (muxCfg Generated.cfg false) (by decide) (by decide)
def fail_enabled_at_source := Mux.fail_enabled (muxCfg Generated.cfg false) (by decide) (by decide)
def late_register_fails_at_source := Mux.late_register_fails (muxCfg Generated.cfg false) (by decide)

end Goat.Tie.C09
