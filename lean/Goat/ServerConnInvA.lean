/-
  ServerConn — preservation of the structural invariants, part A
  (lock, per-stream facts, routing, forwarding target, one stream per id).
-/
import Goat.ServerConnInvDefs

set_option maxHeartbeats 400000

namespace Goat.ServerConn

theorem invMu_step (cfg : Cfg) (s s' : State) (l : Label) (hi : InvMu s)
    (hs : step cfg s l = some s') : InvMu s' := by
  unfold InvMu at *
  cases l <;> prep hs <;> first | exact hi | grind [muOwner]

theorem invStream_step (cfg : Cfg) (s s' : State) (l : Label) (hi : InvStream s)
    (hs : step cfg s l = some s') : InvStream s' := by
  unfold InvStream at *
  cases l with
  | rlOpen =>
    prep hs
    intro k st hk
    rcases getElem?_append_single _ _ _ _ hk with h | ⟨_, h⟩
    · exact hi k st h
    · subst h; simp
  | _ => prep hs <;> first | exact hi | grind

theorem invFwd_step (cfg : Cfg) (s s' : State) (l : Label) (hi : InvFwd s) (h2 : InvMu s)
    (hs : step cfg s l = some s') : InvFwd s' := by
  unfold InvFwd InvMu at *
  cases l <;> prep hs <;> first | exact hi | grind [muOwner]

theorem invRoute_step (cfg : Cfg) (s s' : State) (l : Label) (hi : InvRoute s) (h2 : InvFwd s)
    (hs : step cfg s l = some s') : InvRoute s' := by
  unfold InvRoute InvFwd at *
  cases l with
  | rlOpen =>
    prep hs
    intro k st hk
    rcases getElem?_append_single _ _ _ _ hk with h | ⟨_, h⟩
    · exact hi k st h
    · subst h; simp
  | _ => prep hs <;> first | exact hi | grind

theorem invUniq_step (cfg : Cfg) (s s' : State) (l : Label) (hi : InvUniq s)
    (hs : step cfg s l = some s') : InvUniq s' := by
  unfold InvUniq at *
  cases l with
  | rlOpen =>
    prep hs
    rename_i _ e _ hg
    have hk := (known_false_iff s e.id).mp hg.2.1
    intro j k sj sk hj hk' rj rk hid
    rcases getElem?_append_single _ _ _ _ hj with h | ⟨hjl, h⟩ <;>
    rcases getElem?_append_single _ _ _ _ hk' with h' | ⟨hkl, h'⟩
    · exact hi j k sj sk h h' rj rk hid
    · subst h'; exact absurd hid (hk j sj h rj)
    · subst h; exact absurd hid.symm (hk k sk h' rk)
    · omega
  | _ => prep hs <;> first | exact hi | grind

end Goat.ServerConn
