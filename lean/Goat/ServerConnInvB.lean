/-
  ServerConn — preservation of the structural invariants, part B (wait loop, process census).
-/
import Goat.ServerConnInvDefs

set_option maxHeartbeats 400000

namespace Goat.ServerConn

theorem invWaitA_step (cfg : Cfg) (s s' : State) (l : Label) (hi : InvWaitA s)
    (hs : step cfg s l = some s') : InvWaitA s' := by
  unfold InvWaitA at *
  cases l <;> prep hs <;> first | exact hi | grind

theorem invWaitB_step (cfg : Cfg) (s s' : State) (l : Label) (hi : InvWaitB s) (h2 : InvStream s)
    (hs : step cfg s l = some s') : InvWaitB s' := by
  unfold InvWaitB InvStream at *
  cases l <;> prep hs <;> first | exact hi | grind

theorem invWaitC_step (cfg : Cfg) (s s' : State) (l : Label) (hi : InvWaitC s) (h2 : InvWaitA s)
    (hs : step cfg s l = some s') : InvWaitC s' := by
  unfold InvWaitC InvWaitA at *
  cases l with
  | waitFinish =>
    prep hs
    rename_i hg
    intro _
    exact all_not_registered s hg.2.2
  | _ => prep hs <;> first | exact hi | grind

theorem invProc_step (cfg : Cfg) (s s' : State) (l : Label) (hi : InvProc s)
    (hs : step cfg s l = some s') : InvProc s' := by
  unfold InvProc at *
  cases l <;> prep hs <;> first | exact hi | grind

end Goat.ServerConn
