/-
  The inductive invariant of the demultiplexer model and its helper lemmas.
-/
import Goat.Demux

namespace Goat.Demux

@[simp, grind =] theorem mget_mdel (t : Map) (n m : Bytes) :
    mget (mdel t n) m = if m = n then none else mget t m := by
  induction t with
  | nil => simp [mdel, mget]
  | cons a t ih =>
    obtain ⟨k, v⟩ := a
    simp only [mdel]
    split <;> simp only [mget] <;> grind

@[simp, grind =] theorem mget_mput (t : Map) (n m : Bytes) (v : Nat) :
    mget (mput t n v) m = if m = n then some v else mget t m := by
  simp only [mput, mget, mget_mdel]; grind

/-- the envelope `Run` holds and has not yet handed off -/
def pend : RunPc → List Env
  | .locked e => [e]
  | .handoff _ e => [e]
  | _ => []

/-- the envelope the writer goroutine holds -/
def inflight : WrPc → List Env
  | .writing e => [e]
  | _ => []

/-- envelopes of completed hand-offs that had looked up object `c` -/
def logOf (log : List Rec) (c : Nat) : List Env := (log.filter (·.c = c)).map (·.e)

/-- what object `c`'s writer goroutine put on the shared transport -/
def outOf (w : List (Nat × Env)) (c : Nat) : List Env := (w.filter (·.1 = c)).map (·.2)

/-- envelopes of completed hand-offs to object `c` that its logical `Read` received -/
def dlvOf (log : List Rec) (c : Nat) : List Env :=
  (log.filter (fun r => r.c = c ∧ r.fate = .delivered)).map (·.e)

@[simp] theorem dlvOf_nil (c) : dlvOf [] c = [] := rfl

@[simp, grind =] theorem dlvOf_snoc (log : List Rec) (r : Rec) (c : Nat) :
    dlvOf (log ++ [r]) c = if r.c = c ∧ r.fate = .delivered then dlvOf log c ++ [r.e] else dlvOf log c := by
  simp only [dlvOf, List.filter_append, List.map_append]
  by_cases h : r.c = c ∧ r.fate = .delivered <;> simp [h]

theorem dlvOf_eq_nil (log : List Rec) (c : Nat) (h : ∀ r ∈ log, r.c ≠ c) : dlvOf log c = [] := by
  simp only [dlvOf, List.map_eq_nil_iff, List.filter_eq_nil_iff]
  intro r hr; simp [h r hr]

@[simp] theorem logOf_nil (c) : logOf [] c = [] := rfl
@[simp] theorem outOf_nil (c) : outOf [] c = [] := rfl

@[simp, grind =] theorem logOf_snoc (log : List Rec) (r : Rec) (c : Nat) :
    logOf (log ++ [r]) c = if r.c = c then logOf log c ++ [r.e] else logOf log c := by
  simp only [logOf, List.filter_append, List.map_append]
  by_cases h : r.c = c <;> simp [h]

@[simp, grind =] theorem outOf_snoc (w : List (Nat × Env)) (x : Nat × Env) (c : Nat) :
    outOf (w ++ [x]) c = if x.1 = c then outOf w c ++ [x.2] else outOf w c := by
  simp only [outOf, List.filter_append, List.map_append]
  by_cases h : x.1 = c <;> simp [h]

theorem logOf_eq_nil (log : List Rec) (c : Nat) (h : ∀ r ∈ log, r.c ≠ c) : logOf log c = [] := by
  simp only [logOf, List.map_eq_nil_iff, List.filter_eq_nil_iff]
  intro r hr; simpa using h r hr

theorem outOf_eq_nil (w : List (Nat × Env)) (c : Nat) (h : ∀ x ∈ w, x.1 ≠ c) : outOf w c = [] := by
  simp only [outOf, List.map_eq_nil_iff, List.filter_eq_nil_iff]
  intro r hr; simpa using h r hr

@[grind =] theorem getElem?_snoc_eq_some {α} (l : List α) (x a : α) (c : Nat) :
    ((l ++ [x])[c]? = some a) = (l[c]? = some a ∨ (c = l.length ∧ a = x)) := by
  apply propext
  rw [List.getElem?_append]
  split
  · constructor
    · exact Or.inl
    · rintro (h | ⟨h, _⟩)
      · exact h
      · omega
  · rename_i hlt
    have : l[c]? = none := by simp; omega
    rw [this]
    cases hh : c - l.length with
    | zero => simp; constructor
              · intro h; exact ⟨by omega, h.symm⟩
              · intro h; exact h.2.symm
    | succ n => simp; omega

def Inv (cfg : Cfg) (s : State) : Prop :=
  -- every envelope read was handed off (one way or another) or is in Run's hand
  (s.wireIn = s.log.map (·.e) ++ pend s.run) ∧
  -- the map points at live objects of the right key
  (∀ k c, mget s.table k = some c →
      ∃ conn, s.conns[c]? = some conn ∧ conn.key = k ∧ conn.done = false ∧ conn.closed = false) ∧
  -- a live object is the one registered under its key
  (∀ c conn, s.conns[c]? = some conn → conn.done = false → conn.closed = false →
      mget s.table conn.key = some c) ∧
  -- the object Run is handing off to has the envelope's key and never had anything discarded
  (match s.run with
   | .handoff c e => ∃ conn, s.conns[c]? = some conn ∧ conn.key = cfg.demuxOn e ∧ conn.discarded = []
   | _ => True) ∧
  -- every completed hand-off went to an object of the envelope's key
  (∀ r ∈ s.log, ∃ conn, s.conns[r.c]? = some conn ∧ conn.key = cfg.demuxOn r.e) ∧
  (∀ c conn, s.conns[c]? = some conn →
      logOf s.log c = conn.delivered ++ conn.discarded ∧
      dlvOf s.log c = conn.delivered ∧
      (conn.discarded ≠ [] → conn.done = true ∨ s.run = .exited) ∧
      outOf s.wireOut c ++ conn.lostW ++ inflight conn.wr = conn.accepted ∧
      (conn.lostW ≠ [] → conn.wr = .exited) ∧
      (cfg.cancelUsesDone = true → conn.closed = false) ∧
      (cfg.cancelUsesDone = false → conn.done = false) ∧
      s.announced[c]? = some (conn.key, c)) ∧
  s.announced.length = s.conns.length ∧
  (cfg.cancelUsesDone = true → s.panicked = none) ∧
  (∀ x ∈ s.wireOut, x.1 < s.conns.length)

theorem inv_init (cfg : Cfg) : Inv cfg init := by
  simp [Inv, init, mget, pend]

set_option hygiene false in
/-- the generic per-label proof: reduce `hs` to `s' = …`, split the invariant, `grind` -/
local macro "inv_case" : tactic => `(tactic| (
  unfold step at hs; split at hs; (· contradiction);
  unfold Inv at *;
  obtain ⟨h1, h2, h3, h4, h5, h6, h7, h8, h9⟩ := hi;
  simp only at hs <;> (repeat' split at hs) <;> (try contradiction) <;>
  (simp only [Option.some.injEq] at hs; subst hs) <;>
  refine ⟨?_, ?_, ?_, ?_, ?_, ?_, ?_, ?_, ?_⟩ <;> grind [pend, inflight, newConn]))

theorem inv_runRead {cfg : Cfg} {s s' : State} {e} (hi : Inv cfg s)
    (hs : step cfg s (.runRead e) = some s') : Inv cfg s' := by
  inv_case

theorem inv_runReadErr {cfg : Cfg} {s s' : State} (hi : Inv cfg s)
    (hs : step cfg s (.runReadErr) = some s') : Inv cfg s' := by
  inv_case

theorem inv_runLookup {cfg : Cfg} {s s' : State} (hi : Inv cfg s)
    (hs : step cfg s (.runLookup) = some s') : Inv cfg s' := by
  unfold step at hs; split at hs; (· contradiction)
  simp only at hs
  split at hs <;> try contradiction
  rename_i e hrun
  unfold Inv at *
  obtain ⟨h1, h2, h3, h4, h5, h6, h7, h8, h9⟩ := hi
  split at hs
  · simp only [Option.some.injEq] at hs; subst hs
    refine ⟨?_, ?_, ?_, ?_, ?_, ?_, ?_, ?_, ?_⟩ <;> grind [pend, inflight, newConn]
  · rename_i hget
    simp only [Option.some.injEq] at hs; subst hs
    have hlog : logOf s.log s.conns.length = [] := by
      apply logOf_eq_nil
      intro r hr hc
      obtain ⟨conn, hconn, _⟩ := h5 r hr
      rw [hc] at hconn; simp at hconn
    have hdlv : dlvOf s.log s.conns.length = [] := by
      apply dlvOf_eq_nil
      intro r hr hc
      obtain ⟨conn, hconn, _⟩ := h5 r hr
      rw [hc] at hconn; simp at hconn
    have hout : outOf s.wireOut s.conns.length = [] := by
      apply outOf_eq_nil
      intro x hx hc
      have := h9 x hx; omega
    simp only [getElem?_snoc_eq_some]
    refine ⟨?_, ?_, ?_, ?_, ?_, ?_, ?_, ?_, ?_⟩
    · grind [pend]
    · intro k c hk
      simp only [mget_mput] at hk
      split at hk
      · exact ⟨newConn (cfg.demuxOn e), Or.inr ⟨by simpa using hk.symm, rfl⟩, by simp [newConn, *]⟩
      · obtain ⟨conn, hc, hr⟩ := h2 k c hk
        exact ⟨conn, Or.inl hc, hr⟩
    · grind [newConn]
    · refine ⟨newConn (cfg.demuxOn e), ?_⟩; simp [newConn]
    · intro r hr
      obtain ⟨conn, hc, hk⟩ := h5 r hr
      exact ⟨conn, Or.inl hc, hk⟩
    · intro c conn hc
      rcases hc with hc | ⟨rfl, rfl⟩
      · have hlt : c < s.announced.length := by
          have : c < s.conns.length := by
            have := List.getElem?_eq_some_iff.mp hc; exact this.1
          omega
        have := h6 c conn hc
        grind
      · rw [hlog, hout, hdlv]; simp [newConn, inflight, ← h7]
    · simp [h7]
    · exact h8
    · intro x hx; have := h9 x hx; simp; omega

theorem inv_runHandoff {cfg : Cfg} {s s' : State} (hi : Inv cfg s)
    (hs : step cfg s (.runHandoff) = some s') : Inv cfg s' := by
  inv_case

theorem inv_runHandoffCancelled {cfg : Cfg} {s s' : State} (hi : Inv cfg s)
    (hs : step cfg s (.runHandoffCancelled) = some s') : Inv cfg s' := by
  inv_case

theorem inv_runHandoffStopped {cfg : Cfg} {s s' : State} (hi : Inv cfg s)
    (hs : step cfg s (.runHandoffStopped) = some s') : Inv cfg s' := by
  inv_case

theorem inv_runHandoffPanic {cfg : Cfg} {s s' : State} (hi : Inv cfg s)
    (hs : step cfg s (.runHandoffPanic) = some s') : Inv cfg s' := by
  inv_case

theorem inv_connReadStart {cfg : Cfg} {s s' : State} {c} (hi : Inv cfg s)
    (hs : step cfg s (.connReadStart c) = some s') : Inv cfg s' := by
  inv_case

theorem inv_connWriteStart {cfg : Cfg} {s s' : State} {c e} (hi : Inv cfg s)
    (hs : step cfg s (.connWriteStart c e) = some s') : Inv cfg s' := by
  inv_case

theorem inv_connReadFail {cfg : Cfg} {s s' : State} {c} (hi : Inv cfg s)
    (hs : step cfg s (.connReadFail c) = some s') : Inv cfg s' := by
  inv_case

theorem inv_writerTake {cfg : Cfg} {s s' : State} {c} (hi : Inv cfg s)
    (hs : step cfg s (.writerTake c) = some s') : Inv cfg s' := by
  inv_case

theorem inv_connWriteFail {cfg : Cfg} {s s' : State} {c} (hi : Inv cfg s)
    (hs : step cfg s (.connWriteFail c) = some s') : Inv cfg s' := by
  inv_case

theorem inv_connWritePanic {cfg : Cfg} {s s' : State} {c} (hi : Inv cfg s)
    (hs : step cfg s (.connWritePanic c) = some s') : Inv cfg s' := by
  inv_case

theorem inv_writerWrite {cfg : Cfg} {s s' : State} {c ok} (hi : Inv cfg s)
    (hs : step cfg s (.writerWrite c ok) = some s') : Inv cfg s' := by
  inv_case

theorem inv_writerExit {cfg : Cfg} {s s' : State} {c} (hi : Inv cfg s)
    (hs : step cfg s (.writerExit c) = some s') : Inv cfg s' := by
  inv_case

theorem inv_cancelKey {cfg : Cfg} {s s' : State} {k} (hi : Inv cfg s)
    (hs : step cfg s (.cancelKey k) = some s') : Inv cfg s' := by
  inv_case

theorem inv_stop {cfg : Cfg} {s s' : State} (hi : Inv cfg s)
    (hs : step cfg s (.stop) = some s') : Inv cfg s' := by
  inv_case

theorem inv_step (cfg : Cfg) (s s' : State) (l : Label) (hi : Inv cfg s)
    (hs : step cfg s l = some s') : Inv cfg s' := by
  cases l with
  | runRead e => exact inv_runRead hi hs
  | runReadErr => exact inv_runReadErr hi hs
  | runLookup => exact inv_runLookup hi hs
  | runHandoff => exact inv_runHandoff hi hs
  | runHandoffCancelled => exact inv_runHandoffCancelled hi hs
  | runHandoffStopped => exact inv_runHandoffStopped hi hs
  | runHandoffPanic => exact inv_runHandoffPanic hi hs
  | connReadStart c => exact inv_connReadStart hi hs
  | connWriteStart c e => exact inv_connWriteStart hi hs
  | connReadFail c => exact inv_connReadFail hi hs
  | writerTake c => exact inv_writerTake hi hs
  | connWriteFail c => exact inv_connWriteFail hi hs
  | connWritePanic c => exact inv_connWritePanic hi hs
  | writerWrite c ok => exact inv_writerWrite hi hs
  | writerExit c => exact inv_writerExit hi hs
  | cancelKey k => exact inv_cancelKey hi hs
  | stop => exact inv_stop hi hs

theorem inv_run {cfg : Cfg} {s s' : State} (ls : List Label) (hi : Inv cfg s)
    (hr : run cfg s ls = some s') : Inv cfg s' := by
  induction ls generalizing s with
  | nil => simp [run] at hr; subst hr; exact hi
  | cons l ls ih =>
    simp only [run] at hr
    cases hst : step cfg s l with
    | none => simp [hst] at hr
    | some s1 => rw [hst] at hr; exact ih (inv_step cfg s s1 l hi hst) hr

theorem inv_reachable {cfg : Cfg} {s : State} (h : Reachable cfg s) : Inv cfg s := by
  obtain ⟨ls, hr⟩ := h
  exact inv_run ls (inv_init cfg) hr

theorem reachable_step {cfg : Cfg} {s s' : State} {l : Label} (h : Reachable cfg s)
    (hs : step cfg s l = some s') : Reachable cfg s' := by
  obtain ⟨ls, hr⟩ := h
  refine ⟨ls ++ [l], ?_⟩
  have : ∀ (ls : List Label) (a : State), run cfg a ls = some s → run cfg a (ls ++ [l]) = some s' := by
    intro ls
    induction ls with
    | nil => intro a ha; simp [run] at ha; subst ha; simp [run, hs]
    | cons x xs ih =>
      intro a ha
      simp only [run, List.cons_append] at *
      cases hx : step cfg a x with
      | none => simp [hx] at ha
      | some b => rw [hx] at ha; exact ih b ha
  exact this ls init hr

/-! ## list lemmas used by the property theorems -/

theorem filter_map_sublist {α β} (l : List α) (f : α → β) (p : α → Bool) (q : β → Bool)
    (h : ∀ r ∈ l, p r = true → q (f r) = true) :
    ((l.filter p).map f).Sublist ((l.map f).filter q) := by
  induction l with
  | nil => simp
  | cons a l ih =>
    have ih' := ih (fun r hr => h r (List.mem_cons_of_mem _ hr))
    simp only [List.filter_cons, List.map_cons]
    by_cases hp : p a = true
    · have hq := h a (by simp) hp
      simp [hp, hq, ih']
    · simp only [hp]
      by_cases hq : q (f a) = true
      · simp [hq]; exact List.Sublist.cons _ ih'
      · simp [hq]; exact ih'

theorem filter_map_eq {α β} (l : List α) (f : α → β) (p : α → Bool) (q : β → Bool)
    (h : ∀ r ∈ l, p r = q (f r)) :
    (l.filter p).map f = (l.map f).filter q := by
  induction l with
  | nil => simp
  | cons a l ih =>
    have ih' := ih (fun r hr => h r (List.mem_cons_of_mem _ hr))
    have := h a (by simp)
    simp only [List.filter_cons, List.map_cons, this]
    split <;> simp [ih']

/-- the run loop's own progress measure after `Stop` -/
def runRank : RunPc → Nat
  | .locked _ => 2
  | .reading => 1
  | .handoff _ _ => 1
  | .exited => 0

end Goat.Demux
