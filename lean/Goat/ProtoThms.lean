/-
  Property theorems of the protobuf codec (C19, DESIGN.md section 4): the codec law that the transport
  round-trip theorems of `Goat/TransportThms.lean` assume.
-/
import Goat.ProtoProofs
namespace Goat.Proto
open Goat

/-- a 64-bit value written as a varint is read back, whatever follows it -/
theorem varint_roundtrip (v : Nat) (rest : Bytes) (h : v < 18446744073709551616) :
    getVarint (putVarint v ++ rest) = some (v, rest) := getVarint_put v rest h

/-- the wire layer alone: any list of well-formed fields (valid numbers, 64-bit varints, fixed-width values of
    their width, lengths below 2^64) is read back from its encoding -/
theorem wire_roundtrip (fs : List Field) (h : ∀ f ∈ fs, FieldOK f) : parseFields (putFields fs) = some fs :=
  parseFields_put fs h

/-- THE CODEC LAW: every envelope the Go type can hold and `Marshal` accepts (`WF`: id a uint64, code an int32,
    strings valid UTF-8 as checked by the decidable `validUTF8` — not restricted to ASCII —, encoding shorter than
    2^64 bytes) is decoded from its encoding to exactly itself: every combination of present/absent sub-messages,
    every repeated field, empty-but-present sub-messages included. -/
theorem proto_roundtrip : ∀ m : Rpc, WF m → decode (encode m) = some m := decode_encode

/-- `decode` is a total function (a Lean definition by structural recursion, no `partial`): on every byte string
    it answers `none` (Go: `Unmarshal` returns an error) or a value; it cannot panic or diverge. -/
theorem decode_total (bs : Bytes) : decode bs = none ∨ ∃ m, decode bs = some m := by
  cases decode bs with
  | none => exact Or.inl rfl
  | some m => exact Or.inr ⟨m, rfl⟩

/-- …and the fuel that makes the recursion structural is not observable: any amount that covers the input gives
    the same answer, so `none` always means "malformed", never "ran out of fuel". -/
theorem decode_fuel_irrelevant (bs : Bytes) (n : Nat) (h : bs.length ≤ n) :
    parseFieldsAux n bs = parseFields bs := parseFieldsAux_fuel n bs.length bs h (Nat.le_refl _)

theorem skipGroup_fuel_irrelevant (bs : Bytes) (st : List Nat) (n : Nat) (h : bs.length ≤ n) :
    skipGroup n st bs = skipGroup bs.length st bs := skipGroup_fuel n bs.length st bs h (Nat.le_refl _)

/-- an unknown field (number 7 or above, any wire type `putField` writes) after an encoding is skipped -/
theorem decode_unknown_skipped (m : Rpc) (hw : WF m) (f : Field) (hf : FieldOK f) (hn : 7 ≤ f.1) :
    decode (encode m ++ putField f) = some m := decode_skips_unknown m hw f hf hn

/-- proto3's merge rule in its wire form: decoding `a ++ b`, where `a` ends at a field boundary, is decoding `b` into the
    result of decoding `a` (scalars of `b` win where present, repeated fields append, sub-messages merge recursively —
    by the same law one level down, `decodeHeaderInto` etc. being folds of the same shape) -/
theorem decode_append_is_merge (m : Rpc) (a b : Bytes) (fa : List Field) (h : parseFields a = some fa) :
    decodeInto m (a ++ b) = (decodeInto m a).bind (fun m' => decodeInto m' b) := decodeInto_append m a b fa h

/-- two encodings one after the other decode to the second merged into the first -/
theorem decode_concat_is_merge (a b : Rpc) (ha : WF a) :
    decode (encode a ++ encode b) = decodeInto a (encode b) := by
  have hp : parseFields (encode a) = some (rpcFields a) := parseFields_put' _ (numOK_rpc a ha.id) ha.size
  have hr : decodeInto {} (encode a) = some a := proto_roundtrip a ha
  unfold decode
  rw [decodeInto_append {} (encode a) (encode b) _ hp, hr]
  rfl

/-- strings that pass `validUTF8` consist of bytes -/
theorem str_bytes {b : Bytes} (h : Str b) : b.WF := Str.bytes h

/-! ## examples (non-vacuity and the proto3 rules the round trip does not exercise) -/

def exHeader : Header :=
  { method := [47, 115, 47, 109], src := [195, 169], dst := [240, 159, 152, 128],   -- "/s/m", "é", U+1F600
    headers := [⟨[107], [118]⟩, ⟨[], []⟩], record := [[], [97]], next := [[226, 130, 172]] }

def exRpc : Rpc :=
  { id := 18446744073709551615, header := some exHeader,
    status := some { code := -2147483648, message := [109], details := [⟨[117], [0, 255]⟩, ⟨[], []⟩] },
    body := some [], trailer := some [⟨[116], [1]⟩], reset := some rstStream }

/-- a value with every sub-message present, the extreme id and code, non-ASCII strings, empty elements of
    repeated fields and an empty-but-present body is well-formed, so `proto_roundtrip` is not vacuous -/
example : WF exRpc := by
  refine ⟨by decide, ?_, ?_, ?_, ?_, ?_, by decide⟩
  · intro h hh; cases hh; exact ⟨by decide, by decide, by decide, by decide, by decide, by decide⟩
  · intro s hs; cases hs; exact ⟨by decide, by decide, by decide⟩
  · intro d hd; cases hd; decide
  · intro t ht; cases ht; decide
  · intro t ht; cases ht; decide

example : decode (encode exRpc) = some exRpc := by decide

/-- id 0 and empty strings are omitted; a present empty sub-message is tag + length 0 -/
example : encode { id := 0, header := some {}, body := some [] } = [18, 0, 34, 0] := by decide
example : decode [18, 0, 34, 0] = some { header := some {}, body := some [] } := by decide
example : decode [] = some {} := by decide
/-- a negative code takes ten bytes -/
example : encode { status := some { code := -1 } } = [26, 11, 8, 255, 255, 255, 255, 255, 255, 255, 255, 255, 1] := by decide
/-- a scalar seen twice keeps the last value -/
example : decode [8, 1, 8, 2] = some { id := 2 } := by decide
/-- a sub-message seen twice is merged: scalars of the second win where present, repeated fields append -/
example : decode [18, 5, 10, 1, 97, 50, 0, 18, 5, 26, 1, 98, 50, 0]
    = some { header := some { method := [97], src := [98], next := [[], []] } } := by decide
example : decodeInto { id := 1, header := some { method := [97], next := [[120]] }, body := some [1] }
      (encode { header := some { src := [98], next := [[121]] }, body := some [] })
    = some { id := 1, header := some { method := [97], src := [98], next := [[120], [121]] }, body := some [1] } := by decide
/-- an explicitly encoded default overwrites -/
example : decode [18, 3, 10, 1, 97, 18, 2, 10, 0] = some { header := some {} } := by decide
/-- a known number under another wire type, an unknown number and a group are skipped -/
example : decode [10, 1, 65, 8, 7, 56, 1, 59, 8, 1, 60] = some { id := 7 } := by decide
/-- rejected: truncated length, field number 0, end-group at message level, wire type 7, an eleven-byte varint,
    invalid UTF-8 in a string field, a group closed under another number -/
example : decode [34, 5, 10, 1] = none := by decide
example : decode [0, 0] = none := by decide
example : decode [12] = none := by decide
example : decode [15, 0] = none := by decide
example : decode [8, 128, 128, 128, 128, 128, 128, 128, 128, 128, 128, 0] = none := by decide
example : decode [50, 3, 10, 1, 255] = none := by decide
example : decode [11, 20] = none := by decide
/-- …while the same bytes in a `bytes` field are fine -/
example : decode [34, 3, 10, 1, 255] = some { body := some [255] } := by decide
/-- surrogates and overlong forms are not UTF-8 -/
example : validUTF8 [237, 160, 128] = false ∧ validUTF8 [192, 128] = false ∧ validUTF8 [244, 144, 128, 128] = false
    ∧ validUTF8 [237, 159, 191] = true ∧ validUTF8 [244, 143, 191, 191] = true := by decide

end Goat.Proto
