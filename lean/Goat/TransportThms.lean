/-
  Property theorems for the shipped transports (C19, DESIGN.md section 4).
  The round-trip theorems are stated for any codec that satisfies the codec law and then instantiated with the
  protobuf codec, whose law is `Proto.proto_roundtrip`.
-/
import Goat.Transport
import Goat.ProtoThms
namespace Goat.Transport
open Goat

/-! ## the codec law is a theorem for the protobuf codec -/

theorem proto_law : protoCodec.Law Proto.WF := Proto.proto_roundtrip

/-! ## websocket -/

/-- what is read equals what was written, in write order -/
theorem ws_roundtrip {α : Type} (c : Codec α) (ok : α → Prop) (law : c.Law ok) (es : List α)
    (h : ∀ e ∈ es, ok e) : wsReadAll c (es.map (wsWrite c)) = es.map Except.ok := by
  induction es with
  | nil => rfl
  | cons e es ih =>
    have he := law e (h e (by simp))
    have := ih (fun e' he' => h e' (by simp [he']))
    simp only [wsReadAll, List.map_cons, List.map_map] at this ⊢
    simp only [wsRead, wsWrite, he] at this ⊢
    rw [this]

theorem ws_rejects_nonbinary {α : Type} (c : Codec α) (d : Bytes) :
    wsRead c { typ := .text, data := d } = .error .nonBinary := rfl

theorem ws_rejects_undecodable {α : Type} (c : Codec α) (d : Bytes) (h : c.dec d = none) :
    wsRead c { typ := .binary, data := d } = .error .undecodable := by
  simp [wsRead, h]

/-- never a delivery: whatever `Read` delivers came in a binary message that decodes to it -/
theorem ws_delivers_only_decoded {α : Type} (c : Codec α) (f : Frame) (e : α) (h : wsRead c f = .ok e) :
    f.typ = .binary ∧ c.dec f.data = some e := by
  unfold wsRead at h
  split at h
  · cases h
  · rename_i ht
    split at h
    · rename_i e' he
      cases h
      exact ⟨ht, he⟩
    · cases h

theorem ws_roundtrip_proto (es : List Proto.Rpc) (h : ∀ e ∈ es, Proto.WF e) :
    wsReadAll protoCodec (es.map (wsWrite protoCodec)) = es.map Except.ok :=
  ws_roundtrip protoCodec Proto.WF proto_law es h

/-! ## channels -/

theorem chan_fifo_gen {α : Type} (ops : List (ChanOp α)) : ∀ (s : List α × List α),
    (ops.foldl chanStep s).1 ++ (ops.foldl chanStep s).2 = s.1 ++ s.2 ++ chanWrites ops := by
  induction ops with
  | nil => intro s; simp [chanWrites]
  | cons op ops ih =>
    intro s
    rw [List.foldl_cons, ih]
    cases op with
    | write e => simp [chanStep, chanWrites]
    | read =>
      simp only [chanStep, chanWrites]
      split
      · rfl
      · rename_i e q hq
        simp [hq]

/-- FIFO, for every interleaving of writes and reads: what has been read, followed by what is in flight, is
    exactly what has been written, in write order -/
theorem chan_fifo {α : Type} (ops : List (ChanOp α)) :
    (chanRun ops).1 ++ (chanRun ops).2 = chanWrites ops := by
  have := chan_fifo_gen ops ([], [])
  simpa [chanRun] using this

theorem chanRun_reads {α : Type} (q : List α) : ∀ (d : List α),
    (List.replicate q.length (ChanOp.read : ChanOp α)).foldl chanStep (d, q) = (d ++ q, []) := by
  induction q with
  | nil => intro d; simp
  | cons e q ih =>
    intro d
    simp only [List.length_cons, List.replicate_succ, List.foldl_cons, chanStep]
    rw [ih]; simp

theorem chanRun_writes {α : Type} (es : List α) : ∀ (d q : List α),
    (es.map ChanOp.write).foldl chanStep (d, q) = (d, q ++ es) := by
  induction es with
  | nil => intro d q; simp
  | cons e es ih => intro d q; simp [chanStep, ih]

/-- what is read equals what was written, in write order -/
theorem chan_roundtrip {α : Type} (es : List α) :
    chanRun (es.map ChanOp.write ++ List.replicate es.length ChanOp.read) = (es, []) := by
  unfold chanRun
  rw [List.foldl_append, chanRun_writes, List.nil_append, chanRun_reads]
  simp

/-- FIFO without loss, with cancelled calls mixed in: however Writes that succeed or fail and Reads
    that return an envelope or fail with their context's error are interleaved, what the Reads have
    returned, followed by what is still in flight, is exactly what the successful Writes were handed,
    in write order. A failed call has no effect. -/
theorem chan_fifo_with_cancelled_calls {α : Type} [DecidableEq α] (evs : List (ChanEv α)) :
    ∀ (q q' : List α), chanObs false q evs = some q' → chanGot evs ++ q' = q ++ chanAccepted evs := by
  induction evs with
  | nil => intro q q' h; simp [chanObs] at h; simp [chanGot, chanAccepted, h]
  | cons ev evs ih =>
    intro q q' h
    cases ev with
    | wrote e =>
      simp only [chanObs] at h
      have := ih _ _ h
      simp [chanGot, chanAccepted, this]
    | writeFailed e =>
      simp only [chanObs] at h
      have := ih _ _ h
      simp [chanGot, chanAccepted, this]
    | readGot e =>
      cases q with
      | nil => simp [chanObs] at h
      | cons x q0 =>
        simp only [chanObs] at h
        split at h
        · rename_i hx
          have := ih _ _ h
          simp [chanGot, chanAccepted, this, hx]
        · simp at h
    | readFailed =>
      simp only [chanObs] at h
      have := ih _ _ h
      simpa [chanGot, chanAccepted] using this

/-- … in particular once everything in flight has been read, the reader has exactly what was accepted -/
theorem chan_drained_is_accepted {α : Type} [DecidableEq α] (evs : List (ChanEv α))
    (h : chanObs false [] evs = some []) : chanGot evs = chanAccepted evs := by
  simpa using chan_fifo_with_cancelled_calls evs [] [] h

/-- negative witness: a transport whose failing Read has swallowed the head of the queue (the receive
    won the `select`, the context check came after it) loses an accepted envelope -/
theorem bad_failed_read_drops :
    chanObs true [] [ChanEv.wrote 1, .wrote 2, .readFailed, .readGot 2] = some ([] : List Nat) ∧
    chanGot [ChanEv.wrote 1, .wrote 2, .readFailed, .readGot 2] ≠ chanAccepted [ChanEv.wrote 1, .wrote 2, .readFailed, .readGot 2] := by
  decide

example : chanObs false [] [ChanEv.wrote 1, .readFailed, .writeFailed 9, .wrote 2, .readGot 1, .readGot 2] = some ([] : List Nat) := by decide

/-- a `Read` whose context is done has an outcome (it does not stay blocked) on a transport that honours the
    context, and with nothing in flight and the connection open the outcome is the context's error -/
theorem read_returns_on_ctx_done {α : Type} (closed : Bool) (q : List α) :
    readOutcomes true true closed q ≠ [] := by
  simp [readOutcomes]

theorem read_ctx_done_outcome {α : Type} :
    readOutcomes (α := α) true true false [] = [.error .ctxDone] := rfl

/-- a `Write` whose context is done returns on a transport that honours the context -/
theorem write_returns_on_ctx_done (peerTakes : Bool) : writeOutcomes true true peerTakes ≠ [] := by
  cases peerTakes <;> simp [writeOutcomes]

theorem chan_write_returns_on_ctx_done (readerWaiting : Bool) : chanWriteOutcomes true readerWaiting ≠ [] :=
  write_returns_on_ctx_done readerWaiting

/-- negative witnesses: a transport that ignores the context leaves a `Read` with nothing to read, and a `Write`
    nobody takes, blocked after the context is done (http.go before the two repairs) -/
theorem bad_read_ignores_ctx {α : Type} : readOutcomes (α := α) false true false [] = [] := rfl
theorem bad_write_ignores_ctx : writeOutcomes false true false = [] := rfl

/-! ## HTTP: request validation -/

/-- 400 exactly for: no body, unreadable body, undecodable body, no header, empty source, unmappable source -/
theorem http_400_iff {α : Type} (c : Codec α) (hdrSrc : α → Option Bytes) (mapper : Bytes → Option Bytes)
    (body : HttpBody) (h : Handover) :
    httpStatus c hdrSrc mapper body h = 400 ↔
      body = .absent ∨ body = .readError ∨
      ∃ b, body = .data b ∧
        (c.dec b = none ∨
         ∃ e, c.dec b = some e ∧
           (hdrSrc e = none ∨ hdrSrc e = some [] ∨ ∃ src, hdrSrc e = some src ∧ src ≠ [] ∧ mapper src = none)) := by
  unfold httpStatus httpServe
  cases body with
  | absent => simp
  | readError => simp
  | data b =>
    cases hd : c.dec b with
    | none => simp [hd]
    | some e =>
      cases hs : hdrSrc e with
      | none => simp [hd, hs]
      | some src =>
        by_cases hsrc : src = []
        · simp [hd, hs, hsrc]
        · cases hm : mapper src with
          | none => simp [hd, hs, hsrc, hm]
          | some key => cases h <;> simp [hd, hs, hsrc, hm]

/-- a 400 (or any answer other than 200) is never a delivery -/
theorem http_delivers_only_on_200 {α : Type} (c : Codec α) (hdrSrc : α → Option Bytes) (mapper : Bytes → Option Bytes)
    (body : HttpBody) (h : Handover) (d : Bytes × α)
    (hd : (httpServe c hdrSrc mapper body h).delivered = some d) :
    (httpServe c hdrSrc mapper body h).status = 200 ∧ h = .taken ∧
      ∃ b, body = .data b ∧ c.dec b = some d.2 ∧ ∃ src, hdrSrc d.2 = some src ∧ src ≠ [] ∧ mapper src = some d.1 := by
  unfold httpServe at hd ⊢
  cases body with
  | absent => simp at hd
  | readError => simp at hd
  | data b =>
    cases hdc : c.dec b with
    | none => simp [hdc] at hd
    | some e =>
      cases hs : hdrSrc e with
      | none => simp [hdc, hs] at hd
      | some src =>
        by_cases hsrc : src = []
        · simp [hdc, hs, hsrc] at hd
        · cases hm : mapper src with
          | none => simp [hdc, hs, hsrc, hm] at hd
          | some key =>
            cases h <;> simp [hdc, hs, hsrc, hm] at hd ⊢
            subst hd
            exact ⟨rfl, src, hs, hsrc, hm⟩

/-- what one end writes, the other end's reader receives unchanged under the mapped key -/
theorem http_roundtrip {α : Type} (c : Codec α) (ok : α → Prop) (law : c.Law ok)
    (hdrSrc : α → Option Bytes) (mapper : Bytes → Option Bytes) (e : α) (src key : Bytes)
    (he : ok e) (hs : hdrSrc e = some src) (hne : src ≠ []) (hm : mapper src = some key) :
    (httpServe c hdrSrc mapper (httpWrite c e) .taken).status = 200 ∧
    (httpServe c hdrSrc mapper (httpWrite c e) .taken).delivered = some (key, e) := by
  simp [httpServe, httpWrite, law e he, hs, hne, hm]

theorem http_roundtrip_proto (mapper : Bytes → Option Bytes) (e : Proto.Rpc) (h : Header) (key : Bytes)
    (he : Proto.WF e) (hh : e.header = some h) (hne : h.src ≠ []) (hm : mapper h.src = some key) :
    (httpServe protoCodec rpcSrc mapper (httpWrite protoCodec e) .taken).delivered = some (key, e) :=
  (http_roundtrip protoCodec Proto.WF proto_law rpcSrc mapper e h.src key he (by simp [rpcSrc, hh]) hne hm).2

/-- an envelope without a header or with an empty source is answered 400, whatever the mapper -/
theorem http_400_without_source (mapper : Bytes → Option Bytes) (e : Proto.Rpc) (he : Proto.WF e) (hd : Handover)
    (h : e.header = none ∨ ∃ hh, e.header = some hh ∧ hh.src = []) :
    httpStatus protoCodec rpcSrc mapper (httpWrite protoCodec e) hd = 400 := by
  have hl : protoCodec.dec (protoCodec.enc e) = some e := proto_law e he
  rcases h with h | ⟨hh, h1, h2⟩
  · simp [httpStatus, httpServe, httpWrite, hl, rpcSrc, h]
  · simp [httpStatus, httpServe, httpWrite, hl, rpcSrc, h1, h2]

/-! ## HTTP: the idle cleaner against a sender and a reader -/

namespace HttpConn

theorem run_append (cfg : Cfg) (s : State) (l1 l2 : List Label) :
    run cfg s (l1 ++ l2) = (run cfg s l1).bind (fun s' => run cfg s' l2) := by
  induction l1 generalizing s with
  | nil => simp [run]
  | cons l l1 ih =>
    simp only [List.cons_append, run]
    cases step cfg s l with
    | none => simp
    | some s' => simpa using ih s'

/-- with the repair: `readCh` is never closed, nobody has panicked, and a connection that is no longer
    registered has its `done` channel closed -/
def Inv (s : State) : Prop :=
  s.readChClosed = false ∧ s.sender ≠ .panicked ∧ (s.registered = false → s.doneClosed = true)

theorem inv_step (cfg : Cfg) (hc : cfg.httpCleanUsesDone = true) (s s' : State) (l : Label)
    (hi : Inv s) (hs : step cfg s l = some s') : Inv s' := by
  unfold Inv at *
  cases l <;> simp only [step] at hs <;> (repeat' split at hs) <;> simp_all <;> grind

theorem inv_run (cfg : Cfg) (hc : cfg.httpCleanUsesDone = true) (ls : List Label) :
    ∀ s s', Inv s → run cfg s ls = some s' → Inv s' := by
  induction ls with
  | nil => intro s s' hi h; simp [run] at h; subst h; exact hi
  | cons l ls ih =>
    intro s s' hi h
    simp only [run] at h
    split at h
    · rename_i s1 hs1
      exact ih s1 s' (inv_step cfg hc s s1 l hi hs1) h
    · cases h

theorem inv_reachable (cfg : Cfg) (hc : cfg.httpCleanUsesDone = true) (s : State) (h : Reachable cfg s) : Inv s := by
  obtain ⟨ls, hl⟩ := h
  exact inv_run cfg hc ls init s (by simp [Inv, init]) hl

/-- C19, idle timeout: in every reachable state, for every schedule of ticks, clock advances, senders and
    readers — the sender has not crashed and cannot crash next (`senderPanics` is disabled); once the connection
    has been timed out, a blocked reader can (only) fail and a sender at its select gets its 503 -/
theorem idle_timeout_fails_readers_not_senders (cfg : Cfg) (hc : cfg.httpCleanUsesDone = true)
    (s : State) (h : Reachable cfg s) :
    s.sender ≠ .panicked ∧ step cfg s .senderPanics = none ∧
    (s.registered = false → s.reader = .blocked → step cfg s .readerSeesDone = some { s with reader := .gotErr }) ∧
    (s.registered = false → s.sender = .atSelect → step cfg s .senderSeesDone = some { s with sender := .refused }) := by
  obtain ⟨h1, h2, h3⟩ := inv_reachable cfg hc s h
  refine ⟨h2, ?_, ?_, ?_⟩
  · simp [step, h1]
  · intro hr hb; simp [step, hb, h3 hr]
  · intro hr hb; simp [step, hb, h3 hr]

/-- C19, cancellation: a reader blocked in `Read` whose context is done can return (with the context's error) -/
theorem blocked_ops_return_on_ctx_done (cfg : Cfg) (hc : cfg.httpReadHonoursCtx = true) (s : State)
    (hb : s.reader = .blocked) (hd : s.readerCtxDone = true) :
    step cfg s .readerSeesCtx = some { s with reader := .gotCtxErr } := by
  simp [step, hb, hd, hc]

def cfgWith (clean read : Bool) : Cfg :=
  { Cfg.good with httpCleanUsesDone := clean, httpReadHonoursCtx := read }

/-- negative witness (pre-repair cleaner): a sender past `retrieve`, then the idle tick, then the send: panic -/
theorem bad_httpCleanUsesDone :
    ∃ s, run (cfgWith false true) init [.retrieve, .advance 300, .tick 240, .senderPanics] = some s ∧
      s.sender = .panicked := by
  refine ⟨_, rfl, ?_⟩
  decide

/-- negative witness (pre-repair Read): a blocked reader whose context ends has no way to return while the
    connection is open and nobody sends — every progress label is disabled -/
theorem bad_httpReadHonoursCtx :
    ∃ s, run (cfgWith true false) init [.readStart, .readerCancel] = some s ∧
      s.reader = .blocked ∧ s.readerCtxDone = true ∧ ∀ l ∈ progressLabels, step (cfgWith true false) s l = none := by
  refine ⟨_, rfl, ?_⟩
  decide

/-- non-vacuity: a reachable state (repaired code) in which the connection has been timed out while a sender is at
    its select and a reader is blocked — the situation the theorem speaks about -/
example : ∃ s, run (cfgWith true true) init [.readStart, .retrieve, .advance 300, .tick 240] = some s ∧
    s.registered = false ∧ s.reader = .blocked ∧ s.sender = .atSelect ∧ s.doneClosed = true := by
  refine ⟨_, rfl, ?_⟩
  decide

/-- the same run continues with the reader failing and the sender refused -/
example : ∃ s, run (cfgWith true true) init
      [.readStart, .retrieve, .advance 300, .tick 240, .readerSeesDone, .senderSeesDone] = some s ∧
    s.reader = .gotErr ∧ s.sender = .refused := by
  refine ⟨_, rfl, ?_⟩
  decide

/-- a delivery refreshes the idle clock: the tick that follows it does not close the connection -/
example : ∃ s, run (cfgWith true true) init [.advance 300, .readStart, .retrieve, .handover, .tick 240] = some s ∧
    s.registered = true ∧ s.reader = .gotMsg ∧ s.sender = .delivered := by
  refine ⟨_, rfl, ?_⟩
  decide

end HttpConn

/-! ## examples -/

example : wsRead protoCodec (wsWrite protoCodec Proto.exRpc) = .ok Proto.exRpc := by rfl
example : wsRead protoCodec { typ := .text, data := Proto.encode { id := 5 } } = .error .nonBinary := by rfl
example : wsRead protoCodec { typ := .binary, data := [8] } = .error .undecodable := by rfl
/-- status codes of the request shapes, with a mapper that rejects sources starting with "!" -/
def exMapper (src : Bytes) : Option Bytes := if src.head? = some 33 then none else some src
example : httpStatus protoCodec rpcSrc exMapper .absent .taken = 400 := by decide
example : httpStatus protoCodec rpcSrc exMapper (.data [8]) .taken = 400 := by decide
example : httpStatus protoCodec rpcSrc exMapper (.data (Proto.encode { id := 1 })) .taken = 400 := by decide
example : httpStatus protoCodec rpcSrc exMapper (.data (Proto.encode { id := 1, header := some {} })) .taken = 400 := by decide
example : httpStatus protoCodec rpcSrc exMapper (.data (Proto.encode { id := 1, header := some { src := [33, 97] } })) .taken = 400 := by decide
example : httpStatus protoCodec rpcSrc exMapper (.data (Proto.encode { id := 1, header := some { src := [97] } })) .taken = 200 := by decide
example : httpStatus protoCodec rpcSrc exMapper (.data (Proto.encode { id := 1, header := some { src := [97] } })) .connClosed = 503 := by decide

end Goat.Transport
