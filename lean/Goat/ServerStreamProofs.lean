import Goat.ServerStream
namespace Goat.ServerStream
open Goat Goat.Metadata Goat.Protocol

/-- the automaton state that matches a stream object -/
def Matches (a : StS) (s : SS) : Prop :=
  a = .start ∨ (a = .open_ (route s) ∧ s.headersSent = true)

theorem kvOf_nil_isEmpty : (([] : List KV).isEmpty) = true := rfl

theorem trailer_ok (s : SS) (hT : s.trailersSent = false) (st : Status) (w : Bool) (a : StS) (ha : Matches a s) :
    (runS false a (((sendTrailer s st w).2.toList).map shapeOf)).isSome = true := by
  cases w with
  | false => simp [sendTrailer, hT, runS]
  | true =>
    rcases ha with ha | ⟨ha, hs⟩
    · subst ha
      simp [sendTrailer, hT, runS, stepS, shapeOf, hdr]
    · subst ha
      simp [sendTrailer, hT, runS, stepS, shapeOf, hdr, hs, route]

theorem emits_conform_aux (ops : List Op) : ∀ (s : SS) (a : StS), s.trailersSent = false → Matches a s →
    ∀ st w, (runS false a ((emitted s ops st w).map shapeOf)).isSome = true := by
  induction ops with
  | nil => intro s a hT ha st w; simpa [emitted] using trailer_ok s hT st w a ha
  | cons op ops ih =>
    intro s a hT ha st w
    have hk := step_keeps s op
    simp only [emitted, List.map_append, runS_append]
    cases op with
    | setHeader md =>
      by_cases hs : s.headersSent = true
      · simp only [step, hs, ite_true, Option.toList_none, List.map_nil, runS, Option.bind_some]
        exact ih s a hT ha st w
      · have hs' : s.headersSent = false := by simpa using hs
        simp only [step, hs', Bool.false_eq_true, ite_false, Option.toList_none, List.map_nil, runS, Option.bind_some]
        apply ih _ a (by simpa using hT)
        rcases ha with ha | ⟨_, h2⟩
        · exact Or.inl ha
        · simp [hs'] at h2
    | setTrailer md =>
      simp only [step, hT, Bool.false_eq_true, ite_false, Option.toList_none, List.map_nil, runS, Option.bind_some]
      apply ih _ a (by simpa using hT)
      rcases ha with ha | ⟨h1, h2⟩
      · exact Or.inl ha
      · exact Or.inr ⟨by simpa [route] using h1, by simpa using h2⟩
    | sendHeader md wk =>
      by_cases hs : s.headersSent = true
      · simp only [step, hs, ite_true, Option.toList_none, List.map_nil, runS, Option.bind_some]
        exact ih s a hT ha st w
      · have hs' : s.headersSent = false := by simpa using hs
        have hstart : a = .start := by
          rcases ha with ha | ⟨_, h2⟩
          · exact ha
          · simp [hs'] at h2
        subst hstart
        cases wk with
        | false =>
          simp only [step, hs', Bool.false_eq_true, ite_false, Option.toList_none, List.map_nil, runS, Option.bind_some]
          exact ih _ .start (by simpa using hT) (Or.inl rfl) st w
        | true =>
          simp only [step, hs', Bool.false_eq_true, ite_false, ite_true, Option.toList_some, List.map_cons, List.map_nil, runS]
          simp only [stepS, shapeOf, hdr]
          simp
          exact ih _ _ (by simpa using hT) (Or.inr ⟨by simp [route], by simp⟩) st w
    | sendMsg b wk =>
      cases wk with
      | false =>
        simp only [step, Bool.false_eq_true, ite_false, Option.toList_none, List.map_nil, runS, Option.bind_some]
        apply ih _ a (by simpa using hT)
        rcases ha with ha | ⟨h1, _⟩
        · exact Or.inl ha
        · exact Or.inr ⟨by simpa [route] using h1, by simp⟩
      | true =>
        simp only [step, ite_true, Option.toList_some, List.map_cons, List.map_nil, runS]
        rcases ha with ha | ⟨h1, h2⟩
        · subst ha
          simp only [stepS, shapeOf, hdr]
          simp
          exact ih _ _ (by simpa using hT) (Or.inr ⟨by simp [route], by simp⟩) st w
        · subst h1
          simp only [stepS, shapeOf, hdr, h2]
          simp [route]
          exact ih _ _ (by simpa using hT) (Or.inr ⟨by simp [route], by simp⟩) st w

end Goat.ServerStream

namespace Goat.ServerStream
open Goat Goat.Metadata Goat.Protocol

/-- response metadata carried by an envelope -/
def metaOf (e : Env) : List KV := match e.header with | some h => h.headers | none => []

theorem sent_no_meta (ops : List Op) : ∀ (s : SS), s.headersSent = true → ∀ st w,
    ∀ e ∈ emitted s ops st w, metaOf e = [] := by
  induction ops with
  | nil =>
    intro s hs st w e he
    simp only [emitted, sendTrailer] at he
    split at he
    · simp at he
    · cases w <;> simp [hs] at he
      subst he; simp [metaOf, hdr]
  | cons op ops ih =>
    intro s hs st w e he
    have hk := (step_keeps s op).2.2.2 hs
    simp only [emitted, List.mem_append] at he
    rcases he with he | he
    · cases op with
      | setHeader md => simp [step, hs] at he
      | sendHeader md wk => simp [step, hs] at he
      | setTrailer md => simp only [step] at he; split at he <;> simp at he
      | sendMsg b wk =>
        cases wk <;> simp [step, hs] at he
        subst he; simp [metaOf, hdr]
    · exact ih _ hk st w e he

theorem emit_sets_sent (s : SS) (op : Op) (e : Env) (h : (step s op).2.1 = some e) :
    (step s op).1.headersSent = true := by
  cases op <;> simp only [step] at h ⊢ <;> (repeat' split at h) <;> simp_all
  all_goals (repeat' split) <;> simp_all

/-- C04/C06: response metadata is carried by at most the first envelope that leaves -/
theorem meta_only_on_first (ops : List Op) : ∀ (s : SS) st w,
    emitted s ops st w = [] ∨ ∃ e rest, emitted s ops st w = e :: rest ∧ ∀ x ∈ rest, metaOf x = [] := by
  induction ops with
  | nil =>
    intro s st w
    simp only [emitted]
    cases h : (sendTrailer s st w).2 with
    | none => simp
    | some e => right; exact ⟨e, [], by simp, by simp⟩
  | cons op ops ih =>
    intro s st w
    simp only [emitted]
    cases h : (step s op).2.1 with
    | none => simpa using ih (step s op).1 st w
    | some e =>
      right
      refine ⟨e, emitted (step s op).1 ops st w, by simp, ?_⟩
      exact sent_no_meta ops _ (emit_sets_sent s op e h) st w

/-- the setTrailer arguments of a program, in order -/
def trailerArgs : List Op → List MD
  | [] => []
  | .setTrailer md :: t => md :: trailerArgs t
  | _ :: t => trailerArgs t

theorem step_trailers (s : SS) (hT : s.trailersSent = false) (op : Op) :
    (step s op).1.trailers = s.trailers ++ trailerArgs [op] := by
  cases op <;> simp only [step, trailerArgs] <;> (repeat' split) <;> simp_all

/-- C04: the trailer envelope carries the join of ALL SetTrailer arguments, in call order,
    whatever else the handler did and however it ended (`st` is any status). -/
theorem trailer_md_complete (ops : List Op) : ∀ (s : SS), s.trailersSent = false → ∀ st,
    ∃ pre e, emitted s ops st true = pre ++ [e] ∧ e.trailer = some (kvOf (s.trailers ++ trailerArgs ops)) ∧
      e.status = some st := by
  induction ops with
  | nil =>
    intro s hT st
    refine ⟨[], { id := s.id, header := some (hdr s (if s.headersSent then [] else kvOf s.headers)), status := some st, trailer := some (kvOf s.trailers) }, ?_, ?_, ?_⟩ <;>
      simp [emitted, sendTrailer, hT, trailerArgs]
  | cons op ops ih =>
    intro s hT st
    have hk := step_keeps s op
    obtain ⟨pre, e, h1, h2, h3⟩ := ih (step s op).1 (by rw [hk.2.2.1]; exact hT) st
    refine ⟨(step s op).2.1.toList ++ pre, e, by simp [emitted, h1], ?_, h3⟩
    rw [h2, step_trailers s hT op]
    cases op <;> simp [trailerArgs]

/-- the three emission paths, all writes succeeding: headers leave with SendHeader … -/
theorem headers_with_sendHeader (s : SS) (hs : s.headersSent = false) (sets : List MD) (md : MD) (rest : List Op) (st w) :
    ∃ tl, emitted s (sets.map .setHeader ++ .sendHeader md true :: rest) st w =
      { id := s.id, header := some (hdr s (kvOf (s.headers ++ sets ++ [md]))) } :: tl := by
  induction sets generalizing s with
  | nil => exact ⟨emitted (step s (.sendHeader md true)).1 rest st w, by simp [emitted, step, hs, hdr]⟩
  | cons m ms ih =>
    obtain ⟨tl, h⟩ := ih { s with headers := s.headers ++ [m] } (by simpa using hs)
    exact ⟨tl, by simp [emitted, step, hs] at h ⊢; simpa [hdr] using h⟩

/-- … with the first response message … -/
theorem headers_with_first_message (s : SS) (hs : s.headersSent = false) (sets : List MD) (b : Bytes) (rest : List Op) (st w) :
    ∃ tl, emitted s (sets.map .setHeader ++ .sendMsg b true :: rest) st w =
      { id := s.id, header := some (hdr s (kvOf (s.headers ++ sets))), body := some b } :: tl := by
  induction sets generalizing s with
  | nil => exact ⟨emitted (step s (.sendMsg b true)).1 rest st w, by simp [emitted, step, hs, hdr]⟩
  | cons m ms ih =>
    obtain ⟨tl, h⟩ := ih { s with headers := s.headers ++ [m] } (by simpa using hs)
    exact ⟨tl, by simp [emitted, step, hs] at h ⊢; simpa [hdr] using h⟩

/-- … or together with the final status. -/
theorem headers_with_trailer (s : SS) (hs : s.headersSent = false) (hT : s.trailersSent = false) (sets : List MD) (st) :
    emitted s (sets.map .setHeader) st true =
      [{ id := s.id, header := some (hdr s (kvOf (s.headers ++ sets))), status := some st, trailer := some (kvOf s.trailers) }] := by
  induction sets generalizing s with
  | nil => simp [emitted, sendTrailer, hs, hT, hdr]
  | cons m ms ih =>
    have := ih { s with headers := s.headers ++ [m] } (by simpa using hs) (by simpa using hT)
    simp [emitted, step, hs] at this ⊢
    simpa [hdr] using this

end Goat.ServerStream
