/-
  Helper lemmas for the composition theorems of `Goat/Props/C16.lean`:
  client k → proxy → host transport → Demux (key = header source) → logical connection of k,
  and back.

  Part 1 (proxy): runs of the proxy whose interceptor obeys a specification `P`, and the
          *pair lemma*: for a source object `a` (name `A`) and a target object `b` (name `B`),
          the envelopes with source `A` routed to `b` are, in serve order, the forwarded images of
          the envelopes read from `a` that are addressed `A → B`.
  Part 2 (lists / demux): filters and prefixes.
-/
import Goat.ProxyThms
import Goat.DemuxThms

namespace Goat.Proxy

/-! ## vocabulary -/

/-- the key function the host's `Demux` uses: the header's source (`""` without a header) -/
def keyOf (e : Env) : Bytes := (e.header.map (·.src)).getD []

/-- an envelope with the fields `forwardRpc` rewrites (`ProxyRecord`, `ProxyNext`) erased:
id, status, body, trailer, reset, and the header's method, source, destination, key/values -/
def core (e : Env) : Env :=
  { e with header := e.header.map (fun h => { h with record := [], next := [] }) }

/-- what `forwardRpc` (no interceptor) makes of an envelope: its own name appended to the route
record, the last hop of the return route consumed, everything else untouched -/
def fwdEnv (cfg : Cfg) (e : Env) : Env := { e with header := e.header.map (fwdHeader cfg) }

/-- `e` is traffic of peer `a` for peer `b`: it has a header, the header's source is `a`, and the
proxy's destination rule (last hop of `ProxyNext`, else `Destination`) picks `b` -/
def addressed (a b : Bytes) (e : Env) : Bool :=
  match e.header with
  | some h => h.src == a && pickDest h == b
  | none => false

@[simp] theorem core_fwdEnv (cfg : Cfg) (e : Env) : core (fwdEnv cfg e) = core e := by
  cases e with
  | mk id header status body trailer reset =>
    cases header <;> simp [core, fwdEnv, fwdHeader]

theorem map_core_fwdEnv (cfg : Cfg) (l : List Env) : (l.map (fwdEnv cfg)).map core = l.map core := by
  simp [List.map_map, Function.comp_def]

theorem keyOf_fwdEnv (cfg : Cfg) (e : Env) : keyOf (fwdEnv cfg e) = keyOf e := by
  cases e with
  | mk id header status body trailer reset =>
    cases header <;> simp [keyOf, fwdEnv, fwdHeader]

theorem keyOf_core (e : Env) : keyOf (core e) = keyOf e := by
  cases e with
  | mk id header status body trailer reset =>
    cases header <;> simp [keyOf, core]

theorem core_id (e : Env) : (core e).id = e.id := rfl
theorem core_body (e : Env) : (core e).body = e.body := rfl

theorem addressed_key {a b : Bytes} {e : Env} (h : addressed a b e = true) : keyOf e = a := by
  unfold addressed at h
  split at h
  · rename_i hd hh; simp only [Bool.and_eq_true, beq_iff_eq] at h; simp [keyOf, hh, h.1]
  · simp at h

/-! ## runs whose interceptor obeys a specification -/

/-- `P h r`: the interceptor, given header `h`, may answer `r` (`none` = refuse, `some h'` = go on
with `h'`).  No interceptor configured: `noIc`. -/
abbrev IcSpec := Header → Option Header → Prop

/-- no interceptor (`p.rpcIntercepter == nil`) -/
def noIc : IcSpec := fun h r => r = some h

/-- any interceptor at all -/
def anyIc : IcSpec := fun _ _ => True

/-- label `l` is allowed in state `s`: a serve step applies to the header of the envelope the
reader holds an answer the specification allows -/
def LabelOk (P : IcSpec) (s : State) : Label → Prop
  | .cmdRpc i ic _ => ∀ c e h, s.conns[i]? = some c → c.r = .sending e → e.header = some h → P h ic
  | _ => True

/-- reachable by a run all of whose serve steps obey `P` -/
inductive ReachableIc (cfg : Cfg) (P : IcSpec) : State → Prop
  | init : ReachableIc cfg P init
  | step {s s' : State} {l : Label} : ReachableIc cfg P s → LabelOk P s l →
      step cfg s l = some s' → ReachableIc cfg P s'

theorem ReachableIc.reachable {cfg : Cfg} {P : IcSpec} {s : State} (h : ReachableIc cfg P s) :
    Reachable cfg s := by
  induction h with
  | init => exact ⟨[], rfl⟩
  | step _ _ hs ih => exact reachable_step ih hs

/-- `run` with every label checked against `P` (for concrete witnesses) -/
theorem reachableIc_run {cfg : Cfg} {P : IcSpec} (ls : List Label) :
    ∀ {a s : State}, ReachableIc cfg P a →
      (∀ (pre : List Label) (l : Label) (post : List Label) (m : State), ls = pre ++ l :: post →
        run cfg a pre = some m → LabelOk P m l) →
      run cfg a ls = some s → ReachableIc cfg P s := by
  induction ls with
  | nil => intro a s ha _ hr; simp [run] at hr; subst hr; exact ha
  | cons l ls ih =>
    intro a s ha hok hr
    simp only [run] at hr
    cases hst : Proxy.step cfg a l with
    | none => simp [hst] at hr
    | some b =>
      rw [hst] at hr
      refine ih (ReachableIc.step ha (hok [] l ls a rfl rfl) hst) ?_ hr
      intro pre l' post m hsplit hrun
      exact hok (l :: pre) l' post m (by simp [hsplit]) (by simp [run, hst, hrun])

/-- every reachable state is reachable with the trivial specification -/
theorem reachableIc_any {cfg : Cfg} {s : State} (h : Reachable cfg s) : ReachableIc cfg anyIc s := by
  obtain ⟨ls, hr⟩ := h
  refine reachableIc_run ls ReachableIc.init ?_ hr
  intro pre l post m _ _
  cases l <;> simp [LabelOk, anyIc]

/-- weakening the specification -/
theorem ReachableIc.mono {cfg : Cfg} {P Q : IcSpec} (hPQ : ∀ h r, P h r → Q h r) {s : State}
    (h : ReachableIc cfg P s) : ReachableIc cfg Q s := by
  induction h with
  | init => exact ReachableIc.init
  | step _ hl hs ih =>
    refine ReachableIc.step ih ?_ hs
    rename_i l _
    cases l <;> simp only [LabelOk] at hl ⊢
    intro c e h h1 h2 h3; exact hPQ _ _ (hl c e h h1 h2 h3)

/-! ### decidable checks for concrete witnesses -/

/-- Boolean form of `LabelOk noIc` -/
def plainOk (s : State) : Label → Bool
  | .cmdRpc i ic _ =>
    match s.conns[i]? with
    | some c =>
      (match c.r with
       | .sending e => (match e.header with | some h => ic == some h | none => true)
       | _ => true)
    | none => true
  | _ => true

/-- `run` that also checks that no interceptor is at work -/
def runPlain (cfg : Cfg) (s : State) : List Label → Option State
  | [] => some s
  | l :: ls => if plainOk s l then (step cfg s l).bind (fun s' => runPlain cfg s' ls) else none

theorem labelOk_of_plainOk {s : State} {l : Label} (h : plainOk s l = true) : LabelOk noIc s l := by
  cases l with
  | cmdRpc i ic nn =>
    intro c e hd hc hr hh
    simp only [plainOk, hc, hr, hh, beq_iff_eq] at h
    exact h
  | _ => trivial

theorem reachableIc_of_runPlain {cfg : Cfg} (ls : List Label) :
    ∀ {a s : State}, ReachableIc cfg noIc a → runPlain cfg a ls = some s → ReachableIc cfg noIc s := by
  induction ls with
  | nil => intro a s ha hr; simp [runPlain] at hr; subst hr; exact ha
  | cons l ls ih =>
    intro a s ha hr
    simp only [runPlain] at hr
    split at hr
    · rename_i hok
      cases hst : Proxy.step cfg a l with
      | none => simp [hst] at hr
      | some b => rw [hst] at hr; exact ih (ReachableIc.step ha (labelOk_of_plainOk hok) hst) hr
    · contradiction

/-- a statement about every object of a heap, checked by evaluation -/
theorem forall_idx {α} (l : List α) (Q : Nat → α → Prop) [∀ i a, Decidable (Q i a)]
    (h : (l.zipIdx.all fun x => decide (Q x.2 x.1)) = true) : ∀ i a, l[i]? = some a → Q i a := by
  intro i a hi
  have := List.all_eq_true.mp h (a, i) (List.mem_zipIdx_iff_getElem?.mpr hi)
  simpa using this

/-! ### what a step does to the log -/

/-- a step either leaves the log alone (and does not panic) or is a serve step that appends the
event `forward` computed -/
theorem step_log {cfg : Cfg} {s s' : State} {l : Label} (hs : step cfg s l = some s') :
    s.panicked = none ∧
    ((s'.log = s.log ∧ s'.panicked = none) ∨
     ∃ i ic nn c e ev t, l = .cmdRpc i ic nn ∧ s.conns[i]? = some c ∧ c.r = .sending e ∧
       s'.log = s.log ++ [ev] ∧ ev.src = i ∧ ev.srcName = c.name ∧ ev.recv = e ∧
       ev.action = (forward cfg (fun _ => ic) nn t c.name e).action ∧
       s'.panicked = (match ev.action with | .panic w => some w | _ => none)) := by
  unfold step at hs
  split at hs
  · contradiction
  · rename_i hp
    have hnone : s.panicked = none := by
      cases h : s.panicked with
      | none => rfl
      | some w => simp [h] at hp
    refine ⟨hnone, ?_⟩
    cases l with
    | cmdRpc i ic nn =>
      simp only at hs
      split at hs <;> (try contradiction)
      split at hs <;> (try contradiction)
      rename_i c hc
      split at hs <;> (try contradiction)
      rename_i e hr
      simp only [Option.some.injEq] at hs; subst hs
      right
      exact ⟨i, ic, nn, c, e, _, _, rfl, hc, hr, rfl, rfl, rfl, rfl, rfl, rfl⟩
    | _ =>
      left
      simp only at hs <;> (repeat' split at hs) <;> (try contradiction) <;>
        (simp only [Option.some.injEq] at hs; subst hs) <;> exact ⟨rfl, hnone⟩

/-- every logged action is `forward`'s, for an answer of the interceptor that `P` allows -/
def LogIc (cfg : Cfg) (P : IcSpec) (s : State) : Prop :=
  ∀ ev ∈ s.log, ∃ ic nn t, (∀ h, ev.recv.header = some h → P h ic) ∧
    ev.action = (forward cfg (fun _ => ic) nn t ev.srcName ev.recv).action

theorem logIc_reachable {cfg : Cfg} {P : IcSpec} {s : State} (h : ReachableIc cfg P s) :
    LogIc cfg P s := by
  induction h with
  | init => intro ev hev; simp [init] at hev
  | step _ hl hs ih =>
    obtain ⟨_, h | ⟨i, ic, nn, c, e, ev, t, rfl, hc, hr, hlog, _, hn, hrecv, hact, _⟩⟩ := step_log hs
    · intro ev hev; rw [h.1] at hev; exact ih ev hev
    · intro ev' hev'
      rw [hlog, List.mem_append] at hev'
      rcases hev' with h1 | h1
      · exact ih ev' h1
      · simp only [List.mem_singleton] at h1; subst h1
        refine ⟨ic, nn, t, ?_, by rw [hact, hn, hrecv]⟩
        intro h hh
        rw [hrecv] at hh
        exact hl c e h hc hr hh

/-- a panic is the last thing that happens -/
def PanicLast (s : State) : Prop :=
  (s.panicked = none → ∀ ev ∈ s.log, ∀ w, ev.action ≠ .panic w) ∧
  (∀ ev ∈ s.log.dropLast, ∀ w, ev.action ≠ .panic w)

theorem panicLast_reachable {cfg : Cfg} {s : State} (h : Reachable cfg s) : PanicLast s := by
  obtain ⟨ls, hr⟩ := h
  have : ∀ (ls : List Label) (a : State), PanicLast a → run cfg a ls = some s → PanicLast s := by
    intro ls
    induction ls with
    | nil => intro a ha hr; simp [run] at hr; subst hr; exact ha
    | cons x xs ih =>
      intro a ha hr
      simp only [run] at hr
      cases hx : step cfg a x with
      | none => simp [hx] at hr
      | some b =>
        rw [hx] at hr
        refine ih b ?_ hr
        obtain ⟨hp, h | ⟨i, ic, nn, c, e, ev, t, _, _, _, hlog, _, _, _, _, hpan⟩⟩ := step_log hx
        · refine ⟨fun _ => ?_, ?_⟩
          · rw [h.1]; exact ha.1 hp
          · rw [h.1]; exact ha.2
        · refine ⟨?_, ?_⟩
          · intro hb ev' hev' w hw
            rw [hlog, List.mem_append] at hev'
            rcases hev' with h1 | h1
            · exact ha.1 hp ev' h1 w hw
            · simp only [List.mem_singleton] at h1; subst h1
              rw [hpan, hw] at hb; simp at hb
          · rw [hlog, List.dropLast_concat]; exact ha.1 hp
  exact this ls init ⟨by intro _ ev hev; simp [init] at hev, by intro ev hev; simp [init] at hev⟩ hr

/-! ## the pair lemma -/

/-- the envelopes of key `A` that event `ev` routed (enqueued or dropped) to object `b` -/
def evRouted (ev : Ev) (b : Nat) (A : Bytes) : List Env :=
  (evEnq ev b ++ evDrop ev b).filter (fun e => keyOf e = A)

/-- the envelope object `a`'s reader handed to the serve loop in event `ev`, if addressed `A → B` -/
def evServed (ev : Ev) (a : Nat) (A B : Bytes) : List Env :=
  if ev.src = a then [ev.recv].filter (addressed A B) else []

/-- the envelopes of key `A` routed to object `b`, in serve order -/
def routedKey (log : List Ev) (b : Nat) (A : Bytes) : List Env :=
  (routedOf log b).filter (fun e => keyOf e = A)

/-- the envelopes addressed `A → B` that the serve loop received from object `a`, in order -/
def servedFor (log : List Ev) (a : Nat) (A B : Bytes) : List Env :=
  (servedOf log a).filter (addressed A B)

theorem routedKey_cons (ev : Ev) (log : List Ev) (b : Nat) (A : Bytes) :
    routedKey (ev :: log) b A = evRouted ev b A ++ routedKey log b A := by
  simp [routedKey, routedOf, evRouted]

theorem servedFor_cons (ev : Ev) (log : List Ev) (a : Nat) (A B : Bytes) :
    servedFor (ev :: log) a A B = evServed ev a A B ++ servedFor log a A B := by
  simp only [servedFor, servedOf, evServed, List.filter_cons]
  by_cases h : ev.src = a <;> simp [h, List.filter_cons]
  split <;> simp

theorem routedKey_append (l1 l2 : List Ev) (b : Nat) (A : Bytes) :
    routedKey (l1 ++ l2) b A = routedKey l1 b A ++ routedKey l2 b A := by
  simp [routedKey, routedOf]

theorem servedFor_append (l1 l2 : List Ev) (a : Nat) (A B : Bytes) :
    servedFor (l1 ++ l2) a A B = servedFor l1 a A B ++ servedFor l2 a A B := by
  simp [servedFor, servedOf]

/-- what the pair lemma needs to know about one event -/
structure EvPair (cfg : Cfg) (P : IcSpec) (a b : Nat) (A B : Bytes) (ev : Ev) : Prop where
  /-- commands under name `A` come from object `a`, and only those -/
  srcA : ev.srcName = A ↔ ev.src = a
  /-- envelopes for name `B` go to object `b`, and only those -/
  tgt : ∀ d e', ev.action.sentTo d e' → (ev.target = some b ↔ d = B)
  nodangle : ev.action ≠ .dangling
  ic : ∃ ic nn t, (∀ h, ev.recv.header = some h → P h ic) ∧
    ev.action = (forward cfg (fun _ => ic) nn t ev.srcName ev.recv).action

theorem evRouted_of_not_sent {ev : Ev} {b : Nat} {A : Bytes}
    (h : ∀ d e', ¬ ev.action.sentTo d e') : evRouted ev b A = [] := by
  unfold evRouted evEnq evDrop
  cases ha : ev.action with
  | enqueue d e' => exact absurd (Or.inl ha) (h d e')
  | drop d e' => exact absurd (Or.inr ha) (h d e')
  | _ => simp

theorem evRouted_of_sent {ev : Ev} {b : Nat} {A : Bytes} {d : Bytes} {e' : Env}
    (h : ev.action.sentTo d e') :
    evRouted ev b A = if ev.target = some b ∧ keyOf e' = A then [e'] else [] := by
  unfold evRouted evEnq evDrop
  rcases h with h | h <;> rw [h] <;> by_cases ht : ev.target = some b <;>
    by_cases hk : keyOf e' = A <;> simp [ht, hk]

/-- **one event.**  If the interceptor leaves headers with source `A` alone (`hP1`) and never
turns another source into `A` (`hP2`), a non-panicking event routes to `b`, among the envelopes of
key `A`, exactly the forwarded image of what it received from `a` addressed `A → B`. -/
theorem evPair_good {cfg : Cfg} {P : IcSpec} {a b : Nat} {A B : Bytes} {ev : Ev}
    (hev : EvPair cfg P a b A B ev)
    (hP1 : ∀ h r, P h r → h.src = A → r = some h)
    (hP2 : ∀ h h1, P h (some h1) → h1.src = A → h.src = A)
    (hnp : ∀ w, ev.action ≠ .panic w) :
    evRouted ev b A = (evServed ev a A B).map (fwdEnv cfg) := by
  obtain ⟨ic, nn, t, hP, hact⟩ := hev.ic
  rcases route_cases cfg (fun _ => ic) (nnEff cfg nn) ev.srcName ev.recv with
    ⟨hroute, hbad⟩ | ⟨h, hh, hs, hic, hroute⟩ | ⟨h, h1, hh, hs, hic, hroute⟩
  · -- no header / wrong source: ignored
    have hns : ∀ d e', ¬ ev.action.sentTo d e' := by
      intro d e' hsent
      rw [hact] at hsent
      have := forward_sent hsent
      rw [hroute] at this
      exact badSource_ne_send _ _ _ this
    rw [evRouted_of_not_sent hns]
    unfold evServed
    split
    · rename_i hsrc
      have hA : ev.srcName = A := hev.srcA.mpr hsrc
      have : addressed A B ev.recv = false := by
        unfold addressed
        split
        · rename_i hd hhd
          have := hbad hd hhd
          rw [hA] at this
          simp [this]
        · rfl
      simp [this]
    · rfl
  · -- refused by the interceptor
    have hns : ∀ d e', ¬ ev.action.sentTo d e' := by
      intro d e' hsent
      rw [hact] at hsent
      have := forward_sent hsent
      rw [hroute] at this
      simp at this
    rw [evRouted_of_not_sent hns]
    unfold evServed
    split
    · rename_i hsrc
      have hA : ev.srcName = A := hev.srcA.mpr hsrc
      have := hP1 h ic (hP h hh) (hs.trans hA)
      rw [this] at hic; simp at hic
    · rfl
  · -- passed on
    have hne : ¬ (nnEff cfg nn = true ∧ h1.next = []) := by
      intro hc
      rw [if_pos hc] at hroute
      have : ev.action = .panic .emptyNext := by
        rw [hact]; unfold forward; rw [hroute]
      exact hnp _ this
    rw [if_neg hne] at hroute
    have hsent : ev.action.sentTo (pickDest h1) { ev.recv with header := some (fwdHeader cfg h1) } := by
      have hfw : forward cfg (fun _ => ic) nn t ev.srcName ev.recv =
          deliver t (pickDest h1) { ev.recv with header := some (fwdHeader cfg h1) } := by
        unfold forward; rw [hroute]
      rcases deliver_action t (pickDest h1) { ev.recv with header := some (fwdHeader cfg h1) } with
        h3 | h3 | h3
      · left; rw [hact, hfw]; exact h3
      · right; rw [hact, hfw]; exact h3
      · exact absurd (by rw [hact, hfw]; exact h3) hev.nodangle
    rw [evRouted_of_sent hsent]
    have hkey : keyOf { ev.recv with header := some (fwdHeader cfg h1) } = h1.src := by
      simp [keyOf, fwdHeader]
    rw [hkey]
    unfold evServed
    by_cases hsrc : ev.src = a
    · have hA : ev.srcName = A := hev.srcA.mpr hsrc
      have hh1 : h1 = h := by
        have := hP1 h ic (hP h hh) (hs.trans hA)
        rw [this] at hic; simpa using hic.symm
      subst hh1
      have himg : ({ ev.recv with header := some (fwdHeader cfg h1) } : Env) = fwdEnv cfg ev.recv := by
        simp [fwdEnv, hh]
      have haddr : addressed A B ev.recv = (pickDest h1 == B) := by
        simp [addressed, hh, hs.trans hA]
      rw [if_pos hsrc, himg]
      simp only [List.filter_cons, List.filter_nil, haddr]
      have := hev.tgt _ _ hsent
      by_cases hd : pickDest h1 = B
      · simp [hd, this.mpr hd, hs.trans hA]
      · have hnt : ev.target ≠ some b := fun h' => hd (this.mp h')
        simp [hd, hnt]
    · have hA : ev.srcName ≠ A := fun h' => hsrc (hev.srcA.mp h')
      have : h1.src ≠ A := by
        intro h'
        have := hP2 h h1 (hic ▸ hP h hh) h'
        exact hA (hs.symm.trans this)
      simp [hsrc, this]

/-- a panicking event routes nothing -/
theorem evRouted_panic {ev : Ev} {b : Nat} {A : Bytes} {w : PanicWhy} (h : ev.action = .panic w) :
    evRouted ev b A = [] := by
  apply evRouted_of_not_sent
  intro d e' hs
  rcases hs with hs | hs <;> rw [h] at hs <;> simp at hs

/-- list level: all events good → equality -/
theorem pair_eq (cfg : Cfg) (a b : Nat) (A B : Bytes) (log : List Ev)
    (h : ∀ ev ∈ log, evRouted ev b A = (evServed ev a A B).map (fwdEnv cfg)) :
    routedKey log b A = (servedFor log a A B).map (fwdEnv cfg) := by
  induction log with
  | nil => rfl
  | cons ev log ih =>
    rw [routedKey_cons, servedFor_cons, List.map_append, h ev (by simp),
      ih (fun ev' h' => h ev' (List.mem_cons_of_mem _ h'))]

/-- list level: all events but the last good, the last good or silent → prefix -/
theorem pair_prefix (cfg : Cfg) (a b : Nat) (A B : Bytes) (log : List Ev)
    (h1 : ∀ ev ∈ log.dropLast, evRouted ev b A = (evServed ev a A B).map (fwdEnv cfg))
    (h2 : ∀ ev ∈ log, evRouted ev b A = (evServed ev a A B).map (fwdEnv cfg) ∨ evRouted ev b A = []) :
    routedKey log b A <+: (servedFor log a A B).map (fwdEnv cfg) := by
  rcases List.eq_nil_or_concat log with rfl | ⟨l, ev, rfl⟩
  · simp [routedKey, routedOf]
  · simp only [List.concat_eq_append] at *
    rw [List.dropLast_concat] at h1
    rw [routedKey_append, servedFor_append, List.map_append, pair_eq cfg a b A B l h1]
    have e1 : routedKey [ev] b A = evRouted ev b A := by
      rw [routedKey_cons]; simp [routedKey, routedOf]
    have e2 : servedFor [ev] a A B = evServed ev a A B := by
      rw [servedFor_cons]; simp [servedFor, servedOf]
    rw [e1, e2]
    rcases h2 ev (by simp) with h | h
    · rw [h]; exact List.prefix_refl _
    · rw [h]; simp

/-! ### from the state invariant to the per-event facts -/

/-- no object of name `A` other than `a` ever read anything (`A` was not re-attached, or only
`a` was ever used) -/
def SoleSource (s : State) (a : Nat) (A : Bytes) : Prop :=
  ∀ a' c', s.conns[a']? = some c' → c'.name = A → a' = a ∨ c'.wireIn = []

/-- no object of name `B` other than `b` was ever routed anything (`B` was not re-attached or
re-dialled, or only `b` was ever used) -/
def SoleTarget (s : State) (b : Nat) (B : Bytes) : Prop :=
  ∀ b' c', s.conns[b']? = some c' → c'.name = B → b' = b ∨ (c'.enq = [] ∧ c'.dropped = [])

/-- the simple sufficient condition: `a` is the only object ever made under name `A` -/
def OnlyObject (s : State) (a : Nat) (A : Bytes) : Prop :=
  ∀ a' c', s.conns[a']? = some c' → c'.name = A → a' = a

theorem OnlyObject.source {s : State} {a : Nat} {A : Bytes} (h : OnlyObject s a A) :
    SoleSource s a A := fun a' c' h1 h2 => Or.inl (h a' c' h1 h2)

theorem OnlyObject.target {s : State} {a : Nat} {A : Bytes} (h : OnlyObject s a A) :
    SoleTarget s a A := fun a' c' h1 h2 => Or.inl (h a' c' h1 h2)

/-- the interceptor leaves headers with source `A` alone and never turns another source into `A`
(on all other traffic it may do anything: refuse, re-address, rewrite) -/
def Transparent (P : IcSpec) (A : Bytes) : Prop :=
  (∀ h r, P h r → h.src = A → r = some h) ∧ (∀ h h1, P h (some h1) → h1.src = A → h.src = A)

theorem noIc_transparent (A : Bytes) : Transparent noIc A :=
  ⟨fun _ _ h _ => h, fun h h1 hp hs => by
    have : h = h1 := by simpa [noIc] using hp.symm
    rw [this]; exact hs⟩

theorem mem_servedOf {log : List Ev} {ev : Ev} (h : ev ∈ log) : ev.recv ∈ servedOf log ev.src := by
  simp only [servedOf, List.mem_map, List.mem_filter]
  exact ⟨ev, ⟨h, by simp⟩, rfl⟩

theorem mem_enqOf {log : List Ev} {ev : Ev} {j : Nat} {d : Bytes} {e' : Env} (h : ev ∈ log)
    (ht : ev.target = some j) (ha : ev.action = .enqueue d e') : e' ∈ enqOf log j := by
  simp only [enqOf, List.mem_flatMap]
  exact ⟨ev, h, by simp [evEnq, ht, ha]⟩

theorem mem_dropOf {log : List Ev} {ev : Ev} {j : Nat} {d : Bytes} {e' : Env} (h : ev ∈ log)
    (ht : ev.target = some j) (ha : ev.action = .drop d e') : e' ∈ dropOf log j := by
  simp only [dropOf, List.mem_flatMap]
  exact ⟨ev, h, by simp [evDrop, ht, ha]⟩

theorem evPair_of_reachable {cfg : Cfg} {P : IcSpec} {s : State} (hr : ReachableIc cfg P s)
    {a b : Nat} {A B : Bytes} {ca cb : Conn} (hca : s.conns[a]? = some ca) (hcan : ca.name = A)
    (hcb : s.conns[b]? = some cb) (hcbn : cb.name = B)
    (hua : SoleSource s a A) (hub : SoleTarget s b B) :
    ∀ ev ∈ s.log, EvPair cfg P a b A B ev := by
  intro ev hev
  obtain ⟨_, h2, h3, _⟩ := inv_reachable hr.reachable
  obtain ⟨⟨cs, hcs, hcsn⟩, e2, e3, e4⟩ := h3 ev hev
  refine ⟨⟨?_, ?_⟩, ?_, e3, logIc_reachable hr ev hev⟩
  · intro hA
    rcases hua ev.src cs hcs (hcsn.trans hA) with h | h
    · exact h
    · have hok := (h2 _ cs hcs).2.2.2.2.2.1
      have hm := mem_servedOf hev
      rw [h] at hok
      simp only [List.append_eq_nil_iff] at hok
      rw [hok.1.1] at hm; simp at hm
  · intro hsrc
    rw [hsrc, hca] at hcs; cases hcs
    exact hcsn.symm.trans hcan
  · intro d e' hsent
    obtain ⟨_, j, cj, hj, hcj, hcjn⟩ := e4 d e' hsent
    constructor
    · intro ht
      rw [hj] at ht; cases ht
      rw [hcb] at hcj; cases hcj
      exact hcjn.symm.trans hcbn
    · intro hd
      rcases hub j cj hcj (hcjn.trans hd) with h | ⟨h, h'⟩
      · rw [hj, h]
      · have hok := h2 _ cj hcj
        rcases hsent with hs | hs
        · have := mem_enqOf hev hj hs
          rw [← hok.2.2.2.1, h] at this; simp at this
        · have := mem_dropOf hev hj hs
          rw [← hok.2.2.2.2.1, h'] at this; simp at this

/-- **pair lemma (log level).**  In every state reachable under an interceptor specification
that leaves headers with source `A` alone and never forges source `A`: if `a` is the sole source
object of name `A` and `b` the sole target object of name `B`, then the envelopes with source
`A` that the serve loop routed (enqueued or dropped) to `b` are, in serve order, a prefix of
the forwarded images (`fwdEnv`: own name appended to the record, last return hop consumed,
nothing else touched) of the envelopes addressed `A → B` it received from `a` — all of them
unless the proxy died in a panic on the last one.  (`Transparent P A`: the interceptor leaves
headers with source `A` alone and never forges source `A`.) -/
theorem pair_routed {cfg : Cfg} {P : IcSpec} {s : State} (hr : ReachableIc cfg P s)
    {a b : Nat} {A B : Bytes} {ca cb : Conn} (hca : s.conns[a]? = some ca) (hcan : ca.name = A)
    (hcb : s.conns[b]? = some cb) (hcbn : cb.name = B)
    (ha : SoleSource s a A) (hb : SoleTarget s b B) (hP : Transparent P A) :
    routedKey s.log b A <+: (servedFor s.log a A B).map (fwdEnv cfg) ∧
    (s.panicked = none → routedKey s.log b A = (servedFor s.log a A B).map (fwdEnv cfg)) := by
  have hev := evPair_of_reachable hr hca hcan hcb hcbn ha hb
  obtain ⟨hP1, hP2⟩ := hP
  obtain ⟨p1, p2⟩ := panicLast_reachable hr.reachable
  refine ⟨pair_prefix cfg a b A B s.log ?_ ?_, ?_⟩
  · intro ev h
    exact evPair_good (hev ev (List.dropLast_subset _ h)) hP1 hP2 (p2 ev h)
  · intro ev h
    by_cases hp : ∃ w, ev.action = .panic w
    · obtain ⟨w, hw⟩ := hp; exact Or.inr (evRouted_panic hw)
    · exact Or.inl (evPair_good (hev ev h) hP1 hP2 (fun w hw => hp ⟨w, hw⟩))
  · intro hp
    exact pair_eq cfg a b A B s.log
      (fun ev h => evPair_good (hev ev h) hP1 hP2 (p1 hp ev h))

/-! ### from the log to the two transports -/

theorem routedKey_eq_enq (log : List Ev) (b : Nat) (A : Bytes)
    (h : ∀ e ∈ dropOf log b, keyOf e ≠ A) :
    routedKey log b A = (enqOf log b).filter (fun e => keyOf e = A) := by
  induction log with
  | nil => rfl
  | cons ev log ih =>
    have hd : ∀ e ∈ evDrop ev b, keyOf e ≠ A := fun e he =>
      h e (by simp only [dropOf, List.flatMap_cons, List.mem_append]; exact Or.inl he)
    have hrest : ∀ e ∈ dropOf log b, keyOf e ≠ A := fun e he =>
      h e (by simp only [dropOf, List.flatMap_cons, List.mem_append]; exact Or.inr he)
    have hnil : (evDrop ev b).filter (fun e => keyOf e = A) = [] := by
      rw [List.filter_eq_nil_iff]; intro e he; simpa using hd e he
    rw [routedKey_cons, ih hrest]
    simp only [evRouted, enqOf, List.flatMap_cons, List.filter_append, hnil, List.append_nil]

/-- **pair lemma (wire level).**  Same hypotheses; moreover no envelope *of source `A`* was
dropped for `b` (its queue was never full when one arrived).  Then what the proxy wrote to `b`'s
peer, restricted to source `A`, is in order a prefix of the forwarded images of what it read from
`a`'s peer addressed `A → B`. -/
theorem pair_wire {cfg : Cfg} {P : IcSpec} {s : State} (hr : ReachableIc cfg P s)
    {a b : Nat} {A B : Bytes} {ca cb : Conn} (hca : s.conns[a]? = some ca) (hcan : ca.name = A)
    (hcb : s.conns[b]? = some cb) (hcbn : cb.name = B)
    (ha : SoleSource s a A) (hb : SoleTarget s b B) (hP : Transparent P A)
    (hroom : ∀ e ∈ cb.dropped, keyOf e ≠ A) :
    cb.out.filter (fun e => keyOf e = A) <+:
      (ca.wireIn.filter (addressed A B)).map (fwdEnv cfg) := by
  obtain ⟨_, _, hout, _, _, hin⟩ := proxy_fifo_pair hr.reachable hcb
  obtain ⟨_, _, _, _, _, hin⟩ := proxy_fifo_pair hr.reachable hca
  have hdrop := proxy_dropped_is_logged hr.reachable hcb
  have h1 := hout.filter (fun e => keyOf e = A)
  rw [← routedKey_eq_enq s.log b A (hdrop ▸ hroom)] at h1
  have h2 := (pair_routed hr hca hcan hcb hcbn ha hb hP).1
  have h3 := ((hin.filter (addressed A B)).map (fwdEnv cfg))
  exact h1.trans (h2.trans h3)

end Goat.Proxy

namespace Goat.Demux

/-- a logical connection whose key had a single epoch received a prefix of the transport's input
with that key -/
theorem delivered_prefix_wireIn {cfg : Cfg} {s : State} (hr : Reachable cfg s) {c : Nat}
    {conn : DConn} (hc : s.conns[c]? = some conn)
    (hone : ∀ c' conn', s.conns[c']? = some conn' → conn'.key = conn.key → c' = c) :
    conn.delivered <+: s.wireIn.filter (fun e => cfg.demuxOn e = conn.key) := by
  obtain ⟨h1, h2⟩ := demux_per_key_fifo_single_epoch hr hc hone
  have h3 := h2.filter (fun e => cfg.demuxOn e = conn.key)
  rw [← h1] at h3
  exact (List.prefix_append _ _).trans h3

theorem filter_out_eq (w : List (Nat × Env)) (c : Nat) (p : Env → Bool)
    (h : ∀ x ∈ w, x.1 ≠ c → p x.2 = false) :
    (w.map (·.2)).filter p = (outOf w c).filter p := by
  induction w with
  | nil => rfl
  | cons x w ih =>
    have ih' := ih (fun y hy => h y (List.mem_cons_of_mem _ hy))
    simp only [outOf, List.map_cons, List.filter_cons] at ih' ⊢
    by_cases hx : x.1 = c
    · simp [hx, ih', List.filter_cons]
    · have := h x (by simp) hx
      simp [hx, this, ih']

theorem mem_outOf {w : List (Nat × Env)} {x : Nat × Env} (h : x ∈ w) : x.2 ∈ outOf w x.1 := by
  simp only [outOf, List.mem_map, List.mem_filter]
  exact ⟨x, ⟨h, by simp⟩, rfl⟩

/-- if no other logical connection ever accepted an envelope satisfying `p`, the `p`-envelopes on
the shared transport are a prefix of the `p`-envelopes connection `c` accepted -/
theorem wireOut_filter_prefix {cfg : Cfg} {s : State} (hr : Reachable cfg s) {c : Nat}
    {conn : DConn} (hc : s.conns[c]? = some conn) (p : Env → Bool)
    (hothers : ∀ c' conn', s.conns[c']? = some conn' → c' ≠ c → ∀ e ∈ conn'.accepted, p e = false) :
    (s.wireOut.map (·.2)).filter p <+: conn.accepted.filter p := by
  obtain ⟨h1, h2⟩ := demux_write_passthrough hr
  have hx : ∀ x ∈ s.wireOut, x.1 ≠ c → p x.2 = false := by
    intro x hx hne
    have hlt := h2 x hx
    have hc' : s.conns[x.1]? = some s.conns[x.1] := by simp [hlt]
    refine hothers x.1 _ hc' hne x.2 ?_
    rw [← (h1 x.1 _ hc').1]
    simp only [List.append_assoc, List.mem_append]
    exact Or.inl (mem_outOf hx)
  rw [filter_out_eq _ c p hx]
  refine List.IsPrefix.filter p ?_
  rw [← (h1 c conn hc).1, List.append_assoc]
  exact List.prefix_append _ _

end Goat.Demux
