/-
  C18: the property theorems of the demultiplexer, their negative witnesses and non-vacuity
  examples.  Proof work (the inductive invariant `Inv`) is in `DemuxProofs.lean`.

  Vocabulary: an *epoch* of a key is one `demuxConn` object, identified by its heap index `c`.
  `logOf s.log c` are the envelopes `Run` looked up for object `c` and finished handing off,
  `dlvOf s.log c` those of them that the logical `Read` actually received.
-/
import Goat.DemuxProofs

namespace Goat.Demux

/-! ### demux_per_key_fifo -/

/-- **demux_per_key_fifo.**  In every reachable state, for every logical connection (epoch) `c`:
* what its `Read`s returned is a *prefix* of the envelopes `Run` looked up for it (what follows
  the prefix was discarded because the key was cancelled or the demux stopped);
* every envelope looked up for it has its key;
* so what it received is, in order, a subsequence of the envelopes of its key read from the
  shared transport. -/
theorem demux_per_key_fifo {cfg : Cfg} {s : State} (hr : Reachable cfg s) {c : Nat} {conn : DConn}
    (hc : s.conns[c]? = some conn) :
    conn.delivered <+: logOf s.log c ∧
    (∀ r ∈ s.log, r.c = c → cfg.demuxOn r.e = conn.key) ∧
    (logOf s.log c).Sublist (s.wireIn.filter (fun e => cfg.demuxOn e = conn.key)) ∧
    conn.delivered.Sublist (s.wireIn.filter (fun e => cfg.demuxOn e = conn.key)) := by
  obtain ⟨h1, _, _, _, h5, h6, _⟩ := inv_reachable hr
  have hkey : ∀ r ∈ s.log, r.c = c → cfg.demuxOn r.e = conn.key := by
    intro r hr hrc
    obtain ⟨conn', hc', hk⟩ := h5 r hr
    rw [hrc, hc] at hc'
    cases hc'; exact hk.symm
  have hpre : conn.delivered <+: logOf s.log c := by
    rw [(h6 c conn hc).1]; exact List.prefix_append _ _
  have hsub : (logOf s.log c).Sublist (s.wireIn.filter (fun e => cfg.demuxOn e = conn.key)) := by
    rw [h1, List.filter_append]
    refine List.Sublist.trans ?_ (List.sublist_append_left _ _)
    exact filter_map_sublist s.log (·.e) (fun r => decide (r.c = c)) _
      (fun r hr hp => by simpa using hkey r hr (by simpa using hp))
  exact ⟨hpre, hkey, hsub, hpre.sublist.trans hsub⟩

/-- … and while a key has had a single epoch (it was never cancelled), nothing is skipped: the
envelopes handed off for it are *exactly* the completed part of the transport's input with that
key, in order. -/
theorem demux_per_key_fifo_single_epoch {cfg : Cfg} {s : State} (hr : Reachable cfg s) {c : Nat}
    {conn : DConn} (hc : s.conns[c]? = some conn)
    (hone : ∀ c' conn', s.conns[c']? = some conn' → conn'.key = conn.key → c' = c) :
    conn.delivered ++ conn.discarded =
      (s.log.map (·.e)).filter (fun e => cfg.demuxOn e = conn.key) ∧
    (s.log.map (·.e)) <+: s.wireIn := by
  obtain ⟨h1, _, _, _, h5, h6, _⟩ := inv_reachable hr
  refine ⟨?_, by rw [h1]; exact List.prefix_append _ _⟩
  rw [← (h6 c conn hc).1]
  apply filter_map_eq
  intro r hr
  obtain ⟨conn', hc', hk⟩ := h5 r hr
  by_cases hrc : r.c = c
  · rw [hrc, hc] at hc'; cases hc'; simp [hrc, hk]
  · have : cfg.demuxOn r.e ≠ conn.key := fun h => hrc (hone _ _ hc' (hk.trans h))
    simp [hrc, this]

/-- non-vacuity: two keys interleaved on the transport; connection 0 (key `[1]`) has received
its two envelopes in order while connection 1 (key `[2]`) received its one -/
example : ∃ s, run { demuxOn := fun e => [e.id] } init
      [.runRead { id := 1 }, .runLookup, .connReadStart 0, .runHandoff,
       .runRead { id := 2 }, .runLookup, .connReadStart 1, .runHandoff,
       .runRead { id := 1, body := some [7] }, .runLookup, .connReadStart 0, .runHandoff] = some s ∧
    (s.conns.map (·.delivered)) = [[{ id := 1 }, { id := 1, body := some [7] }], [{ id := 2 }]] := by
  refine ⟨_, rfl, ?_⟩; decide

/-! ### demux_exactly_once -/

/-- **demux_exactly_once.**  `s.log` has one record per completed hand-off, each naming exactly
one target object and one fate.  In every reachable state
* the envelopes read from the transport are, position for position, the envelopes of the
  records, followed by the one `Run` still holds (nothing read is handed off twice, nothing is
  invented);
* each logical connection received exactly the records that name it and have fate `delivered`,
  in order.
So no occurrence of an envelope is given to two connections, and none is given twice. -/
theorem demux_exactly_once {cfg : Cfg} {s : State} (hr : Reachable cfg s) :
    s.wireIn = s.log.map (·.e) ++ pend s.run ∧
    (∀ c conn, s.conns[c]? = some conn → conn.delivered = dlvOf s.log c) ∧
    (∀ r ∈ s.log, r.c < s.conns.length) := by
  obtain ⟨h1, _, _, _, h5, h6, _⟩ := inv_reachable hr
  refine ⟨h1, fun c conn hc => (h6 c conn hc).2.1.symm, ?_⟩
  intro r hr
  obtain ⟨conn, hc, _⟩ := h5 r hr
  exact (List.getElem?_eq_some_iff.mp hc).1

/-- non-vacuity: the same envelope value read twice is delivered twice, once per occurrence -/
example : ∃ s, run { demuxOn := fun e => [e.id] } init
      [.runRead { id := 1 }, .runLookup, .connReadStart 0, .runHandoff,
       .runRead { id := 1 }, .runLookup, .connReadStart 0, .runHandoff] = some s ∧
    s.wireIn = [{ id := 1 }, { id := 1 }] ∧ (s.conns.map (·.delivered)) = [[{ id := 1 }, { id := 1 }]] := by
  refine ⟨_, rfl, ?_⟩; decide

/-! ### demux_announce_once_per_epoch -/

/-- **demux_announce_once_per_epoch.**  `onNewConnection` has been called exactly once for every
`demuxConn` object ever made, with that object (the `c`-th call is for object `c`, with its
key), so the list of announcements has no duplicates; and at any moment at most one object per
key is live (not cancelled), namely the one the map holds — a second object for a key is only
made, and announced, after the first was cancelled. -/
theorem demux_announce_once_per_epoch {cfg : Cfg} {s : State} (hr : Reachable cfg s) :
    s.announced.length = s.conns.length ∧
    (∀ (c : Nat) (conn : DConn), s.conns[c]? = some conn → s.announced[c]? = some (conn.key, c)) ∧
    s.announced.Nodup ∧
    (∀ (c1 c2 : Nat) (k1 k2 : DConn), s.conns[c1]? = some k1 → s.conns[c2]? = some k2 → k1.key = k2.key →
      k1.done = false → k1.closed = false → k2.done = false → k2.closed = false → c1 = c2) := by
  obtain ⟨_, _, h3, _, _, h6, h7, _⟩ := inv_reachable hr
  have hann : ∀ (c : Nat) (conn : DConn), s.conns[c]? = some conn → s.announced[c]? = some (conn.key, c) :=
    fun c conn hc => (h6 c conn hc).2.2.2.2.2.2.2
  refine ⟨h7, hann, ?_, ?_⟩
  · rw [List.nodup_iff_pairwise_ne, List.pairwise_iff_getElem]
    intro i j hi hj hij heq
    have hi' : i < s.conns.length := by omega
    have hj' : j < s.conns.length := by omega
    have e1 := hann i s.conns[i] (by simp [hi'])
    have e2 := hann j s.conns[j] (by simp [hj'])
    rw [List.getElem?_eq_getElem hi] at e1
    rw [List.getElem?_eq_getElem hj] at e2
    simp only [Option.some.injEq] at e1 e2
    rw [e1, e2] at heq
    simp only [Prod.mk.injEq] at heq
    omega
  · intro c1 c2 k1 k2 hc1 hc2 hk d1 cl1 d2 cl2
    have a := h3 c1 k1 hc1 d1 cl1
    have b := h3 c2 k2 hc2 d2 cl2
    rw [hk] at a; rw [a] at b; simpa using b

/-- non-vacuity: key `[1]` is cancelled and comes back as a new epoch, key `[2]` has one -/
example : ∃ s, run { demuxOn := fun e => [e.id] } init
      [.runRead { id := 1 }, .runLookup, .connReadStart 0, .runHandoff, .cancelKey [1],
       .runRead { id := 2 }, .runLookup, .connReadStart 1, .runHandoff,
       .runRead { id := 1 }, .runLookup] = some s ∧
    s.announced = [([1], 0), ([2], 1), ([1], 2)] := by
  refine ⟨_, rfl, ?_⟩; decide

/-! ### demux_write_passthrough -/

/-- **demux_write_passthrough.**  `s.wireOut` is the sequence of successful writes on the shared
transport, each tagged with the object whose writer goroutine made it.  For every logical
connection, the writes tagged with it are, unchanged and in order, the envelopes its logical
`Write` accepted — all of them except the one still held by its writer goroutine and the (at
most one, final) one whose transport write failed.  So `wireOut` is an interleaving of the
per-connection write sequences. -/
theorem demux_write_passthrough {cfg : Cfg} {s : State} (hr : Reachable cfg s) :
    (∀ c conn, s.conns[c]? = some conn →
      outOf s.wireOut c ++ conn.lostW ++ inflight conn.wr = conn.accepted ∧
      (conn.lostW ≠ [] → conn.wr = .exited)) ∧
    (∀ x ∈ s.wireOut, x.1 < s.conns.length) := by
  obtain ⟨_, _, _, _, _, h6, _, _, h9⟩ := inv_reachable hr
  exact ⟨fun c conn hc => ⟨(h6 c conn hc).2.2.2.1, (h6 c conn hc).2.2.2.2.1⟩, h9⟩

/-- non-vacuity: two logical connections write; the transport sees the interleaving -/
example : ∃ s, run { demuxOn := fun e => [e.id] } init
      [.runRead { id := 1 }, .runLookup, .connReadStart 0, .runHandoff,
       .runRead { id := 2 }, .runLookup,
       .connWriteStart 0 { id := 1, body := some [1] }, .writerTake 0,
       .connWriteStart 1 { id := 2, body := some [2] }, .writerTake 1, .writerWrite 1 true,
       .writerWrite 0 true, .connWriteStart 0 { id := 1, body := some [3] }, .writerTake 0,
       .writerWrite 0 true] = some s ∧
    s.wireOut = [(1, { id := 2, body := some [2] }), (0, { id := 1, body := some [1] }),
                 (0, { id := 1, body := some [3] })] := by
  refine ⟨_, rfl, ?_⟩; decide

/-! ### cancelled_key_fails_not_blocks_not_panics -/

/-- **no panic.**  With the `done` channel no reachable state is a Go panic. -/
theorem demux_never_panics {cfg : Cfg} (hc : cfg.cancelUsesDone = true) {s : State}
    (hr : Reachable cfg s) : s.panicked = none := by
  obtain ⟨_, _, _, _, _, _, _, h8, _⟩ := inv_reachable hr
  exact h8 hc

/-- **`Cancel` marks the registered object done** (and removes it from the map). -/
theorem cancelKey_sets_done {cfg : Cfg} (hcfg : cfg.cancelUsesDone = true) {s s' : State}
    (hr : Reachable cfg s) {k : Bytes} {c : Nat} (hk : mget s.table k = some c)
    (hs : step cfg s (.cancelKey k) = some s') :
    (∃ conn', s'.conns[c]? = some conn' ∧ conn'.done = true) ∧ mget s'.table k = none := by
  obtain ⟨_, h2, _⟩ := inv_reachable hr
  obtain ⟨conn, hc, _⟩ := h2 k c hk
  unfold step at hs
  split at hs
  · contradiction
  · simp only [hk, hc, Option.some.injEq] at hs
    subst hs
    have hlt := (List.getElem?_eq_some_iff.mp hc).1
    simp [hlt]

/-- **cancelled_key_fails_not_blocks_not_panics.**  In any reachable state of the repaired code,
for a logical connection whose key was cancelled (`done`): a pending logical `Read` can complete
with the "cancelled" error, a pending logical `Write` can complete with the "cancelled" error,
`Run`, if it is in the hand-off to this connection, can complete the hand-off by discarding, and
its writer goroutine, if idle, can return — each by a step of that party alone.  (And no state
is a panic: `demux_never_panics`.) -/
theorem cancelled_key_fails_not_blocks_not_panics {cfg : Cfg} (hcfg : cfg.cancelUsesDone = true)
    {s : State} (hr : Reachable cfg s) {c : Nat} {conn : DConn} (hc : s.conns[c]? = some conn)
    (hd : conn.done = true) :
    s.panicked = none ∧
    (conn.ur = true → (step cfg s (.connReadFail c)).isSome) ∧
    (conn.uw.isSome → (step cfg s (.connWriteFail c)).isSome) ∧
    (∀ e, s.run = .handoff c e → (step cfg s .runHandoffCancelled).isSome) ∧
    (conn.wr = .idle → (step cfg s (.writerExit c)).isSome) := by
  have hp := demux_never_panics hcfg hr
  refine ⟨hp, ?_, ?_, ?_, ?_⟩
  · intro h; simp [step, hp, hc, hd, h]
  · intro h; simp [step, hp, hc, hd, h]
  · intro e h; simp [step, hp, hc, hd, h, hcfg]
  · intro h; simp [step, hp, hc, hd, h]

/-- `done` is for ever -/
theorem done_stable {cfg : Cfg} {s s' : State} {l : Label} (hs : step cfg s l = some s')
    {c : Nat} {conn : DConn} (hc : s.conns[c]? = some conn) (hd : conn.done = true) :
    ∃ conn', s'.conns[c]? = some conn' ∧ conn'.done = true := by
  unfold step at hs
  split at hs
  · contradiction
  · cases l <;> simp only at hs <;> (repeat' split at hs) <;> (try contradiction) <;>
      (simp only [Option.some.injEq] at hs; subst hs) <;> grind

/-- non-vacuity: a read and a write pending on a connection, `Run` in the hand-off to it, and
then its key is cancelled: all three failing completions are enabled, `Run` goes on reading -/
example : ∃ s, run { demuxOn := fun e => [e.id] } init
      [.runRead { id := 1 }, .runLookup, .connReadStart 0, .runHandoff,
       .runRead { id := 1 }, .runLookup, .connReadStart 0, .connWriteStart 0 { id := 1 },
       .cancelKey [1]] = some s ∧
    (s.conns.map (·.done)) = [true] ∧ s.run = .handoff 0 { id := 1 } ∧
    (step { demuxOn := fun e => [e.id] } s .runHandoffCancelled).isSome ∧
    (step { demuxOn := fun e => [e.id] } s (.connReadFail 0)).isSome ∧
    (step { demuxOn := fun e => [e.id] } s (.connWriteFail 0)).isSome := by
  refine ⟨_, rfl, ?_⟩; decide

/-- **`Cancel` closes each `done` channel at most once.**  In a reachable state of the repaired
code a `Cancel(k)` either finds no entry and changes nothing at all, or finds the one registered
object of the key, whose `done` is still open (so the `close` cannot be a second close — a Go
panic), and touches no other object.  (The lookup, the `close` and the `delete` are one critical
section; an implementation that lets go of the lock between them loses exactly this.) -/
theorem cancel_closes_open_done_only {cfg : Cfg} {s s' : State} (hr : Reachable cfg s) {k : Bytes}
    (hs : step cfg s (.cancelKey k) = some s') :
    (mget s.table k = none → s' = s) ∧
    (∀ c, mget s.table k = some c →
      (∃ conn, s.conns[c]? = some conn ∧ conn.done = false ∧ conn.closed = false) ∧
      (∀ c', c' ≠ c → s'.conns[c']? = s.conns[c']?)) := by
  obtain ⟨_, h2, _⟩ := inv_reachable hr
  unfold step at hs
  split at hs
  · contradiction
  · refine ⟨?_, ?_⟩
    · intro hk; simp only [hk, Option.some.injEq] at hs; exact hs.symm
    · intro c hk
      obtain ⟨conn, hc, _, hd, hcl⟩ := h2 k c hk
      refine ⟨⟨conn, hc, hd, hcl⟩, ?_⟩
      intro c' hne
      simp only [hk, hc, Option.some.injEq] at hs
      subst hs
      simp [Ne.symm hne]

/-- a second `Cancel` of the same key, with nothing looked up for the key in between, is a no-op -/
theorem cancel_twice_is_cancel_once {cfg : Cfg} (hcfg : cfg.cancelUsesDone = true) {s s' s'' : State}
    (hr : Reachable cfg s) {k : Bytes}
    (h1 : step cfg s (.cancelKey k) = some s') (h2 : step cfg s' (.cancelKey k) = some s'') :
    s'' = s' := by
  have hr' := reachable_step hr h1
  have hnone : mget s'.table k = none := by
    cases hk : mget s.table k with
    | none => rw [(cancel_closes_open_done_only hr h1).1 hk]; exact hk
    | some c => exact (cancelKey_sets_done hcfg hr hk h1).2
  exact (cancel_closes_open_done_only hr' h2).1 hnone

/-- non-vacuity: two keys live, one cancelled twice: the second `Cancel` changes nothing and the
other key's object is untouched -/
example : ∃ s s', run { demuxOn := fun e => [e.id] } init
      [.runRead { id := 1 }, .runLookup, .connReadStart 0, .runHandoff,
       .runRead { id := 2 }, .runLookup, .cancelKey [1]] = some s ∧
    step { demuxOn := fun e => [e.id] } s (.cancelKey [1]) = some s' ∧ s' = s ∧
    s.conns.map (·.done) = [true, false] := by
  refine ⟨_, _, rfl, rfl, ?_⟩; decide

/-- negative witness for `cancelUsesDone` (1): `Run` is in the hand-off when `Cancel` closes
`conn.r`: send on closed channel, the process dies -/
theorem bad_cancelUsesDone_run :
    ∃ s, run { demuxOn := fun e => [e.id], cancelUsesDone := false } init
      [.runRead { id := 1 }, .runLookup, .cancelKey [1], .runHandoffPanic] = some s ∧
    s.panicked = some .runSendOnClosed := by
  refine ⟨_, rfl, ?_⟩; decide

/-- negative witness for `cancelUsesDone` (2): the connection's user is in `Write` when `Cancel`
closes `conn.w` -/
theorem bad_cancelUsesDone_write :
    ∃ s, run { demuxOn := fun e => [e.id], cancelUsesDone := false } init
      [.runRead { id := 1 }, .runLookup, .connReadStart 0, .runHandoff,
       .connWriteStart 0 { id := 1 }, .cancelKey [1], .connWritePanic 0] = some s ∧
    s.panicked = some .writeSendOnClosed := by
  refine ⟨_, rfl, ?_⟩; decide

/-! ### stop_ends_run -/

/-- the labels of `Run` that need no other party -/
def runOwnLabels : List Label := [.runReadErr, .runLookup, .runHandoffStopped]

/-- **stop_ends_run.**  With the context case in the hand-off, in every reachable, non-panicked
state after `Stop`, if `Run` has not returned then one of `Run`'s *own* steps (no rendezvous, no
other goroutine needed: `Read` fails on the cancelled context, the critical section, the
context case of the hand-off) is enabled and strictly decreases `runRank`; hence `Run` returns
within at most two of its own steps. -/
theorem stop_ends_run {cfg : Cfg} (hcfg : cfg.handoffSelects = true) {s : State}
    (hr : Reachable cfg s) (hstop : s.stopped = true) (hp : s.panicked = none)
    (hrun : s.run ≠ .exited) :
    (∃ l ∈ runOwnLabels, ∃ s', step cfg s l = some s' ∧ runRank s'.run < runRank s.run ∧
        s'.stopped = true ∧ s'.panicked = none) ∧
    (∃ ls s', (∀ l ∈ ls, l ∈ runOwnLabels) ∧ ls.length ≤ 2 ∧ run cfg s ls = some s' ∧
        s'.run = .exited) := by
  obtain ⟨_, _, _, h4, _⟩ := inv_reachable hr
  cases hrn : s.run with
  | exited => exact absurd hrn hrun
  | reading =>
    refine ⟨⟨.runReadErr, by simp [runOwnLabels], ?_⟩, [.runReadErr], ?_⟩
    · simp [step, hp, hrn, runRank, hstop]
    · simp [run, step, hp, hrn, runOwnLabels]
  | handoff c e =>
    rw [hrn] at h4
    obtain ⟨conn, hc, _⟩ := h4
    refine ⟨⟨.runHandoffStopped, by simp [runOwnLabels], ?_⟩, [.runHandoffStopped], ?_⟩
    · simp [step, hp, hrn, runRank, hstop, hc, hcfg]
    · simp [run, step, hp, hrn, runOwnLabels, hstop, hc, hcfg]
  | locked e =>
    refine ⟨⟨.runLookup, by simp [runOwnLabels], ?_⟩, [.runLookup, .runHandoffStopped], ?_⟩
    · cases hg : mget s.table (cfg.demuxOn e) <;> simp [step, hp, hrn, runRank, hstop, hg]
    · cases hg : mget s.table (cfg.demuxOn e) with
      | none =>
        simp [run, step, hp, hrn, runOwnLabels, hstop, hg, hcfg]
      | some c =>
        obtain ⟨_, h2, _⟩ := inv_reachable hr
        obtain ⟨conn, hc, _⟩ := h2 _ c hg
        simp [run, step, hp, hrn, runOwnLabels, hstop, hg, hcfg, hc]

/-- non-vacuity: stopped while `Run` is parked in a hand-off nobody will take -/
example : ∃ s, run { demuxOn := fun e => [e.id] } init
      [.runRead { id := 1 }, .runLookup, .stop] = some s ∧
    s.stopped = true ∧ s.run = .handoff 0 { id := 1 } ∧
    (step { demuxOn := fun e => [e.id] } s .runHandoffStopped).isSome := by
  refine ⟨_, rfl, ?_⟩; decide

/-- every label that is a step of `Run` (alone or in a rendezvous) -/
def runLabels (e : Env) : List Label :=
  [.runRead e, .runReadErr, .runLookup, .runHandoff, .runHandoffCancelled, .runHandoffStopped,
   .runHandoffPanic]

/-- negative witness for `handoffSelects`: after `Stop`, `Run` sits in the bare `conn.r <- rpc`
and no step of `Run` is enabled (only a reader that may never come can free it) -/
theorem bad_handoffSelects :
    ∃ s, run { demuxOn := fun e => [e.id], handoffSelects := false } init
      [.runRead { id := 1 }, .runLookup, .stop] = some s ∧
    s.stopped = true ∧ s.run = .handoff 0 { id := 1 } ∧
    (runLabels { id := 9 }).all
      (fun l => (step { demuxOn := fun e => [e.id], handoffSelects := false } s l).isNone) = true := by
  refine ⟨_, rfl, ?_⟩; decide

/-! ### observation (not among the properties; see REPORT.md) -/

/-- Head-of-line blocking, in the code as it is now: while the user of one logical connection is
not reading, `Run` sits in the hand-off to it and no step of `Run` is enabled — envelopes for
every other key wait behind it until that user reads, its key is cancelled, or the demux is
stopped. -/
theorem head_of_line_witness :
    ∃ s, run { demuxOn := fun e => [e.id] } init
      [.runRead { id := 1 }, .runLookup, .connReadStart 0, .runHandoff,
       .runRead { id := 2 }, .runLookup, .connReadStart 1, .runHandoff,
       .runRead { id := 1 }, .runLookup, .connReadStart 1] = some s ∧
    s.run = .handoff 0 { id := 1 } ∧ s.conns.map (·.ur) = [false, true] ∧
    (runLabels { id := 2 }).all
      (fun l => (step { demuxOn := fun e => [e.id] } s l).isNone) = true := by
  refine ⟨_, rfl, ?_⟩; decide

end Goat.Demux
