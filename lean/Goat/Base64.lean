/-
  URL-safe, padded base64 as used by `base64.URLEncoding` in internal/util.go.
  `encode` is `EncodeToString`; `decode` is `DecodeString`: Go's decoder skips
  '\r' and '\n' wherever they occur and is otherwise strict about alphabet,
  padding and length (it does not check that the unused low bits are zero).
-/
import Goat.Basic
namespace Goat.Base64

def encSextet (n : Nat) : Nat :=
  if n < 26 then 65 + n
  else if n < 52 then 97 + (n - 26)
  else if n < 62 then 48 + (n - 52)
  else if n = 62 then 45 else 95

def decSextet (c : Nat) : Option Nat :=
  if 65 ≤ c ∧ c ≤ 90 then some (c - 65)
  else if 97 ≤ c ∧ c ≤ 122 then some (c - 97 + 26)
  else if 48 ≤ c ∧ c ≤ 57 then some (c - 48 + 52)
  else if c = 45 then some 62
  else if c = 95 then some 63
  else none

/-- '=' -/
def pad : Nat := 61

def encode : Bytes → Bytes
  | [] => []
  | [a] => [encSextet (a / 4), encSextet (a % 4 * 16), pad, pad]
  | [a, b] => [encSextet (a / 4), encSextet (a % 4 * 16 + b / 16), encSextet (b % 16 * 4), pad]
  | a :: b :: c :: rest =>
      encSextet (a / 4) :: encSextet (a % 4 * 16 + b / 16) ::
      encSextet (b % 16 * 4 + c / 64) :: encSextet (c % 64) :: encode rest

/-- strict structural decoding of a string that contains no CR/LF -/
def decodeCore : Bytes → Option Bytes
  | [] => some []
  | [c0, c1, c2, c3] =>
      if c2 = pad ∧ c3 = pad then do
        let s0 ← decSextet c0; let s1 ← decSextet c1
        some [s0 * 4 + s1 / 16]
      else if c3 = pad then do
        let s0 ← decSextet c0; let s1 ← decSextet c1; let s2 ← decSextet c2
        some [s0 * 4 + s1 / 16, s1 % 16 * 16 + s2 / 4]
      else do
        let s0 ← decSextet c0; let s1 ← decSextet c1; let s2 ← decSextet c2; let s3 ← decSextet c3
        some [s0 * 4 + s1 / 16, s1 % 16 * 16 + s2 / 4, s2 % 4 * 64 + s3]
  | c0 :: c1 :: c2 :: c3 :: rest => do
      let s0 ← decSextet c0; let s1 ← decSextet c1; let s2 ← decSextet c2; let s3 ← decSextet c3
      let r ← decodeCore rest
      some ((s0 * 4 + s1 / 16) :: (s1 % 16 * 16 + s2 / 4) :: (s2 % 4 * 64 + s3) :: r)
  | _ => none

def isNewline (c : Nat) : Bool := c = 10 || c = 13

/-- `base64.URLEncoding.DecodeString` -/
def decode (s : Bytes) : Option Bytes := decodeCore (s.filter (fun c => !isNewline c))

set_option maxRecDepth 4000 in
theorem dec_enc_sextet : ∀ n : Fin 64, decSextet (encSextet n.val) = some n.val := by decide

theorem dec_enc (n : Nat) (h : n < 64) : decSextet (encSextet n) = some n := dec_enc_sextet ⟨n, h⟩

theorem enc_ne_pad (n : Nat) (h : n < 64) : encSextet n ≠ pad := by
  have : ∀ n : Fin 64, encSextet n.val ≠ pad := by set_option maxRecDepth 4000 in decide
  exact this ⟨n, h⟩

theorem enc_not_newline (n : Nat) (h : n < 64) : isNewline (encSextet n) = false := by
  have : ∀ n : Fin 64, isNewline (encSextet n.val) = false := by set_option maxRecDepth 4000 in decide
  exact this ⟨n, h⟩

theorem pad_not_newline : isNewline pad = false := by decide

/-- the encoder never produces CR or LF, so the decoder's filter is the identity on its output -/
theorem encode_no_newline (bs : Bytes) (hb : bs.WF) : ∀ c ∈ encode bs, isNewline c = false := by
  induction bs using encode.induct with
  | case1 => simp [encode]
  | case2 a =>
    have ha : a < 256 := hb a (by simp)
    intro c hc
    simp only [encode, List.mem_cons, List.not_mem_nil, or_false] at hc
    rcases hc with h | h | h | h <;> subst h
    · exact enc_not_newline _ (by omega)
    · exact enc_not_newline _ (by omega)
    · exact pad_not_newline
    · exact pad_not_newline
  | case3 a b =>
    have ha : a < 256 := hb a (by simp)
    have hb' : b < 256 := hb b (by simp)
    intro c hc
    simp only [encode, List.mem_cons, List.not_mem_nil, or_false] at hc
    rcases hc with h | h | h | h <;> subst h
    · exact enc_not_newline _ (by omega)
    · exact enc_not_newline _ (by omega)
    · exact enc_not_newline _ (by omega)
    · exact pad_not_newline
  | case4 a b c rest ih =>
    have ha : a < 256 := hb a (by simp)
    have hb' : b < 256 := hb b (by simp)
    have hc' : c < 256 := hb c (by simp)
    have ih' := ih (fun x hx => hb x (by simp [hx]))
    intro x hx
    simp only [encode, List.mem_cons] at hx
    rcases hx with h | h | h | h | h
    · subst h; exact enc_not_newline _ (by omega)
    · subst h; exact enc_not_newline _ (by omega)
    · subst h; exact enc_not_newline _ (by omega)
    · subst h; exact enc_not_newline _ (by omega)
    · exact ih' x h

theorem core_roundtrip (bs : Bytes) (hb : bs.WF) : decodeCore (encode bs) = some bs := by
  induction bs using encode.induct with
  | case1 => simp [encode, decodeCore]
  | case2 a =>
    have ha : a < 256 := hb a (by simp)
    simp only [encode]
    unfold decodeCore
    simp [dec_enc (a/4) (by omega), dec_enc (a % 4 * 16) (by omega)]
    omega
  | case3 a b =>
    have ha : a < 256 := hb a (by simp)
    have hb' : b < 256 := hb b (by simp)
    simp only [encode]
    have h2 := enc_ne_pad (b % 16 * 4) (by omega)
    unfold decodeCore
    simp [h2, dec_enc (a/4) (by omega), dec_enc (a % 4 * 16 + b / 16) (by omega), dec_enc (b % 16 * 4) (by omega)]
    omega
  | case4 a b c rest ih =>
    have ha : a < 256 := hb a (by simp)
    have hb' : b < 256 := hb b (by simp)
    have hc : c < 256 := hb c (by simp)
    have ih' := ih (fun x hx => hb x (by simp [hx]))
    have h2 := enc_ne_pad (b % 16 * 4 + c / 64) (by omega)
    have h3 := enc_ne_pad (c % 64) (by omega)
    have d0 := dec_enc (a/4) (by omega)
    have d1 := dec_enc (a % 4 * 16 + b / 16) (by omega)
    have d2 := dec_enc (b % 16 * 4 + c / 64) (by omega)
    have d3 := dec_enc (c % 64) (by omega)
    simp only [encode]
    cases hr : encode rest with
    | nil =>
      have hrest : rest = [] := by
        cases rest with
        | nil => rfl
        | cons x xs => cases xs with
          | nil => simp [encode] at hr
          | cons y ys => cases ys <;> simp [encode] at hr
      subst hrest
      unfold decodeCore
      simp [h2, h3, d0, d1, d2, d3]
      omega
    | cons x xs =>
      rw [hr] at ih'
      unfold decodeCore
      simp [ih', d0, d1, d2, d3]
      omega

/-- C04: binary metadata values survive the wire encoding byte for byte, for every byte string. -/
theorem roundtrip (bs : Bytes) (hb : bs.WF) : decode (encode bs) = some bs := by
  unfold decode
  have : (encode bs).filter (fun c => !isNewline c) = encode bs := by
    apply List.filter_eq_self.mpr
    intro c hc; simp [encode_no_newline bs hb c hc]
  rw [this]; exact core_roundtrip bs hb

/-- decoded output is always made of bytes -/
theorem decSextet_lt (c s : Nat) (h : decSextet c = some s) : s < 64 := by
  unfold decSextet at h
  repeat' split at h
  all_goals first | (cases h; omega) | (simp at h)

end Goat.Base64
