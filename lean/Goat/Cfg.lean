/-
  Configuration flags (DESIGN.md 3.2): boolean facts about the source that select
  model variants. `true` = the behaviour the property theorems are proved under.
  `Goat/Generated/Facts.lean` (rewritten from /repo on every run) defines `Generated.cfg`;
  `Goat/Tie/*.lean` prove by `decide` that the flags each property needs are `true` there.
-/
namespace Goat

structure Cfg where
  idAllocAtomic : Bool
  registerChecksErr : Bool
  unaryDeferUnregister : Bool
  dispatchOutsideLock : Bool
  closedPrefersCtx : Bool
  okStatusIsSuccess : Bool
  statsHeaderNilSafe : Bool
  recvRechecksDoneOnCtx : Bool
  resetIsError : Bool
  badMetaSetsErr : Bool
  trailerNoPanic : Bool
  closeSendNoopWhenDone : Bool
  finishOrder : Bool
  sendTeardownNoRst : Bool
  /-- `cs.teardown` cancels the stream context before it unregisters the call (a read loop woken by the
      unregistration then always finds the context ended and sends the reset). -/
  teardownCancelsFirst : Bool
  openFailureTearsDown : Bool
  unaryBadMetaIsErrorReply : Bool
  unaryCtxFollowsConn : Bool
  workerHandoffSelectsOnConn : Bool
  forwardSelectsOnStreamDone : Bool
  resetViaWriter : Bool
  timeoutSaturates : Bool
  timeoutDigitsOnly : Bool
  badSourceIsIgnored : Bool
  enqueueNonBlocking : Bool
  removeComparesIdentity : Bool
  errReportSelectsOnCtx : Bool
  /-- the proxy follows `ProxyNext` only when it is non-empty (`len(ProxyNext) > 0`, not `!= nil`) -/
  emptyNextIsNoRoute : Bool
  demuxCancelUsesDone : Bool
  demuxHandoffSelects : Bool
  httpCleanUsesDone : Bool
  httpReadHonoursCtx : Bool
  httpWriteHonoursCtx : Bool
  chainShape : Bool
  streamOnceGuards : Bool
  deriving DecidableEq, Repr

/-- every flag as the property theorems need it (= the repaired tree) -/
def Cfg.good : Cfg :=
  { idAllocAtomic := true, registerChecksErr := true, unaryDeferUnregister := true, dispatchOutsideLock := true, closedPrefersCtx := true, okStatusIsSuccess := true, statsHeaderNilSafe := true, recvRechecksDoneOnCtx := true, resetIsError := true, badMetaSetsErr := true, trailerNoPanic := true, closeSendNoopWhenDone := true, finishOrder := true, sendTeardownNoRst := true, teardownCancelsFirst := true, openFailureTearsDown := true, unaryBadMetaIsErrorReply := true, unaryCtxFollowsConn := true, workerHandoffSelectsOnConn := true, forwardSelectsOnStreamDone := true, resetViaWriter := true, timeoutSaturates := true, timeoutDigitsOnly := true, badSourceIsIgnored := true, enqueueNonBlocking := true, removeComparesIdentity := true, errReportSelectsOnCtx := true, emptyNextIsNoRoute := true, demuxCancelUsesDone := true, demuxHandoffSelects := true, httpCleanUsesDone := true, httpReadHonoursCtx := true, httpWriteHonoursCtx := true, chainShape := true, streamOnceGuards := true }

end Goat
