/-
  Configuration flags (DESIGN.md 3.2): boolean facts about the source that select
  model variants. `true` = the behaviour the property theorems are proved under.
  `Goat/Generated/Facts.lean` (rewritten from /repo on every run) defines `Generated.cfg`;
  `Goat/Tie/*.lean` prove by `decide` that the flags each property needs are `true` there.
-/
namespace Goat

structure Cfg where
  idAllocAtomic : Bool
  registerChecksErr : Bool
  unaryDeferUnregister : Bool
  dispatchOutsideLock : Bool
  okStatusIsSuccess : Bool
  statsHeaderNilSafe : Bool
  recvRechecksDoneOnCtx : Bool
  resetIsError : Bool
  badMetaSetsErr : Bool
  trailerNoPanic : Bool
  closeSendNoopWhenDone : Bool
  finishOrder : Bool
  sendTeardownNoRst : Bool
  openFailureTearsDown : Bool
  unaryBadMetaIsErrorReply : Bool
  unaryCtxFollowsConn : Bool
  workerHandoffSelectsOnConn : Bool
  forwardSelectsOnStreamDone : Bool
  resetViaWriter : Bool
  timeoutSaturates : Bool
  timeoutDigitsOnly : Bool
  badSourceIsIgnored : Bool
  enqueueNonBlocking : Bool
  removeComparesIdentity : Bool
  errReportSelectsOnCtx : Bool
  demuxCancelUsesDone : Bool
  demuxHandoffSelects : Bool
  httpCleanUsesDone : Bool
  httpReadHonoursCtx : Bool
  chainShape : Bool
  streamOnceGuards : Bool
  deriving DecidableEq, Repr

end Goat
