/-
  C15: lock discipline implies happens-before ordering, over an abstract memory model.
  Events of a trace: acquire / release of a mutex, spawn of a thread (`go`), read / write of a location.
  happens-before = program order ∪ (release → later acquire of the same mutex) ∪ (spawn → the child's events), transitively.
-/
namespace Goat.Lockset

abbrev Tid := Nat
abbrev Lock := Nat
abbrev Loc := Nat

inductive Op where
  | acq (m : Lock) | rel (m : Lock) | rd (x : Loc) | wr (x : Loc) | spawn (c : Tid)
  deriving DecidableEq, Repr

structure Ev where
  t : Tid
  op : Op
  deriving DecidableEq, Repr

/-- who holds `m` after the first `k` events -/
def holderAt (tr : List Ev) (m : Lock) : Nat → Option Tid
  | 0 => none
  | k+1 => match tr[k]? with
    | some ⟨t, .acq m'⟩ => if m' = m then some t else holderAt tr m k
    | some ⟨_, .rel m'⟩ => if m' = m then none else holderAt tr m k
    | _ => holderAt tr m k

/-- mutex semantics: acquire only a free lock, release only a lock you hold -/
def WF (tr : List Ev) : Prop :=
  ∀ k t m, (tr[k]? = some ⟨t, .acq m⟩ → holderAt tr m k = none) ∧
           (tr[k]? = some ⟨t, .rel m⟩ → holderAt tr m k = some t)

/-- happens-before: program order, an unlock before any later lock of the same mutex, transitivity -/
inductive HB (tr : List Ev) : Nat → Nat → Prop
  | po {i j t o1 o2} (h : i < j) (h1 : tr[i]? = some ⟨t, o1⟩) (h2 : tr[j]? = some ⟨t, o2⟩) : HB tr i j
  | sw {i j m t u} (h : i < j) (h1 : tr[i]? = some ⟨t, .rel m⟩) (h2 : tr[j]? = some ⟨u, .acq m⟩) : HB tr i j
  | sp {i j t c o} (h : i < j) (h1 : tr[i]? = some ⟨t, .spawn c⟩) (h2 : tr[j]? = some ⟨c, o⟩) : HB tr i j
  | trans {i j k} : HB tr i j → HB tr j k → HB tr i k

def isAccess (x : Loc) : Op → Prop
  | .rd y => y = x
  | .wr y => y = x
  | _ => False

theorem handover (tr : List Ev) (hwf : WF tr) (m : Lock) (t : Tid) (i : Nat)
    (hi : holderAt tr m i = some t) :
    ∀ d, (holderAt tr m (i + d) = some t ∨ ∃ r, i ≤ r ∧ r < i + d ∧ tr[r]? = some ⟨t, .rel m⟩) ∧
         (∀ u, u ≠ t → holderAt tr m (i + d) = some u →
            ∃ r a, i ≤ r ∧ r < a ∧ a < i + d ∧ tr[r]? = some ⟨t, .rel m⟩ ∧ tr[a]? = some ⟨u, .acq m⟩) := by
  intro d
  induction d with
  | zero =>
    refine ⟨Or.inl (by simpa using hi), ?_⟩
    intro u hu h; simp at h; rw [hi] at h; simp at h; exact absurd h.symm hu
  | succ d ih =>
    obtain ⟨ihA, ihB⟩ := ih
    have hs : holderAt tr m (i + (d + 1)) = (match tr[i + d]? with
      | some ⟨t, .acq m'⟩ => if m' = m then some t else holderAt tr m (i + d)
      | some ⟨_, .rel m'⟩ => if m' = m then none else holderAt tr m (i + d)
      | _ => holderAt tr m (i + d)) := by
      show holderAt tr m ((i + d) + 1) = _
      rfl
    have ext : ∀ {r}, r < i + d → r < i + (d + 1) := by omega
    cases he : tr[i + d]? with
    | none =>
      simp only [he] at hs
      rw [hs]
      refine ⟨?_, ?_⟩
      · rcases ihA with h | ⟨r, h1, h2, h3⟩
        · exact Or.inl h
        · exact Or.inr ⟨r, h1, ext h2, h3⟩
      · intro u hu h
        obtain ⟨r, a, h1, h2, h3, h4, h5⟩ := ihB u hu h
        exact ⟨r, a, h1, h2, ext h3, h4, h5⟩
    | some e =>
      obtain ⟨w, op⟩ := e
      cases op with
      | acq m' =>
        simp only [he] at hs
        by_cases hm : m' = m
        · subst hm
          simp at hs
          have hfree := (hwf (i + d) w m').1 he
          have hrel : ∃ r, i ≤ r ∧ r < i + d ∧ tr[r]? = some ⟨t, .rel m'⟩ := by
            rcases ihA with h | h
            · rw [hfree] at h; simp at h
            · exact h
          obtain ⟨r, h1, h2, h3⟩ := hrel
          rw [hs]
          refine ⟨Or.inr ⟨r, h1, ext h2, h3⟩, ?_⟩
          intro u hu h
          simp at h; subst h
          exact ⟨r, i + d, h1, h2, by omega, h3, he⟩
        · simp [hm] at hs
          rw [hs]
          refine ⟨?_, ?_⟩
          · rcases ihA with h | ⟨r, h1, h2, h3⟩
            · exact Or.inl h
            · exact Or.inr ⟨r, h1, ext h2, h3⟩
          · intro u hu h
            obtain ⟨r, a, h1, h2, h3, h4, h5⟩ := ihB u hu h
            exact ⟨r, a, h1, h2, ext h3, h4, h5⟩
      | rel m' =>
        simp only [he] at hs
        by_cases hm : m' = m
        · subst hm
          simp at hs
          have hheld := (hwf (i + d) w m').2 he
          rw [hs]
          refine ⟨Or.inr ?_, by intro u _ h; simp at h⟩
          rcases ihA with h | ⟨r, h1, h2, h3⟩
          · rw [hheld] at h; simp at h; subst h
            exact ⟨i + d, by omega, by omega, he⟩
          · exact ⟨r, h1, ext h2, h3⟩
        · simp [hm] at hs
          rw [hs]
          refine ⟨?_, ?_⟩
          · rcases ihA with h | ⟨r, h1, h2, h3⟩
            · exact Or.inl h
            · exact Or.inr ⟨r, h1, ext h2, h3⟩
          · intro u hu h
            obtain ⟨r, a, h1, h2, h3, h4, h5⟩ := ihB u hu h
            exact ⟨r, a, h1, h2, ext h3, h4, h5⟩
      | rd x =>
        simp only [he] at hs
        rw [hs]
        refine ⟨?_, ?_⟩
        · rcases ihA with h | ⟨r, h1, h2, h3⟩
          · exact Or.inl h
          · exact Or.inr ⟨r, h1, ext h2, h3⟩
        · intro u hu h
          obtain ⟨r, a, h1, h2, h3, h4, h5⟩ := ihB u hu h
          exact ⟨r, a, h1, h2, ext h3, h4, h5⟩
      | wr x =>
        simp only [he] at hs
        rw [hs]
        refine ⟨?_, ?_⟩
        · rcases ihA with h | ⟨r, h1, h2, h3⟩
          · exact Or.inl h
          · exact Or.inr ⟨r, h1, ext h2, h3⟩
        · intro u hu h
          obtain ⟨r, a, h1, h2, h3, h4, h5⟩ := ihB u hu h
          exact ⟨r, a, h1, h2, ext h3, h4, h5⟩
      | spawn c =>
        simp only [he] at hs
        rw [hs]
        refine ⟨?_, ?_⟩
        · rcases ihA with h | ⟨r, h1, h2, h3⟩
          · exact Or.inl h
          · exact Or.inr ⟨r, h1, ext h2, h3⟩
        · intro u hu h
          obtain ⟨r, a, h1, h2, h3, h4, h5⟩ := ihB u hu h
          exact ⟨r, a, h1, h2, ext h3, h4, h5⟩

/-- Lock discipline implies race freedom: two accesses to `x`, both made while holding `m`,
are ordered by happens-before — for every well-formed trace of any length and any number of
threads and locks. -/
theorem guarded_accesses_ordered (tr : List Ev) (hwf : WF tr) (m : Lock) (x : Loc)
    (i j : Nat) (hij : i < j) (t u : Tid) (o1 o2 : Op)
    (h1 : tr[i]? = some ⟨t, o1⟩) (h2 : tr[j]? = some ⟨u, o2⟩)
    (a1 : isAccess x o1) (a2 : isAccess x o2)
    (g1 : holderAt tr m i = some t) (g2 : holderAt tr m j = some u) :
    HB tr i j := by
  by_cases htu : u = t
  · subst htu; exact HB.po hij h1 h2
  · have hd : j = i + (j - i) := by omega
    obtain ⟨_, hB⟩ := handover tr hwf m t i g1 (j - i)
    rw [← hd] at hB
    obtain ⟨r, a, hr1, hr2, hr3, hr4, hr5⟩ := hB u htu g2
    have hir : i < r := by
      rcases Nat.lt_or_eq_of_le hr1 with h | h
      · exact h
      · subst h; rw [h1] at hr4; cases hr4; simp [isAccess] at a1
    exact HB.trans (HB.trans (HB.po hir h1 hr4) (HB.sw hr2 hr4 hr5)) (HB.po hr3 hr5 h2)

-- non-vacuity: a two-thread trace satisfying every hypothesis
example : WF [⟨1, .acq 0⟩, ⟨1, .wr 7⟩, ⟨1, .rel 0⟩, ⟨2, .acq 0⟩, ⟨2, .rd 7⟩, ⟨2, .rel 0⟩] := by
  intro k t m
  match k with
  | 0 | 1 | 2 | 3 | 4 | 5 => constructor <;> intro h <;> simp at h <;> (try (obtain ⟨_, rfl⟩ := h)) <;> simp [holderAt] <;> try omega
  | k+6 => simp

/-- Publication by `go`: what a thread wrote before it spawned a child is ordered before everything the
child does (a field written only before the goroutines that read it are started needs no lock). -/
theorem pre_publication_ordered (tr : List Ev) (i k j : Nat) (t c : Tid) (o1 o2 : Op)
    (hik : i < k) (hkj : k < j)
    (h1 : tr[i]? = some ⟨t, o1⟩) (hs : tr[k]? = some ⟨t, .spawn c⟩) (h2 : tr[j]? = some ⟨c, o2⟩) :
    HB tr i j :=
  HB.trans (HB.po hik h1 hs) (HB.sp hkj hs h2)

/-- Accesses of one thread are ordered by program order (a field read without the lock only by the
goroutine that is also its only writer). -/
theorem same_thread_ordered (tr : List Ev) (i j : Nat) (t : Tid) (o1 o2 : Op) (hij : i < j)
    (h1 : tr[i]? = some ⟨t, o1⟩) (h2 : tr[j]? = some ⟨t, o2⟩) : HB tr i j := HB.po hij h1 h2

end Goat.Lockset
