/-
  Protobuf wire encoding of the `goatorepo.Rpc` schema (/repo/gen/goatorepo/rpc.pb.go, proto3), as
  golang/protobuf v1.34 `proto.MarshalOptions{Deterministic:true}.Marshal` / `proto.Unmarshal` compute it
  (DESIGN.md section 4, C19).

  Two layers.
  * wire layer, schema independent: base-128 varints (at most ten bytes, the tenth at most 1), tags
    `fieldNumber * 8 + wireType`, the five wire types (varint, 64-bit, length-delimited, start/end group,
    32-bit), `parseFields : Bytes → Option (List Field)` splits a message body into its fields exactly as
    `impl.unmarshalPointer` walks it (field number 1 … 2^29-1, an end-group tag at message level is an error,
    wire types 6 and 7 are errors, a truncated value is an error, a group is skipped with
    `protowire.ConsumeFieldValue`'s rules: field numbers up to 2^31-1 inside, matching end tag, nesting at most 10001).
  * schema layer: each message type is a fold over its fields into an accumulator (`…Step`), which gives
    proto3's semantics directly: a singular scalar/string/bytes field takes the last value seen, a repeated
    field appends, a singular sub-message seen again is merged into what is already there, a known field
    number with the wrong wire type and an unknown field number are skipped, a `string` field must be valid UTF-8.
    `encode` lists the fields in field-number order, omits proto3 defaults (0, empty string, empty bytes),
    always emits the elements of repeated fields and emits a PRESENT sub-message even when it is empty.

  Left out (see REPORT-Proto-Transport.md): unknown fields are dropped by `decode` (Go keeps them in `unknownFields`
  and re-emits them), the 2 GiB size limit of the Go implementation, nil elements of repeated message fields.
-/
import Goat.Basic
namespace Goat.Proto
open Goat

/-! ## values -/

/-- google.protobuf.Any -/
structure AnyMsg where
  typeUrl : Bytes := []
  value : Bytes := []
  deriving DecidableEq, Repr, Inhabited

/-- goatorepo.ResponseStatus with structured details -/
structure PStatus where
  code : Int := 0
  message : Bytes := []
  details : List AnyMsg := []
  deriving DecidableEq, Repr, Inhabited

/-- goatorepo.Rpc. `header` is `Goat.Header` (it already has every field of RequestHeader); a sub-message is
    `none` when the Go pointer is nil. `body` is Body.data, `trailer` is Trailer.metadata, `reset` is Reset.type. -/
structure Rpc where
  id : Nat := 0
  header : Option Header := none
  status : Option PStatus := none
  body : Option Bytes := none
  trailer : Option (List KV) := none
  reset : Option Bytes := none
  deriving DecidableEq, Repr, Inhabited

/-- the view the other models use (details flattened to type-url ++ value) -/
def Rpc.toEnv (m : Rpc) : Env :=
  { id := m.id, header := m.header,
    status := m.status.map (fun s => { code := s.code, message := s.message,
                                       details := s.details.map (fun a => a.typeUrl ++ a.value) }),
    body := m.body, trailer := m.trailer, reset := m.reset }

/-! ## UTF-8 (Go's `utf8.Valid`: shortest form, no surrogates, at most U+10FFFF) -/

def isCont (b : Nat) : Bool := decide (128 ≤ b ∧ b ≤ 191)

def validUTF8 : Bytes → Bool
  | [] => true
  | b0 :: rest =>
    if b0 < 128 then validUTF8 rest
    else if 194 ≤ b0 ∧ b0 ≤ 223 then
      match rest with
      | b1 :: r => if isCont b1 then validUTF8 r else false
      | _ => false
    else if 224 ≤ b0 ∧ b0 ≤ 239 then
      match rest with
      | b1 :: b2 :: r =>
        if (if b0 = 224 then decide (160 ≤ b1 ∧ b1 ≤ 191) else if b0 = 237 then decide (128 ≤ b1 ∧ b1 ≤ 159) else isCont b1)
           && isCont b2 then validUTF8 r else false
      | _ => false
    else if 240 ≤ b0 ∧ b0 ≤ 244 then
      match rest with
      | b1 :: b2 :: b3 :: r =>
        if (if b0 = 240 then decide (144 ≤ b1 ∧ b1 ≤ 191) else if b0 = 244 then decide (128 ≤ b1 ∧ b1 ≤ 143) else isCont b1)
           && isCont b2 && isCont b3 then validUTF8 r else false
      | _ => false
    else false

/-! ## wire layer -/

/-- at most `n + 1` bytes -/
def putVarintAux : Nat → Nat → Bytes
  | 0, v => [v]
  | n + 1, v => if v < 128 then [v] else (v % 128 + 128) :: putVarintAux n (v / 128)

/-- `protowire.AppendVarint` (values below 2^64: at most ten bytes) -/
def putVarint (v : Nat) : Bytes := putVarintAux 9 v

/-- at most `n` bytes, the last allowed one at most 1 -/
def getVarintAux : Nat → Bytes → Option (Nat × Bytes)
  | 0, _ => none
  | _ + 1, [] => none
  | n + 1, b :: rest =>
    if b < 128 then (if n = 0 ∧ 1 < b then none else some (b, rest))
    else match getVarintAux n rest with
      | some (v, r) => some ((b - 128) + 128 * v, r)
      | none => none

/-- `protowire.ConsumeVarint`: value and the rest, `none` = truncated or overflow -/
def getVarint (bs : Bytes) : Option (Nat × Bytes) := getVarintAux 10 bs

inductive WVal where
  | varint (v : Nat)
  | fixed64 (b : Bytes)
  | bytes (b : Bytes)
  | group
  | fixed32 (b : Bytes)
  deriving DecidableEq, Repr, Inhabited

abbrev Field := Nat × WVal

def maxFieldNum : Nat := 536870911        -- 2^29 - 1
def maxGroupFieldNum : Nat := 2147483647  -- 2^31 - 1 (protowire.DecodeTag)
def maxGroupDepth : Nat := 10001          -- protowire.DefaultRecursionLimit + 1 open groups

def putField : Field → Bytes
  | (n, .varint v) => putVarint (n * 8) ++ putVarint v
  | (n, .fixed64 b) => putVarint (n * 8 + 1) ++ b
  | (n, .bytes b) => putVarint (n * 8 + 2) ++ (putVarint b.length ++ b)
  | (n, .group) => putVarint (n * 8 + 3) ++ putVarint (n * 8 + 4)
  | (n, .fixed32 b) => putVarint (n * 8 + 5) ++ b

def putFields (fs : List Field) : Bytes := fs.flatMap putField

/-- skip to the end of the innermost open group on `stack` until the stack is empty
    (`protowire.consumeFieldValueD` on a start-group tag, written iteratively) -/
def skipGroup : Nat → List Nat → Bytes → Option Bytes
  | _, [], bs => some bs
  | 0, _ :: _, _ => none
  | n + 1, top :: stack, bs =>
    match getVarint bs with
    | none => none
    | some (tag, r) =>
      let num := tag / 8
      if num < 1 ∨ maxGroupFieldNum < num then none else
      match tag % 8 with
      | 0 => match getVarint r with
        | some (_, r') => skipGroup n (top :: stack) r'
        | none => none
      | 1 => if 8 ≤ r.length then skipGroup n (top :: stack) (r.drop 8) else none
      | 2 => match getVarint r with
        | some (l, r') => if l ≤ r'.length then skipGroup n (top :: stack) (r'.drop l) else none
        | none => none
      | 3 => if maxGroupDepth ≤ (top :: stack).length then none else skipGroup n (num :: top :: stack) r
      | 4 => if num = top then skipGroup n stack r else none
      | 5 => if 4 ≤ r.length then skipGroup n (top :: stack) (r.drop 4) else none
      | _ => none

/-- one field off the front of a message body -/
def getField (bs : Bytes) : Option (Field × Bytes) :=
  match getVarint bs with
  | none => none
  | some (tag, r) =>
    let num := tag / 8
    if num < 1 ∨ maxFieldNum < num then none else
    match tag % 8 with
    | 0 => match getVarint r with
      | some (v, r') => some ((num, .varint v), r')
      | none => none
    | 1 => if 8 ≤ r.length then some ((num, .fixed64 (r.take 8)), r.drop 8) else none
    | 2 => match getVarint r with
      | some (l, r') => if l ≤ r'.length then some ((num, .bytes (r'.take l)), r'.drop l) else none
      | none => none
    | 3 => match skipGroup r.length [num] r with
      | some r' => some ((num, .group), r')
      | none => none
    | 5 => if 4 ≤ r.length then some ((num, .fixed32 (r.take 4)), r.drop 4) else none
    | _ => none

/-- fuel = an upper bound on the number of fields; every field takes at least one byte -/
def parseFieldsAux : Nat → Bytes → Option (List Field)
  | 0, bs => if bs.isEmpty then some [] else none
  | n + 1, bs =>
    if bs.isEmpty then some [] else
    match getField bs with
    | none => none
    | some (f, r) =>
      match parseFieldsAux n r with
      | some fs => some (f :: fs)
      | none => none

def parseFields (bs : Bytes) : Option (List Field) := parseFieldsAux bs.length bs

/-! ## schema layer: field lists (encode) -/

def optBytes (num : Nat) (b : Bytes) : List Field := if b = [] then [] else [(num, .bytes b)]

def optMsg (num : Nat) : Option Bytes → List Field
  | none => []
  | some b => [(num, .bytes b)]

/-- int32 on the wire: sign-extended to 64 bits -/
def int32ToWire (c : Int) : Nat := (c % 18446744073709551616).toNat

/-- Go's `int32(v)` of a decoded varint -/
def wireToInt32 (v : Nat) : Int :=
  let w := v % 4294967296
  if w < 2147483648 then (w : Int) else (w : Int) - 4294967296

def kvFields (kv : KV) : List Field := optBytes 1 kv.key ++ optBytes 2 kv.value
def encodeKV (kv : KV) : Bytes := putFields (kvFields kv)

def anyFields (a : AnyMsg) : List Field := optBytes 1 a.typeUrl ++ optBytes 2 a.value
def encodeAny (a : AnyMsg) : Bytes := putFields (anyFields a)

def headerFields (h : Header) : List Field :=
  optBytes 1 h.method ++ (h.headers.map (fun kv => (2, WVal.bytes (encodeKV kv))) ++ (optBytes 3 h.src ++
  (optBytes 4 h.dst ++ (h.record.map (fun s => (5, WVal.bytes s)) ++ h.next.map (fun s => (6, WVal.bytes s))))))
def encodeHeader (h : Header) : Bytes := putFields (headerFields h)

def statusFields (s : PStatus) : List Field :=
  (if s.code = 0 then [] else [(1, WVal.varint (int32ToWire s.code))]) ++ (optBytes 2 s.message ++
  s.details.map (fun a => (3, WVal.bytes (encodeAny a))))
def encodeStatus (s : PStatus) : Bytes := putFields (statusFields s)

def bodyFields (d : Bytes) : List Field := optBytes 1 d
def encodeBody (d : Bytes) : Bytes := putFields (bodyFields d)

def trailerFields (t : List KV) : List Field := t.map (fun kv => (1, WVal.bytes (encodeKV kv)))
def encodeTrailer (t : List KV) : Bytes := putFields (trailerFields t)

def resetFields (t : Bytes) : List Field := optBytes 1 t
def encodeReset (t : Bytes) : Bytes := putFields (resetFields t)

def rpcFields (m : Rpc) : List Field :=
  (if m.id = 0 then [] else [(1, WVal.varint m.id)]) ++ (optMsg 2 (m.header.map encodeHeader) ++
  (optMsg 3 (m.status.map encodeStatus) ++ (optMsg 4 (m.body.map encodeBody) ++
  (optMsg 5 (m.trailer.map encodeTrailer) ++ optMsg 6 (m.reset.map encodeReset)))))

/-- `proto.MarshalOptions{Deterministic: true}.Marshal` -/
def encode (m : Rpc) : Bytes := putFields (rpcFields m)

/-! ## schema layer: folds (decode) -/

def kvStep (kv : KV) : Field → Option KV
  | (1, .bytes b) => if validUTF8 b then some { kv with key := b } else none
  | (2, .bytes b) => if validUTF8 b then some { kv with value := b } else none
  | _ => some kv

def decodeKVInto (kv : KV) (bs : Bytes) : Option KV :=
  match parseFields bs with
  | some fs => fs.foldlM kvStep kv
  | none => none

def emptyKV : KV := { key := [], value := [] }
def decodeKV (bs : Bytes) : Option KV := decodeKVInto emptyKV bs

def anyStep (a : AnyMsg) : Field → Option AnyMsg
  | (1, .bytes b) => if validUTF8 b then some { a with typeUrl := b } else none
  | (2, .bytes b) => some { a with value := b }
  | _ => some a

def decodeAny (bs : Bytes) : Option AnyMsg :=
  match parseFields bs with
  | some fs => fs.foldlM anyStep {}
  | none => none

def headerStep (h : Header) : Field → Option Header
  | (1, .bytes b) => if validUTF8 b then some { h with method := b } else none
  | (2, .bytes b) => match decodeKV b with
    | some kv => some { h with headers := h.headers ++ [kv] }
    | none => none
  | (3, .bytes b) => if validUTF8 b then some { h with src := b } else none
  | (4, .bytes b) => if validUTF8 b then some { h with dst := b } else none
  | (5, .bytes b) => if validUTF8 b then some { h with record := h.record ++ [b] } else none
  | (6, .bytes b) => if validUTF8 b then some { h with next := h.next ++ [b] } else none
  | _ => some h

def decodeHeaderInto (h : Header) (bs : Bytes) : Option Header :=
  match parseFields bs with
  | some fs => fs.foldlM headerStep h
  | none => none

def statusStep (s : PStatus) : Field → Option PStatus
  | (1, .varint v) => some { s with code := wireToInt32 v }
  | (2, .bytes b) => if validUTF8 b then some { s with message := b } else none
  | (3, .bytes b) => match decodeAny b with
    | some a => some { s with details := s.details ++ [a] }
    | none => none
  | _ => some s

def decodeStatusInto (s : PStatus) (bs : Bytes) : Option PStatus :=
  match parseFields bs with
  | some fs => fs.foldlM statusStep s
  | none => none

def bodyStep (d : Bytes) : Field → Option Bytes
  | (1, .bytes b) => some b
  | _ => some d

def decodeBodyInto (d : Bytes) (bs : Bytes) : Option Bytes :=
  match parseFields bs with
  | some fs => fs.foldlM bodyStep d
  | none => none

def trailerStep (t : List KV) : Field → Option (List KV)
  | (1, .bytes b) => match decodeKV b with
    | some kv => some (t ++ [kv])
    | none => none
  | _ => some t

def decodeTrailerInto (t : List KV) (bs : Bytes) : Option (List KV) :=
  match parseFields bs with
  | some fs => fs.foldlM trailerStep t
  | none => none

def resetStep (t : Bytes) : Field → Option Bytes
  | (1, .bytes b) => if validUTF8 b then some b else none
  | _ => some t

def decodeResetInto (t : Bytes) (bs : Bytes) : Option Bytes :=
  match parseFields bs with
  | some fs => fs.foldlM resetStep t
  | none => none

/-- a sub-message that is seen again is merged into the one already present -/
def rpcStep (m : Rpc) : Field → Option Rpc
  | (1, .varint v) => some { m with id := v }
  | (2, .bytes b) => match decodeHeaderInto (m.header.getD {}) b with
    | some h => some { m with header := some h }
    | none => none
  | (3, .bytes b) => match decodeStatusInto (m.status.getD {}) b with
    | some s => some { m with status := some s }
    | none => none
  | (4, .bytes b) => match decodeBodyInto (m.body.getD []) b with
    | some d => some { m with body := some d }
    | none => none
  | (5, .bytes b) => match decodeTrailerInto (m.trailer.getD []) b with
    | some t => some { m with trailer := some t }
    | none => none
  | (6, .bytes b) => match decodeResetInto (m.reset.getD []) b with
    | some t => some { m with reset := some t }
    | none => none
  | _ => some m

def decodeInto (m : Rpc) (bs : Bytes) : Option Rpc :=
  match parseFields bs with
  | some fs => fs.foldlM rpcStep m
  | none => none

/-- `proto.Unmarshal` into a fresh `Rpc`; `none` = it returns an error -/
def decode (bs : Bytes) : Option Rpc := decodeInto {} bs

/-! ## well-formed values -/

def Str (b : Bytes) : Prop := validUTF8 b = true

def KV.PWF (kv : KV) : Prop := Str kv.key ∧ Str kv.value
def AnyMsg.WF (a : AnyMsg) : Prop := Str a.typeUrl ∧ a.value.WF
def Header.PWF (h : Header) : Prop :=
  Str h.method ∧ Str h.src ∧ Str h.dst ∧ (∀ kv ∈ h.headers, KV.PWF kv) ∧ (∀ s ∈ h.record, Str s) ∧ (∀ s ∈ h.next, Str s)
def PStatus.WF (s : PStatus) : Prop :=
  (-2147483648 ≤ s.code ∧ s.code < 2147483648) ∧ Str s.message ∧ (∀ a ∈ s.details, AnyMsg.WF a)

instance (b : Bytes) : Decidable (Str b) := by unfold Str; infer_instance
instance (kv : KV) : Decidable (KV.PWF kv) := by unfold KV.PWF; infer_instance
instance (a : AnyMsg) : Decidable (AnyMsg.WF a) := by unfold AnyMsg.WF; infer_instance
instance (h : Header) : Decidable (Header.PWF h) := by unfold Header.PWF; infer_instance
instance (s : PStatus) : Decidable (PStatus.WF s) := by unfold PStatus.WF; infer_instance

/-- a value the Go type can hold and `Marshal` accepts: id is a uint64, code an int32, strings are valid UTF-8,
    bytes are bytes, and the encoding is shorter than 2^64 bytes (Go's own limit is 2^31) -/
structure WF (m : Rpc) : Prop where
  id : m.id < 18446744073709551616
  header : ∀ h, m.header = some h → Header.PWF h
  status : ∀ s, m.status = some s → PStatus.WF s
  body : ∀ d, m.body = some d → d.WF
  trailer : ∀ t, m.trailer = some t → ∀ kv ∈ t, KV.PWF kv
  reset : ∀ t, m.reset = some t → Str t
  size : (encode m).length < 18446744073709551616

end Goat.Proto
