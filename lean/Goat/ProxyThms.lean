/-
  C16 / C17: the property theorems of the proxy, their negative witnesses and non-vacuity
  examples.  Proof work is in `ProxyProofs.lean`.
-/
import Goat.ProxyProofs

namespace Goat.Proxy

/-! ## Part 1: the forwarding function (`forwardRpc`) -/

/-- the action sent the envelope `e'` towards the name `d` (it was put in `d`'s queue, or
dropped because that queue was full) -/
def Action.sentTo (a : Action) (d : Bytes) (e' : Env) : Prop :=
  a = .enqueue d e' ∨ a = .drop d e'

/-- **proxy_route.**  Whatever the table, if `forwardRpc` sends the envelope on, the destination
is the last element of the (intercepted) header's `ProxyNext` if there is one, and the
(intercepted) header's `Destination` otherwise. -/
theorem proxy_route {cfg ic nn t source e d e'}
    (h : ((forward cfg ic nn t source e).action).sentTo d e') :
    ∃ hdr h1, e.header = some hdr ∧ ic hdr = some h1 ∧
      d = match h1.next.getLast? with | some n => n | none => h1.dst := by
  obtain ⟨hdr, h1, hh, _, hic, hd, _⟩ := route_send (forward_sent h)
  refine ⟨hdr, h1, hh, hic, ?_⟩
  rw [hd, pickDest]; cases h1.next.getLast? <;> rfl

/-- **proxy_record_once.**  The forwarded header's `ProxyRecord` is the (intercepted) header's
followed by exactly one copy of this proxy's id, and its `ProxyNext` lost exactly its last
element (if it had one). -/
theorem proxy_record_once {cfg ic nn t source e d e'}
    (h : ((forward cfg ic nn t source e).action).sentTo d e') :
    ∃ hdr h1 h', e.header = some hdr ∧ ic hdr = some h1 ∧ e'.header = some h' ∧
      h'.record = h1.record ++ [cfg.name] ∧ h'.next = h1.next.dropLast := by
  obtain ⟨hdr, h1, hh, _, hic, _, he⟩ := route_send (forward_sent h)
  exact ⟨hdr, h1, fwdHeader cfg h1, hh, hic, by rw [he], rfl, rfl⟩

/-- with no interceptor (or one that leaves the record alone) this is the statement of
DESIGN.md: forwarded.record = received.record ++ [name] -/
theorem proxy_record_once_plain {cfg nn t source e d e'}
    (h : ((forward cfg some nn t source e).action).sentTo d e') :
    ∃ hdr h', e.header = some hdr ∧ e'.header = some h' ∧ h'.record = hdr.record ++ [cfg.name] := by
  obtain ⟨hdr, h1, h', hh, hic, he, hr, _⟩ := proxy_record_once h
  simp at hic; subst hic
  exact ⟨hdr, h', hh, he, hr⟩

/-- **proxy_unchanged_otherwise.**  Id, status, body, trailer and reset of the forwarded envelope
are those received; method, source, destination and the key/value headers are exactly as the
interceptor left them (`forwardRpc` itself only touches `ProxyRecord` and `ProxyNext`; in
particular it does not rewrite `Destination` even when it routes by `ProxyNext`). -/
theorem proxy_unchanged_otherwise {cfg ic nn t source e d e'}
    (h : ((forward cfg ic nn t source e).action).sentTo d e') :
    e'.id = e.id ∧ e'.status = e.status ∧ e'.body = e.body ∧ e'.trailer = e.trailer ∧
    e'.reset = e.reset ∧
    ∃ hdr h1 h', e.header = some hdr ∧ ic hdr = some h1 ∧ e'.header = some h' ∧
      h'.method = h1.method ∧ h'.src = h1.src ∧ h'.dst = h1.dst ∧ h'.headers = h1.headers := by
  obtain ⟨hdr, h1, hh, _, hic, _, he⟩ := route_send (forward_sent h)
  subst he
  exact ⟨rfl, rfl, rfl, rfl, rfl, hdr, h1, fwdHeader cfg h1, hh, hic, rfl, rfl, rfl, rfl, rfl⟩

/-- when nothing is sent on, the table is untouched (ignore / refused / panic) -/
theorem forward_table_unchanged_unless_sent {cfg ic nn t source e}
    (h : (forward cfg ic nn t source e).action = .ignore ∨
         (forward cfg ic nn t source e).action = .refused ∨
         ∃ w, (forward cfg ic nn t source e).action = .panic w) :
    (forward cfg ic nn t source e).table = t := by
  unfold forward at *
  split
  · rfl
  · rfl
  · rfl
  · rename_i d0 e0 hr
    simp only [hr] at h
    rcases deliver_action t d0 e0 with h1 | h1 | h1 <;> rw [h1] at h <;> simp at h

/-- **no_spoof_forwarded (function level).**  An envelope is sent on only if it has a header
whose `Source` is the name the command came from (`source` is `cmd.id`, the name the reading
connection is attached under). -/
theorem no_spoof_forwarded_fn {cfg ic nn t source e d e'}
    (h : ((forward cfg ic nn t source e).action).sentTo d e') :
    ∃ hdr, e.header = some hdr ∧ hdr.src = source := by
  obtain ⟨hdr, _, hh, hs, _⟩ := route_send (forward_sent h)
  exact ⟨hdr, hh, hs⟩

/-- … and a bad envelope (no header, or a source that is not the sender's name) is ignored: table
unchanged, nothing enqueued, no panic. -/
theorem bad_source_ignored {cfg ic nn t source e} (hc : cfg.badSourceIsIgnored = true)
    (hbad : ∀ hdr, e.header = some hdr → hdr.src ≠ source) :
    forward cfg ic nn t source e = { table := t, action := .ignore } := by
  unfold forward
  rw [route_bad hbad]
  simp [badSource, hc]

/-- **never panics.**  With the repaired sanity check and the repaired route test
(`len(ProxyNext) > 0`), `forwardRpc` never panics: whatever the envelope, whatever the interceptor
did to its header, nil or empty-but-non-nil `ProxyNext` alike. -/
theorem forward_never_panics {cfg ic nn t source e} (hc : cfg.badSourceIsIgnored = true)
    (he : cfg.emptyNextIsNoRoute = true) :
    ∀ w, (forward cfg ic nn t source e).action ≠ .panic w := by
  intro w hp
  have hr := forward_panic hp
  cases w with
  | badSource => have := route_panic_badSource hr; simp [hc] at this
  | emptyNext =>
    obtain ⟨hdr, h1, hh, _, hic, hnn, hne⟩ := route_panic_emptyNext hr
    simp [nnEff, he] at hnn

/-- the same for the code before 6d5dbe5, where it needed a premise: a `ProxyNext` that is nil
whenever it is empty (every protobuf-decoded envelope) or non-empty after the interceptor -/
theorem forward_never_panics_legacy {cfg ic nn t source e} (hc : cfg.badSourceIsIgnored = true)
    (hn : nn = false ∨ ∀ hdr h1, e.header = some hdr → ic hdr = some h1 → h1.next ≠ []) :
    ∀ w, (forward cfg ic nn t source e).action ≠ .panic w := by
  intro w hp
  have hr := forward_panic hp
  cases w with
  | badSource => have := route_panic_badSource hr; simp [hc] at this
  | emptyNext =>
    obtain ⟨hdr, h1, hh, _, hic, hnn, hne⟩ := route_panic_emptyNext hr
    rcases hn with hn | hn
    · simp [nnEff, hn] at hnn
    · exact hn hdr h1 hh hic hne

/-- negative witness for `emptyNextIsNoRoute`: before 6d5dbe5 an empty but non-nil `ProxyNext`
(an envelope passed by reference: the channel transport, or a proxy that consumed the last hop by
re-slicing) is an index-out-of-range panic — with an honest source and no interceptor -/
theorem bad_emptyNextIsNoRoute :
    (forward { emptyNextIsNoRoute := false } some true {} [1]
        { header := some { src := [1], dst := [2] } }).action = .panic .emptyNext := by decide

/-- … and the repaired code forwards that envelope to its destination -/
example : (forward {} some true {} [1] { header := some { src := [1], dst := [2] } }).action
    = .enqueue [2] { header := some { src := [1], dst := [2], record := [[]] } } := by decide

/-- negative witness for `badSourceIsIgnored`: before the repair one envelope with a spoofed
source (or none) kills the process -/
theorem bad_badSourceIsIgnored :
    (forward { badSourceIsIgnored := false } some false {} [1]
        { header := some { src := [9], dst := [2] } }).action = .panic .badSource ∧
    (forward { badSourceIsIgnored := false } some false {} [1] {}).action = .panic .badSource := by
  decide

/-- non-vacuity for the function-level theorems: a routed, recorded, enqueued envelope with a
dial on demand (`next = [[7],[8]]` so the destination is `[8]`, not `dst = [2]`) -/
example :
    let r := forward { name := [5] } some false {} [1]
      { id := 3, header := some { src := [1], dst := [2], next := [[7], [8]] }, body := some [0] }
    r.action = .enqueue [8] { id := 3, header := some { src := [1], dst := [2], next := [[7]], record := [[5]] },
                               body := some [0] } ∧
    r.dialed = true ∧ r.target = some 0 := by decide

/-! ## Part 2: the LTS

`s.log` is the serve loop's history: one `Ev` per command `{id, rpc}` it received, naming the
sending object `src` (attached under `srcName`), the envelope received, what `forwardRpc` did,
and the object `target` it chose.  `enqOf s.log j` / `dropOf s.log j` / `routedOf s.log j` are the
envelopes it enqueued for / dropped for / wanted to send to object `j`, in serve order;
`servedOf s.log i` are the envelopes it received from object `i`'s reader. -/

/-- **no_spoof_forwarded.**  In every reachable state, every envelope the serve loop ever sent on
(enqueued or dropped-for-overflow) arrived from an object whose attachment name is the envelope's
header source; and every envelope that ever sat in any object's queue is such an envelope
(`c.enq = enqOf s.log j`). -/
theorem no_spoof_forwarded {cfg : Cfg} {s : State} (hr : Reachable cfg s) :
    (∀ ev ∈ s.log, ∀ d e', ev.action.sentTo d e' →
      (∃ c, s.conns[ev.src]? = some c ∧ c.name = ev.srcName) ∧
      (∃ h, ev.recv.header = some h ∧ h.src = ev.srcName)) ∧
    (∀ (j : Nat) (c : Conn), s.conns[j]? = some c → c.enq = enqOf s.log j) := by
  obtain ⟨_, h2, h3, _⟩ := inv_reachable hr
  refine ⟨fun ev hev d e' hde => ⟨(h3 ev hev).1, ((h3 ev hev).2.2.2 d e' hde).1⟩, ?_⟩
  intro j c hc
  exact (h2 j c hc).2.2.2.1

/-- **Part 1 applies to every step of the LTS.**  In every reachable state, for every envelope
the serve loop ever sent on (history entry `ev`, received envelope `ev.recv`, forwarded envelope
`e'`, destination name `d`): the destination is the last `ProxyNext` hop if any, else the
header's destination; the record grew by exactly this proxy's id; the next-list lost exactly
its last hop; everything else is as received / as the interceptor left it
(`proxy_route`, `proxy_record_once`, `proxy_unchanged_otherwise` hold for it). -/
theorem lts_forward_spec {cfg : Cfg} {s : State} (hr : Reachable cfg s) :
    ∀ ev ∈ s.log, ∀ d e', ev.action.sentTo d e' →
      e'.id = ev.recv.id ∧ e'.status = ev.recv.status ∧ e'.body = ev.recv.body ∧
      e'.trailer = ev.recv.trailer ∧ e'.reset = ev.recv.reset ∧
      ∃ (hdr h1 h' : Header), ev.recv.header = some hdr ∧ hdr.src = ev.srcName ∧ e'.header = some h' ∧
        (d = match h1.next.getLast? with | some n => n | none => h1.dst) ∧
        h'.record = h1.record ++ [cfg.name] ∧ h'.next = h1.next.dropLast ∧
        h'.method = h1.method ∧ h'.src = h1.src ∧ h'.dst = h1.dst ∧ h'.headers = h1.headers := by
  intro ev hev d e' hs
  obtain ⟨ic, nn, t, hact⟩ := logOk_reachable hr ev hev
  rw [hact] at hs
  obtain ⟨hdr, h1, hh, hsrc, hic, hd, he⟩ := route_send (forward_sent hs)
  subst he
  refine ⟨rfl, rfl, rfl, rfl, rfl, hdr, h1, fwdHeader cfg h1, hh, hsrc, rfl, ?_, rfl, rfl, rfl, rfl, rfl, rfl⟩
  rw [hd, pickDest]; cases h1.next.getLast? <;> rfl

/-- the repaired sanity check never kills the process … -/
theorem no_badSource_panic {cfg : Cfg} (hc : cfg.badSourceIsIgnored = true) {s : State}
    (hr : Reachable cfg s) : s.panicked ≠ some .badSource :=
  (inv_reachable hr).2.2.2 hc

/-- … and a serve step never panics at all, whatever the envelope (nil or empty non-nil `ProxyNext`) -/
theorem cmdRpc_no_panic {cfg : Cfg} (hc : cfg.badSourceIsIgnored = true)
    (he : cfg.emptyNextIsNoRoute = true) {s s' : State} {i ic nn}
    (hs : step cfg s (.cmdRpc i ic nn) = some s') : s'.panicked = none := by
  unfold step at hs; split at hs; (· contradiction)
  simp only at hs
  (repeat' split at hs) <;> (try contradiction) <;>
    (simp only [Option.some.injEq] at hs; subst hs) <;>
    first
    | rfl
    | (rename_i hw; exact absurd hw (forward_never_panics hc he _))

/-- non-vacuity: a spoofed envelope (source `[9]` on the connection attached as `[1]`) is
ignored, a genuine one is forwarded -/
example : ∃ s, run {} init
      [.attach [1], .attach [2],
       .readerGet 0 { id := 1, header := some { src := [9], dst := [2] } },
       .cmdRpc 0 (some { src := [9], dst := [2] }) false,
       .readerGet 0 { id := 2, header := some { src := [1], dst := [2] } },
       .cmdRpc 0 (some { src := [1], dst := [2] }) false] = some s ∧
    s.log.map (·.action) =
      [.ignore, .enqueue [2] { id := 2, header := some { src := [1], dst := [2], record := [[]] } }] ∧
    s.panicked = none := by
  refine ⟨_, rfl, ?_⟩; decide

/-- negative witness for `badSourceIsIgnored` in the LTS: the spoofed envelope kills the proxy -/
theorem bad_badSourceIsIgnored_lts :
    ∃ s, run { badSourceIsIgnored := false } init
      [.attach [1], .readerGet 0 { id := 1, header := some { src := [9], dst := [2] } },
       .cmdRpc 0 (some { src := [9], dst := [2] }) false] = some s ∧
    s.panicked = some .badSource := by
  refine ⟨_, rfl, ?_⟩; decide

/-- **proxy_fifo_pair.**  In every reachable state, for every connection object `j`:
* what was written to its peer, then the envelope whose write failed (if any; the writer has
  then stopped), then the envelope in the writer's hand, then its queue, is *exactly* the
  sequence the serve loop enqueued for it — in order, nothing lost, nothing twice;
* what the serve loop received from it, then the envelope in its reader's hand, then the one
  its reader abandoned on cancellation (if any; the reader has then stopped), is *exactly* what
  its reader read from the peer.
So for a source object `i` and a destination object `j`, `out j` is in order the image of the
accepted (enqueued) subsequence of `wireIn i`. -/
theorem proxy_fifo_pair {cfg : Cfg} {s : State} (hr : Reachable cfg s) {j : Nat} {c : Conn}
    (hc : s.conns[j]? = some c) :
    c.out ++ c.lostW ++ inflightW c.w ++ c.queue = enqOf s.log j ∧
    (c.lostW ≠ [] → c.w = .reporting ∨ c.w = .exited) ∧
    c.out <+: enqOf s.log j ∧
    servedOf s.log j ++ pendR c.r ++ c.lostR = c.wireIn ∧
    (c.lostR ≠ [] → c.r = .exited) ∧
    servedOf s.log j <+: c.wireIn := by
  obtain ⟨_, h2, _, _⟩ := inv_reachable hr
  obtain ⟨a1, a2, _, a4, _, a6, a7, _⟩ := h2 j c hc
  refine ⟨a4 ▸ a1, a2, ?_, a6, a7, ?_⟩
  · rw [← a4, ← a1]; simp only [List.append_assoc]; exact List.prefix_append _ _
  · rw [← a6]; simp only [List.append_assoc]; exact List.prefix_append _ _

/-- **proxy_exactly_once_below_buffer.**  As long as no enqueue for object `j` found its queue
full (`c.dropped = []`), everything the serve loop routed to `j` is accounted for exactly once,
in order: written ++ failed write ++ in the writer's hand ++ queued.  (And the queue never
exceeds `clientBufferSize`.) -/
theorem proxy_exactly_once_below_buffer {cfg : Cfg} {s : State} (hr : Reachable cfg s) {j : Nat}
    {c : Conn} (hc : s.conns[j]? = some c) (hroom : c.dropped = []) :
    c.out ++ c.lostW ++ inflightW c.w ++ c.queue = routedOf s.log j ∧
    c.queue.length ≤ clientBufferSize := by
  obtain ⟨_, h2, _, _⟩ := inv_reachable hr
  obtain ⟨a1, _, a3, a4, a5, _⟩ := h2 j c hc
  refine ⟨?_, a3⟩
  rw [routedOf_eq_enqOf _ _ (a5 ▸ hroom), ← a4]; exact a1

/-- in general the drop history is exactly the serve loop's drops -/
theorem proxy_dropped_is_logged {cfg : Cfg} {s : State} (hr : Reachable cfg s) {j : Nat}
    {c : Conn} (hc : s.conns[j]? = some c) : c.dropped = dropOf s.log j :=
  ((inv_reachable hr).2.1 j c hc).2.2.2.2.1

/-- non-vacuity: two envelopes from `[1]` to `[2]`; the first is on the wire, the second is in
the writer's hand; a third from `[2]` to `[1]` sits in `[1]`'s queue -/
example : ∃ s, run {} init
      [.attach [1], .attach [2],
       .readerGet 0 { id := 1, header := some { src := [1], dst := [2] } },
       .cmdRpc 0 (some { src := [1], dst := [2] }) false,
       .readerGet 0 { id := 2, header := some { src := [1], dst := [2] } },
       .cmdRpc 0 (some { src := [1], dst := [2] }) false,
       .writerTake 1, .writerWrite 1 true, .writerTake 1,
       .readerGet 1 { id := 3, header := some { src := [2], dst := [1] } },
       .cmdRpc 1 (some { src := [2], dst := [1] }) false] = some s ∧
    s.conns.map (fun c => (c.out.map (·.id), (inflightW c.w).map (·.id), c.queue.map (·.id))) =
      [([], [], [3]), ([1], [2], [])] := by
  refine ⟨_, rfl, ?_⟩; decide

/-- **serve_step_never_blocks** (isolation).  Whatever the state of every queue, writer, reader
and dial — `s` is *any* state, not even a reachable one — if the serve loop is running and
object `i`'s reader offers a command, the serve step `cmdRpc i` is enabled, for every behaviour
of the interceptor: `forwardRpc` never waits for anybody (the enqueue is non-blocking). -/
theorem serve_step_never_blocks (cfg : Cfg) (s : State) (hp : s.panicked = none)
    (hserve : s.serve = .serving) {i : Nat} {c : Conn} {e : Env} (hc : s.conns[i]? = some c)
    (hr : c.r = .sending e) (ic : Option Header) (nn : Bool) :
    (step cfg s (.cmdRpc i ic nn)).isSome := by
  simp [step, hp, hserve, hc, hr]

/-- … and the step touches nothing but the sender's reader pc, the chosen destination object
and (on a dial) one new object: every other object is left exactly as it was. -/
theorem serve_step_isolated {cfg : Cfg} {s s' : State} {i ic nn}
    (hs : step cfg s (.cmdRpc i ic nn) = some s') (k : Nat) (hki : k ≠ i)
    (hkt : ∀ ev, s'.log = s.log ++ [ev] → ev.target ≠ some k) (hk : k < s.conns.length) :
    s'.conns[k]? = s.conns[k]? := by
  unfold step at hs; split at hs; (· contradiction)
  simp only at hs
  (repeat' split at hs) <;> (try contradiction) <;>
    (simp only [Option.some.injEq] at hs; subst hs) <;>
    (have hkt' := hkt _ rfl
     simp only at hkt' ⊢
     rw [forward_other _ _ _ _ _ _ k (by simpa using hk) hkt']
     exact List.getElem?_set_ne (fun h => hki h.symm))

/-! ### re-attachment, removal of failed connections -/

/-- **reattach_safe.**  With the identity comparison, processing the failure report of object `i`
never changes the table entry of any name that is registered to a *different* object — in
particular the entry of a newer connection attached under the same name. -/
theorem reattach_safe {cfg : Cfg} (hcfg : cfg.removeComparesIdentity = true) {s s' : State}
    {i : Nat} {who : Who} (hs : step cfg s (.cmdErr i who) = some s') {n : Bytes} {j : Nat}
    (hn : nget s.names n = some j) (hji : j ≠ i) : nget s'.names n = some j := by
  unfold step at hs; split at hs; (· contradiction)
  simp only at hs
  (repeat' split at hs) <;> (try contradiction) <;>
    (simp only [Option.some.injEq] at hs; subst hs) <;> simp only []
  · rename_i hget
    rw [nget_ndel]; split
    · rename_i h; rw [h, hget] at hn; simp at hn; exact absurd hn.symm hji
    · exact hn
  · exact hn

/-- non-vacuity / the scenario of the defect: `[1]` re-attaches (object 1) before the failure
of its old connection (object 0) is processed; the entry still points to object 1 afterwards -/
example : ∃ s, run {} init [.attach [1], .readerErr 0, .attach [1], .cmdErr 0 .reader] = some s ∧
    nget s.names [1] = some 1 ∧ s.disconnects = [([1], 0)] := by
  refine ⟨_, rfl, ?_⟩; decide

/-- negative witness for `removeComparesIdentity`: the same run removes the *new* connection;
the next envelope for `[1]` would go to a fresh dial -/
theorem bad_removeComparesIdentity :
    ∃ s, run { removeComparesIdentity := false } init
      [.attach [1], .readerErr 0, .attach [1], .cmdErr 0 .reader] = some s ∧
    nget s.names [1] = none ∧ (s.conns.map (·.r)) = [.exited, .reading] := by
  refine ⟨_, rfl, ?_⟩; decide

/-- **failed_conn_removed** (and reported).  When the serve loop processes the failure report of
object `i` (from its reader, writer or dialer) in a reachable state, afterwards no name is
routed to object `i`, that goroutine has returned, and `clientDisconnect(name, err)` has been
called once more, for it.  The report itself is enabled whenever the serve loop runs. -/
theorem failed_conn_removed {cfg : Cfg} {s s' : State} (hr : Reachable cfg s) {i : Nat} {who : Who}
    (hs : step cfg s (.cmdErr i who) = some s') :
    (∀ n, nget s'.names n ≠ some i) ∧
    (∃ c, s.conns[i]? = some c ∧ s'.disconnects = s.disconnects ++ [(c.name, i)] ∧
      s'.conns[i]? = some (reported c who)) := by
  obtain ⟨h1, _⟩ := inv_reachable hr
  unfold step at hs; split at hs; (· contradiction)
  simp only at hs
  split at hs <;> (try contradiction)
  split at hs <;> (try contradiction)
  rename_i c hc
  split at hs <;> (try contradiction)
  simp only [Option.some.injEq] at hs; subst hs
  have hlt := (List.getElem?_eq_some_iff.mp hc).1
  refine ⟨?_, c, hc, rfl, by simp [hlt]⟩
  intro n hn
  simp only at hn
  have key : ∀ m, nget s.names m = some i → m = c.name := by
    intro m hm
    obtain ⟨x, hx, hxn⟩ := h1 m i hm
    rw [hc] at hx; cases hx; exact hxn.symm
  split at hn
  · split at hn
    · rw [nget_ndel] at hn; split at hn
      · simp at hn
      · rename_i hne; exact hne (key n hn)
    · rename_i hne; have := key n hn; subst this; exact hne hn
  · rw [nget_ndel] at hn; split at hn
    · simp at hn
    · rename_i hne; exact hne (key n hn)

theorem failure_report_enabled (cfg : Cfg) (s : State) (hp : s.panicked = none)
    (hserve : s.serve = .serving) {i : Nat} {c : Conn} {who : Who} (hc : s.conns[i]? = some c)
    (hr : reporting c who = true) : (step cfg s (.cmdErr i who)).isSome := by
  simp [step, hp, hserve, hc, hr]

/-- non-vacuity: a write to `[2]` fails; it is removed and reported -/
example : ∃ s, run {} init
      [.attach [1], .attach [2],
       .readerGet 0 { id := 1, header := some { src := [1], dst := [2] } },
       .cmdRpc 0 (some { src := [1], dst := [2] }) false,
       .writerTake 1, .writerWrite 1 false, .cmdErr 1 .writer] = some s ∧
    nget s.names [2] = none ∧ s.disconnects = [([2], 1)] ∧ nget s.names [1] = some 0 := by
  refine ⟨_, rfl, ?_⟩; decide

/-! ### overflow -/

/-- the labels that push envelope number `k` from `[1]` (object 0) towards `[2]` -/
def push (k : Nat) : List Label :=
  [.readerGet 0 { id := k, header := some { src := [1], dst := [2] } },
   .cmdRpc 0 (some { src := [1], dst := [2] }) false]

/-- **proxy_drop_witness.**  Above the buffer an envelope is lost silently: `[2]`'s writer is
stuck (it never takes anything), 16 envelopes fill its queue, the 17th is dropped — the serve
loop's action is `drop`, the queue still holds the first 16, and nobody is told. -/
theorem proxy_drop_witness :
    ∃ s, run {} init ([.attach [1], .attach [2]] ++ (List.range 17).flatMap push) = some s ∧
    (s.conns.map (fun c => (c.queue.map (·.id), c.dropped.map (·.id)))) =
      [([], []), (List.range 16, [16])] ∧
    s.disconnects = [] ∧ s.panicked = none := by
  refine ⟨_, rfl, ?_⟩; decide

/-! ### shutdown -/

/-- the labels that are steps of object `i`'s own goroutines and of nobody else (no rendezvous
with the serve loop): the transport's `Read` / `Write` / the dial fail, a `ctx.Done()` case wins,
or a pending failure report is abandoned on `proxyCtx.Done()` -/
def ownLabels (i : Nat) : List Label :=
  [.readerErr i, .readerCtx i, .reportAbandon i .reader,
   .writerWrite i false, .writerCtx i, .reportAbandon i .writer,
   .dialDone i false, .reportAbandon i .dialer]

/-- **cancel_terminates_all (per process).**  With the context case in `report`, in *any*
non-panicked state in which the proxy's context is cancelled:
* a reader that has not returned has an own step that strictly decreases `rrank`
  (`Read` returns an error → the report is abandoned → return; or the `ctx.Done()` case of its
  command send);
* likewise a writer (`wrank`) and a dialer (`drank`);
* the serve loop, if running, can take its `ctx.Done()` case.
None of these steps needs any other goroutine (in particular not the serve loop, which may
already have returned). -/
theorem cancel_terminates_all {cfg : Cfg} (hcfg : cfg.errReportSelectsOnCtx = true) {s : State}
    (hcan : s.cancelled = true) (hp : s.panicked = none) :
    (∀ (i : Nat) (c : Conn), s.conns[i]? = some c →
      (0 < rrank c.r → ∃ l ∈ ownLabels i, ∃ s' c', step cfg s l = some s' ∧
          s' = { s with conns := s.conns.set i c' } ∧ rrank c'.r < rrank c.r ∧ c'.w = c.w ∧ c'.d = c.d) ∧
      (0 < wrank c.w → ∃ l ∈ ownLabels i, ∃ s' c', step cfg s l = some s' ∧
          s' = { s with conns := s.conns.set i c' } ∧ wrank c'.w < wrank c.w ∧ c'.r = c.r ∧ c'.d = c.d) ∧
      (0 < drank c.d → ∃ l ∈ ownLabels i, ∃ s' c', step cfg s l = some s' ∧
          s' = { s with conns := s.conns.set i c' } ∧ drank c'.d < drank c.d ∧ c'.r = c.r ∧ c'.w = c.w)) ∧
    (s.serve = .serving → ∃ s', step cfg s .serveExit = some s' ∧ s'.serve = .exited) := by
  refine ⟨?_, ?_⟩
  · intro i c hc
    have hlt := (List.getElem?_eq_some_iff.mp hc).1
    refine ⟨?_, ?_, ?_⟩
    · intro hpos
      cases hr : c.r with
      | notStarted => simp [hr, rrank] at hpos
      | exited => simp [hr, rrank] at hpos
      | reading =>
        refine ⟨.readerErr i, by simp [ownLabels], { s with conns := s.conns.set i ({ c with r := .reporting }) }, { c with r := .reporting },
          by simp [step, hp, hc, hr], rfl, by simp [rrank], rfl, rfl⟩
      | sending e =>
        refine ⟨.readerCtx i, by simp [ownLabels], { s with conns := s.conns.set i ({ c with r := .exited, lostR := c.lostR ++ [e] }) }, { c with r := .exited, lostR := c.lostR ++ [e] },
          by simp [step, hp, hc, hr, grpDone, hcan], rfl, by simp [rrank], rfl, rfl⟩
      | reporting =>
        refine ⟨.reportAbandon i .reader, by simp [ownLabels], { s with conns := s.conns.set i (reported c .reader) }, reported c .reader,
          by simp [step, hp, hc, hr, hcan, hcfg, reporting], rfl, by simp [rrank, reported], rfl, rfl⟩
    · intro hpos
      cases hw : c.w with
      | notStarted => simp [hw, wrank] at hpos
      | exited => simp [hw, wrank] at hpos
      | writing e =>
        refine ⟨.writerWrite i false, by simp [ownLabels], { s with conns := s.conns.set i ({ c with w := .reporting, lostW := c.lostW ++ [e] }) }, { c with w := .reporting, lostW := c.lostW ++ [e] },
          by simp [step, hp, hc, hw], rfl, by simp [wrank], rfl, rfl⟩
      | idle =>
        refine ⟨.writerCtx i, by simp [ownLabels], { s with conns := s.conns.set i ({ c with w := .exited }) }, { c with w := .exited },
          by simp [step, hp, hc, hw, grpDone, hcan], rfl, by simp [wrank], rfl, rfl⟩
      | reporting =>
        refine ⟨.reportAbandon i .writer, by simp [ownLabels], { s with conns := s.conns.set i (reported c .writer) }, reported c .writer,
          by simp [step, hp, hc, hw, hcan, hcfg, reporting], rfl, by simp [wrank, reported], rfl, rfl⟩
    · intro hpos
      cases hd : c.d with
      | attached => simp [hd, drank] at hpos
      | up => simp [hd, drank] at hpos
      | failed => simp [hd, drank] at hpos
      | dialing =>
        refine ⟨.dialDone i false, by simp [ownLabels], { s with conns := s.conns.set i ({ c with d := .reporting }) }, { c with d := .reporting },
          by simp [step, hp, hc, hd], rfl, by simp [drank], rfl, rfl⟩
      | reporting =>
        refine ⟨.reportAbandon i .dialer, by simp [ownLabels], { s with conns := s.conns.set i (reported c .dialer) }, reported c .dialer,
          by simp [step, hp, hc, hd, hcan, hcfg, reporting], rfl, by simp [drank, reported], rfl, rfl⟩
  · intro hs
    exact ⟨{ s with serve := .exited }, by simp [step, hp, hcan, hs], rfl⟩

/-- no goroutine of the proxy is left -/
def Quiescent (s : State) : Prop :=
  s.serve = .exited ∧
  ∀ (i : Nat) (c : Conn), s.conns[i]? = some c →
    (c.r = .exited ∨ c.r = .notStarted) ∧ (c.w = .exited ∨ c.w = .notStarted) ∧
    c.d ≠ .dialing ∧ c.d ≠ .reporting

/-- one more own step towards quiescence -/
theorem cancel_progress {cfg : Cfg} (hcfg : cfg.errReportSelectsOnCtx = true) {s : State}
    (hcan : s.cancelled = true) (hp : s.panicked = none) (hpos : 0 < totalRank s) :
    ∃ l s', (l = .serveExit ∨ ∃ i, l ∈ ownLabels i) ∧ step cfg s l = some s' ∧
      totalRank s' < totalRank s ∧ s'.cancelled = true ∧ s'.panicked = none := by
  cases hsv : s.serve with
  | serving =>
    refine ⟨.serveExit, { s with serve := .exited }, Or.inl rfl, by simp [step, hp, hcan, hsv], ?_,
      hcan, hp⟩
    simp [totalRank, srank, hsv]
  | exited =>
    have hsum : 0 < (s.conns.map connRank).sum := by
      simpa [totalRank, hsv, srank] using hpos
    obtain ⟨i, c, hc, hcr⟩ := exists_pos_of_sum_pos _ _ hsum
    have fin : ∀ (l : Label) (c' : Conn), l ∈ ownLabels i →
        step cfg s l = some { s with conns := s.conns.set i c' } → connRank c' < connRank c →
        ∃ l s', (l = .serveExit ∨ ∃ i, l ∈ ownLabels i) ∧ step cfg s l = some s' ∧
          totalRank s' < totalRank s ∧ s'.cancelled = true ∧ s'.panicked = none :=
      fun l c' hl hs' hlt =>
        ⟨l, _, Or.inr ⟨i, hl⟩, hs', totalRank_set_lt hc hlt, hcan, hp⟩
    have started : c.d = .attached ∨ c.d = .up →
        ∃ l s', (l = .serveExit ∨ ∃ i, l ∈ ownLabels i) ∧ step cfg s l = some s' ∧
          totalRank s' < totalRank s ∧ s'.cancelled = true ∧ s'.panicked = none := by
      intro hd
      have hsum2 := connRank_started hd
      cases hr : c.r with
      | reading =>
        refine fin (.readerErr i) { c with r := .reporting } (by simp [ownLabels])
          (by simp [step, hp, hc, hr]) ?_
        rw [hsum2, connRank_started (by exact hd)]; simp [rrank, hr]
      | sending e =>
        refine fin (.readerCtx i) { c with r := .exited, lostR := c.lostR ++ [e] } (by simp [ownLabels])
          (by simp [step, hp, hc, hr, grpDone, hcan]) ?_
        rw [hsum2, connRank_started (by exact hd)]; simp [rrank, hr]
      | reporting =>
        refine fin (.reportAbandon i .reader) (reported c .reader) (by simp [ownLabels])
          (by simp [step, hp, hc, hr, hcan, hcfg, reporting]) ?_
        rw [hsum2, connRank_started (by exact hd)]; simp [rrank, hr, reported]
      | exited =>
        cases hw : c.w with
        | writing e =>
          refine fin (.writerWrite i false) { c with w := .reporting, lostW := c.lostW ++ [e] }
            (by simp [ownLabels]) (by simp [step, hp, hc, hw]) ?_
          rw [hsum2, connRank_started (by exact hd)]; simp [wrank, hw]
        | idle =>
          refine fin (.writerCtx i) { c with w := .exited } (by simp [ownLabels])
            (by simp [step, hp, hc, hw, grpDone, hcan]) ?_
          rw [hsum2, connRank_started (by exact hd)]; simp [wrank, hw]
        | reporting =>
          refine fin (.reportAbandon i .writer) (reported c .writer) (by simp [ownLabels])
            (by simp [step, hp, hc, hw, hcan, hcfg, reporting]) ?_
          rw [hsum2, connRank_started (by exact hd)]; simp [wrank, hw, reported]
        | exited => simp [hsum2, hr, hw, rrank, wrank] at hcr
        | notStarted => simp [hsum2, hr, hw, rrank, wrank] at hcr
      | notStarted =>
        cases hw : c.w with
        | writing e =>
          refine fin (.writerWrite i false) { c with w := .reporting, lostW := c.lostW ++ [e] }
            (by simp [ownLabels]) (by simp [step, hp, hc, hw]) ?_
          rw [hsum2, connRank_started (by exact hd)]; simp [wrank, hw]
        | idle =>
          refine fin (.writerCtx i) { c with w := .exited } (by simp [ownLabels])
            (by simp [step, hp, hc, hw, grpDone, hcan]) ?_
          rw [hsum2, connRank_started (by exact hd)]; simp [wrank, hw]
        | reporting =>
          refine fin (.reportAbandon i .writer) (reported c .writer) (by simp [ownLabels])
            (by simp [step, hp, hc, hw, hcan, hcfg, reporting]) ?_
          rw [hsum2, connRank_started (by exact hd)]; simp [wrank, hw, reported]
        | exited => simp [hsum2, hr, hw, rrank, wrank] at hcr
        | notStarted => simp [hsum2, hr, hw, rrank, wrank] at hcr
    cases hd : c.d with
    | attached => exact started (Or.inl hd)
    | up => exact started (Or.inr hd)
    | failed => simp [connRank, hd] at hcr
    | dialing =>
      refine fin (.dialDone i false) { c with d := .reporting } (by simp [ownLabels])
        (by simp [step, hp, hc, hd]) ?_
      simp [connRank, hd]
    | reporting =>
      refine fin (.reportAbandon i .dialer) (reported c .dialer) (by simp [ownLabels])
        (by simp [step, hp, hc, hd, hcan, hcfg, reporting]) ?_
      simp [connRank, hd, reported]

/-- **cancel_terminates_all (global).**  With the context case in `report`, from any reachable,
non-panicked state in which the proxy's context is cancelled there is a run made only of own
steps of the proxy's goroutines (`serveExit` and `ownLabels`: no step of the environment is
needed beyond the transports' `Read`/`Write`/dial returning) after which no goroutine of the
proxy is left. -/
theorem cancel_terminates_all_global {cfg : Cfg} (hcfg : cfg.errReportSelectsOnCtx = true)
    {s : State} (hr : Reachable cfg s) (hcan : s.cancelled = true) (hp : s.panicked = none) :
    ∃ ls s', (∀ l ∈ ls, l = .serveExit ∨ ∃ i, l ∈ ownLabels i) ∧ run cfg s ls = some s' ∧
      Quiescent s' := by
  have main : ∀ (n : Nat) (s : State), totalRank s = n → Reachable cfg s → s.cancelled = true →
      s.panicked = none →
      ∃ ls s', (∀ l ∈ ls, l = .serveExit ∨ ∃ i, l ∈ ownLabels i) ∧ run cfg s ls = some s' ∧
        Reachable cfg s' ∧ totalRank s' = 0 := by
    intro n
    induction n using Nat.strongRecOn with
    | _ n ih =>
      intro s hn hr hcan hp
      by_cases hz : totalRank s = 0
      · exact ⟨[], s, by simp, rfl, hr, hz⟩
      · obtain ⟨l, s1, hl, hs1, hlt, hcan1, hp1⟩ := cancel_progress hcfg hcan hp (by omega)
        obtain ⟨ls, s2, hls, hrun, hr2, hz2⟩ :=
          ih (totalRank s1) (by omega) s1 rfl (reachable_step hr hs1) hcan1 hp1
        refine ⟨l :: ls, s2, ?_, by simp [run, hs1, hrun], hr2, hz2⟩
        intro x hx
        rcases List.mem_cons.mp hx with rfl | hx
        · exact hl
        · exact hls x hx
  obtain ⟨ls, s', hls, hrun, hr', hz⟩ := main _ s rfl hr hcan hp
  refine ⟨ls, s', hls, hrun, ?_, ?_⟩
  · cases hsv : s'.serve with
    | exited => rfl
    | serving => simp [totalRank, hsv, srank] at hz
  · intro i c hc
    obtain ⟨_, h2, _, _⟩ := inv_reachable hr'
    obtain ⟨_, _, _, _, _, _, _, hup, hdown⟩ := h2 i c hc
    have hcz : connRank c = 0 := by
      have hsum : (s'.conns.map connRank).sum = 0 := by
        simp only [totalRank] at hz; omega
      exact sum_zero_get _ _ hsum hc
    cases hd : c.d with
    | dialing => simp [connRank, hd] at hcz
    | reporting => simp [connRank, hd] at hcz
    | failed =>
      obtain ⟨h1, h2⟩ := hdown (Or.inr (Or.inr hd))
      simp [h1, h2]
    | attached =>
      rw [connRank_started (Or.inl hd)] at hcz
      exact ⟨rrank_zero (by omega), wrank_zero (by omega), by simp, by simp⟩
    | up =>
      rw [connRank_started (Or.inr hd)] at hcz
      exact ⟨rrank_zero (by omega), wrank_zero (by omega), by simp, by simp⟩

/-- every label that is a step of object `i`'s reader (alone or in a rendezvous) -/
def readerLabels (i : Nat) (e : Env) : List Label :=
  [.readerGet i e, .readerErr i, .cmdRpc i none false, .cmdRpc i e.header false, .readerCtx i,
   .cmdErr i .reader, .reportAbandon i .reader]

/-- non-vacuity: cancelled with a reader mid-report after the serve loop has returned, a writer
mid-write and a dial in progress; the whole proxy can still wind down -/
example : ∃ s, run {} init
      [.attach [1], .attach [2],
       .readerGet 0 { id := 1, header := some { src := [1], dst := [2] } },
       .cmdRpc 0 (some { src := [1], dst := [2] }) false,
       .readerGet 0 { id := 2, header := some { src := [1], dst := [3] } },
       .cmdRpc 0 (some { src := [1], dst := [3] }) false,
       .writerTake 1, .cancel, .serveExit, .readerErr 0] = some s ∧
    s.cancelled = true ∧ s.serve = .exited ∧
    s.conns.map (fun c => (c.d, c.r, c.w)) =
      [(.attached, .reporting, .idle),
       (.attached, .reading, .writing { id := 1, header := some { src := [1], dst := [2], record := [[]] } }),
       (.dialing, .notStarted, .notStarted)] ∧
    (step {} s (.reportAbandon 0 .reader)).isSome ∧ totalRank s = 12 := by
  refine ⟨_, rfl, ?_⟩; decide

/-- negative witness for `errReportSelectsOnCtx`: the proxy is cancelled, the serve loop
returns, the transport read fails (as it must on a cancelled context) — and the reader is stuck
for ever in the bare `c.toServer <- command{err}`: no step of the reader is enabled, and none
ever will be, because the only partner (the serve loop) is gone. -/
theorem bad_errReportSelectsOnCtx :
    ∃ s, run { errReportSelectsOnCtx := false } init
      [.attach [1], .cancel, .serveExit, .readerErr 0] = some s ∧
    s.serve = .exited ∧ s.conns.map (·.r) = [.reporting] ∧
    (readerLabels 0 { id := 7, header := some { src := [1] } }).all
      (fun l => (step { errReportSelectsOnCtx := false } s l).isNone) = true := by
  refine ⟨_, rfl, ?_⟩; decide

/-! ### observations (not among the 20 properties; see REPORT.md) -/

/-- One failing connection can be reported to `clientDisconnect` twice: its reader reports, the
reader's return cancels the errgroup context, the writer's `Write(ctx, …)` then fails and the
writer reports too. -/
theorem double_disconnect_witness :
    ∃ s, run {} init
      [.attach [1], .attach [2],
       .readerGet 0 { id := 1, header := some { src := [1], dst := [2] } },
       .cmdRpc 0 (some { src := [1], dst := [2] }) false,
       .writerTake 1, .readerErr 1, .cmdErr 1 .reader, .writerWrite 1 false, .cmdErr 1 .writer]
      = some s ∧
    s.disconnects = [([2], 1), ([2], 1)] := by
  refine ⟨_, rfl, ?_⟩; decide

/-- Envelopes accepted for a destination that is dialled on demand are lost without a `drop`
event, and without any notice to their sender, when the dial fails: they stay in the queue of an
object no goroutine will ever serve. -/
theorem failed_dial_strands_queue :
    ∃ s, run {} init
      [.attach [1],
       .readerGet 0 { id := 1, header := some { src := [1], dst := [3] } },
       .cmdRpc 0 (some { src := [1], dst := [3] }) false,
       .dialDone 1 false, .cmdErr 1 .dialer] = some s ∧
    s.conns.map (fun c => (c.d, c.w, c.queue.map (·.id), c.dropped)) =
      [(.attached, .idle, [], []), (.failed, .notStarted, [1], [])] ∧
    s.log.map (·.action) =
      [.enqueue [3] { id := 1, header := some { src := [1], dst := [3], record := [[]] } }] := by
  refine ⟨_, rfl, ?_⟩; decide

end Goat.Proxy
