/-
  Common vocabulary of the GOAT models (DESIGN.md section 3).

  Byte strings are lists of naturals; a *byte* is a natural below 256 and the
  few theorems that need that bound (base64) carry it as an explicit,
  decidable hypothesis `Bytes.WF`.  Go strings are byte strings, so header
  keys, values, method names and payloads are all `Bytes`.
-/
namespace Goat

abbrev Bytes := List Nat

def Bytes.WF (bs : Bytes) : Prop := ∀ b ∈ bs, b < 256

instance (bs : Bytes) : Decidable (Bytes.WF bs) := by unfold Bytes.WF; infer_instance

/-- ASCII lower-casing of one byte (`strings.ToLower` restricted to ASCII). -/
def lowerByte (b : Nat) : Nat := if 65 ≤ b ∧ b ≤ 90 then b + 32 else b

def lower (bs : Bytes) : Bytes := bs.map lowerByte

theorem lowerByte_idem (b : Nat) : lowerByte (lowerByte b) = lowerByte b := by
  unfold lowerByte; split <;> simp <;> omega

@[simp] theorem lower_idem (bs : Bytes) : lower (lower bs) = lower bs := by
  simp [lower, lowerByte_idem]

@[simp] theorem lower_length (bs : Bytes) : (lower bs).length = bs.length := by simp [lower]

/-- `strings.HasSuffix`. -/
def hasSuffix (s suf : Bytes) : Bool := suf.isSuffixOf s

/-- "-bin" -/
def binSuffix : Bytes := [45, 98, 105, 110]

/-- the test both directions of the metadata codec use: lower-cased key ends in "-bin" -/
def isBinKey (k : Bytes) : Bool := hasSuffix (lower k) binSuffix

theorem isBinKey_lower (k : Bytes) : isBinKey (lower k) = isBinKey k := by simp [isBinKey]

/-- goatorepo.KeyValue -/
structure KV where
  key : Bytes
  value : Bytes
  deriving DecidableEq, Repr, Inhabited

/-- goatorepo.RequestHeader -/
structure Header where
  method : Bytes := []
  src : Bytes := []
  dst : Bytes := []
  headers : List KV := []
  record : List Bytes := []
  next : List Bytes := []
  deriving DecidableEq, Repr, Inhabited

/-- goatorepo.ResponseStatus (details are opaque byte strings: type-url ++ value) -/
structure Status where
  code : Int := 0
  message : Bytes := []
  details : List Bytes := []
  deriving DecidableEq, Repr, Inhabited

/-- goatorepo.Rpc: the envelope -/
structure Env where
  id : Nat := 0
  header : Option Header := none
  status : Option Status := none
  body : Option Bytes := none
  trailer : Option (List KV) := none
  reset : Option Bytes := none
  deriving DecidableEq, Repr, Inhabited

/-- "RST_STREAM" -/
def rstStream : Bytes := [82, 83, 84, 95, 83, 84, 82, 69, 65, 77]

end Goat
