/-
  client.go headersFromContext: the header list of a request is the caller's outgoing metadata
  (internal.ToKeyValue, in map iteration order) followed, when the context has a deadline, by ONE
  entry "GRPC-Timeout" = "<ms>m". Model + the lemmas the C04 / C08 request-side theorems need.
  Tie: lock-step ops `tokv` (the metadata part, computed from a context that also has a deadline) and
  `encbetween` (the timeout entry) in harness c04.go / c08.go.
-/
import Goat.Metadata
import Goat.Timeout
namespace Goat.ReqHeaders
open Goat Goat.Metadata Goat.Timeout

/-- "GRPC-Timeout", the spelling the client writes -/
def timeoutHdrKey : Bytes := [71, 82, 80, 67, 45, 84, 105, 109, 101, 111, 117, 116]

theorem lower_timeoutHdrKey : lower timeoutHdrKey = timeoutKey := by decide

theorem timeoutKey_not_bin : isBinKey timeoutHdrKey = false := by decide

/-- headersFromContext; `remaining` is `time.Until(deadline)` in ns when the context has a deadline -/
def headersFromContext (md : MD) (remaining : Option Int) : List KV :=
  toKeyValue md ++
    (match remaining with
     | none => []
     | some r => [{ key := timeoutHdrKey, value := encodeTimeout r }])

theorem toMetadata_append (a b : List KV) :
    toMetadata (a ++ b) = (toMetadata a).bind (fun a' => (toMetadata b).map (fun b' => a' ++ b')) := by
  induction a with
  | nil => simp [toMetadata]
  | cons h t ih =>
    simp only [List.cons_append, toMetadata]
    cases hd : decValue (lower h.key) h.value with
    | none => simp
    | some v =>
      simp only [ih]
      cases toMetadata t <;> simp
      cases toMetadata b <;> simp

theorem toMetadata_timeout_entry (v : Bytes) :
    toMetadata [{ key := timeoutHdrKey, value := v }] = some [(timeoutKey, [v])] := by
  have hb : isBinKey timeoutKey = false := by decide
  simp [toMetadata, decValue, hb, lower_timeoutHdrKey]

theorem toKeyValue_keys (md : MD) (x : KV) (hx : x ∈ toKeyValue md) : ∃ p ∈ md, x.key = p.1 := by
  unfold toKeyValue at hx
  simp only [List.mem_flatMap, List.mem_map] at hx
  obtain ⟨p, hp, v, _, rfl⟩ := hx
  exact ⟨p, hp, rfl⟩

end Goat.ReqHeaders
