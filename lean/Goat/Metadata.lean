/-
  internal/util.go: ToKeyValue / ToMetadata, and grpc's metadata.Join.

  A `metadata.MD` (Go `map[string][]string`) is modelled as a *log of entries*
  `List (key × values)`; its meaning is the lookup function `get`, which
  concatenates the values of all entries with the given key in list order.
  `metadata.Join` is then list concatenation, and iterating a Go map in its
  arbitrary order is "the entries in some order": theorems quantify over all
  entry lists, hence over all iteration orders.
-/
import Goat.Base64
namespace Goat.Metadata
open Goat

abbrev MD := List (Bytes × List Bytes)

def get (md : MD) (k : Bytes) : List Bytes := (md.filter (fun p => p.1 = k)).flatMap (·.2)

/-- metadata.Join -/
def join (mds : List MD) : MD := mds.flatten

def encValue (k v : Bytes) : Bytes := if isBinKey k then Base64.encode v else v

/-- internal.ToKeyValue applied to the entries of the (joined) map in iteration order -/
def toKeyValue (md : MD) : List KV :=
  md.flatMap (fun p => p.2.map (fun v => { key := p.1, value := encValue p.1 v }))

def decValue (k v : Bytes) : Option Bytes := if isBinKey k then Base64.decode v else some v

/-- internal.ToMetadata; `none` is the error return -/
def toMetadata : List KV → Option MD
  | [] => some []
  | h :: t =>
    match decValue (lower h.key) h.value with
    | none => none
    | some v => (toMetadata t).map (fun md => (lower h.key, [v]) :: md)

/-- every value stored under a binary key is a byte string -/
def BinWF (md : MD) : Prop := ∀ p ∈ md, isBinKey p.1 = true → ∀ v ∈ p.2, Bytes.WF v

@[simp] theorem get_nil (k : Bytes) : get [] k = [] := rfl

theorem get_cons (p : Bytes × List Bytes) (md : MD) (k : Bytes) :
    get (p :: md) k = (if p.1 = k then p.2 else []) ++ get md k := by
  unfold get; by_cases h : p.1 = k <;> simp [h]

theorem get_append (a b : MD) (k : Bytes) : get (a ++ b) k = get a k ++ get b k := by
  simp [get, List.filter_append, List.flatMap_append]

/-- metadata.Join keeps, per key, the values of its arguments in call order -/
theorem get_join (mds : List MD) (k : Bytes) : get (join mds) k = mds.flatMap (fun md => get md k) := by
  induction mds with
  | nil => rfl
  | cons a t ih => simp [join, get_append] at *; rw [ih]

theorem toKeyValue_cons (p : Bytes × List Bytes) (md : MD) :
    toKeyValue (p :: md) = p.2.map (fun v => { key := p.1, value := encValue p.1 v }) ++ toKeyValue md := by
  simp [toKeyValue]

theorem dec_enc_value (k v : Bytes) (h : isBinKey k = true → Bytes.WF v) :
    decValue (lower k) (encValue k v) = some v := by
  unfold decValue encValue
  rw [isBinKey_lower]
  by_cases hb : isBinKey k = true
  · simp [hb, Base64.roundtrip v (h hb)]
  · simp [hb]

/-- decoding the key/values of a single entry -/
theorem toMetadata_entry (k : Bytes) (vs : List Bytes) (rest : List KV) (md' : MD)
    (h : isBinKey k = true → ∀ v ∈ vs, Bytes.WF v) (hr : toMetadata rest = some md') :
    toMetadata (vs.map (fun v => ({ key := k, value := encValue k v } : KV)) ++ rest)
      = some (vs.map (fun v => (lower k, [v])) ++ md') := by
  induction vs with
  | nil => simpa using hr
  | cons v vs ih =>
    have hv := dec_enc_value k v (fun hb => h hb v (by simp))
    have := ih (fun hb x hx => h hb x (by simp [hx]))
    simp [toMetadata, hv, this]

/-- the decoded form of `toKeyValue md`, explicitly -/
def lowered (md : MD) : MD := md.flatMap (fun p => p.2.map (fun v => (lower p.1, [v])))

theorem toMetadata_toKeyValue (md : MD) (h : BinWF md) : toMetadata (toKeyValue md) = some (lowered md) := by
  induction md with
  | nil => rfl
  | cons p md ih =>
    have ih' := ih (fun q hq => h q (by simp [hq]))
    rw [toKeyValue_cons]
    have := toMetadata_entry p.1 p.2 (toKeyValue md) (lowered md) (fun hb => h p (by simp) hb) ih'
    rw [this]; simp [lowered]

theorem get_singletons (k k' : Bytes) (vs : List Bytes) :
    get (vs.map (fun v => (k, [v]))) k' = if k = k' then vs else [] := by
  induction vs with
  | nil => simp
  | cons v vs ih => rw [List.map_cons, get_cons, ih]; by_cases h : k = k' <;> simp [h]

theorem get_lowered (md : MD) (k' : Bytes) :
    get (lowered md) k' = (md.filter (fun p => lower p.1 = k')).flatMap (·.2) := by
  induction md with
  | nil => rfl
  | cons p md ih =>
    have : lowered (p :: md) = p.2.map (fun v => (lower p.1, [v])) ++ lowered md := by simp [lowered]
    rw [this, get_append, ih, get_singletons]
    by_cases h : lower p.1 = k' <;> simp [h]

/-- keys of the log are pairwise different even after lower-casing (I3: what the generator produces) -/
def CaseDistinct (md : MD) : Prop := ∀ p ∈ md, ∀ q ∈ md, lower p.1 = lower q.1 → p.1 = q.1

theorem ToMetadata_error_iff (kvs : List KV) :
    toMetadata kvs = none ↔ ∃ h ∈ kvs, decValue (lower h.key) h.value = none := by
  induction kvs with
  | nil => simp [toMetadata]
  | cons h t ih =>
    simp only [toMetadata]
    cases hd : decValue (lower h.key) h.value with
    | none => simp [hd]
    | some v =>
      simp only [Option.map_eq_none_iff, ih, List.mem_cons, exists_eq_or_imp, hd]
      simp

end Goat.Metadata
