/-
  Second half of the invariants of the client-stream model: the finishing block and the wire,
  the other user calls, stickiness of the terminal result, progress; and the bundle `Inv`.
-/
import Goat.ClientStreamProofs

namespace Goat.ClientStream

/-! ## The finishing block and the wire -/

/-- What the finishing block has logged when the read loop is at a given pc. -/
def expectedLog : Rl → Bool → List FinEv
  | .fin1, _ => [.closeRCh]
  | .fin2, _ => [.closeRCh, .rst]
  | .fin3, true => [.closeRCh, .rst, .unreg]
  | .fin3, false => [.closeRCh, .unreg]
  | .fin4, true => [.closeRCh, .rst, .unreg, .cancel]
  | .fin4, false => [.closeRCh, .unreg, .cancel]
  | .exited, true => [.closeRCh, .rst, .unreg, .cancel, .done]
  | .exited, false => [.closeRCh, .unreg, .cancel, .done]
  | _, _ => []

def Wire (s : State) : Prop :=
  s.finLog = expectedLog s.rl s.rstSent ∧
  s.wireOut.count .reset = (if s.rstSent = true then 1 else 0) ∧
  s.unregs = s.finLog.count .unreg + s.sendResults.count .writeErr

theorem wire_init : Wire init := by
  simp [Wire, init, expectedLog]

theorem wire_step (cfg : Cfg) (s s' : State) (l : Label) (hc : Core cfg s) (hi : Wire s)
    (hs : step cfg s l = some s') : Wire s' := by
  have c12 := hc.2.2.2.2.2.2.2.2.2.2.2.1
  have c13 := hc.2.2.2.2.2.2.2.2.2.2.2.2.1
  clear hc
  unfold Wire at *
  cases l
  all_goals (step_cases hs)
  all_goals (cases hr : s.rstSent <;> simp_all [expectedLog, List.count_append])
  all_goals (try omega)
  all_goals (rename_i h; rcases h with h | h <;> simp_all <;> omega)

/-! ## Header(), Trailer(), CloseSend, SendMsg -/

def Misc (cfg : Cfg) (s : State) : Prop :=
  (∀ hr ∈ s.headerResults, hr = (s.headerSet, s.headerErr) ∧ s.ready = true) ∧
  (cfg.trailerNoPanic = true → ∀ r ∈ s.trailerResults, r ≠ .panic) ∧
  (cfg.closeSendNoopWhenDone = true →
      (∀ c ∈ s.closeResults, c.1 = true → c.2 = true) ∧
      (match s.snd with | .closeChecked d => d = false | _ => True)) ∧
  (∀ r ∈ s.sendResults, match r with | .rErr t => s.done = true ∧ s.rErr = t | _ => True)

theorem trailerResult_noPanic (cfg : Cfg) (o : Option Bool) (h : cfg.trailerNoPanic = true) :
    trailerResult cfg o ≠ .panic := by
  cases o with
  | none => simp [trailerResult]
  | some b => cases b <;> simp [trailerResult, h]

theorem misc_init (cfg : Cfg) : Misc cfg init := by
  simp [Misc, init]

theorem misc_step (cfg : Cfg) (s s' : State) (l : Label) (hc : Core cfg s) (hi : Misc cfg s)
    (hs : step cfg s l = some s') : Misc cfg s' := by
  unfold Core at hc
  unfold Misc at *
  cases l <;> step_cases hs <;> grind [trailerResult_noPanic]

/-! ## Once the stream is done, every `RecvMsg` reports the same thing -/

/-- After `done`, nothing changes `done`/`rErr`, and the only thing `RecvMsg` can return is `rErr`
(before the repair: or the context error, for the one call that was already at its select). -/
theorem done_step (cfg : Cfg) (s s' : State) (l : Label) (hc : Core cfg s) (hd : s.done = true)
    (hs : step cfg s l = some s') :
    s'.done = true ∧ s'.rErr = s.rErr ∧ s'.pending = s.pending ∧ s'.inbox = s.inbox ∧
    s'.wireOut.count .reset = s.wireOut.count .reset ∧ s'.finLog = s.finLog ∧
    (s'.recvResults = s.recvResults ∨ s'.recvResults = s.recvResults ++ [resOfRErr s.rErr] ∨
      (cfg.recvRechecksDoneOnCtx = false ∧ s.recv = .checked ∧
        s'.recvResults = s.recvResults ++ [.err .ctxErr])) := by
  unfold Core at hc
  cases l <;> step_cases hs <;> simp_all [List.count_append]

/-- A result that is not the context error and not a message: a terminal status. -/
def Res.isTerminal : Res → Bool
  | .err t => t != .ctxErr
  | .nilNoMsg => true
  | _ => false

/-- In a list of results: after a terminal status, only that same status. -/
def StickyL (l : List Res) : Prop :=
  ∀ pre r post, l = pre ++ r :: post → r.isTerminal = true → ∀ x ∈ post, x = r

theorem stickyL_snoc (l : List Res) (x : Res) (hs : StickyL l)
    (hx : ∀ r ∈ l, r.isTerminal = true → x = r) : StickyL (l ++ [x]) := by
  intro pre r post heq hr y hy
  rcases List.eq_nil_or_concat post with hp | ⟨post', z, hp⟩
  · subst hp; simp at hy
  · rw [List.concat_eq_append] at hp
    subst hp
    have h2 : l ++ [x] = (pre ++ r :: post') ++ [z] := by simp [heq]
    have h3 := List.append_inj' h2 rfl
    obtain ⟨hl, hz⟩ := h3
    simp at hz; subst hz
    rcases List.mem_append.1 hy with hy | hy
    · exact hs pre r post' hl hr y hy
    · simp at hy; subst hy
      exact hx r (by rw [hl]; simp) hr

/-- Stickiness, and: a call that passed its done-check has no terminal result before it. -/
def Sticky (s : State) : Prop :=
  StickyL s.recvResults ∧ (s.recv = .checked → ∀ r ∈ s.recvResults, r.isTerminal = true → False)

theorem sticky_init : Sticky init := by
  refine ⟨?_, by simp [init]⟩
  intro pre r post h; simp [init] at h

theorem terminal_res_done (cfg : Cfg) (s : State) (hc : Core cfg s) (r : Res) (hr : ResOk cfg s r)
    (ht : r.isTerminal = true) : s.done = true ∧ r = resOfRErr s.rErr := by
  unfold Core at hc
  cases r <;> simp_all [ResOk, Res.isTerminal, resOfRErr] <;> grind

theorem recv_append_cases (cfg : Cfg) (s s' : State) (l : Label) (hc : Core cfg s)
    (hs : step cfg s l = some s') :
    (s'.recvResults = s.recvResults ∧ (s'.recv = .checked → s.recv = .checked ∨ s.done = false)) ∨
    ∃ x, s'.recvResults = s.recvResults ++ [x] ∧ s'.recv = .idle ∧
      (s.done = true → x = resOfRErr s.rErr ∨ s.recv = .checked) := by
  unfold Core at hc
  cases l <;> step_cases hs <;> simp_all

theorem sticky_step (cfg : Cfg) (s s' : State) (l : Label) (hc : Core cfg s) (hr : ResAll cfg s)
    (hi : Sticky s) (hs : step cfg s l = some s') : Sticky s' := by
  unfold Sticky at *
  obtain ⟨hi1, hi2⟩ := hi
  rcases recv_append_cases cfg s s' l hc hs with ⟨h, hk⟩ | ⟨x, h, hidle, hx⟩
  · rw [h]; refine ⟨hi1, ?_⟩
    intro hck r hm ht
    rcases hk hck with hk | hk
    · exact hi2 hk r hm ht
    · have := (terminal_res_done cfg s hc r (hr.1 r hm) ht).1
      simp [hk] at this
  · rw [h]; refine ⟨?_, by simp [hidle]⟩
    apply stickyL_snoc _ _ hi1
    intro r hm ht
    obtain ⟨hd, hre⟩ := terminal_res_done cfg s hc r (hr.1 r hm) ht
    rcases hx hd with hx | hx
    · rw [hx, hre]
    · exact (hi2 hx r hm ht).elim

/-! ## Progress -/

/-- While the read loop holds the stream mutex its next step is enabled, whatever the others do,
and it moves strictly towards `exited`. -/
theorem fin_progress (cfg : Cfg) (s : State) (hc : Core cfg s) (hm : s.mu = true) :
    ∃ s', step cfg s (nextFin s) = some s' ∧ s.rl.rank < s'.rl.rank := by
  have h1 := hc.1.1 hm
  have hex : ∃ s', step cfg s (nextFin s) = some s' := by
    rcases h1 with h | h | h | h | h
    · simp [nextFin, step, h]
    · by_cases hr : s.trailerLocal = none ∧ s.ctxDone = true
      · simp [nextFin, step, h, hr]
      · simp only [nextFin, h, if_neg hr, step]; simp [hr]
    · simp [nextFin, step, h]
    · simp [nextFin, step, h]
    · simp [nextFin, step, h]
  obtain ⟨s', hs'⟩ := hex
  refine ⟨s', hs', ?_⟩
  rcases h1 with h | h | h | h | h
  · simp [nextFin, step, h] at hs'; subst hs'; simp [Rl.rank, h]
  · by_cases hr : s.trailerLocal = none ∧ s.ctxDone = true
    · simp [nextFin, step, h, hr] at hs'; subst hs'; simp [Rl.rank, h]
    · simp only [nextFin, h, if_neg hr, step] at hs'; simp [hr] at hs'; subst hs'; simp [Rl.rank, h]
  · simp [nextFin, step, h] at hs'; subst hs'; simp [Rl.rank, h]
  · simp [nextFin, step, h] at hs'; subst hs'; simp [Rl.rank, h]
  · simp [nextFin, step, h] at hs'; subst hs'; simp [Rl.rank, h]

/-- A `RecvMsg` parked at its select with the context done can complete as soon as the stream
mutex is free. -/
theorem recvCtx_enabled (cfg : Cfg) (s : State) (hr : s.recv = .checked) (hx : s.ctxDone = true)
    (hm : s.mu = false) :
    ∃ s', step cfg s .recvCtx = some s' ∧ s'.recv = .idle ∧
      (s'.recvResults = s.recvResults ++ [.err .ctxErr] ∨
       (s.done = true ∧ s'.recvResults = s.recvResults ++ [resOfRErr s.rErr])) := by
  simp only [step, hr, hx, hm, and_self, if_true]
  cases cfg.recvRechecksDoneOnCtx <;> cases hd : s.done <;> simp

/-- `Header()` returns as soon as the latch is released and the mutex is free. -/
theorem headerWait_enabled (cfg : Cfg) (s : State) (hr : s.ready = true) (hm : s.mu = false) :
    (step cfg s .headerWait).isSome = true := by
  simp [step, hr, hm]

/-! ## Reading the specification functions -/

theorem decide1_none_of_not_terminal (cfg : Cfg) (f : Bool) (e : InEnv)
    (h : isTerminal cfg f e = false) : decide1 cfg f e = none := by
  rw [isTerminal_eq_decide1] at h
  cases hd : decide1 cfg f e <;> simp_all

/-- The terminal verdict is the verdict on the first terminal envelope. -/
theorem specTerminal_some_iff (cfg : Cfg) (f : Bool) (es : List InEnv) (p : Option Term) :
    specTerminal cfg f es = some p ↔
      ∃ pre e post, es = pre ++ e :: post ∧ live cfg f pre = true ∧
        decide1 cfg (f && pre.isEmpty) e = some p := by
  induction es generalizing f with
  | nil => simp [specTerminal]
  | cons x xs ih =>
    constructor
    · intro h
      simp only [specTerminal] at h
      cases hd : decide1 cfg f x with
      | some q =>
        rw [hd] at h; simp at h; subst h
        exact ⟨[], x, xs, rfl, by simp [live], by simpa using hd⟩
      | none =>
        rw [hd] at h; simp only at h
        obtain ⟨pre, e, post, he, hl, hdec⟩ := (ih false).1 h
        refine ⟨x :: pre, e, post, by simp [he], ?_, by simpa using hdec⟩
        simp [live, hl, isTerminal_eq_decide1, hd]
    · rintro ⟨pre, e, post, he, hl, hdec⟩
      cases pre with
      | nil =>
        simp at he; obtain ⟨rfl, rfl⟩ := he
        simp at hdec
        simp [specTerminal, hdec]
      | cons y ys =>
        simp at he; obtain ⟨rfl, rfl⟩ := he
        simp only [live, Bool.and_eq_true, Bool.not_eq_eq_eq_not, Bool.not_true] at hl
        have h1 := decide1_none_of_not_terminal cfg f x hl.1
        simp only [specTerminal, h1]
        exact (ih false).2 ⟨ys, e, post, rfl, hl.2, by simpa using hdec⟩

/-- When is the verdict on one envelope `io.EOF`. -/
theorem decide1_eof_iff (cfg : Cfg) (f : Bool) (e : InEnv) :
    decide1 cfg f e = some (some .eof) ↔
      ¬(f = true ∧ e.metaBad = true) ∧ e.trailer = true ∧ e.code = 0 ∧
      ¬(cfg.resetIsError = true ∧ e.reset = true) := by
  unfold decide1 errorIfDone
  by_cases h1 : f = true ∧ e.metaBad = true
  · simp [h1]
  · simp only [if_neg h1]
    by_cases h2 : cfg.resetIsError = true ∧ e.reset = true
    · simp [h1, h2]
    · simp only [if_neg h2]
      by_cases h3 : e.trailer = false
      · simp [h1, h2, h3]
      · by_cases h4 : e.code = 0 <;> simp_all

theorem live_mem (cfg : Cfg) (f : Bool) (es : List InEnv) (hl : live cfg f es = true) :
    ∀ e ∈ es, errorIfDone cfg e = none := by
  induction es generalizing f with
  | nil => simp
  | cons x xs ih =>
    simp only [live, Bool.and_eq_true, Bool.not_eq_eq_eq_not, Bool.not_true] at hl
    intro e he
    rcases List.mem_cons.1 he with rfl | he
    · have := hl.1; unfold isTerminal at this
      cases h : errorIfDone cfg e <;> simp_all
    · exact ih false hl.2 e he

/-- Every specified body is the body of one of the envelopes. -/
theorem specBodies_mem (cfg : Cfg) (f : Bool) (es : List InEnv) (b : Bytes)
    (h : b ∈ specBodies cfg f es) : ∃ e ∈ es, e.body = some b := by
  induction es generalizing f with
  | nil => simp [specBodies] at h
  | cons x xs ih =>
    simp only [specBodies] at h
    split at h
    · simp at h
    · rcases List.mem_append.1 h with h | h
      · exact ⟨x, by simp, by cases hb : x.body <;> simp_all⟩
      · obtain ⟨e, he, hb⟩ := ih false h
        exact ⟨e, by simp [he], hb⟩

/-! ## After the finishing block unregistered -/

theorem after_unreg_step (cfg : Cfg) (s s' : State) (l : Label) (hc : Core cfg s)
    (hr : 5 ≤ s.rl.rank) (hs : step cfg s l = some s') :
    5 ≤ s'.rl.rank ∧ s'.rstSent = s.rstSent := by
  unfold Core at hc
  cases l <;> step_cases hs <;> simp_all [Rl.rank]

/-- The steps of the finishing block do not touch the receiver, and the context stays done. -/
theorem nextFin_frame (cfg : Cfg) (s s' : State) (hm : s.mu = true) (hc : Core cfg s)
    (hs : step cfg s (nextFin s) = some s') :
    s'.recv = s.recv ∧ s'.recvResults = s.recvResults ∧ (s.ctxDone = true → s'.ctxDone = true) := by
  have h1 := hc.1.1 hm
  rcases h1 with h | h | h | h | h
  · simp [nextFin, step, h] at hs; subst hs; simp
  · by_cases hr : s.trailerLocal = none ∧ s.ctxDone = true
    · simp [nextFin, step, h, hr] at hs; subst hs; simp
    · simp only [nextFin, h, if_neg hr, step] at hs; simp [hr] at hs; subst hs; simp
  · simp [nextFin, step, h] at hs; subst hs; simp
  · simp [nextFin, step, h] at hs; subst hs; simp
  · simp [nextFin, step, h] at hs; subst hs; simp

/-! ## The bundle -/

structure Inv (cfg : Cfg) (s : State) : Prop where
  core : Core cfg s
  seq : Seq cfg s
  term : TermI cfg s
  res : ResAll cfg s
  tr : TrI s
  wire : Wire s
  misc : Misc cfg s
  sticky : Sticky s

theorem inv_init (cfg : Cfg) : Inv cfg init :=
  ⟨core_init cfg, seq_init cfg, termI_init cfg, resAll_init cfg, trI_init, wire_init, misc_init cfg,
   sticky_init⟩

theorem inv_step (cfg : Cfg) (s s' : State) (l : Label) (hi : Inv cfg s)
    (hs : step cfg s l = some s') : Inv cfg s' :=
  ⟨core_step cfg s s' l hi.core hs,
   seq_step cfg s s' l hi.seq hs,
   termI_step cfg s s' l hi.core hi.seq hi.term hs,
   resAll_step cfg s s' l hi.core hi.seq hi.res hs,
   trI_step cfg s s' l hi.tr hs,
   wire_step cfg s s' l hi.core hi.wire hs,
   misc_step cfg s s' l hi.core hi.misc hs,
   sticky_step cfg s s' l hi.core hi.res hi.sticky hs⟩

theorem inv_of_run (cfg : Cfg) (ls : List Label) (s s' : State) (hi : Inv cfg s)
    (h : run cfg s ls = some s') : Inv cfg s' :=
  inv_run cfg (inv_step cfg) ls s s' hi h

theorem inv_of_reachable (cfg : Cfg) (s : State) (hr : Reachable cfg s) : Inv cfg s :=
  inv_reachable cfg (inv_init cfg) (inv_step cfg) s hr

end Goat.ClientStream
