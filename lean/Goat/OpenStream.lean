/-
  `ClientConn.newStream` (/repo/client.go) — the sequential program that opens a client stream,
  transcribed statement by statement. Core Lean only (the driver replays it: op `openstream`).

      id, rw, teardown, err := cc.mp.NewStreamReadWriter(ctx)   -- registers the handler, or fails (connection dead)
      if err != nil { return nil, err }
      … stats Begin …                                            -- per stats handler
      defer func() { if err != nil { … stats End{Error: err} … } }()
      err = rw.Write(ctx, &rpc)                                  -- the opening envelope
      if err != nil { teardown(); return nil, err }              -- flag openFailureTearsDown (pre-repair: no teardown)
      … stats OutHeader …
      return client.NewStream(…)                                 -- starts the read loop, which owns the registration from here on
-/
import Goat.Basic
namespace Goat.OpenStream

structure Cfg where
  /-- a failed opening write calls `teardown()` (= `unregisterHandler`) before returning the error -/
  openFailureTearsDown : Bool := true
  deriving DecidableEq, Repr

/-- what `newStream` does that something else can observe, in program order -/
inductive Ev where
  | register        -- `NewStreamReadWriter` stored the handler   [mux.register id ok]
  | statsBegin
  | writeOk         -- the opening envelope was accepted by the transport
  | writeFail
  | teardown        -- `unregisterHandler`                         [mux.unregister id present]
  | statsOutHeader
  | startReadLoop   -- `go cs.readLoop()`
  | statsEnd (err : Bool)
  deriving DecidableEq, Repr

structure Outcome where
  /-- `NewStream` returned `(nil, err)` -/
  err : Bool
  trace : List Ev
  deriving DecidableEq, Repr

/-- `regOk`: `NewStreamReadWriter` succeeded (the connection had not failed); `writeOk`: the transport
    accepted the opening envelope. -/
def newStream (cfg : Cfg) (regOk writeOk : Bool) : Outcome :=
  if !regOk then { err := true, trace := [] }
  else if !writeOk then
    { err := true,
      trace := [.register, .statsBegin, .writeFail] ++ (if cfg.openFailureTearsDown then [.teardown] else []) ++ [.statsEnd true] }
  else { err := false, trace := [.register, .statsBegin, .writeOk, .statsOutHeader, .startReadLoop] }

/-- registrations this call has left in the multiplexer's registry when `newStream` returns -/
def registeredAfter (o : Outcome) : Nat := o.trace.count .register - o.trace.count .teardown

def readLoopStarted (o : Outcome) : Bool := o.trace.contains .startReadLoop

/-- driver form: "err=<0|1>;reg=<n>;loop=<0|1>;begin=<n>;end=<n>" -/
def render (o : Outcome) : String :=
  s!"err={if o.err then 1 else 0};reg={registeredAfter o};loop={if readLoopStarted o then 1 else 0};begin={o.trace.count .statsBegin};end={o.trace.count (.statsEnd true) + o.trace.count (.statsEnd false)}"

end Goat.OpenStream
