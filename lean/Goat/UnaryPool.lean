/-
  The server's unary path with envelope CONTENTS (the ServerConn transition system abstracts them):
  the read loop hands each unary request to one of n workers over an unbuffered channel, the worker
  runs the handler once and hands the reply to the single writer. server.go l.215-253, processUnaryRpc.
  `f` is the handler as a function on message bytes (the application codec is folded into it).
-/
import Goat.Basic
namespace Goat.UnaryPool
open Goat

/-- the reply processUnaryRpc builds for a request when the handler succeeds -/
def reply (f : Bytes → Bytes) (q : Env) : Env :=
  { id := q.id, header := q.header.map (fun h => { h with src := h.dst, dst := h.src, headers := [] }),
    body := some (f (q.body.getD [])), trailer := some [] }

inductive WPc where
  | idle | running (q : Env) | handoff (r : Env)
  deriving DecidableEq, Repr

structure State where
  wireIn : List Env := []
  offer : Option Env := none          -- the read loop parked in `unaryRpcChan <- args`
  workers : List WPc := []
  wireOut : List Env := []
  invocations : List Env := []        -- requests the handler has been run on, in completion order
  deriving DecidableEq, Repr

inductive Label where
  | read (q : Env)        -- rw.Read returned a well-formed unary request; the loop offers it
  | take (w : Nat)        -- worker w receives it (rendezvous)
  | run (w : Nat)         -- the handler returns; the reply is built
  | write (w : Nat)       -- hand-off to the writer and the writer's Write
  deriving DecidableEq, Repr

def init (n : Nat) : State := { workers := List.replicate n .idle }

def step (f : Bytes → Bytes) (s : State) : Label → Option State
  | .read q => if s.offer = none then some { s with wireIn := s.wireIn ++ [q], offer := some q } else none
  | .take w =>
    match s.offer, s.workers[w]? with
    | some q, some .idle => some { s with offer := none, workers := s.workers.set w (.running q) }
    | _, _ => none
  | .run w =>
    match s.workers[w]? with
    | some (.running q) => some { s with workers := s.workers.set w (.handoff (reply f q)), invocations := s.invocations ++ [q] }
    | _ => none
  | .write w =>
    match s.workers[w]? with
    | some (.handoff r) => some { s with workers := s.workers.set w .idle, wireOut := s.wireOut ++ [r] }
    | _ => none

def run (f : Bytes → Bytes) (s : State) : List Label → Option State
  | [] => some s
  | l :: ls => (step f s l).bind (fun s' => run f s' ls)

def Reachable (f : Bytes → Bytes) (n : Nat) (s : State) : Prop := ∃ ls, run f (init n) ls = some s

/-- number of requests that are somewhere between the transport and the wire -/
def inFlight (s : State) : Nat :=
  (if s.offer.isSome then 1 else 0) + (s.workers.filter (· ≠ .idle)).length

/-- what a worker holds comes from a request that was read -/
def wOk (f : Bytes → Bytes) (s : State) : WPc → Prop
  | .running q => q ∈ s.wireIn
  | .handoff r => ∃ q ∈ s.wireIn, r = reply f q
  | .idle => True

def Inv (f : Bytes → Bytes) (s : State) : Prop :=
  (∀ q, s.offer = some q → q ∈ s.wireIn) ∧
  (∀ (w : Nat) (pc : WPc), s.workers[w]? = some pc → wOk f s pc) ∧
  (∀ r ∈ s.wireOut, ∃ q ∈ s.wireIn, r = reply f q) ∧
  (∀ q ∈ s.invocations, q ∈ s.wireIn)

theorem wOk_mono (f) (s s' : State) (h : ∀ q, q ∈ s.wireIn → q ∈ s'.wireIn) (pc : WPc) (hp : wOk f s pc) : wOk f s' pc := by
  cases pc with
  | idle => trivial
  | running q => exact h q hp
  | handoff r => obtain ⟨q, hq, e⟩ := hp; exact ⟨q, h q hq, e⟩

theorem inv_init (f) (n : Nat) : Inv f (init n) := by
  refine ⟨by simp [init], ?_, by simp [init], by simp [init]⟩
  intro w pc h
  simp [init, List.getElem?_replicate] at h
  obtain ⟨_, rfl⟩ := h
  trivial

theorem set_get (ws : List WPc) (w w' : Nat) (v pc : WPc) (hw : w < ws.length) (h : (ws.set w v)[w']? = some pc) :
    (w' = w ∧ pc = v) ∨ (w' ≠ w ∧ ws[w']? = some pc) := by
  by_cases hww : w' = w
  · subst hww; simp [List.getElem?_set, hw] at h; exact Or.inl ⟨rfl, h.symm⟩
  · simp [List.getElem?_set, Ne.symm hww] at h; exact Or.inr ⟨hww, h⟩

theorem inv_step (f) (s s' : State) (l : Label) (hi : Inv f s) (hs : step f s l = some s') : Inv f s' := by
  obtain ⟨h1, h2, h3, h4⟩ := hi
  cases l with
  | read q =>
    simp only [step] at hs
    split at hs <;> simp at hs
    subst hs
    have mono : ∀ x, x ∈ s.wireIn → x ∈ s.wireIn ++ [q] := by intro x hx; simp [hx]
    refine ⟨by simp, ?_, ?_, ?_⟩
    · intro w pc hw; exact wOk_mono f s _ mono pc (h2 w pc hw)
    · intro r hr; obtain ⟨q', hq', e⟩ := h3 r hr; exact ⟨q', mono q' hq', e⟩
    · intro q' hq'; exact mono q' (h4 q' hq')
  | take w =>
    simp only [step] at hs
    split at hs <;> simp at hs
    rename_i q hq hw
    subst hs
    have hlen : w < s.workers.length := (List.getElem?_eq_some_iff.mp hw).1
    refine ⟨by simp, ?_, h3, h4⟩
    intro w' pc hw'
    rcases set_get _ _ _ _ _ hlen hw' with ⟨_, rfl⟩ | ⟨_, h⟩
    · exact h1 q hq
    · exact h2 w' pc h
  | run w =>
    simp only [step] at hs
    split at hs <;> simp at hs
    rename_i q hw
    subst hs
    have hq : q ∈ s.wireIn := h2 w (.running q) hw
    have hlen : w < s.workers.length := (List.getElem?_eq_some_iff.mp hw).1
    refine ⟨h1, ?_, h3, ?_⟩
    · intro w' pc hw'
      rcases set_get _ _ _ _ _ hlen hw' with ⟨_, rfl⟩ | ⟨_, h⟩
      · exact ⟨q, hq, rfl⟩
      · exact h2 w' pc h
    · intro q' hq'
      simp at hq'
      rcases hq' with h | h
      · exact h4 q' h
      · subst h; exact hq
  | write w =>
    simp only [step] at hs
    split at hs <;> simp at hs
    rename_i r hw
    subst hs
    have hr : ∃ q ∈ s.wireIn, r = reply f q := h2 w (.handoff r) hw
    have hlen : w < s.workers.length := (List.getElem?_eq_some_iff.mp hw).1
    refine ⟨h1, ?_, ?_, h4⟩
    · intro w' pc hw'
      rcases set_get _ _ _ _ _ hlen hw' with ⟨_, rfl⟩ | ⟨_, h⟩
      · trivial
      · exact h2 w' pc h
    · intro r' hr'
      simp at hr'
      rcases hr' with h | h
      · exact h3 r' h
      · subst h; exact hr

theorem inv_run (f) (ls : List Label) : ∀ s s', Inv f s → run f s ls = some s' → Inv f s' := by
  induction ls with
  | nil => intro s s' hi h; simp [run] at h; exact h ▸ hi
  | cons l ls ih =>
    intro s s' hi h
    simp only [run] at h
    cases hs : step f s l with
    | none => simp [hs] at h
    | some s1 => simp [hs] at h; exact ih s1 s' (inv_step f s s1 l hi hs) h

theorem inv_reachable (f) (n) (s) (h : Reachable f n s) : Inv f s := by
  obtain ⟨ls, hl⟩ := h; exact inv_run f ls _ _ (inv_init f n) hl

end Goat.UnaryPool
