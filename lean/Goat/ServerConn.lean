/-
  ServerConn — the server side of one GOAT connection (`/repo/server.go`).

  One `handler` per connection:
    * the read loop (`serve`, `processStreamingRpc`, `resetStream`),
    * the writer goroutine (single consumer of `writeChan`),
    * `numRpcWorkers` = 8 unary workers (consumers of `unaryRpcChan`),
    * one `runStream` goroutine per registered stream (most general handler,
      then `SendTrailer`, deferred `handler.cancel()`, deferred `unregisterStream`),
    * `cancelAndWaitForStreams` after `serve` has returned,
    * the environment: the peer (what `Read` returns), `Server.Stop`, the
      `Serve` caller's context, per-stream deadlines, the transport's `Write`
      outcome.

  The model is a labelled transition system; one label is one operation whose
  effect another goroutine can observe.  Unbuffered channels (`writeChan`,
  `unaryRpcChan`) are rendezvous: the sender's label and the receiver's take are
  ONE label.  Core Lean only (this file is also compiled into the driver).
-/
import Goat.Basic

namespace Goat.ServerConn

/-- Each flag `true` = the code as it is in /repo now; `false` = before the repair. -/
structure Cfg where
  /-- d9ec676: the forwarding `select` also waits on the target stream's own context. -/
  forwardSelectsOnStreamDone : Bool := true
  /-- c648dfb: `resetStream` hands the reset to the writer (`writeChan`) instead of
      calling `h.rw.Write` from the read loop. -/
  resetViaWriter : Bool := true
  /-- fb39188: `context.AfterFunc(h.ctx, cancel)` in `processUnaryRpc`. -/
  unaryCtxFollowsConn : Bool := true
  /-- fb39188: the worker's hand-over to the writer is a `select` with `<-h.ctx.Done()`. -/
  workerHandoffSelectsOnConn : Bool := true
  deriving DecidableEq, Repr

/-- `const numRpcWorkers = 8` -/
def numWorkers : Nat := 8

/-- What the read loop looks at in an incoming envelope (after the four "ignore"
    checks of `serve`, which are not modelled: an ignored envelope changes nothing). -/
structure InEnv where
  id : Nat
  /-- the method resolves to a unary method (`si.methods[method]`) -/
  unary : Bool := false
  /-- `rpc.GetReset_() != nil && Type == "RST_STREAM"` -/
  reset : Bool := false
  /-- `rpc.GetBody() != nil` -/
  body : Bool := false
  /-- `rpc.GetTrailer() != nil` -/
  trailer : Bool := false
  /-- `contextFromHeaders` fails (undecodable metadata) -/
  badMeta : Bool := false
  deriving DecidableEq, Repr

/-- What reaches the transport (`h.rw.Write`), per id.  A header-only envelope
    (`SendHeader`) is in the same class as a body for every property here and is
    folded into `body`. -/
inductive OutEv where
  | body (id : Nat)
  | trailer (id : Nat)
  | reset (id : Nat)
  | unaryReply (id : Nat)
  deriving DecidableEq, Repr

/-- Program counter of one `runStream` goroutine. -/
inductive HPc where
  | running     -- inside the user's handler
  | returned    -- handler returned, about to `SendTrailer`
  | trailed     -- `SendTrailer` returned (handed over, or failed on the context)
  | wantUnreg   -- deferred `handler.cancel()` done; needs `h.mu` for `unregisterStream`
  | gone        -- unregistered; goroutine finished
  deriving DecidableEq, Repr

/-- One `streamHandler` + its goroutine.  Records are never removed from
    `State.streams` (the index is the goroutine's identity); `registered` says
    whether `h.streams[id]` still maps to it. -/
structure StreamRec where
  id : Nat
  registered : Bool := true
  /-- `ch`, capacity 1 -/
  queue : Option InEnv := none
  /-- the stream's own cancel function has been called, or its deadline passed -/
  ctxDone : Bool := false
  /-- `done`, capacity 1: holds the token `unregisterStream` puts there -/
  doneSig : Bool := false
  hpc : HPc := .running
  deriving DecidableEq, Repr

/-- The read loop. -/
inductive Rl where
  | reading                           -- in `h.rw.Read`
  | unaryOffer (e : InEnv)            -- parked in `select { h.unaryRpcChan <- … ; <-h.ctx.Done() }`
  | wantLock (e : InEnv)              -- at `h.mu.Lock()` in `processStreamingRpc`
  | forwarding (x : Nat) (e : InEnv)  -- holding `h.mu`, parked in the forwarding `select`
  | resetOffer (e : InEnv)            -- holding `h.mu`, inside `resetStream`
  | exited                            -- left the `for` loop; deferred calls pending
  deriving DecidableEq, Repr

inductive WorkerPc where
  | idle                   -- parked in `select { <-h.unaryRpcChan ; <-unaryRpcCtx.Done() }`
  | running (id : Nat)     -- inside `processUnaryRpc` (user handler)
  | handoff (id : Nat)     -- parked in `select { h.writeChan <- resp ; <-h.ctx.Done() }`
  | exited
  deriving DecidableEq, Repr

inductive WriterPc where
  | idle                   -- parked in `select { <-h.writeChan ; <-h.ctx.Done() }`
  | writing (ev : OutEv)   -- inside `h.rw.Write`
  | exited
  deriving DecidableEq, Repr

/-- `cancelAndWaitForStreams` -/
inductive WaitPc where
  | notStarted
  | looping                -- at `h.mu.Lock()` (top of the loop)
  | waiting (x : Nat)      -- cancelled stream x, parked in `<-sh.done`
  | finished               -- `Serve` returns
  deriving DecidableEq, Repr

structure State where
  /-- `h.ctx` is done (cancelled by `Stop`, a write error, or `serve`'s deferred cancel) -/
  connDone : Bool := false
  /-- the context passed to `Serve` is done (parent of every handler context) -/
  clientDone : Bool := false
  rl : Rl := .reading
  /-- `h.mu` is held (only the read loop ever holds it across a blocking operation) -/
  muHeld : Bool := false
  streams : List StreamRec := []
  workers : List WorkerPc := List.replicate numWorkers .idle
  writer : WriterPc := .idle
  /-- what the transport has accepted, oldest first -/
  wireOut : List OutEv := []
  wait : WaitPc := .notStarted
  /-- ghost: ids for which a stream was registered or a reset was issued -/
  usedIds : List Nat := []
  /-- ghost: the peer opened a stream with an id that had been used before -/
  idReused : Bool := false
  deriving DecidableEq, Repr

inductive Label where
  -- environment
  | stop                        -- `Server.Stop` (cancels the parent of `h.ctx`)
  | clientCancel                -- the `Serve` caller's context ends
  | deadline (x : Nat)          -- stream x's grpc-timeout expires
  -- read loop
  | rlRead (e : InEnv)          -- `Read` returns an envelope (classified)
  | rlReadErr                   -- `Read` returns an error
  | rlCtxExit                   -- `<-h.ctx.Done()` wins the unary offer
  | rlCancelStream (x : Nat)    -- known id, reset: `handler.cancel()`
  | rlForwardEnter (x : Nat)    -- known id, not a reset: lock taken, enter the select
  | rlForwardSent               -- `handler.ch <- rpc`
  | rlForwardDropped            -- `<-handler.ctx.Done()`
  | rlForwardAbort (client : Bool) -- `<-clientCtx.Done()` / `<-h.ctx.Done()`
  | rlIgnoreUnknown             -- unknown id: reset, or trailer without body
  | rlResetEnter                -- unknown id: body, or bad metadata → `resetStream`
  | rlResetHandoff              -- `h.writeChan <- reset` (rendezvous with the writer)
  | rlResetAbort                -- `<-h.ctx.Done()` in `resetStream`
  | rlResetWrite (ok : Bool)    -- pre-repair: `h.rw.Write(h.ctx, reset)` from the read loop
  | rlOpen                      -- register + `go runStream`
  | serveExit                   -- `serve` returns: deferred `unaryRpcCtxCancel`, `h.cancel`
  -- workers
  | workerTake (w : Nat)        -- rendezvous on `unaryRpcChan`
  | workerRan (w : Nat)         -- `processUnaryRpc` returns
  | workerHandoff (w : Nat)     -- `h.writeChan <- resp` (rendezvous with the writer)
  | workerAbandon (w : Nat)     -- `<-h.ctx.Done()` in the hand-over select
  | workerExit (w : Nat)        -- `<-unaryRpcCtx.Done()`
  -- writer
  | writerWrite (ok : Bool)     -- `h.rw.Write` returns
  | writerExit                  -- `<-h.ctx.Done()`
  -- stream goroutines
  | hRecv (x : Nat)             -- handler takes from `handler.ch`
  | hSend (x : Nat)             -- handler's `SendMsg`/`SendHeader`: `h.writeChan <- r`
  | hReturn (x : Nat)           -- handler returns
  | hTrailer (x : Nat)          -- `SendTrailer`: `h.writeChan <- tr`
  | hTrailerFail (x : Nat)      -- `SendTrailer`: `<-ctx.Done()`
  | hCancel (x : Nat)           -- deferred `handler.cancel()`
  | hUnregister (x : Nat)       -- `unregisterStream` critical section
  -- cancelAndWaitForStreams
  | waitPick (x : Nat)          -- lock; pick x; unlock; `sh.cancel()`
  | waitDone                    -- `<-sh.done`
  | waitFinish                  -- registry empty: unlock, return
  deriving DecidableEq, Repr

/-- `_, ok := h.streams[id]` -/
def known (s : State) (i : Nat) : Bool :=
  s.streams.any (fun st => st.registered && st.id == i)

/-- stream context done: own cancel / deadline, or the parent (`clientCtx`) -/
def sdone (s : State) (st : StreamRec) : Bool := st.ctxDone || s.clientDone

/-- context of a unary handler done: parent (`clientCtx`), or — repaired — `h.ctx` -/
def unaryCtxDone (cfg : Cfg) (s : State) : Bool :=
  s.clientDone || (cfg.unaryCtxFollowsConn && s.connDone)

def step (cfg : Cfg) (s : State) : Label → Option State
  | .stop => some { s with connDone := true }
  | .clientCancel => some { s with clientDone := true }
  | .deadline x =>
    match s.streams[x]? with
    | some st => some { s with streams := s.streams.set x { st with ctxDone := true } }
    | none => none
  | .rlRead e =>
    if s.rl = .reading then
      some { s with rl := if e.unary then .unaryOffer e else .wantLock e }
    else none
  | .rlReadErr => if s.rl = .reading then some { s with rl := .exited } else none
  | .rlCtxExit =>
    match s.rl with
    | .unaryOffer _ => if s.connDone then some { s with rl := .exited } else none
    | _ => none
  | .rlCancelStream x =>
    match s.rl with
    | .wantLock e =>
      match s.streams[x]? with
      | some st =>
        if s.muHeld = false ∧ st.registered = true ∧ st.id = e.id ∧ e.reset = true then
          some { s with rl := .reading, streams := s.streams.set x { st with ctxDone := true } }
        else none
      | none => none
    | _ => none
  | .rlForwardEnter x =>
    match s.rl with
    | .wantLock e =>
      match s.streams[x]? with
      | some st =>
        if s.muHeld = false ∧ st.registered = true ∧ st.id = e.id ∧ e.reset = false then
          some { s with rl := .forwarding x e, muHeld := true }
        else none
      | none => none
    | _ => none
  | .rlForwardSent =>
    match s.rl with
    | .forwarding x e =>
      match s.streams[x]? with
      | some st =>
        if st.queue = none then
          some { s with rl := .reading, muHeld := false,
                        streams := s.streams.set x { st with queue := some e } }
        else none
      | none => none
    | _ => none
  | .rlForwardDropped =>
    match s.rl with
    | .forwarding x _ =>
      match s.streams[x]? with
      | some st =>
        if cfg.forwardSelectsOnStreamDone = true ∧ sdone s st = true then
          some { s with rl := .reading, muHeld := false }
        else none
      | none => none
    | _ => none
  | .rlForwardAbort client =>
    match s.rl with
    | .forwarding _ _ =>
      if (if client then s.clientDone else s.connDone) = true then
        some { s with rl := .exited, muHeld := false }
      else none
    | _ => none
  | .rlIgnoreUnknown =>
    match s.rl with
    | .wantLock e =>
      if s.muHeld = false ∧ known s e.id = false ∧
          (e.reset = true ∨ (e.body = false ∧ e.trailer = true)) then
        some { s with rl := .reading }
      else none
    | _ => none
  | .rlResetEnter =>
    match s.rl with
    | .wantLock e =>
      if s.muHeld = false ∧ known s e.id = false ∧ e.reset = false ∧
          (e.body = true ∨ (e.trailer = false ∧ e.badMeta = true)) then
        some { s with rl := .resetOffer e, muHeld := true, usedIds := e.id :: s.usedIds }
      else none
    | _ => none
  | .rlResetHandoff =>
    match s.rl with
    | .resetOffer e =>
      if cfg.resetViaWriter = true ∧ s.writer = .idle then
        some { s with rl := .reading, muHeld := false, writer := .writing (.reset e.id) }
      else none
    | _ => none
  | .rlResetAbort =>
    match s.rl with
    | .resetOffer _ =>
      if cfg.resetViaWriter = true ∧ s.connDone = true then
        some { s with rl := .exited, muHeld := false }
      else none
    | _ => none
  | .rlResetWrite ok =>
    match s.rl with
    | .resetOffer e =>
      if cfg.resetViaWriter = false then
        if ok then
          some { s with rl := .reading, muHeld := false, wireOut := s.wireOut ++ [.reset e.id] }
        else some { s with rl := .exited, muHeld := false }
      else none
    | _ => none
  | .rlOpen =>
    match s.rl with
    | .wantLock e =>
      if s.muHeld = false ∧ known s e.id = false ∧ e.reset = false ∧ e.body = false ∧
          e.trailer = false ∧ e.badMeta = false then
        some { s with rl := .reading, streams := s.streams ++ [({ id := e.id } : StreamRec)],
                      idReused := s.idReused || s.usedIds.contains e.id,
                      usedIds := e.id :: s.usedIds }
      else none
    | _ => none
  | .serveExit =>
    if s.rl = .exited ∧ s.wait = .notStarted then
      some { s with connDone := true, wait := .looping }
    else none
  | .workerTake w =>
    match s.rl with
    | .unaryOffer e =>
      match s.workers[w]? with
      | some .idle => some { s with rl := .reading, workers := s.workers.set w (.running e.id) }
      | _ => none
    | _ => none
  | .workerRan w =>
    match s.workers[w]? with
    | some (.running id) => some { s with workers := s.workers.set w (.handoff id) }
    | _ => none
  | .workerHandoff w =>
    match s.workers[w]? with
    | some (.handoff id) =>
      if s.writer = .idle then
        some { s with workers := s.workers.set w .idle, writer := .writing (.unaryReply id) }
      else none
    | _ => none
  | .workerAbandon w =>
    match s.workers[w]? with
    | some (.handoff _) =>
      if cfg.workerHandoffSelectsOnConn = true ∧ s.connDone = true then
        some { s with workers := s.workers.set w .exited }
      else none
    | _ => none
  | .workerExit w =>
    match s.workers[w]? with
    | some .idle =>
      if s.connDone = true then some { s with workers := s.workers.set w .exited } else none
    | _ => none
  | .writerWrite ok =>
    match s.writer with
    | .writing ev =>
      if ok then some { s with writer := .idle, wireOut := s.wireOut ++ [ev] }
      else some { s with writer := .idle, connDone := true }
    | _ => none
  | .writerExit =>
    if s.writer = .idle ∧ s.connDone = true then some { s with writer := .exited } else none
  | .hRecv x =>
    match s.streams[x]? with
    | some st =>
      if st.hpc = .running ∧ st.queue ≠ none then
        some { s with streams := s.streams.set x { st with queue := none } }
      else none
    | none => none
  | .hSend x =>
    match s.streams[x]? with
    | some st =>
      if st.hpc = .running ∧ s.writer = .idle then
        some { s with writer := .writing (.body st.id) }
      else none
    | none => none
  | .hReturn x =>
    match s.streams[x]? with
    | some st =>
      if st.hpc = .running then
        some { s with streams := s.streams.set x { st with hpc := .returned } }
      else none
    | none => none
  | .hTrailer x =>
    match s.streams[x]? with
    | some st =>
      if st.hpc = .returned ∧ s.writer = .idle then
        some { s with streams := s.streams.set x { st with hpc := .trailed },
                      writer := .writing (.trailer st.id) }
      else none
    | none => none
  | .hTrailerFail x =>
    match s.streams[x]? with
    | some st =>
      if st.hpc = .returned ∧ sdone s st = true then
        some { s with streams := s.streams.set x { st with hpc := .trailed } }
      else none
    | none => none
  | .hCancel x =>
    match s.streams[x]? with
    | some st =>
      if st.hpc = .trailed then
        some { s with streams := s.streams.set x { st with hpc := .wantUnreg, ctxDone := true } }
      else none
    | none => none
  | .hUnregister x =>
    match s.streams[x]? with
    | some st =>
      if st.hpc = .wantUnreg ∧ s.muHeld = false then
        some { s with streams := s.streams.set x { st with
                 hpc := .gone, registered := false, ctxDone := true, doneSig := true } }
      else none
    | none => none
  | .waitPick x =>
    match s.streams[x]? with
    | some st =>
      if s.wait = .looping ∧ s.muHeld = false ∧ st.registered = true then
        some { s with wait := .waiting x, streams := s.streams.set x { st with ctxDone := true } }
      else none
    | none => none
  | .waitDone =>
    match s.wait with
    | .waiting x =>
      match s.streams[x]? with
      | some st =>
        if st.doneSig = true then
          some { s with wait := .looping, streams := s.streams.set x { st with doneSig := false } }
        else none
      | none => none
    | _ => none
  | .waitFinish =>
    if s.wait = .looping ∧ s.muHeld = false ∧ s.streams.all (fun st => !st.registered) = true then
      some { s with wait := .finished }
    else none

def init : State := {}

def run (cfg : Cfg) (s : State) : List Label → Option State
  | [] => some s
  | l :: ls => (step cfg s l).bind (fun s' => run cfg s' ls)

def Reachable (cfg : Cfg) (s : State) : Prop := ∃ ls, run cfg init ls = some s

/-- `Serve` has returned (`cancelAndWaitForStreams` finished). -/
def serveReturned (s : State) : Bool := s.wait = .finished

/-- `serve` has returned and its deferred cancels have run. -/
def serveExited (s : State) : Bool := s.wait ≠ .notStarted

/-! ### Executable form of the wire-order property (per id: `body* trailer? reset*`) -/

/-- May `e` be written after the events `past` (in any order)? -/
def admissible (past : List OutEv) : OutEv → Bool
  | .body i => !past.contains (.trailer i) && !past.contains (.reset i)
  | .trailer i => !past.contains (.trailer i) && !past.contains (.reset i)
  | .reset _ => true
  | .unaryReply _ => true

/-- `wireOkRev` takes the history newest-first. -/
def wireOkRev : List OutEv → Bool
  | [] => true
  | e :: past => admissible past e && wireOkRev past

def wireOk (w : List OutEv) : Bool := wireOkRev w.reverse

/-! ### Distances used by the termination statements -/

def Rl.dist : Rl → Nat
  | .exited => 0
  | .reading => 1
  | .unaryOffer _ => 2
  | .forwarding _ _ => 2
  | .resetOffer _ => 2
  | .wantLock _ => 3

def WorkerPc.dist : WorkerPc → Nat
  | .exited => 0
  | .idle => 1
  | .handoff _ => 1
  | .running _ => 2

def WriterPc.dist : WriterPc → Nat
  | .exited => 0
  | .idle => 1
  | .writing _ => 2

def HPc.dist : HPc → Nat
  | .gone => 0
  | .wantUnreg => 1
  | .trailed => 2
  | .returned => 3
  | .running => 4

/-- Labels of the read loop that need no input from the peer. -/
def Label.isRlInternal : Label → Bool
  | .rlReadErr | .rlCtxExit | .rlCancelStream _ | .rlForwardEnter _ | .rlForwardSent
  | .rlForwardDropped | .rlForwardAbort _ | .rlIgnoreUnknown | .rlResetEnter | .rlResetHandoff
  | .rlResetAbort | .rlResetWrite _ | .rlOpen | .workerTake _ => true
  | _ => false

/-- Labels that are inputs from outside the connection's own goroutines. -/
def Label.isEnv : Label → Bool
  | .stop | .clientCancel | .deadline _ | .rlRead _ => true
  | _ => false

/-- The census of live goroutines of one connection: the `Serve` goroutine (read loop, then
    wait loop), the writer, the workers, one `runStream` per stream. -/
def census (s : State) : Nat :=
  (if s.wait = .finished then 0 else 1) +
  (if s.writer = .exited then 0 else 1) +
  (s.workers.filter (· ≠ .exited)).length +
  (s.streams.filter (·.hpc ≠ .gone)).length

end Goat.ServerConn
