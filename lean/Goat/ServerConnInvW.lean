/-
  ServerConn — the wire-order invariants (C03/C06): per id, `body* trailer? reset*`
  on `wireOut`, when resets go through the writer and the peer never reuses a stream id.
-/
import Goat.ServerConnInvDefs

set_option maxHeartbeats 400000

namespace Goat.ServerConn

/-! ### `wireOk`, one event at a time -/

theorem wireOk_nil : wireOk [] = true := rfl

theorem admissible_reverse (w : List OutEv) (e : OutEv) :
    admissible w.reverse e = admissible w e := by
  cases e <;> simp [admissible]

theorem wireOk_snoc (w : List OutEv) (e : OutEv) :
    wireOk (w ++ [e]) = (admissible w e && wireOk w) := by
  simp [wireOk, wireOkRev, admissible_reverse]

theorem admissible_body (w : List OutEv) (i : Nat) :
    admissible w (.body i) = true ↔ OutEv.trailer i ∉ w ∧ OutEv.reset i ∉ w := by
  simp [admissible]

theorem admissible_trailer (w : List OutEv) (i : Nat) :
    admissible w (.trailer i) = true ↔ OutEv.trailer i ∉ w ∧ OutEv.reset i ∉ w := by
  simp [admissible]

/-! ### Ghost bookkeeping of used ids -/

def writerEv : WriterPc → Option OutEv
  | .writing ev => some ev
  | _ => none

def resetTarget : Rl → Option Nat
  | .resetOffer e => some e.id
  | _ => none

/-- Every id that has a stream record, a trailer or a reset anywhere is in `usedIds`. -/
def InvUsed (s : State) : Prop :=
  (∀ (k : Nat) (st : StreamRec), s.streams[k]? = some st → st.id ∈ s.usedIds) ∧
  (∀ i, OutEv.reset i ∈ s.wireOut → i ∈ s.usedIds) ∧
  (∀ i, OutEv.trailer i ∈ s.wireOut → i ∈ s.usedIds) ∧
  (∀ i, writerEv s.writer = some (.reset i) → i ∈ s.usedIds) ∧
  (∀ i, writerEv s.writer = some (.trailer i) → i ∈ s.usedIds) ∧
  (∀ i, resetTarget s.rl = some i → i ∈ s.usedIds)

/-- If the peer never reused an id, stream records have pairwise different ids. -/
def InvIds (s : State) : Prop :=
  s.idReused = false →
  ∀ (j k : Nat) (sj sk : StreamRec), s.streams[j]? = some sj → s.streams[k]? = some sk →
      sj.id = sk.id → j = k

/-- The wire-order invariant. -/
def InvW (s : State) : Prop :=
  s.idReused = false →
  wireOk s.wireOut = true ∧
  (∀ i, (writerEv s.writer = some (.body i) ∨ writerEv s.writer = some (.trailer i)) →
      OutEv.trailer i ∉ s.wireOut ∧ OutEv.reset i ∉ s.wireOut) ∧
  (∀ (k : Nat) (st : StreamRec), s.streams[k]? = some st →
      (st.hpc = .running ∨ st.hpc = .returned) →
      OutEv.trailer st.id ∉ s.wireOut ∧ writerEv s.writer ≠ some (.trailer st.id)) ∧
  (∀ (k : Nat) (st : StreamRec), s.streams[k]? = some st → st.registered = true →
      OutEv.reset st.id ∉ s.wireOut ∧ writerEv s.writer ≠ some (.reset st.id) ∧
      resetTarget s.rl ≠ some st.id)

theorem invUsed_step (cfg : Cfg) (s s' : State) (l : Label) (hi : InvUsed s)
    (hs : step cfg s l = some s') : InvUsed s' := by
  unfold InvUsed at *
  cases l with
  | rlOpen =>
    prep hs
    obtain ⟨h1, h2, h3, h4, h5, h6⟩ := hi
    refine ⟨?_, ?_, ?_, ?_, ?_, ?_⟩
    · intro k st hk
      rcases getElem?_append_single _ _ _ _ hk with h | ⟨_, h⟩
      · simp; right; exact h1 k st h
      · subst h; simp
    all_goals grind [writerEv, resetTarget]
  | _ => prep hs <;> first | exact hi | grind [writerEv, resetTarget]

theorem invIds_step (cfg : Cfg) (s s' : State) (l : Label) (hi : InvIds s) (hu : InvUsed s)
    (hs : step cfg s l = some s') : InvIds s' := by
  unfold InvIds at *
  cases l with
  | rlOpen =>
    prep hs
    rename_i _ e _ hg
    intro hr
    simp at hr
    have hi' := hi hr.1
    intro j k sj sk hj hk' hid
    rcases getElem?_append_single _ _ _ _ hj with h | ⟨hjl, h⟩ <;>
    rcases getElem?_append_single _ _ _ _ hk' with h' | ⟨hkl, h'⟩
    · exact hi' j k sj sk h h' hid
    · subst h'; have := hu.1 j sj h; simp at hid; rw [hid] at this; exact absurd this hr.2
    · subst h; have := hu.1 k sk h'; simp at hid; rw [← hid] at this; exact absurd this hr.2
    · omega
  | _ => prep hs <;> first | exact hi | grind


theorem admissible_reset (w : List OutEv) (i : Nat) : admissible w (.reset i) = true := rfl
theorem admissible_unary (w : List OutEv) (i : Nat) : admissible w (.unaryReply i) = true := rfl

theorem invW_step (cfg : Cfg) (hc : cfg.resetViaWriter = true) (s s' : State) (l : Label)
    (hi : InvW s) (hu : InvUsed s) (hd : InvIds s) (hst : InvStream s)
    (hs : step cfg s l = some s') : InvW s' := by
  unfold InvW InvUsed InvIds InvStream at *
  cases l with
  | rlOpen =>
    prep hs
    rename_i _ e _ hg
    intro hr
    simp at hr
    obtain ⟨w1, w2, w3, w4⟩ := hi hr.1
    obtain ⟨u1, u2, u3, u4, u5, u6⟩ := hu
    refine ⟨w1, w2, ?_, ?_⟩
    · intro k st hk
      rcases getElem?_append_single _ _ _ _ hk with h | ⟨_, h⟩
      · exact w3 k st h
      · subst h
        intro _
        exact ⟨fun hm => hr.2 (u3 _ hm), fun hm => hr.2 (u5 _ hm)⟩
    · intro k st hk
      rcases getElem?_append_single _ _ _ _ hk with h | ⟨_, h⟩
      · intro hreg
        exact ⟨(w4 k st h hreg).1, (w4 k st h hreg).2.1, by simp [resetTarget]⟩
      · subst h
        intro _
        exact ⟨fun hm => hr.2 (u2 _ hm), fun hm => hr.2 (u4 _ hm), by simp [resetTarget]⟩
  | rlResetEnter =>
    prep hs
    rename_i _ e _ hg
    have hk := (known_false_iff s e.id).mp hg.2.1
    intro hr
    obtain ⟨w1, w2, w3, w4⟩ := hi hr
    refine ⟨w1, w2, w3, ?_⟩
    intro k st hks hreg
    refine ⟨(w4 k st hks hreg).1, (w4 k st hks hreg).2.1, ?_⟩
    simp [resetTarget]
    exact fun h => hk k st hks hreg h.symm
  | rlResetWrite ok => prep hs <;> simp_all
  | writerWrite ok =>
    prep hs
    · rename_i _ ev heq _
      intro hr
      obtain ⟨w1, w2, w3, w4⟩ := hi hr
      have hwe : writerEv s.writer = some ev := by simp [writerEv, heq]
      refine ⟨?_, ?_, ?_, ?_⟩
      · rw [wireOk_snoc, w1, Bool.and_true]
        cases ev with
        | body i => exact (admissible_body _ _).mpr (w2 i (Or.inl hwe))
        | trailer i => exact (admissible_trailer _ _).mpr (w2 i (Or.inr hwe))
        | reset i => rfl
        | unaryReply i => rfl
      · simp [writerEv]
      · intro k st hk hp
        have := w3 k st hk hp
        grind [writerEv]
      · intro k st hk hp
        have := w4 k st hk hp
        grind [writerEv]
    · grind [writerEv, resetTarget]
  | _ =>
    prep hs <;> first
      | exact hi
      | grind [writerEv, resetTarget, wireOk_snoc, admissible_body, admissible_trailer,
          admissible_reset, admissible_unary]

end Goat.ServerConn
