/-
  Axiom audit (DESIGN.md 7, T2). Usage: lake env lean --run AuditTool.lean Goat.Props.C08 Goat.Tie.C08 ...
  Loads the named compiled modules and prints, for every theorem declared in them,
    THEOREM <name> AXIOMS <comma-separated axioms or ->
  and finally  AUDIT theorems=<n> clean=<m>  where clean counts theorems whose axioms are within
  {propext, Classical.choice, Quot.sound}. Also flags any `sorryAx`.
-/
import Lean
open Lean

def allowed : List Name := [``propext, ``Classical.choice, ``Quot.sound]

def main (args : List String) : IO UInt32 := do
  initSearchPath (← findSysroot)
  let mods := args.map (fun a => a.toName)
  let env ← importModules (mods.toArray.map (fun m => ({ module := m } : Import))) {} (trustLevel := 1024)
  let mut total := 0
  let mut clean := 0
  for m in mods do
    match env.getModuleIdx? m with
    | none => IO.println s!"MISSING {m}"
    | some idx =>
      let names := env.header.moduleData[idx.toNat]!.constNames
      for n in names do
        if n.isInternal then continue
        let isInst := match n with | .str _ s => s.endsWith "_at_source" | _ => false
        match env.find? n with
        | some (.defnInfo _) =>
          -- an instantiation `def x_at_source := <proof term>` in a Tie module is a proof obligation too
          if isInst then
            let (axs, _) ← (Lean.collectAxioms n : CoreM _).toIO { fileName := "", fileMap := default } { env := env }
            let bad := axs.toList.filter (fun a => !allowed.contains a)
            total := total + 1
            if bad.isEmpty then clean := clean + 1
            let s := if axs.isEmpty then "-" else ",".intercalate (axs.toList.map toString)
            IO.println s!"THEOREM {n} AXIOMS {s}{if bad.isEmpty then "" else " BAD"}"
        | some (.thmInfo _) =>
          let (axs, _) ← (Lean.collectAxioms n : CoreM _).toIO { fileName := "", fileMap := default } { env := env }
          let bad := axs.toList.filter (fun a => !allowed.contains a)
          total := total + 1
          if bad.isEmpty then clean := clean + 1
          let s := if axs.isEmpty then "-" else ",".intercalate (axs.toList.map toString)
          IO.println s!"THEOREM {n} AXIOMS {s}{if bad.isEmpty then "" else " BAD"}"
        | _ => pure ()
  IO.println s!"AUDIT theorems={total} clean={clean}"
  return (if total == clean then 0 else 1)
