/-
  goatdrv: the model side of the correspondence check. Reads one case per line
    op <TAB> input <TAB> implementation-output
  computes the model's output for `op input`, and prints
    ok | MISMATCH <line-no> <op> <input> impl=<..> model=<..> | BADLINE <line-no>
  followed by a summary. Core Lean only, so that it links as an executable.
-/
import Goat.Drv.Codec
import Goat.Base64
import Goat.Metadata
import Goat.Timeout
import Goat.Protocol
import Goat.ServerStream
import Goat.Status
import Goat.Classify
import Goat.Chain
import Goat.Stats
import Goat.ClientStream
import Goat.Drv.MuxReplay
import Goat.Drv.SrvReplay
import Goat.Drv.CsReplay
import Goat.Drv.PbOps
import Goat.Drv.PxOps
import Goat.UnaryReply
import Goat.CfgMap
import Goat.OpenStream
import Goat.HttpTable
import Goat.Props.C02
open Goat Goat.Drv

def showOptBytes : Option Bytes → String
  | none => "ERR"
  | some b => hexOf b

/-- entries "k=v1,v2;k2=v3" -/
def parseMD (s : String) : Option Metadata.MD :=
  parseList (fun e => match e.splitOn "=" with
    | [k, vs] => do let k' ← parseHex k; let vs' ← parseList parseHex "," vs; some (k', vs')
    | _ => none) ";" s

def parseKVs (s : String) : Option (List KV) :=
  parseList (fun e => match e.splitOn "=" with
    | [k, v] => do let k' ← parseHex k; let v' ← parseHex v; some ({ key := k', value := v' } : KV)
    | _ => none) ";" s

/-- canonical form: keys sorted, per key the values in order -/
def showMD (md : Metadata.MD) : String :=
  let keys := sortDedup (md.map (·.1))
  showList (fun k => hexOf k ++ "=" ++ showList hexOf "," (Metadata.get md k)) ";" keys

def showKVsGrouped (kvs : List KV) : String :=
  showMD (kvs.map (fun h => (h.key, [h.value])))

def showOptMD : Option Metadata.MD → String
  | none => "ERR"
  | some md => showMD md

/-- a shape: flag letters (h header, b body, t trailer, s status, o status-is-OK, r reset, m metadata)
    then ":" method ":" src ":" dst (hex) -/
def parseShape (s : String) : Option Protocol.Shape :=
  match s.splitOn ":" with
  | [fl, m, a, b] => do
    let m ← parseHex m; let a ← parseHex a; let b ← parseHex b
    let has := fun (c : Char) => fl.toList.contains c
    some { hasHeader := has 'h', hasBody := has 'b', hasTrailer := has 't', hasStatus := has 's',
           statusOk := has 'o' || !has 's', isReset := has 'r', hasMeta := has 'm', route := (m, a, b) }
  | _ => none

def showStatus : Status → String
  | s => s!"{s.code}:{hexOf s.message}:{showList hexOf "," s.details}"

def showEnv (e : Env) : String :=
  let h := match e.header with
    | some h => "hdrs=" ++ showKVsGrouped h.headers
    | none => "nohdr"
  let b := match e.body with | some b => "body=" ++ hexOf b | none => "nobody"
  let st := match e.status with | some s => "status=" ++ showStatus s | none => "nostatus"
  let tr := match e.trailer with | some t => "trailer=" ++ showKVsGrouped t | none => "notrailer"
  "~".intercalate [h, b, st, tr]

/-- a ServerStream program: ops separated by "/": H<md> S<md>(+|!) M<hex>(+|!) T<md>, then F<code>:<msghex>(+|!) -/
def parseSSOp (s : String) : Option (Sum ServerStream.Op (Status × Bool)) :=
  let body := String.ofList (s.toList.drop 1)
  let ok := body.toList.getLast? = some '+'
  let arg := String.ofList body.toList.dropLast
  match s.toList.head? with
  | some 'H' => (parseMD body).map (fun md => .inl (.setHeader md))
  | some 'T' => (parseMD body).map (fun md => .inl (.setTrailer md))
  | some 'S' => (parseMD arg).map (fun md => .inl (.sendHeader md ok))
  | some 'M' => (parseHex arg).map (fun b => .inl (.sendMsg b ok))
  | some 'F' => match arg.splitOn ":" with
    | [c, m] => do let c ← c.toInt?; let m ← parseHex m; some (.inr ({ code := c, message := m }, ok))
    | _ => none
  | _ => none

def runSS (items : List (Sum ServerStream.Op (Status × Bool))) : String :=
  let rec go (s : ServerStream.SS) (acc : List String) : List (Sum ServerStream.Op (Status × Bool)) → List String
    | [] => acc.reverse
    | .inl op :: t =>
      let (s1, e, r) := ServerStream.step s op
      let line := (match e with | some e => showEnv e | none => "-") ++ (if r == .ok then "^ok" else "^err")
      go s1 (line :: acc) t
    | .inr (st, w) :: t =>
      let (s1, e) := ServerStream.sendTrailer s st w
      go s1 ((match e with | some e => showEnv e | none => "-") :: acc) t
  " ".intercalate (go { id := 7 } [] items)

def parseHErr (kind : String) (code : Int) (msg : Bytes) (details : List Bytes) (outer : Bytes) : Option StatusM.HErr :=
  match kind with
  | "nil" => some .nil
  | "status" => some (.status { code := code, message := msg, details := details })
  | "wrapped" => some (.wrapped { code := code, message := msg, details := details } outer)
  | "plain" => some (.plain msg)
  | "canceled" => some .ctxCanceled
  | "deadline" => some .ctxDeadline
  | _ => none

def showOutcome : StatusM.Outcome → String
  | .success _ => "ok"
  | .eof => "eof"
  | .error s => "err:" ++ showStatus s
  | .malformed => "malformed"
  | .nilDeref => "nilderef"

def echoView : Classify.ServerView :=
  { name := "srv".toUTF8.toList.map (·.toNat),
    services := [("verif.Echo".toUTF8.toList.map (·.toNat),
                  ["Unary".toUTF8.toList.map (·.toNat)],
                  ["Bidi", "SrvStream", "CliStream"].map (fun s => s.toUTF8.toList.map (·.toNat)))] }

/-- id,hdr,method,dst,meta,body,trailer,reset -/
def parseSeqEnv (s : String) : Option Env :=
  match s.splitOn "," with
  | [id, hd, m, d, mt, b, t, r] => do
    let id ← id.toNat?
    let m ← parseHex m; let d ← parseHex d
    let kvs : List KV := if mt == "1" then [⟨[107], [118]⟩] else if mt == "2" then [⟨[107,45,98,105,110], [33,33]⟩]
      else if mt == "3" then [⟨[75,45,66,105,110], [33,33]⟩]  -- "K-Bin": the suffix test is on the lower-cased key
      else if mt == "4" then [⟨[103,114,112,99,45,116,105,109,101,111,117,116], [53,120]⟩]  -- grpc-timeout: "5x" (malformed: ignored)
      else []
    some { id := id,
           header := if hd == "1" then some { method := m, dst := d, src := [99], headers := kvs } else none,
           body := if b == "1" then some [] else none,
           trailer := if t == "1" then some [] else none,
           reset := if r == "1" then some rstStream else if r == "2" then some [88] else none }
  | _ => none

def sortNats (l : List Nat) : List Nat := l.foldl (fun acc n => (acc.takeWhile (· ≤ n)) ++ [n] ++ (acc.dropWhile (· ≤ n))) []

def showEffects (effs : List Classify.Effect) (alive : Bool) : String :=
  let pick (f : Classify.Effect → Option Nat) := ",".intercalate ((sortNats (effs.filterMap f)).map toString)
  "U:" ++ pick (fun | .invokeUnary i => some i | _ => none) ++
  "|S:" ++ pick (fun | .startStream i => some i | _ => none) ++
  "|R:" ++ pick (fun | .reset i => some i | _ => none) ++
  "|E:" ++ pick (fun | .errorReply i => some i | _ => none) ++
  "|C:" ++ pick (fun | .cancelStream i => some i | _ => none) ++
  (if alive then "|alive" else "|dead")

def showEv : Chain.Ev → String
  | .enter k => s!"e{k}"
  | .exit k => s!"x{k}"
  | .final => "F"

/-- n logging interceptors: number k appends byte k to the request on the way down and byte 100+k to
    the reply on the way up; the handler echoes -/
def chainRun (n : Nat) (req : Bytes) : String :=
  match n with
  | 0 => "none"
  | n + 1 =>
    let fg : Nat → (Bytes → Bytes) × (Bytes → Bytes) := fun k => ((· ++ [k]), (· ++ [100 + k]))
    let r := Chain.chained (Chain.logI 0 (fg 0).1 (fg 0).2) (Chain.logChain 1 ((List.range n).map (fun i => fg (i + 1)))) (Chain.logFinal id) req
    ",".intercalate (r.log.map showEv) ++ "|" ++ hexOf r.val

def parseKind (s : String) : Option Stats.Kind :=
  match s with
  | "Begin" => some .begin_ | "End" => some (.end_ false) | "EndErr" => some (.end_ true)
  | "InHeader" => some .inHeader | "OutHeader" => some .outHeader | "InPayload" => some .inPayload
  | "OutPayload" => some .outPayload | "InTrailer" => some .inTrailer | "OutTrailer" => some .outTrailer
  | _ => none

/-- id,hdr,meta,status,body,trailer,reset -/
structure RespEnv where
  id : Nat
  hdr : Bool
  md : Nat
  status : Int
  body : Bool
  trailer : Nat
  reset : Bool

def parseRespEnv (s : String) : Option RespEnv :=
  match s.splitOn "," with
  | [id, h, m, st, b, t, r] => do
    let id ← id.toNat?; let m ← m.toNat?; let st ← st.toInt?; let t ← t.toNat?
    some { id := id, hdr := h == "1", md := m, status := st, body := b == "1", trailer := t, reset := r == "1" }
  | _ => none

def showTerm : ClientStream.Term → String
  | .eof => "eof" | .status c => s!"status{c}" | .unavailable => "unavailable" | .ctxErr => "ctxErr"
  | .muxErr => "muxErr" | .internalMeta => "internalMeta"

/-- the client's verdicts on a response sequence followed by the end of the connection:
    call A (unary, id 1) and call B (stream, id 2, the caller receives until an error) -/
def cliSeq (es : List RespEnv) : String :=
  let a := match es.find? (·.id == 1) with
    | none => "closed"
    | some e =>
      let st : Option Status := if e.status ≥ 0 then some { code := e.status } else none
      match StatusM.clientUnary true st (if e.body then some [] else none) with
      | .success _ => "ok" | .malformed => "malformed" | .error s => s!"err{s.code}" | _ => "?"
  let inbox : List ClientStream.InEnv := (es.filter (·.id == 2)).map (fun e =>
    { metaBad := e.hdr && e.md == 2, reset := e.reset, trailer := e.trailer != 0, trMetaBad := e.trailer == 2,
      code := (if (0 : Int) ≤ e.status then e.status else (0 : Int)), body := if e.body then some [] else none })
  let cfg := ClientStream.Cfg.good
  let msgs := (ClientStream.specBodies cfg true inbox).length
  let term := match ClientStream.specTerminal cfg true inbox with
    | some (some t) => showTerm t
    | some none => "nil"
    | none => "muxErr"
  let h := match inbox with
    | [] => "err"
    | e :: _ => if e.metaBad then "err" else "ok"
  s!"A={a}|B={msgs};{term}|H={h}"

def parseMuxObs (s : String) : Option MuxReplay.Obs :=
  match s.splitOn ":" with
  | ["alloc", id, k] => id.toNat?.map (fun id => .alloc id (if k == "unary" then .unary else .stream))
  | ["register", id, r] => id.toNat?.map (fun id => .register id (r == "ok"))
  | ["lookup", id, r] => id.toNat?.map (fun id => .lookup id (r == "found"))
  | ["deliver", id] => id.toNat?.map .deliver
  | ["drop", id] => id.toNat?.map .drop
  | ["unregister", id, r] => id.toNat?.map (fun id => .unregister id (r == "present"))
  | ["fail"] => some .fail
  | _ => none

def parseSrvObs (s : String) : Option SrvReplay.Obs :=
  let n := fun (x : String) => x.toNat?
  match s.splitOn ":" with
  | ["in", id, fl] => (n id).map (fun id =>
      let has := fun (c : Char) => fl.toList.contains c
      .in_ { id := id, unary := has 'u', reset := has 'r', body := has 'b', trailer := has 't', badMeta := has 'm' })
  | ["stop"] => some .stop
  | ["clientcancel"] => some .clientCancel
  | ["dispatch", id] => (n id).map .dispatch
  | ["wran", id] => (n id).map .workerRan
  | ["whand", id] => (n id).map .workerHandoff
  | ["waban", id] => (n id).map .workerAbandon
  | ["wexit"] => some .workerExit
  | ["wwrite", id, r] => (n id).map (fun id => .writerWrite id (r == "ok"))
  | ["wrexit"] => some .writerExit
  | ["scancel", id] => (n id).map .streamCancel
  | ["fenter", id] => (n id).map .fwdEnter
  | ["fsent", id] => (n id).map .fwdSent
  | ["fdropped", id] => (n id).map .fwdDropped
  | ["fabort", id, w] => (n id).map (fun id => .fwdAbort id (w == "client"))
  | ["reset", id] => (n id).map .reset
  | ["rhand", id] => (n id).map .resetHandoff
  | ["reg", id] => (n id).map .register
  | ["hrecv", id] => (n id).map .hRecv
  | ["hsent", id] => (n id).map .hSent
  | ["hret", id] => (n id).map .hReturned
  | ["trailer", id, r] => (n id).map (fun id => .trailer id (r == "ok"))
  | ["unreg", id] => (n id).map .unregister
  | ["sexit"] => some .serveExit
  | ["wpick"] => some .waitPick
  | ["wtaken"] => some .waitTaken
  | ["wdone"] => some .waitDone
  | _ => none

def showRoute (e : Env) : String :=
  match e.header with
  | some h => s!"id={e.id}~method={hexOf h.method}~src={hexOf h.src}~dst={hexOf h.dst}~next={showList hexOf "," h.next}~reset={match e.reset with | some r => hexOf r | none => "none"}"
  | none => s!"id={e.id}~nohdr"

def evalOp (op input : String) : Option String :=
  match op with
  | "b64enc" => (parseHex input).map (fun b => hexOf (Base64.encode b))
  | "b64dec" => (parseHex input).map (fun b => showOptBytes (Base64.decode b))
  | "tokv" => (parseMD input).map (fun md => showKVsGrouped (Metadata.toKeyValue md))
  | "tomd" => (parseKVs input).map (fun kvs => showOptMD (Metadata.toMetadata kvs))
  | "mdrt" => (parseMD input).map (fun md => showOptMD (Metadata.toMetadata (Metadata.toKeyValue md)))
  | "timeout" => (parseHex input).map (fun b => match Timeout.parseTimeout b with
      | none => "none" | some d => toString d)
  | "enctimeout" => input.toInt?.map (fun r => hexOf (Timeout.encodeTimeout r))
  | "hdrtimeout" => (parseKVs input).map (fun kvs => match Timeout.timeoutFromHeaders kvs with
      | none => "none" | some d => toString d)
  | "encbetween" => match input.splitOn "," with
    | [lo, hi, v] => do
      let lo ← lo.toInt?; let hi ← hi.toInt?; let v ← parseHex v
      let msLo := Timeout.encodeMillis lo; let msHi := Timeout.encodeMillis hi
      -- the observed header is the model's rendering of some instant in the bracket
      some (if (List.range (msHi - msLo + 1)).any (fun k => Timeout.toDec (msLo + k) ++ [109] = v) then "in" else "out")
    | _ => none
  | "hdrbetween" => match input.splitOn "|" with
    | [kvs, iv] => do
      let kvs ← parseKVs kvs
      match Timeout.timeoutFromHeaders kvs, iv.splitOn "," with
      | none, _ => some "none"
      | some d, [lo, hi] => do
        let lo ← lo.toInt?; let hi ← hi.toInt?
        some (if lo ≤ (d : Int) ∧ (d : Int) ≤ hi then "in" else s!"out({d})")
      | some d, _ => some s!"out({d})"
    | _ => none
  | "srvtracedbg" => (parseList parseSrvObs ";" input).map (fun l => SrvReplay.debugGreedy (l.length + 1) ServerConn.init l 0)
  | "srvtrace" => (parseList parseSrvObs ";" input).map SrvReplay.verdict
  | "cstrace" => some (CsReplay.csTrace input)
  | "muxtrace" => match input.splitOn "|" with
    | [n, evs] => (parseList parseMuxObs ";" evs).map (fun l => MuxReplay.verdict l n.toNat?)
    | _ => none
  | "cliseq" => match input.splitOn "|" with
    | [_, seq] => (parseList parseRespEnv ";" seq).map cliSeq
    | _ => none
  | "unaryreply" => match input.splitOn "|" with
    -- id|method|src|dst|record|kind|code|msg|hdrmd|trlmd|payload
    | [id, m, a, b, rec, kind, code, msg, hm, tm, pl] => do
      let id ← id.toNat?; let m ← parseHex m; let a ← parseHex a; let b ← parseHex b
      let rec ← parseList parseHex "," rec; let code ← code.toInt?; let msg ← parseHex msg
      let hm ← parseMD hm; let tm ← parseMD tm; let pl ← parseHex pl
      let req : Env := { id := id, header := some { method := m, src := a, dst := b, record := rec }, body := some pl }
      let e ← parseHErr kind code msg [] []
      let r := UnaryReply.reply req m (if e == .nil then some pl else none) e hm tm
      some (showRoute r ++ "~" ++ showEnv r)
    | _ => none
  | "badmetareply" => match input.splitOn "|" with
    | [id, m, a, b, rec] => do
      let id ← id.toNat?; let m ← parseHex m; let a ← parseHex a; let b ← parseHex b
      let rec ← parseList parseHex "," rec
      let r := UnaryReply.badMeta { id := id, header := some { method := m, src := a, dst := b, record := rec }, body := some [] } m []
      some (showRoute r ++ s!"~code={match r.status with | some st => toString st.code | none => "none"}~body={if r.body.isSome then 1 else 0}~trailer={if r.trailer.isSome then 1 else 0}")
    | _ => none
  | "resetreply" => match input.splitOn "|" with
    | [id, m, a, b, rec] => do
      let id ← id.toNat?; let m ← parseHex m; let a ← parseHex a; let b ← parseHex b
      let rec ← parseList parseHex "," rec
      let r := UnaryReply.reset { id := id, header := some { method := m, src := a, dst := b, record := rec }, body := some [] }
      some (showRoute r ++ "~" ++ showEnv r)
    | _ => none
  | "ssrecv" =>
    -- envelopes forwarded to a server stream: b<hex> body, h header-only, t<code> trailer with status, T trailer without status
    (parseList (fun (x : String) => match x.toList with
        | 'b' :: r => (parseHex (String.ofList r)).map (fun b => ({ header := some {}, body := some b } : Env))
        | ['h'] => some ({ header := some {} } : Env)
        | ['T'] => some ({ header := some {}, trailer := some [] } : Env)
        | 't' :: r => (String.ofList r).toInt?.map (fun c => ({ header := some {}, status := some { code := c }, trailer := some [] } : Env))
        | _ => none) "," input).map (fun es =>
      let (bs, term) := Props.C02.serverRecv es
      showList hexOf "," bs ++ "|" ++ (match term with | none => "pending" | some .eof => "eof" | some (.status c) => s!"status{c}"))
  | "utsrun" => match input.splitOn "|" with
    -- unaryServerTransportStream: a pool of metadata sets "md#md#…" and operations H<i> S<i> T<i> on pool entries
    | [pool, ops] => do
      let pool ← (pool.splitOn "#").mapM parseMD
      let step := fun (st : (List Metadata.MD × Bool) × List Metadata.MD × List String) (o : String) =>
        let ((hs, sent), ts, rets) := st
        let i := (String.ofList (o.toList.drop 1)).toNat?.getD 0
        let md := pool.getD i []
        match o.toList.head? with
        | some 'H' => if sent then ((hs, sent), ts, rets ++ ["err"]) else ((hs ++ [md], sent), ts, rets ++ ["ok"])
        | some 'S' => if sent then ((hs, sent), ts, rets ++ ["err"]) else ((hs ++ [md], true), ts, rets ++ ["ok"])
        | some 'T' => ((hs, sent), ts ++ [md], rets ++ ["ok"])
        | _ => st
      let ((hs, _), ts, rets) := (ops.splitOn "/").foldl step (([], false), [], [])
      some ("hdr=" ++ showMD (Metadata.join hs) ++ "~tr=" ++ showMD (Metadata.join ts) ++ "~" ++ ",".intercalate rets)
    | _ => none
  | "chainlog" => match input.splitOn "|" with
    | [n, req] => do let n ← n.toNat?; let req ← parseHex req; some (chainRun n req)
    | _ => none
  | "chanobs" =>
    -- events of finished calls on one channel transport, in order: w<id> Write ok, W<id> Write failed (ctx),
    -- r<id> Read returned id, R Read failed (ctx)
    let evs := if input = "_" then [] else input.splitOn " "
    let parse (e : String) : Option (Transport.ChanEv Nat) :=
      let arg := (String.ofList (e.toList.drop 1)).toNat?
      match e.toList.head? with
      | some 'w' => arg.map .wrote
      | some 'W' => arg.map .writeFailed
      | some 'r' => arg.map .readGot
      | some 'R' => some .readFailed
      | _ => none
    match evs.mapM parse with
    | none => none
    | some l =>
      match Transport.chanObs false [] l with
      | some q => some s!"accept:inflight={q.length}"
      | none => some "reject"
  | "httptable" =>
    -- ops: N<a> NewConnection(a) -> obj<i>; T all connections idle out; W<i> a Write on object i fails; G<i> a Write on object i ends with its caller's context; R<i> Read on object i
    let ops := if input = "_" then [] else input.splitOn " "
    let stepOp (acc : Option (HttpTable.State × List String)) (op : String) : Option (HttpTable.State × List String) := do
      let (s, outs) ← acc
      let arg := (String.ofList (op.toList.drop 1)).toNat?
      match op.toList.head? with
      | some 'N' => do
        let a ← arg
        let s1 ← HttpTable.step s (.retrieve a)
        let j ← HttpTable.lookup s1.table a
        some (s1, outs ++ [s!"obj{j}"])
      | some 'T' => do
        let s1 ← HttpTable.step s (.sweep (s.table.map (·.1)))
        some (s1, outs ++ ["ok"])
      | some 'W' => do
        let i ← arg
        let s1 ← HttpTable.step s (.writeFail i)
        some (s1, outs ++ [if s1.panicked then "panic" else "err"])
      | some 'G' => do
        -- a Write that ends with its caller's (finished) context: an error, the table is not touched
        let i ← arg
        let s1 ← HttpTable.step s (.writeGaveUp i)
        some (s1, outs ++ ["err"])
      | some 'B' => do
        -- a Write whose envelope the codec rejects: an error, and the table is not touched
        let i ← arg
        let _ ← s.objs[i]?
        some (s, outs ++ ["err"])
      | some 'R' => do
        let i ← arg
        some (s, outs ++ [HttpTable.readOutcome s i])
      | _ => none
    (ops.foldl stepOp (some ({}, []))).map (fun r => " ".intercalate r.2)
  | "openstream" => match input.splitOn "," with
    | [r, w] => some (OpenStream.render (OpenStream.newStream ({} : OpenStream.Cfg) (r == "1") (w == "1")))
    | _ => none
  | "statshape" => match input.splitOn "|" with
    | [fin, evs] => (parseList parseKind "," evs).map (fun l =>
        if Stats.shapeOK (fin == "1") l then
          "ok:" ++ (match Stats.endErr l with | some true => "err" | some false => "nil" | none => "noend")
        else "bad")
    | _ => none
  | "srvseq" => (parseList parseSeqEnv ";" input).map (fun es =>
      let (effs, alive) := Classify.runSeq true echoView [] es
      showEffects effs alive)
  | "method" => (parseHex input).map (fun b => match Classify.parseRawMethod b with
      | none => "ERR" | some (s, m) => hexOf s ++ "," ++ hexOf m)
  | "accC" => (parseList parseShape ";" input).map (fun l => if Protocol.accC l then "accept" else "reject")
  | "accS" => match input.splitOn "|" with
    | [u, l] => (parseList parseShape ";" l).map (fun l => if Protocol.accS (u == "unary") l then "accept" else "reject")
    | _ => none
  | "ssrun" => ((input.splitOn "/").mapM parseSSOp).map runSS
  | "statusrt" => match input.splitOn "|" with
    | [mode, kind, code, msg, details, outer] => do
      let code ← code.toInt?; let msg ← parseHex msg; let details ← parseList parseHex "," details
      let outer ← parseHex outer
      let e ← parseHErr kind code msg details outer
      if mode == "unary" then
        -- a successful handler replies with a body; a failed one with none
        some (showOutcome (StatusM.clientUnary true (StatusM.serverUnaryStatus e) (if e == .nil then some [] else none)))
      else
        some (showOutcome (StatusM.clientStreamTerminal true false (some (StatusM.serverTrailerStatus e))))
    | _ => none
  | "foreign" => match input.splitOn "|" with
    -- replies produced by foreign peers, fed to the real client: mode|hasStatus|code|hasBody|isReset
    | [mode, hs, code, hb, rst] => do
      let code ← code.toInt?
      let st : Option Status := if hs == "1" then some { code := code } else none
      if mode == "unary" then some (showOutcome (StatusM.clientUnary true st (if hb == "1" then some [] else none)))
      else some (showOutcome (StatusM.clientStreamTerminal true (rst == "1") st))
    | _ => none
  | _ => (evalPb op input).orElse (fun _ => Goat.Drv.evalPx op input)

structure Tally where
  lines : Nat := 0
  ok : Nat := 0
  mismatch : Nat := 0
  bad : Nat := 0

partial def loop (h : IO.FS.Stream) (t : Tally) : IO Tally := do
  let line ← h.getLine
  if line.isEmpty then return t
  let l : String := String.ofList (line.toList.filter (fun c => c != '\n' && c != '\r'))
  let n := t.lines + 1
  if l.isEmpty || l.startsWith "#" then loop h { t with lines := n } else
  match l.splitOn "\t" with
  | [op, input, impl] =>
    match evalOp op input with
    | some model =>
      if model = impl then loop h { t with lines := n, ok := t.ok + 1 }
      else if model.startsWith "inconclusive" then do
        -- a trace replay that ran out of its search budget decides nothing (it is not a rejection)
        IO.println s!"NOTE {n} {op} replay {model}"
        loop h { t with lines := n, ok := t.ok + 1 }
      else do
        IO.println s!"MISMATCH {n} {op} {input} impl={impl} model={model}"
        loop h { t with lines := n, mismatch := t.mismatch + 1 }
    | none => do
      IO.println s!"BADLINE {n} {op} {input}"
      loop h { t with lines := n, bad := t.bad + 1 }
  | _ => do
    IO.println s!"BADLINE {n}"
    loop h { t with lines := n, bad := t.bad + 1 }

def main (args : List String) : IO UInt32 := do
  let stdin ← IO.getStdin
  let _ := args
  let t ← loop stdin {}
  IO.println s!"SUMMARY lines={t.lines} ok={t.ok} mismatch={t.mismatch} bad={t.bad}"
  return (if t.mismatch = 0 && t.bad = 0 then 0 else 1)
