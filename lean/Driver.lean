/-
  goatdrv: the model side of the correspondence check. Reads one case per line
    op <TAB> input <TAB> implementation-output
  computes the model's output for `op input`, and prints
    ok | MISMATCH <line-no> <op> <input> impl=<..> model=<..> | BADLINE <line-no>
  followed by a summary. Core Lean only, so that it links as an executable.
-/
import Goat.Drv.Codec
import Goat.Base64
import Goat.Metadata
import Goat.Timeout
open Goat Goat.Drv

def showOptBytes : Option Bytes → String
  | none => "ERR"
  | some b => hexOf b

/-- entries "k=v1,v2;k2=v3" -/
def parseMD (s : String) : Option Metadata.MD :=
  parseList (fun e => match e.splitOn "=" with
    | [k, vs] => do let k' ← parseHex k; let vs' ← parseList parseHex "," vs; some (k', vs')
    | _ => none) ";" s

def parseKVs (s : String) : Option (List KV) :=
  parseList (fun e => match e.splitOn "=" with
    | [k, v] => do let k' ← parseHex k; let v' ← parseHex v; some ({ key := k', value := v' } : KV)
    | _ => none) ";" s

/-- canonical form: keys sorted, per key the values in order -/
def showMD (md : Metadata.MD) : String :=
  let keys := sortDedup (md.map (·.1))
  showList (fun k => hexOf k ++ "=" ++ showList hexOf "," (Metadata.get md k)) ";" keys

def showKVsGrouped (kvs : List KV) : String :=
  showMD (kvs.map (fun h => (h.key, [h.value])))

def showOptMD : Option Metadata.MD → String
  | none => "ERR"
  | some md => showMD md

def evalOp (op input : String) : Option String :=
  match op with
  | "b64enc" => (parseHex input).map (fun b => hexOf (Base64.encode b))
  | "b64dec" => (parseHex input).map (fun b => showOptBytes (Base64.decode b))
  | "tokv" => (parseMD input).map (fun md => showKVsGrouped (Metadata.toKeyValue md))
  | "tomd" => (parseKVs input).map (fun kvs => showOptMD (Metadata.toMetadata kvs))
  | "mdrt" => (parseMD input).map (fun md => showOptMD (Metadata.toMetadata (Metadata.toKeyValue md)))
  | "timeout" => (parseHex input).map (fun b => match Timeout.parseTimeout b with
      | none => "none" | some d => toString d)
  | "enctimeout" => input.toInt?.map (fun r => hexOf (Timeout.encodeTimeout r))
  | "hdrtimeout" => (parseKVs input).map (fun kvs => match Timeout.timeoutFromHeaders kvs with
      | none => "none" | some d => toString d)
  | "encbetween" => match input.splitOn "," with
    | [lo, hi, v] => do
      let lo ← lo.toInt?; let hi ← hi.toInt?; let v ← parseHex v
      let msLo := Timeout.encodeMillis lo; let msHi := Timeout.encodeMillis hi
      -- the observed header is the model's rendering of some instant in the bracket
      some (if (List.range (msHi - msLo + 1)).any (fun k => Timeout.toDec (msLo + k) ++ [109] = v) then "in" else "out")
    | _ => none
  | "hdrbetween" => match input.splitOn "|" with
    | [kvs, iv] => do
      let kvs ← parseKVs kvs
      match Timeout.timeoutFromHeaders kvs, iv.splitOn "," with
      | none, _ => some "none"
      | some d, [lo, hi] => do
        let lo ← lo.toInt?; let hi ← hi.toInt?
        some (if lo ≤ (d : Int) ∧ (d : Int) ≤ hi then "in" else s!"out({d})")
      | some d, _ => some s!"out({d})"
    | _ => none
  | _ => none

structure Tally where
  lines : Nat := 0
  ok : Nat := 0
  mismatch : Nat := 0
  bad : Nat := 0

partial def loop (h : IO.FS.Stream) (t : Tally) : IO Tally := do
  let line ← h.getLine
  if line.isEmpty then return t
  let l : String := String.ofList (line.toList.filter (fun c => c != '\n' && c != '\r'))
  let n := t.lines + 1
  if l.isEmpty || l.startsWith "#" then loop h { t with lines := n } else
  match l.splitOn "\t" with
  | [op, input, impl] =>
    match evalOp op input with
    | some model =>
      if model = impl then loop h { t with lines := n, ok := t.ok + 1 }
      else do
        IO.println s!"MISMATCH {n} {op} {input} impl={impl} model={model}"
        loop h { t with lines := n, mismatch := t.mismatch + 1 }
    | none => do
      IO.println s!"BADLINE {n} {op} {input}"
      loop h { t with lines := n, bad := t.bad + 1 }
  | _ => do
    IO.println s!"BADLINE {n}"
    loop h { t with lines := n, bad := t.bad + 1 }

def main (args : List String) : IO UInt32 := do
  let stdin ← IO.getStdin
  let _ := args
  let t ← loop stdin {}
  IO.println s!"SUMMARY lines={t.lines} ok={t.ok} mismatch={t.mismatch} bad={t.bad}"
  return (if t.mismatch = 0 && t.bad = 0 then 0 else 1)
