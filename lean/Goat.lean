-- Root of the `Goat` library: every model, proof, property and tie module.
import Goat.Basic
import Goat.Cfg
import Goat.Base64
import Goat.Metadata
import Goat.Timeout
import Goat.Drv.Codec
import Goat.Expected
import Goat.Generated.Facts
import Goat.Props.C04
import Goat.Props.C08
import Goat.Tie.C04
import Goat.Tie.C08
