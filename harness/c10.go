package main

import (
	"context"
	"fmt"
	"io"
	"math/rand"
	"strings"
	"sync"
	"sync/atomic"
	"time"

	goat "github.com/avos-io/goat"
	"github.com/avos-io/goat/gen/goatorepo"
	"google.golang.org/grpc"
	"google.golang.org/grpc/metadata"
	"google.golang.org/protobuf/proto"
	"google.golang.org/protobuf/types/known/wrapperspb"
)

// C10 — server connections end cleanly: Serve returns, handlers cancelled, no leaks.
//
// One case = one goat.Server serving one scripted transport (Script: the scenario is the peer, every
// envelope is handed over in a rendezvous, so "after n requests" and "at response j" are exact).
//   in flight   u unary handlers blocked on their context, s streaming handlers blocked in receive
//               (a program that only receives), in send (a program that only sends, to a peer that reads
//               or does not read: with the rendezvous transport the first unread envelope fills it), or
//               on their context; q unary handlers that answer at once (they produce response envelopes)
//   fault       read   the transport's Read fails after the first n envelopes of the request sequence
//                      have been processed (n = 0..len, every position)
//               stop   Server.Stop() at the same positions
//               write  every request is in; the peer takes j response envelopes, then Write fails
// Monitor serveClean:
//   1. Serve returns within hangTimeout;
//   2. at that moment every streaming handler that was started has finished (a counter incremented at
//      handler exit, read right after Serve returned, equals the number of registered streams);
//   3. the context of every handler in flight becomes done (waited for, not slept for);
//   4. once the handlers have returned, no goroutine with a goat frame remains beyond the census taken
//      before the connection was served.

func init() { register("C10", runC10) }

type c10Case struct {
	Unary  int      `json:"unaryBlockedOnContext"`
	Modes  []string `json:"streams"` // recv | send | hold
	Quick  int      `json:"unaryAnsweringAtOnce"`
	Drain  bool     `json:"peerReadsResponses"`
	Fault  string   `json:"fault"` // read | stop | write
	Pos    int      `json:"position"`
	Order  []int    `json:"order"` // permutation of the request items
	nItems int
}

var c10WriteErrs = []error{errInjectedWrite, fmt.Errorf("failed to write msg: %w", context.Canceled), io.ErrClosedPipe, fmt.Errorf("write: %w", context.DeadlineExceeded)}

type c10Rec struct {
	kind     string // unary | stream
	mode     string
	name     string
	ctx      context.Context
	returned chan struct{}
}

type c10World struct {
	mu      sync.Mutex
	recs    []*c10Rec
	started chan struct{}
	exits   atomic.Int64 // streaming handler exits
	force   chan struct{}
}

func (w *c10World) add(rec *c10Rec) {
	w.mu.Lock()
	w.recs = append(w.recs, rec)
	w.mu.Unlock()
	w.started <- struct{}{}
}

func (w *c10World) snapshot() []*c10Rec {
	w.mu.Lock()
	defer w.mu.Unlock()
	return append([]*c10Rec(nil), w.recs...)
}

func c10Install(impl *Impl, w *c10World) {
	impl.SetUnary(func(ctx context.Context, req []byte) ([]byte, error) {
		rec := &c10Rec{kind: "unary", mode: mdGet(ctx, "x-mode"), name: string(req), ctx: ctx, returned: make(chan struct{})}
		defer close(rec.returned)
		w.add(rec)
		if rec.mode == "quick" {
			return unaryF(req), nil
		}
		select {
		case <-ctx.Done():
		case <-w.force:
		}
		return nil, ctx.Err()
	})
	impl.SetStream(func(method string, ss grpc.ServerStream) error {
		ctx := ss.Context()
		rec := &c10Rec{kind: "stream", mode: mdGet(ctx, "x-mode"), name: mdGet(ctx, "x-tag"), ctx: ctx, returned: make(chan struct{})}
		defer close(rec.returned)
		defer w.exits.Add(1)
		w.add(rec)
		switch rec.mode {
		case "recv":
			for {
				if _, err := recvB(ss); err != nil {
					return err
				}
			}
		case "send":
			for i := 0; ; i++ {
				if err := sendB(ss, srvMsg(i)); err != nil {
					// a handler that pushes the rest of its batch without looking at the results, then a
					// farewell header: every one of these fails at once, and leaves nothing behind
					for k := 0; k < 12; k++ {
						sendB(ss, srvMsg(i+1+k))
					}
					ss.SendHeader(metadata.Pairs("farewell", "1"))
					return err
				}
			}
		default:
			select {
			case <-ctx.Done():
			case <-w.force:
			}
			return ctx.Err()
		}
	})
}

func c10Env(id uint64, method, mode, tag string, body []byte) *Rpc {
	e := &Rpc{Id: id, Header: &goatorepo.RequestHeader{Method: method, Source: "peer", Destination: "srv",
		Headers: []*goatorepo.KeyValue{{Key: "x-mode", Value: mode}, {Key: "x-tag", Value: tag}}}}
	if body != nil {
		b, _ := proto.Marshal(&wrapperspb.BytesValue{Value: body})
		e.Body = &goatorepo.Body{Data: b}
	}
	return e
}

// c10Requests builds the request sequence: unary requests, stream opens, and one message for every
// receiving stream (placed right after its open in the order).
func c10Requests(c c10Case) (reqs []*Rpc, unary, opens []bool) {
	type item struct {
		envs  []*Rpc
		unary bool
	}
	var items []item
	for i := 0; i < c.Unary; i++ {
		e := c10Env(uint64(100+i), mUnary, "hold", "", []byte(fmt.Sprintf("hold%d", i)))
		if i%2 == 0 {
			// a request that came with a deadline of its own (far away) is cancelled with its connection all the same
			e.Header.Headers = append(e.Header.Headers, &goatorepo.KeyValue{Key: "grpc-timeout", Value: "1H"})
		}
		items = append(items, item{[]*Rpc{e}, true})
	}
	for j, m := range c.Modes {
		tag := fmt.Sprintf("%s%d", m, j)
		id := uint64(200 + j)
		method := mBidi
		switch {
		case m == "recv" && j%2 == 1:
			method = mCliStream
		case m == "send" && j%2 == 1:
			method = mSrvStream
		}
		envs := []*Rpc{c10Env(id, method, m, tag, nil)}
		if j%3 == 1 {
			envs[0].Header.Headers = append(envs[0].Header.Headers, &goatorepo.KeyValue{Key: "grpc-timeout", Value: "3600S"})
		}
		if m == "recv" {
			envs = append(envs, c10Env(id, method, m, tag, []byte("one message")))
		}
		items = append(items, item{envs, false})
	}
	for i := 0; i < c.Quick; i++ {
		items = append(items, item{[]*Rpc{c10Env(uint64(300+i), mUnary, "quick", "", []byte(fmt.Sprintf("quick%d", i)))}, true})
	}
	for _, k := range c.Order {
		it := items[k]
		for n, e := range it.envs {
			reqs = append(reqs, e)
			unary = append(unary, it.unary)
			opens = append(opens, !it.unary && n == 0)
		}
	}
	return
}

func c10CountEvents(site string) int {
	n := 0
	for _, e := range hooks.Events() {
		if e.Site == site {
			n++
		}
	}
	return n
}

// c10Run executes one case; false = stop the family (a hang was paid for).
func c10Run(r *Run, c c10Case) bool {
	scen := "serve." + c.Fault
	r.Progress(scen, c)
	hooks.Reset(true)
	defer hooks.Reset(false)
	baseline, _ := goatGoroutines()

	reqs, isUnary, isOpen := c10Requests(c)
	feed := len(reqs)
	if c.Fault != "write" {
		feed = c.Pos
	}
	sc := NewScript(0)
	w := &c10World{started: make(chan struct{}, 64), force: make(chan struct{})}
	impl := &Impl{}
	c10Install(impl, w)
	srv := goat.NewServer("srv")
	srv.RegisterService(&echoDesc, impl)
	serveCtx, cancelServe := context.WithCancel(context.Background())
	served := make(chan error, 1)
	go func() { served <- srv.Serve(serveCtx, sc) }()

	stopDrain := make(chan struct{})
	var drained atomic.Int64
	if c.Drain && c.Fault != "write" {
		go func() {
			for {
				select {
				case <-sc.Out:
					drained.Add(1)
				case <-stopDrain:
					return
				}
			}
		}()
	}
	var once sync.Once
	cleanup := func() {
		once.Do(func() {
			close(w.force)
			cancelServe()
			srv.Stop()
			sc.FailRead(errInjectedRead)
			sc.FailWrite(errInjectedWrite)
			close(stopDrain)
		})
	}
	defer cleanup()

	// the requests before the fault, one rendezvous each; then the read loop is back in Read
	expectStarted := 0
	for i := 0; i < feed; i++ {
		select {
		case sc.In <- reqs[i]:
		case <-time.After(hangTimeout):
			r.Violate(scen+".setup", "history", "the server stopped reading requests before any fault", c, fmt.Sprintf("request %d of %d", i, feed), goroutineDump())
			return false
		}
		if isUnary[i] || isOpen[i] {
			expectStarted++
		}
	}
	if !sc.WaitReads(feed+1, hangTimeout) {
		r.Violate(scen+".setup", "history", "the server's read loop did not come back for more input before any fault", c, nil, goroutineDump())
		return false
	}
	// every handler those requests start is in flight
	if !within(hangTimeout, func() {
		for i := 0; i < expectStarted; i++ {
			<-w.started
		}
	}) {
		r.Violate(scen+".setup", "history", "requests read by the server did not reach their handlers", c, nil, goroutineDump())
		return false
	}
	hasSender := false
	for j, m := range c.Modes {
		if m == "send" && c10Fed(j, feed, reqs) {
			hasSender = true
		}
	}
	if hasSender && !(c.Drain && c.Fault != "write") {
		// blocked in send: the writer holds an envelope nobody reads
		hooks.WaitFor(siteIs("srv.writer.take", 0), hangTimeout)
	}
	switch c.Fault {
	case "read":
		sc.FailRead(errInjectedRead)
	case "stop":
		srv.Stop()
	case "write":
		for j := 0; j < c.Pos; j++ {
			select {
			case <-sc.Out:
			case <-time.After(hangTimeout):
				r.Violate(scen+".setup", "history", "an expected response envelope was not written", c, fmt.Sprintf("response %d", j), goroutineDump())
				return false
			}
		}
		// the error value a dead transport reports varies: a websocket or HTTP connection with a context of
		// its own says "context canceled" although nothing of the SERVER's has been cancelled
		we := c10WriteErrs[(c.Pos+c.Unary+len(c.Modes)+c.Quick)%len(c10WriteErrs)]
		r.Count("c10.write_error." + we.Error())
		sc.FailWrite(we)
	}

	// 1. Serve returns
	select {
	case <-served:
	case <-time.After(hangTimeout):
		r.Violate(scen+".serve-hangs", "history", "Serve did not return after the "+c.Fault+" fault", c, c10Events(), goroutineDump())
		return false
	}
	// 2. every streaming handler has finished by now
	exits := int(w.exits.Load())
	registered := c10CountEvents("srv.register")
	dispatched := c10CountEvents("srv.unary.dispatch")
	ok := true
	if exits != registered {
		ok = false
		r.Violate(scen+".stream-running", "history", "Serve returned while a streaming handler of the connection was still running", c,
			fmt.Sprintf("%d handler exits counted right after Serve returned", exits), fmt.Sprintf("%d streams registered", registered))
	}
	// 3. contexts of the handlers in flight
	recs := w.snapshot()
	nUnary := 0
	for _, rec := range recs {
		if rec.kind == "unary" {
			nUnary++
		}
	}
	if nUnary < dispatched {
		// a request handed to a worker whose handler has not been entered yet: wait for it
		within(hangTimeout, func() {
			for i := nUnary; i < dispatched; i++ {
				<-w.started
			}
		})
		recs = w.snapshot()
	}
	deadline := time.After(hangTimeout)
	timedOut := false
	var live []string
	for _, rec := range recs {
		if rec.mode == "quick" {
			continue // it has answered: not in flight
		}
		if !timedOut {
			select {
			case <-rec.ctx.Done():
				continue
			case <-deadline:
				timedOut = true
			}
		}
		select {
		case <-rec.ctx.Done():
		default:
			live = append(live, rec.kind+" "+rec.mode+" "+rec.name)
		}
	}
	if len(live) > 0 {
		ok = false
		r.Violate(scen+".ctx-not-cancelled", "history", "the context of a handler in flight was not cancelled after Serve returned", c, live, nil)
		cleanup()
	}
	// 4. handlers return, then nothing of the connection remains
	if !within(hangTimeout, func() {
		for _, rec := range recs {
			<-rec.returned
		}
	}) {
		r.Violate(scen+".handler-stuck", "history", "a handler whose context is done is still blocked in a library call", c, nil, goroutineDump())
		return false
	}
	n, where := settleGoroutines(baseline)
	if n > baseline {
		ok = false
		r.Violate(scen+".goroutines", "history", "goroutines started for the connection remain after Serve returned and all handlers returned", c,
			map[string]any{"remaining": n, "baseline": baseline, "where": where}, c10Events())
	}
	r.Eval(fmt.Sprintf("%s/u%d/s%s/q%d/d%v/p%d", c.Fault, c.Unary, strings.Join(c.Modes, ","), c.Quick, c.Drain, c.Pos), len(recs) > 0)
	r.Count("c10." + c.Fault)
	r.CountN("c10.handlers.unary", nUnary)
	r.CountN("c10.handlers.stream", registered)
	for _, rec := range recs {
		if rec.kind == "stream" {
			r.Count("c10.stream." + rec.mode)
		}
	}
	if c.Pos == 2 && c.Unary == 1 && len(c.Modes) == 2 {
		r.Sample(map[string]any{"case": c, "handlers": len(recs), "registeredStreams": registered, "handlerExitsAtReturn": exits})
	}
	return ok
}

// c10Fed reports whether the open of stream j is among the first feed requests.
func c10Fed(j int, feed int, reqs []*Rpc) bool {
	for i := 0; i < feed && i < len(reqs); i++ {
		if reqs[i].Id == uint64(200+j) {
			return true
		}
	}
	return false
}

func c10Events() []string {
	evs := hooks.Events()
	if len(evs) > 80 {
		evs = evs[len(evs)-80:]
	}
	out := make([]string, len(evs))
	for i, e := range evs {
		out[i] = e.String()
	}
	return out
}

func c10Modes(rng *rand.Rand, s int, offset int) []string {
	all := []string{"recv", "send", "hold"}
	m := make([]string, s)
	for j := range m {
		if j == 0 {
			m[j] = all[offset%3]
		} else {
			m[j] = all[rng.Intn(3)]
		}
	}
	return m
}

func runC10(r *Run) {
	c10ResetThenEnd(r)
	c10PendingReset(r)
	c10ExpiredThenEnd(r)
	c10ParkedThenEnd(r)
	c10BusyWorkersThenEnd(r)
	rng := r.Rand("c10")
	maxH := r.Scale(3, 8)
	stopped := map[string]bool{}
	combo := 0
	for round, rounds := 0, r.Scale(2, 4); round < rounds; round++ {
		for u := 0; u <= maxH; u++ {
			for s := 0; s <= maxH; s++ {
				combo++
				base := c10Case{Unary: u, Modes: c10Modes(rng, s, combo+round), Drain: (combo+round)%2 == 0}
				base.Quick = rng.Intn(3)
				if base.Quick > 8-u {
					base.Quick = 8 - u
				}
				base.nItems = u + s + base.Quick
				base.Order = rng.Perm(base.nItems)
				reqs, _, _ := c10Requests(base)
				r.Count(fmt.Sprintf("c10.grid.u%d.s%d", u, s))
				for _, fault := range []string{"read", "stop"} {
					if !r.Want("serve."+fault) || stopped[fault] {
						continue
					}
					for pos := 0; pos <= len(reqs); pos++ {
						c := base
						c.Fault, c.Pos = fault, pos
						if !c10Run(r, c) {
							stopped[fault] = true
							break
						}
					}
				}
				if r.Want("serve.write") && !stopped["write"] {
					c := base
					c.Fault = "write"
					hasSender := false
					for _, m := range c.Modes {
						hasSender = hasSender || m == "send"
					}
					if !hasSender && c.Quick == 0 {
						if s == 0 {
							r.Count("c10.write.noresponder")
							continue
						}
						c.Modes = append([]string(nil), c.Modes...)
						c.Modes[0] = "send"
						hasSender = true
					}
					positions := c.Quick
					if hasSender {
						positions = r.Scale(3, 5)
					}
					for pos := 0; pos < positions; pos++ {
						c.Pos = pos
						if !c10Run(r, c) {
							stopped["write"] = true
							break
						}
					}
				}
				if r.NumViolations() > 4 {
					return
				}
			}
		}
	}
}
