package main

import (
	"bytes"
	"context"
	"crypto/sha256"
	"errors"
	"fmt"
	"io"
	"strconv"
	"strings"
	"sync"

	"google.golang.org/grpc"
	"google.golang.org/grpc/codes"
	"google.golang.org/grpc/metadata"
	"google.golang.org/grpc/status"
)

// ---- the unary function every server applies: reply = F(request) ----

func unaryF(req []byte) []byte {
	h := sha256.Sum256(req)
	out := make([]byte, 0, len(req)+8)
	out = append(out, h[:8]...)
	for i := len(req) - 1; i >= 0; i-- {
		out = append(out, req[i])
	}
	return out
}

// ---- stream handler programs, selected by request metadata "x-prog" ----
//
//   echo            reply to each message with the same payload, until EOF
//   burst:N         send N messages, then consume until EOF
//   aftereof:N      consume until EOF, then send N messages
//   early:K         return after receiving K messages, without reading the rest
//   fail:K:CODE     consume K messages, then return status CODE with message "boom <K>"
//   hold            block until the stream's context is done, return its error
//   ownctx:K        consume K messages, return the error of a context of the handler's own (context.Canceled)
//   holdhdr         as hold, then SendHeader (which may fail on the finished stream), then return
//   badsend:K       consume K messages, fail one SendMsg in the codec, return nil
//
// Messages the handler originates are "s<i>" (i from 0).

type HandlerLog struct {
	mu       sync.Mutex
	Recv     map[string][][]byte // call tag -> messages the handler received
	Sent     map[string][][]byte // call tag -> messages the handler sent successfully
	Result   map[string]string   // call tag -> "ok" or error text
	SawEOF   map[string]bool
	Invoked  map[string]int // unary: request hex -> count
	CtxDone  map[string]bool
	invOrder []string
}

func NewHandlerLog() *HandlerLog {
	return &HandlerLog{Recv: map[string][][]byte{}, Sent: map[string][][]byte{}, Result: map[string]string{}, SawEOF: map[string]bool{}, Invoked: map[string]int{}, CtxDone: map[string]bool{}}
}

func srvMsg(i int) []byte { return []byte("s" + strconv.Itoa(i)) }

func mdGet(ctx context.Context, key string) string {
	md, _ := metadata.FromIncomingContext(ctx)
	if v := md.Get(key); len(v) > 0 {
		return v[0]
	}
	return ""
}

// InstallPrograms makes impl run the program named in each call's metadata and log what it sees.
func InstallPrograms(impl *Impl, log *HandlerLog, gate func(tag string)) {
	impl.SetUnary(func(ctx context.Context, req []byte) ([]byte, error) {
		log.mu.Lock()
		log.Invoked[string(req)]++
		log.invOrder = append(log.invOrder, string(req))
		log.mu.Unlock()
		if gate != nil {
			gate(string(req))
		}
		if p := mdGet(ctx, "x-prog"); strings.HasPrefix(p, "fail:") {
			f := strings.Split(p, ":")
			c, _ := strconv.Atoi(f[2])
			return nil, status.Error(codes.Code(c), "boom")
		}
		return unaryF(req), nil
	})
	impl.SetStream(func(method string, ss grpc.ServerStream) error {
		ctx := ss.Context()
		tag := mdGet(ctx, "x-tag")
		prog := strings.Split(mdGet(ctx, "x-prog"), ":")
		arg := func(i int) int {
			if len(prog) > i {
				n, _ := strconv.Atoi(prog[i])
				return n
			}
			return 0
		}
		recv := func() ([]byte, error) {
			b, err := recvB(ss)
			log.mu.Lock()
			if err == nil {
				log.Recv[tag] = append(log.Recv[tag], b)
			} else if err == io.EOF {
				log.SawEOF[tag] = true
			}
			log.mu.Unlock()
			return b, err
		}
		send := func(b []byte) error {
			err := sendB(ss, b)
			if err == nil {
				log.mu.Lock()
				log.Sent[tag] = append(log.Sent[tag], b)
				log.mu.Unlock()
			}
			return err
		}
		finish := func(err error) error {
			log.mu.Lock()
			if err == nil {
				log.Result[tag] = "ok"
			} else {
				log.Result[tag] = err.Error()
			}
			log.CtxDone[tag] = ctx.Err() != nil
			log.mu.Unlock()
			return err
		}
		if gate != nil {
			gate(tag)
		}
		switch prog[0] {
		case "echo":
			for {
				b, err := recv()
				if err == io.EOF {
					return finish(nil)
				}
				if err != nil {
					return finish(err)
				}
				if err := send(b); err != nil {
					return finish(err)
				}
			}
		case "burst":
			for i := 0; i < arg(1); i++ {
				if err := send(srvMsg(i)); err != nil {
					return finish(err)
				}
			}
			for {
				if _, err := recv(); err != nil {
					if err == io.EOF {
						return finish(nil)
					}
					return finish(err)
				}
			}
		case "aftereof":
			for {
				if _, err := recv(); err != nil {
					if err == io.EOF {
						break
					}
					return finish(err)
				}
			}
			for i := 0; i < arg(1); i++ {
				if err := send(srvMsg(i)); err != nil {
					return finish(err)
				}
			}
			return finish(nil)
		case "early":
			for i := 0; i < arg(1); i++ {
				if _, err := recv(); err != nil {
					break
				}
			}
			return finish(nil)
		case "fail":
			for i := 0; i < arg(1); i++ {
				if _, err := recv(); err != nil {
					break
				}
			}
			return finish(status.Error(codes.Code(arg(2)), "boom "+strconv.Itoa(arg(1))))
		case "hold":
			<-ctx.Done()
			return finish(ctx.Err())
		case "ownctx":
			// the handler fails with the error of a context of ITS OWN that it cancelled (an errgroup, a
			// downstream call): a Canceled outcome on a stream whose caller is still there
			own, cancelOwn := context.WithCancel(ctx)
			cancelOwn()
			for i := 0; i < arg(1); i++ {
				if _, err := recv(); err != nil {
					break
				}
			}
			return finish(own.Err())
		case "holdhdr":
			// as hold, but once its caller has gone the handler still tries to send its headers explicitly
			// (the write may fail: the stream's context is done) before it returns
			<-ctx.Done()
			ss.SendHeader(metadata.Pairs("late", "1"))
			return finish(ctx.Err())
		case "badsend":
			// consume K messages, try to send a value the codec cannot encode (SendMsg fails, nothing
			// leaves), and return without reading the rest
			for i := 0; i < arg(1); i++ {
				if _, err := recv(); err != nil {
					break
				}
			}
			if err := ss.SendMsg("not a proto message"); err == nil {
				return finish(errors.New("unencodable message accepted"))
			}
			return finish(nil)
		}
		// no program named (a stream the caller never opened as such): behave like an ordinary handler
		// that consumes its input until it ends
		for {
			if _, err := recv(); err != nil {
				return finish(errors.New("unknown program"))
			}
		}
	})
}

// ---- client programs ----

type StreamObs struct {
	Tag      string
	Method   string
	Prog     string
	Client   string
	Sent     [][]byte // successfully sent by the client
	Received [][]byte
	Terminal string // "EOF" or error text of the first RecvMsg error
	Code     codes.Code
	OpenErr  string
	SendErr  string
}

func cliMsg(tag string, i int) []byte { return []byte(tag + "/c" + strconv.Itoa(i)) }

// runStreamCall drives one streaming call. client is one of
//
//	sendall   send everything, half-close, then receive until the end
//	pingpong  send one, receive one, …, half-close, receive until the end
//	conc      sender goroutine and receiver goroutine
//	earlyclose half-close first, then receive until the end
func runStreamCall(ctx context.Context, cc grpc.ClientConnInterface, method, tag, prog, client string, nSend int, payload func(i int) []byte) *StreamObs {
	o := &StreamObs{Tag: tag, Method: method, Prog: prog, Client: client}
	ctx = metadata.AppendToOutgoingContext(ctx, "x-tag", tag, "x-prog", prog)
	cs, err := cc.NewStream(ctx, descOf(method), method)
	if err != nil {
		o.OpenErr = err.Error()
		return o
	}
	if payload == nil {
		payload = func(i int) []byte { return cliMsg(tag, i) }
	}
	if method == mSrvStream {
		nSend = 1
	}
	recvAll := func() {
		for {
			b, err := recvB(cs)
			if err != nil {
				if err == io.EOF {
					o.Terminal = "EOF"
				} else {
					o.Terminal = err.Error()
					o.Code = status.Code(err)
				}
				return
			}
			o.Received = append(o.Received, b)
		}
	}
	sendOne := func(i int) bool {
		p := payload(i)
		if err := sendB(cs, p); err != nil {
			o.SendErr = err.Error()
			return false
		}
		o.Sent = append(o.Sent, p)
		return true
	}
	switch client {
	case "sendall":
		for i := 0; i < nSend; i++ {
			if !sendOne(i) {
				break
			}
		}
		cs.CloseSend()
		recvAll()
	case "pingpong":
		for i := 0; i < nSend; i++ {
			if !sendOne(i) {
				break
			}
			if method != mCliStream && strings.HasPrefix(prog, "echo") {
				b, err := recvB(cs)
				if err != nil {
					if err == io.EOF {
						o.Terminal = "EOF"
					} else {
						o.Terminal = err.Error()
						o.Code = status.Code(err)
					}
					return o
				}
				o.Received = append(o.Received, b)
			}
		}
		cs.CloseSend()
		recvAll()
	case "conc":
		var wg sync.WaitGroup
		wg.Add(1)
		go func() {
			defer wg.Done()
			for i := 0; i < nSend; i++ {
				if !sendOne(i) {
					break
				}
			}
			cs.CloseSend()
		}()
		recvAll()
		wg.Wait()
	case "earlyclose":
		cs.CloseSend()
		recvAll()
	}
	return o
}

// checkStream is the streamSeq monitor (C02) for one finished call.
func checkStream(r *Run, scen string, o *StreamObs, log *HandlerLog, in any) {
	if o.OpenErr != "" {
		r.Violate(scen+".open", "history", "stream could not be opened", in, o.OpenErr, nil)
		return
	}
	log.mu.Lock()
	hrecv := log.Recv[o.Tag]
	hsent := log.Sent[o.Tag]
	hres := log.Result[o.Tag]
	sawEOF := log.SawEOF[o.Tag]
	log.mu.Unlock()
	prog := strings.Split(o.Prog, ":")
	// handler side: what it received is a prefix of what the client sent, in order, unaltered
	if len(hrecv) > len(o.Sent) || !seqPrefix(hrecv, o.Sent) {
		r.Violate(scen+".c2s", "history", "handler received something other than a prefix of what the caller sent", in, seqStr(hrecv), seqStr(o.Sent))
	}
	full := prog[0] == "echo" || prog[0] == "burst" || prog[0] == "aftereof"
	if full && o.SendErr == "" {
		if len(hrecv) != len(o.Sent) {
			r.Violate(scen+".c2s.lost", "history", "handler did not receive every message the caller sent before half-close", in, seqStr(hrecv), seqStr(o.Sent))
		}
		if !sawEOF {
			r.Violate(scen+".halfclose", "history", "handler did not observe io.EOF after the caller half-closed", in, hres, nil)
		}
	}
	// caller side: exactly what the handler sent, in order
	if !seqEqual(o.Received, hsent) {
		r.Violate(scen+".s2c", "history", "caller received something other than exactly what the handler sent", in, seqStr(o.Received), seqStr(hsent))
	}
	// end of stream
	if hres == "ok" {
		if o.Terminal != "EOF" {
			r.Violate(scen+".eof", "history", "handler returned nil but the caller did not observe io.EOF", in, o.Terminal, "EOF")
		}
	} else if hres != "" {
		if o.Terminal == "EOF" || o.Terminal == "" {
			r.Violate(scen+".status", "history", "handler failed but the caller observed success", in, o.Terminal, hres)
		}
	}
}

func seqPrefix(a, b [][]byte) bool {
	if len(a) > len(b) {
		return false
	}
	for i := range a {
		if !bytes.Equal(a[i], b[i]) {
			return false
		}
	}
	return true
}

func seqEqual(a, b [][]byte) bool { return len(a) == len(b) && seqPrefix(a, b) }

func seqStr(a [][]byte) string {
	p := make([]string, 0, len(a))
	for i, b := range a {
		if i >= 12 {
			p = append(p, fmt.Sprintf("…(%d more)", len(a)-i))
			break
		}
		if len(b) > 24 {
			p = append(p, fmt.Sprintf("%x…(%d)", b[:8], len(b)))
		} else {
			p = append(p, fmt.Sprintf("%q", b))
		}
	}
	return "[" + strings.Join(p, " ") + "]"
}
