package main

import (
	"bytes"
	"context"
	"errors"
	"fmt"
	"io"
	"net"
	"os"
	"strconv"
	"strings"
	"sync"
	"sync/atomic"
	"syscall"
	"time"

	"google.golang.org/grpc/metadata"
	"google.golang.org/protobuf/types/known/wrapperspb"
)

// C09 — when the client's transport fails, every call fails promptly and none hangs.
//
// Families
//   prefix   k unary calls and streams in flight (handlers gated until all are in flight), then the
//            responses flow and the client's read side fails after exactly n response envelopes, for
//            every n = 0..L (L = number of s2c envelopes of the fault-free run), with the write side
//            failing at the same moment or staying writable, and with each of four error values for the
//            failing Read (io.EOF itself, a wrapped io.EOF, io.ErrUnexpectedEOF, a custom error). Unary
//            "racers" are started concurrently with the response flow, a unary call and a stream at the
//            very moment the last envelope before the failure is handed over; a unary call and a stream
//            are started after the failure.
//   forced   strand D (late_register): a new caller (unary / stream) is held at the yield point
//            "mux.beforeRegister" (after id allocation, before registration) until "mux.fail" has been
//            logged, then released. The write side stays writable, so on a tree where the failure
//            check and the registration are separate critical sections the call waits forever.
//
// Monitor allReturned: every call returns within hangTimeout; a call that reports success reports
// exactly its own result (unaryF(request) / the exact stream messages) and only when the envelopes
// that carry it were delivered before the failure — for a stream, io.EOF (also a wrapped one) counts
// as success and needs an OK trailer delivered and a handler that returned nil; calls started after
// the failure fail.

func init() { register("C09", runC09) }

// The error value the transport's Read fails with: what a cleanly closed net.Pipe / TCP framing returns
// (io.EOF itself), a wrapped io.EOF, an unexpected EOF, and an error of the harness's own. io.EOF matters
// because RecvMsg uses it to say "the stream ended successfully".
type c09ErrVal struct {
	Name string
	Err  error
}

var c09ErrVals = []c09ErrVal{
	{"injected", errInjectedRead},
	{"io.EOF", io.EOF},
	{"wrapped io.EOF", fmt.Errorf("wrapped: %w", io.EOF)},
	{"io.ErrUnexpectedEOF", io.ErrUnexpectedEOF},
	// what a dead TCP peer / an expired read deadline looks like: errors of the "timeout" class
	{"net.OpError ETIMEDOUT", &net.OpError{Op: "read", Net: "tcp", Err: syscall.ETIMEDOUT}},
	{"os.ErrDeadlineExceeded", os.ErrDeadlineExceeded},
	{"context.DeadlineExceeded", context.DeadlineExceeded},
	// a transport with a context of its own (websocket, HTTP) reports its death as "context canceled"
	// although nothing of the CLIENT's has been cancelled or closed
	{"wrapped context.Canceled", fmt.Errorf("failed to read: %w", context.Canceled)},
}

// c09SaysEOF: would a caller take this RecvMsg result for the successful end of the stream?
func c09SaysEOF(err error) bool { return err == io.EOF || errors.Is(err, io.EOF) }

type c09StreamSpec struct {
	Method string `json:"method"`
	Prog   string `json:"prog"`
	NSend  int    `json:"nsend"`
	Ping   bool   `json:"pingpong,omitempty"`
}

type c09Scenario struct {
	Name    string          `json:"name"`
	Unary   int             `json:"unary"`
	Streams []c09StreamSpec `json:"streams"`
	Racers  int             `json:"racers"`
}

func (s c09StreamSpec) nSend() int {
	if s.Method == mSrvStream {
		return 1
	}
	return s.NSend
}

// expected is the exact sequence of messages the caller of this stream must see in a complete run.
func (s c09StreamSpec) expected(tag string) [][]byte {
	p := strings.Split(s.Prog, ":")
	n := 0
	if len(p) > 1 {
		n, _ = strconv.Atoi(p[1])
	}
	var out [][]byte
	switch p[0] {
	case "echo":
		for i := 0; i < s.nSend(); i++ {
			out = append(out, cliMsg(tag, i))
		}
	case "burst", "aftereof":
		for i := 0; i < n; i++ {
			out = append(out, srvMsg(i))
		}
	}
	return out
}

type c09Call struct {
	Kind string // unary | stream
	Tag  string // stream: x-tag; unary: the request payload
	Spec c09StreamSpec

	phase atomic.Value // string, for the hang report
	done  chan struct{}

	// results, written by the call's goroutine before done is closed
	out      []byte
	err      error
	openErr  error
	sendErr  error
	received [][]byte
	terminal error
	hdrErr   error
}

func (c *c09Call) setPhase(s string) { c.phase.Store(s) }

func (c *c09Call) describe() string {
	p, _ := c.phase.Load().(string)
	select {
	case <-c.done:
		if c.Kind == "unary" {
			return fmt.Sprintf("%s %q: returned err=%v out=%x", c.Kind, c.Tag, c.err, c.out)
		}
		return fmt.Sprintf("%s %q: returned open=%v send=%v recv=%s terminal=%v", c.Kind, c.Tag, c.openErr, c.sendErr, seqStr(c.received), c.terminal)
	default:
		return fmt.Sprintf("%s %q: STILL BLOCKED in %s", c.Kind, c.Tag, p)
	}
}

// c09StartUnary starts a unary call (once after is closed, if given).
func c09StartUnary(rig *Rig, req string, after <-chan struct{}) *c09Call {
	c := &c09Call{Kind: "unary", Tag: req, done: make(chan struct{})}
	c.setPhase("not started yet")
	go func() {
		defer close(c.done)
		if after != nil {
			<-after
		}
		c.setPhase("Invoke")
		c.out, c.err = callUnary(context.Background(), rig.CC, []byte(req))
	}()
	return c
}

// c09StartStream opens the stream (once after is closed, if given), then waits for start before running
// the client program (sends, half-close, receive until the end); Header() is called from a second
// goroutine as soon as the stream exists and must return too.
func c09StartStream(rig *Rig, tag string, spec c09StreamSpec, after, start <-chan struct{}) *c09Call {
	c := &c09Call{Kind: "stream", Tag: tag, Spec: spec, done: make(chan struct{})}
	c.setPhase("not started yet")
	go func() {
		defer close(c.done)
		if after != nil {
			<-after
		}
		c.setPhase("NewStream")
		ctx := metadata.AppendToOutgoingContext(context.Background(), "x-tag", tag, "x-prog", spec.Prog)
		cs, err := rig.CC.NewStream(ctx, descOf(spec.Method), spec.Method)
		if err != nil {
			c.openErr = err
			return
		}
		hdr := make(chan error, 1)
		go func() {
			_, err := cs.Header()
			hdr <- err
		}()
		c.setPhase("waiting for the scenario's start signal")
		<-start
		recvOne := func() bool {
			c.setPhase("RecvMsg")
			b, err := recvB(cs)
			if err != nil {
				c.terminal = err
				return false
			}
			c.received = append(c.received, b)
			return true
		}
		ended := false
		for i := 0; i < spec.nSend() && !ended; i++ {
			c.setPhase("SendMsg")
			if err := sendB(cs, cliMsg(tag, i)); err != nil {
				c.sendErr = err
				break
			}
			if spec.Ping && strings.HasPrefix(spec.Prog, "echo") {
				ended = !recvOne()
			}
		}
		c.setPhase("CloseSend")
		cs.CloseSend()
		for !ended {
			ended = !recvOne()
		}
		c.setPhase("Header")
		c.hdrErr = <-hdr
	}()
	return c
}

func c09WaitCalls(calls []*c09Call) bool {
	return within(hangTimeout, func() {
		for _, c := range calls {
			<-c.done
		}
	})
}

func c09Describe(calls []*c09Call) []string {
	out := make([]string, len(calls))
	for i, c := range calls {
		out[i] = c.describe()
	}
	return out
}

// c09Delivered is what the client's transport handed to the library before the failure.
type c09Delivered struct {
	mu     sync.Mutex
	n      int
	bodies map[uint64]int
	ends   map[uint64]bool // an OK trailer (no reset) delivered
	any    map[uint64]bool
}

func (d *c09Delivered) add(e *Rpc) int {
	d.mu.Lock()
	defer d.mu.Unlock()
	d.n++
	d.any[e.Id] = true
	if e.Body != nil {
		d.bodies[e.Id]++
	}
	if e.Trailer != nil && e.Reset_ == nil && e.GetStatus().GetCode() == 0 {
		d.ends[e.Id] = true
	}
	return d.n
}

// c09Ids maps unary request payloads and stream tags to the ids the client put on the wire.
func c09Ids(evs []WireEv) (unary map[string]uint64, stream map[string]uint64) {
	unary, stream = map[string]uint64{}, map[string]uint64{}
	for _, e := range evs {
		if e.Dir != "c2s" || e.Rpc.Header == nil {
			continue
		}
		if e.Rpc.Header.Method == mUnary && e.Rpc.Body != nil {
			m := new(wrapperspb.BytesValue)
			if protoUnmarshal(e.Rpc.Body.Data, m) == nil {
				unary[string(m.Value)] = e.Rpc.Id
			}
			continue
		}
		for _, kv := range e.Rpc.Header.Headers {
			if kv.Key == "x-tag" {
				if _, ok := stream[kv.Value]; !ok {
					stream[kv.Value] = e.Rpc.Id
				}
			}
		}
	}
	return
}

// c09CheckCall is the "no fabricated success" half of allReturned for one returned call.
func c09CheckCall(r *Run, scen string, c *c09Call, del *c09Delivered, log *HandlerLog, unaryIds, streamIds map[string]uint64, in any) {
	log.mu.Lock()
	handlerResult := log.Result[c.Tag]
	log.mu.Unlock()
	del.mu.Lock()
	defer del.mu.Unlock()
	if c.Kind == "unary" {
		if c.err != nil {
			r.Count("c09.unary.error")
			return
		}
		r.Count("c09.unary.result")
		id, known := unaryIds[c.Tag]
		if !bytes.Equal(c.out, unaryF([]byte(c.Tag))) {
			r.Violate(scen+".wrongresult", "history", "a unary call returned success with something other than the reply to its own request", in, c.describe(), fmt.Sprintf("%x", unaryF([]byte(c.Tag))))
		} else if !known || !del.any[id] {
			r.Violate(scen+".fabricated", "history", "a unary call returned success although no response for its id was delivered before the failure", in, c.describe(), nil)
		}
		return
	}
	if c.openErr != nil {
		r.Count("c09.stream.openerror")
		return
	}
	id, known := streamIds[c.Tag]
	exp := c.Spec.expected(c.Tag)
	if !seqPrefix(c.received, exp) {
		r.Violate(scen+".wrongmessages", "history", "a stream delivered something other than a prefix of the exact messages of its handler", in, c.describe(), seqStr(exp))
		return
	}
	if len(c.received) > 0 && (!known || len(c.received) > del.bodies[id]) {
		r.Violate(scen+".fabricated", "history", "a stream delivered more messages than were read from the transport for its id", in, c.describe(), del.bodies[id])
		return
	}
	switch {
	case c.terminal == nil:
		r.Violate(scen+".noterminal", "history", "a stream call returned without a terminal result", in, c.describe(), nil)
	case c09SaysEOF(c.terminal):
		r.Count("c09.stream.eof")
		if !seqEqual(c.received, exp) || !known || !del.ends[id] || handlerResult != "ok" {
			r.Violate(scen+".fabricated", "history", "a stream reported io.EOF (successful end) although no OK trailer for it was delivered before the failure / its handler had not returned nil", in,
				map[string]any{"call": c.describe(), "okTrailerDelivered": known && del.ends[id], "handlerResult": handlerResult}, seqStr(exp))
		}
	default:
		r.Count("c09.stream.error")
	}
}

// c09LateCalls starts a unary call and a stream after the failure has been recorded: both must fail, at once.
func c09LateCalls(r *Run, scen string, rig *Rig, in any) bool {
	u := c09StartUnary(rig, "late-unary", nil)
	if !c09WaitCalls([]*c09Call{u}) {
		r.Violate(scen+".late.hang", "history", "a unary call started after the read failure did not return", in, u.describe(), goroutineDump())
		return false
	}
	if u.err == nil {
		r.Violate(scen+".late.success", "history", "a unary call started after the read failure reported success", in, u.describe(), "an error")
	}
	ok := true
	var detail string
	returned := within(hangTimeout, func() {
		ctx := metadata.AppendToOutgoingContext(context.Background(), "x-tag", "late-stream", "x-prog", "burst:1")
		cs, err := rig.CC.NewStream(ctx, descBidi, mBidi)
		if err != nil {
			r.Count("c09.late.stream.openerror")
			return
		}
		_, rerr := recvB(cs)
		_, herr := cs.Header()
		r.Count("c09.late.stream.recverror")
		if rerr == nil || c09SaysEOF(rerr) {
			ok = false
			detail = fmt.Sprintf("RecvMsg=%v Header err=%v", rerr, herr)
		}
	})
	if !returned {
		r.Violate(scen+".late.hang", "history", "a stream started after the read failure did not fail (NewStream / RecvMsg / Header still blocked)", in, nil, goroutineDump())
		return false
	}
	if !ok {
		r.Violate(scen+".late.success", "history", "a stream started after the read failure did not report an error", in, detail, "an error from NewStream or RecvMsg")
	}
	return true
}

// c09Close ends a case: the failure is injected if it has not happened yet and awaited (so that no event of
// this connection can show up in the next case's log), handlers are released, the rig is closed.
func c09Close(rig *Rig, release chan struct{}) {
	select {
	case <-release:
	default:
		close(release)
	}
	rig.CEnd.FailRead(errInjectedRead)
	hooks.WaitFor(siteIs("mux.fail", 0), hangTimeout)
	rig.Close()
}

// c09Prefix runs sc with the read failure after n response envelopes (n < 0: fault-free, the failure is
// injected only when every call has returned). It returns the number of s2c envelopes written and
// whether the family should go on.
func c09Prefix(r *Run, sc c09Scenario, n int, failWrite bool, ev c09ErrVal) (int, bool) {
	scen := "prefix"
	in := map[string]any{"scenario": sc, "failAfter": n, "writeFailsToo": failWrite, "readError": ev.Name}
	r.Progress(scen, in)
	hooks.Reset(true)
	defer hooks.Reset(false)
	rig := NewRig(RigOpt{Serialise: true})
	log := NewHandlerLog()
	arrived := make(chan string, 256)
	release := make(chan struct{})
	InstallPrograms(rig.Impl, log, func(tag string) {
		select {
		case arrived <- tag:
		default:
		}
		<-release
	})
	defer c09Close(rig, release)

	// calls started at the very moment of the failure: released when the last envelope before the
	// failure is handed to the library
	atFail := make(chan struct{})
	var atFailOnce sync.Once
	fireAtFail := func() { atFailOnce.Do(func() { close(atFail) }) }
	defer fireAtFail()
	del := &c09Delivered{bodies: map[uint64]int{}, ends: map[uint64]bool{}, any: map[uint64]bool{}}
	rig.CEnd.mu.Lock()
	rig.CEnd.onRead = func(e *Rpc) {
		if k := del.add(e); k == n {
			// the n-th envelope is the last one the library gets: every later Read fails with ev.Err
			rig.CEnd.FailRead(ev.Err)
			if failWrite {
				rig.CEnd.FailWrite(errInjectedWrite)
			}
			fireAtFail()
		}
	}
	rig.CEnd.mu.Unlock()

	var calls []*c09Call
	for i := 0; i < sc.Unary; i++ {
		calls = append(calls, c09StartUnary(rig, fmt.Sprintf("%s/u%d", sc.Name, i), nil))
	}
	for j, sp := range sc.Streams {
		calls = append(calls, c09StartStream(rig, fmt.Sprintf("s%d", j), sp, nil, release))
	}
	// every call is in flight: its handler has been invoked and waits at the gate
	inflight := within(hangTimeout, func() {
		for i := 0; i < len(calls); i++ {
			<-arrived
		}
	})
	if !inflight {
		r.Violate(scen+".setup", "history", "calls on a healthy connection did not reach their handlers", in, c09Describe(calls), goroutineDump())
		return 0, false
	}
	// in a third of the cases the application has already called Close on the connection (which
	// announces the connection's end to the stats handlers; the calls in flight are still in flight)
	if closedFirst := n >= 0 && (n+sc.Unary+len(sc.Streams))%3 == 1; closedFirst {
		in["closedBeforeFailure"] = true
		rig.CC.Close()
		r.Count("c09.prefix.closed_first")
	}
	var concurrent []*c09Call
	if sc.Racers > 0 {
		concurrent = append(concurrent, c09StartUnary(rig, sc.Name+"/at-failure", atFail),
			c09StartStream(rig, "at-failure", c09StreamSpec{Method: mBidi, Prog: "burst:1"}, atFail, release))
	}
	switch {
	case n == 0:
		if failWrite {
			rig.CEnd.FailWrite(errInjectedWrite)
		}
		fireAtFail()
		rig.CEnd.FailRead(ev.Err)
	case n > 0:
		rig.CEnd.FailReadAfter(n)
	}
	close(release)
	for i := 0; i < sc.Racers; i++ {
		calls = append(calls, c09StartUnary(rig, fmt.Sprintf("%s/racer%d", sc.Name, i), nil))
	}
	if !c09WaitCalls(calls) {
		r.Violate(scen+".hang", "history", "a call in flight when the client's read side failed did not return", in, c09Describe(calls), goroutineDump())
		return 0, false
	}
	// the failure has certainly happened from here on
	fireAtFail()
	rig.CEnd.FailRead(ev.Err)
	if !c09WaitCalls(concurrent) {
		r.Violate(scen+".hang", "history", "a call started concurrently with the read failure did not return", in, c09Describe(concurrent), goroutineDump())
		return 0, false
	}
	calls = append(calls, concurrent...)
	if !hooks.WaitFor(siteIs("mux.fail", 0), hangTimeout) {
		r.Violate(scen+".nofail", "history", "the connection did not record the read failure", in, nil, goroutineDump())
		return 0, false
	}
	evs := rig.Wire.Snapshot()
	s2c := 0
	for _, e := range evs {
		if e.Dir == "s2c" {
			s2c++
		}
	}
	unaryIds, streamIds := c09Ids(evs)
	for _, c := range calls {
		c09CheckCall(r, scen, c, del, log, unaryIds, streamIds, in)
	}
	cont := c09LateCalls(r, scen, rig, in)
	del.mu.Lock()
	delivered := del.n
	del.mu.Unlock()
	r.Eval(fmt.Sprintf("prefix/%s/%d/%v/%s", sc.Name, n, failWrite, ev.Name), true)
	r.Count("c09.prefix.cases")
	r.Count("c09.readerror." + ev.Name)
	r.CountN("c09.prefix.delivered", delivered)
	r.CountN("c09.prefix.calls", len(calls)+2)
	if n == 1 && !failWrite {
		r.Sample(map[string]any{"scenario": sc.Name, "failAfter": n, "calls": c09Describe(calls)})
	}
	return s2c, cont
}

// c09Forced is the late_register schedule.
func c09Forced(r *Run, kind string, others int, rep int) bool {
	scen := "forced.late_register"
	ev := c09ErrVals[rep%len(c09ErrVals)]
	in := map[string]any{"late": kind, "othersInFlight": others, "rep": rep, "readError": ev.Name,
		"schedule": "hold the new caller at mux.beforeRegister until mux.fail is logged; fail the read side meanwhile; write side stays writable"}
	r.Progress(scen, in)
	hooks.Reset(true)
	defer hooks.Reset(false)
	rig := NewRig(RigOpt{Serialise: true})
	log := NewHandlerLog()
	arrived := make(chan string, 64)
	release := make(chan struct{})
	InstallPrograms(rig.Impl, log, func(tag string) {
		select {
		case arrived <- tag:
		default:
		}
		<-release
	})
	defer c09Close(rig, release)

	goAhead := make(chan struct{})
	close(goAhead)
	var inflight []*c09Call
	for i := 0; i < others; i++ {
		if i%2 == 0 {
			inflight = append(inflight, c09StartUnary(rig, fmt.Sprintf("other%d", i), nil))
		} else {
			// the caller half-closes and waits in RecvMsg while its handler is held at the gate
			inflight = append(inflight, c09StartStream(rig, fmt.Sprintf("o%d", i), c09StreamSpec{Method: mBidi, Prog: "burst:1"}, nil, goAhead))
		}
	}
	if !within(hangTimeout, func() {
		for range inflight {
			<-arrived
		}
	}) {
		r.Violate(scen+".setup", "schedule", "calls on a healthy connection did not reach their handlers", in, c09Describe(inflight), goroutineDump())
		return false
	}
	var armed atomic.Bool
	held := make(chan uint64, 1)
	sawFail := make(chan bool, 1)
	hooks.OnYield("mux.beforeRegister", func(id uint64) {
		if !armed.CompareAndSwap(true, false) {
			return
		}
		held <- id
		sawFail <- hooks.WaitFor(siteIs("mux.fail", 0), hangTimeout)
	})
	armed.Store(true)
	var late *c09Call
	if kind == "unary" {
		late = c09StartUnary(rig, "late-in-window", nil)
	} else {
		late = c09StartStream(rig, "late-in-window", c09StreamSpec{Method: mBidi, Prog: "burst:1"}, nil, goAhead)
	}
	var heldID uint64
	select {
	case heldID = <-held:
	case <-time.After(hangTimeout):
		r.Violate(scen+".setup", "schedule", "the new caller never reached the yield point mux.beforeRegister", in, late.describe(), goroutineDump())
		return false
	}
	rig.CEnd.FailRead(ev.Err)
	select {
	case ok := <-sawFail:
		if !ok {
			r.Violate(scen+".nofail", "schedule", "the connection did not record the read failure", in, nil, goroutineDump())
			return false
		}
	case <-time.After(2 * hangTimeout):
		return false
	}
	if !c09WaitCalls([]*c09Call{late}) {
		r.Violate(scen+".hang", "schedule", "a call that registered just after the read failure was recorded hangs although the write side still works", in,
			map[string]any{"call": late.describe(), "events": c09EventStrings()}, goroutineDump())
		return false
	}
	good := true
	if kind == "unary" {
		if late.err == nil {
			good = false
		}
	} else if late.openErr == nil && (late.terminal == nil || c09SaysEOF(late.terminal)) {
		good = false
	}
	if !good {
		r.Violate(scen+".success", "schedule", "a call that registered after the read failure reported success", in, late.describe(), "an error")
	}
	if !c09WaitCalls(inflight) {
		r.Violate(scen+".others.hang", "schedule", "a call in flight when the read side failed did not return", in, c09Describe(inflight), goroutineDump())
		return false
	}
	for _, c := range inflight {
		if (c.Kind == "unary" && c.err == nil) || (c.Kind == "stream" && c.openErr == nil && c09SaysEOF(c.terminal)) {
			r.Violate(scen+".others.fabricated", "schedule", "a call whose handler had not answered reported success after the read failure", in, c.describe(), "an error")
		}
	}
	// did the registration really come after the failure (the window the schedule is about)?
	failSeq, regSeq := -1, -1
	for _, e := range hooks.Events() {
		if e.Site == "mux.fail" && failSeq < 0 {
			failSeq = e.Seq
		}
		if e.Site == "mux.register" && e.ID == heldID {
			regSeq = e.Seq
		}
	}
	if failSeq >= 0 && regSeq > failSeq {
		r.Count("c09.forced.registered-after-failure")
	}
	r.Eval(fmt.Sprintf("forced/%s/%d", kind, others), true)
	r.Count("c09.forced." + kind)
	r.Trace()
	return true
}

func c09EventStrings() []string {
	evs := hooks.Events()
	if len(evs) > 60 {
		evs = evs[len(evs)-60:]
	}
	out := make([]string, len(evs))
	for i, e := range evs {
		out[i] = e.String()
	}
	return out
}

func c09Scenarios(r *Run) []c09Scenario {
	scs := []c09Scenario{
		{Name: "u1", Unary: 1},
		{Name: "u3", Unary: 3, Racers: 1},
		{Name: "bidi-burst", Streams: []c09StreamSpec{{Method: mBidi, Prog: "burst:2", NSend: 1}}},
		{Name: "srv-burst", Streams: []c09StreamSpec{{Method: mSrvStream, Prog: "burst:3"}}},
		{Name: "cli-aftereof", Streams: []c09StreamSpec{{Method: mCliStream, Prog: "aftereof:1", NSend: 2}}},
		{Name: "u2-echo", Unary: 2, Streams: []c09StreamSpec{{Method: mBidi, Prog: "echo", NSend: 2, Ping: true}}},
		{Name: "u2-srv-cli", Unary: 2, Racers: 2, Streams: []c09StreamSpec{{Method: mSrvStream, Prog: "burst:2"}, {Method: mCliStream, Prog: "aftereof:1", NSend: 1}}},
		{Name: "u4-mixed", Unary: 4, Racers: 1, Streams: []c09StreamSpec{{Method: mBidi, Prog: "burst:3", NSend: 0}, {Method: mBidi, Prog: "echo", NSend: 2}, {Method: mSrvStream, Prog: "burst:1"}}},
	}
	if !r.Thorough() {
		return scs
	}
	rng := r.Rand("c09.scenarios")
	methods := []string{mBidi, mSrvStream, mCliStream}
	for i := 0; i < 40; i++ {
		sc := c09Scenario{Name: fmt.Sprintf("rnd%d", i), Unary: rng.Intn(7), Racers: rng.Intn(3)}
		for j, ns := 0, rng.Intn(4); j < ns; j++ {
			m := methods[rng.Intn(3)]
			sp := c09StreamSpec{Method: m, NSend: rng.Intn(4)}
			switch {
			case m == mCliStream:
				sp.Prog = fmt.Sprintf("aftereof:%d", rng.Intn(3))
			case rng.Intn(2) == 0:
				sp.Prog = "echo"
				sp.Ping = rng.Intn(2) == 0
			default:
				sp.Prog = fmt.Sprintf("burst:%d", rng.Intn(5))
			}
			sc.Streams = append(sc.Streams, sp)
		}
		if sc.Unary == 0 && len(sc.Streams) == 0 {
			sc.Unary = 1
		}
		scs = append(scs, sc)
	}
	return scs
}

func runC09(r *Run) {
	if r.Want("forced") {
		reps := r.Scale(8, 64)
	forced:
		for rep := 0; rep < reps; rep++ {
			for _, kind := range []string{"unary", "stream"} {
				for _, others := range []int{0, 3} {
					if !c09Forced(r, kind, others, rep) || r.NumViolations() > 4 {
						break forced
					}
				}
			}
		}
	}
	if r.Want("prefix") {
		before := r.NumViolations()
	prefix:
		for _, sc := range c09Scenarios(r) {
			l, cont := c09Prefix(r, sc, -1, false, c09ErrVals[0])
			if !cont || r.NumViolations() > before+4 {
				break
			}
			r.CountN("c09.prefix.positions", 2*(l+1))
			for n := 0; n <= l; n++ {
				for _, fw := range []bool{false, true} {
					for _, ev := range c09ErrVals {
						if _, cont := c09Prefix(r, sc, n, fw, ev); !cont || r.NumViolations() > before+4 {
							break prefix
						}
					}
				}
			}
		}
	}
}
