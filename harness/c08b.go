package main

import (
	"context"
	"fmt"
	"io"
	"sync"
	"time"

	goat "github.com/avos-io/goat"
	"google.golang.org/grpc"
	"google.golang.org/grpc/stats"
)

// c08SlowStats: the time a call spends in the CLIENT's own stats callbacks before its request is sent is
// not transit time. With a stats handler that takes 150 ms in Begin, the handler's deadline may exceed
// the caller's by the transit of the request (measured from the moment the request envelope is handed
// to the transport) plus scheduling slack — not by those 150 ms.
type c08Slow struct{ d time.Duration }

func (h c08Slow) TagRPC(ctx context.Context, _ *stats.RPCTagInfo) context.Context { return ctx }
func (h c08Slow) HandleRPC(_ context.Context, s stats.RPCStats) {
	if _, ok := s.(*stats.Begin); ok {
		time.Sleep(h.d)
	}
}
func (h c08Slow) TagConn(ctx context.Context, _ *stats.ConnTagInfo) context.Context { return ctx }
func (h c08Slow) HandleConn(context.Context, stats.ConnStats)                       {}

type c08Stamp struct {
	*End
	mu    sync.Mutex
	first map[uint64]time.Time
}

func (t *c08Stamp) Write(ctx context.Context, r *Rpc) error {
	t.mu.Lock()
	if _, ok := t.first[r.Id]; !ok {
		t.first[r.Id] = time.Now()
	}
	t.mu.Unlock()
	return t.End.Write(ctx, r)
}

func c08SlowStats(r *Run) {
	if !r.Want("slowstats") {
		return
	}
	const delay, slack = 150 * time.Millisecond, 75 * time.Millisecond
	ce, se := NewPipe(64, true, nil)
	impl := &Impl{}
	type obs struct {
		dl    time.Time
		has   bool
		tSeen time.Time
	}
	seen := make(chan obs, 4)
	impl.SetUnary(func(ctx context.Context, req []byte) ([]byte, error) {
		dl, has := ctx.Deadline()
		seen <- obs{dl, has, time.Now()}
		return req, nil
	})
	impl.SetStream(func(m string, ss grpc.ServerStream) error {
		dl, has := ss.Context().Deadline()
		seen <- obs{dl, has, time.Now()}
		return nil
	})
	srv := goat.NewServer("srv")
	srv.RegisterService(&echoDesc, impl)
	served := make(chan error, 1)
	go func() { served <- srv.Serve(context.Background(), se) }()
	st := &c08Stamp{End: ce, first: map[uint64]time.Time{}}
	cc := goat.NewClientConn(st, "cli", "srv", goat.WithStatsHandler(c08Slow{delay}))
	for i, rem := range []time.Duration{5 * time.Second, 2 * time.Minute, 5 * time.Second, 30 * time.Hour} {
		stream := i%2 == 1
		in := map[string]any{"remaining": rem.String(), "stream": stream, "client_stats_begin_takes": delay.String()}
		r.Progress("slowstats", in)
		D := time.Now().Add(rem)
		ctx, cancel := context.WithDeadline(context.Background(), D)
		if stream {
			if cs, err := cc.NewStream(ctx, descBidi, mBidi); err == nil {
				cs.CloseSend()
				recvB(cs)
			}
		} else {
			callUnary(ctx, cc, []byte("x"))
		}
		cancel()
		select {
		case o := <-seen:
			st.mu.Lock()
			var tWrite time.Time
			for id, t := range st.first {
				if tWrite.IsZero() || t.After(tWrite) {
					tWrite = t
				}
				_ = id
			}
			st.first = map[uint64]time.Time{}
			st.mu.Unlock()
			transit := o.tSeen.Sub(tWrite)
			switch {
			case !o.has:
				r.Violate("slowstats.lost", "ops", "caller's deadline did not reach the handler", in, nil, nil)
			case o.dl.Before(D.Add(-time.Millisecond)):
				r.Violate("slowstats.early", "ops", "handler deadline earlier than the caller's minus 1ms", in, o.dl.Sub(D).String(), nil)
			case o.dl.After(D.Add(transit + slack)):
				r.Violate("slowstats.late", "ops", "handler deadline later than the caller's plus the transit time of the request: the time spent in the client's stats callbacks before the request was sent was added to it", in,
					fmt.Sprintf("handler deadline - caller deadline = %v", o.dl.Sub(D)), fmt.Sprintf("at most transit %v + %v scheduling slack", transit, slack))
			}
		case <-time.After(hangTimeout):
			r.Violate("slowstats.lost", "ops", "the call did not reach its handler", in, nil, nil)
		}
		r.Eval(fmt.Sprintf("slowstats/%d", i), true)
		r.Count("slowstats.calls")
	}
	srv.Stop()
	ce.FailRead(io.ErrClosedPipe)
	se.FailRead(io.ErrClosedPipe)
	cc.Close()
	within(hangTimeout, func() { <-served })
}

// c08ExpiresMidSend: the caller's deadline expires between the moment the call is set up and the moment
// its request is written (a client stats handler takes 25 ms in OutPayload, the caller's timeout is
// 5 ms), over the library's own channel transport, whose Write chooses at random between a done context
// and a ready channel — so about every other request still reaches the server. Whenever one does, the
// handler has a deadline (an expired one is conveyed as one millisecond), never none.
type c08SlowPayload struct{ d time.Duration }

func (h c08SlowPayload) TagRPC(ctx context.Context, _ *stats.RPCTagInfo) context.Context { return ctx }
func (h c08SlowPayload) HandleRPC(_ context.Context, s stats.RPCStats) {
	switch s.(type) {
	case *stats.OutPayload, *stats.OutHeader:
		time.Sleep(h.d)
	}
}
func (h c08SlowPayload) TagConn(ctx context.Context, _ *stats.ConnTagInfo) context.Context {
	return ctx
}
func (h c08SlowPayload) HandleConn(context.Context, stats.ConnStats) {}

func c08ExpiresMidSend(r *Run) {
	if !r.Want("midsend") {
		return
	}
	c2s, s2c := make(chan *Rpc, 64), make(chan *Rpc, 64)
	cliRW := goat.NewGoatOverChannel(s2c, c2s)
	srvRW := goat.NewGoatOverChannel(c2s, s2c)
	impl := &Impl{}
	type obs struct {
		has bool
		dl  time.Time
	}
	seen := make(chan obs, 64)
	impl.SetUnary(func(ctx context.Context, req []byte) ([]byte, error) {
		dl, has := ctx.Deadline()
		seen <- obs{has, dl}
		return req, nil
	})
	impl.SetStream(func(m string, ss grpc.ServerStream) error { return nil })
	srv := goat.NewServer("srv")
	srv.RegisterService(&echoDesc, impl)
	ctx, cancelAll := context.WithCancel(context.Background())
	served := make(chan error, 1)
	go func() { served <- srv.Serve(ctx, srvRW) }()
	cc := goat.NewClientConn(cliRW, "cli", "srv", goat.WithStatsHandler(c08SlowPayload{25 * time.Millisecond}))
	reached := 0
	attempts := r.Scale(24, 200)
	for i := 0; i < attempts && r.NumViolations() == 0; i++ {
		in := map[string]any{"attempt": i, "caller_timeout": "5ms", "client_stats_takes": "25ms before the request is written"}
		r.Progress("midsend", in)
		cctx, cancel := context.WithTimeout(context.Background(), 5*time.Millisecond)
		callUnary(cctx, cc, []byte("x"))
		cancel()
		select {
		case o := <-seen:
			reached++
			if !o.has {
				r.Violate("midsend.lost", "ops", "the caller had a deadline (it expired while the request was being sent) but the handler's context has none", in, "no deadline", "a deadline (one millisecond when expired)")
			}
		case <-time.After(20 * time.Millisecond):
		}
		r.Eval(fmt.Sprintf("midsend/%d", i), true)
	}
	r.CountN("midsend.requests_that_reached_the_handler", reached)
	srv.Stop()
	cancelAll()
	cc.Close()
	within(hangTimeout, func() { <-served })
}
